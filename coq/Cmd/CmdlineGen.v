(* The theorems of Cmd/CmdlineProofs.v instantiated with the option table
   regenerated from hy/cmdline.py (Gen/CmdTables.v).  Every fact about the
   table is re-established by computation on each run, so an edit of `defs`
   that matters breaks one of the obligations below. *)
From Coq Require Import String Ascii.
From HyV Require Import Base.Text Gen.CmdTables Cmd.CmdlineModel Cmd.CmdlineProofs.

Fixpoint nodupb (l : list text) : bool :=
  match l with
  | [] => true
  | x :: r => negb (existsb (text_eqb x) r) && nodupb r
  end.

Lemma nodupb_NoDup l : nodupb l = true -> NoDup l.
Proof.
  induction l as [|x r IH]; intros H; [constructor|].
  cbn [nodupb] in H. apply andb_true_iff in H. destruct H as [H1 H2]. constructor; [|apply IH; exact H2].
  intros Hin. apply (existsb_text_In x r) in Hin. rewrite Hin in H1. discriminate.
Qed.

(* ---- obligations on the generated table ---- *)
Lemma g_names_distinct : NoDup (flat_map od_names gdefs).
Proof. apply nodupb_NoDup. vm_compute. reflexivity. Qed.

Lemma g_no_ddash_option : matches gdefs ddash = [].
Proof. vm_compute. reflexivity. Qed.

Definition minus_m : text := [45; 109].

(* -c and -m take a value, store it under "command" / "mod", and terminate the option list *)
Lemma g_minus_c : exists d, is_valued gdefs minus_c d k_command /\ od_term d = true.
Proof. eexists. split; [split|]; vm_compute; reflexivity. Qed.
Lemma g_minus_m : exists d, is_valued gdefs minus_m d k_mod /\ od_term d = true.
Proof. eexists. split; [split|]; vm_compute; reflexivity. Qed.

(* no other option can set "command" or "mod" *)
Lemma g_command_only_by_terminating : only_terminating_sets gdefs k_command = true.
Proof. vm_compute. reflexivity. Qed.
Lemma g_mod_only_by_terminating : only_terminating_sets gdefs k_mod = true.
Proof. vm_compute. reflexivity. Qed.

(* every terminating option takes a value (so what follows it is never parsed) *)
Lemma g_terminating_have_dest :
  forallb (fun d => negb (od_term d) || match od_dest d with Some _ => true | None => false end) gdefs = true.
Proof. vm_compute. reflexivity. Qed.

(* the keys the handler consults are the keys the model consults, every one of
   them can be set by some option, and no option sets a key nobody reads *)
Definition subset (a b : list text) : bool := forallb (fun k => existsb (text_eqb k) b) a.
Lemma g_keys_agree :
  subset cmd_keys_used model_keys && subset model_keys cmd_keys_used
  && subset cmd_keys_used (map key_of gdefs) && subset (map key_of gdefs) cmd_keys_used = true.
Proof. vm_compute. reflexivity. Qed.

(* ---- the handler after the loop ---- *)
Definition clean (o : options) : Prop := ohas k_help o = false /\ ohas k_version o = false.

Lemma finish_eval isatty program orig o code args : clean o ->
  finish isatty program orig (oset k_command (VStr code) o) args
  = ORun (flags_of o) (AEval code) (minus_c :: args) (repl_of o (AEval code)).
Proof.
  intros [Hh Hv]. unfold finish, flags_of, repl_of, action_of.
  rewrite !(ohas_oset_other k_command) by reflexivity. rewrite Hh, Hv.
  rewrite oget_oset_same. cbn [val_text]. rewrite ?(oget_oset_other k_command) by reflexivity.
  rewrite ?(ohas_oset_other k_command) by reflexivity. reflexivity.
Qed.

Lemma finish_module isatty program orig o m args : clean o -> oget k_command o = None ->
  finish isatty program orig (oset k_mod (VStr m) o) args
  = if ohas k_i o then OModuleRepl (flags_of o) else ORun (flags_of o) (AModule m) (program :: args) None.
Proof.
  intros [Hh Hv] Hc. unfold finish, flags_of, repl_of, action_of.
  rewrite !(ohas_oset_other k_mod) by reflexivity. rewrite Hh, Hv.
  rewrite (oget_oset_other k_mod k_command) by reflexivity. rewrite Hc, oget_oset_same. cbn [val_text].
  rewrite ?(ohas_oset_other k_mod) by reflexivity. rewrite ?(oget_oset_other k_mod) by reflexivity. rewrite orb_false_r.
  destruct (ohas k_i o); reflexivity.
Qed.

Lemma finish_file isatty program orig o file args : clean o -> oget k_command o = None -> oget k_mod o = None ->
  file <> dash ->
  finish isatty program orig o (file :: args) = ORun (flags_of o) (AFile file) (file :: args) (repl_of o (AFile file)).
Proof.
  intros [Hh Hv] Hc Hm Hf. unfold finish, action_of. rewrite Hh, Hv, Hc, Hm, (text_eqb_neq _ _ Hf). reflexivity.
Qed.

Lemma finish_stdin isatty program orig o args : clean o -> oget k_command o = None -> oget k_mod o = None ->
  finish isatty program orig o (dash :: args) = ORun (flags_of o) AStdin (dash :: args) (repl_of o AStdin).
Proof. intros [Hh Hv] Hc Hm. unfold finish, action_of. rewrite Hh, Hv, Hc, Hm. reflexivity. Qed.

Lemma consumed_no_command pre o : consumes gdefs [] pre o -> oget k_command o = None /\ oget k_mod o = None.
Proof.
  intros H. split.
  - rewrite (consumes_keeps gdefs k_command _ _ _ g_command_only_by_terminating H). reflexivity.
  - rewrite (consumes_keeps gdefs k_mod _ _ _ g_mod_only_by_terminating H). reflexivity.
Qed.

Section Modes.
Variables (isatty : bool) (program : text).
(* any sequence of recognised non-terminating options, then a bundle of flag letters *)
Variables (pre : list text) (o : options) (fl : text).
Hypothesis Hpre : consumes gdefs [] pre o.
Hypothesis Hfl : flag_letters gdefs fl.
Let o1 := apply_flags gdefs fl o.
Hypothesis Hclean : clean o1.

Lemma o1_no_command : oget k_command o1 = None /\ oget k_mod o1 = None.
Proof.
  destruct (consumed_no_command _ _ Hpre) as [Hc Hm]. unfold o1. split.
  - rewrite (apply_flags_keeps gdefs k_command _ _ g_command_only_by_terminating Hfl). exact Hc.
  - rewrite (apply_flags_keeps gdefs k_mod _ _ g_mod_only_by_terminating Hfl). exact Hm.
Qed.

(* hy [opts] -[flags]c CODE ARGS *)
Theorem mode_c_separate code args :
  handler isatty program (pre ++ (45 :: fl ++ [99]) :: code :: args)
  = ORun (flags_of o1) (AEval code) (minus_c :: args) (repl_of o1 (AEval code)).
Proof.
  unfold handler, handler_with. rewrite (loop_prefix gdefs g_no_ddash_option _ _ _ Hpre).
  destruct g_minus_c as (d & Hv & Ht).
  rewrite (loop_bundle_term_sep gdefs g_no_ddash_option o fl 99 d k_command code args Hfl Hv Ht).
  apply finish_eval. exact Hclean.
Qed.

(* hy [opts] -[flags]cCODE ARGS   and   -[flags]c=CODE *)
Theorem mode_c_attached c cs args :
  handler isatty program (pre ++ (45 :: fl ++ 99 :: c :: cs) :: args)
  = ORun (flags_of o1) (AEval (strip_eq (c :: cs))) (minus_c :: args) (repl_of o1 (AEval (strip_eq (c :: cs)))).
Proof.
  unfold handler, handler_with. rewrite (loop_prefix gdefs g_no_ddash_option _ _ _ Hpre).
  destruct g_minus_c as (d & Hv & Ht).
  rewrite (loop_bundle_term_attached gdefs g_no_ddash_option o fl 99 d k_command c cs args Hfl Hv Ht).
  apply finish_eval. exact Hclean.
Qed.

(* hy [opts] -[flags]m MODULE ARGS *)
Theorem mode_m_separate m args :
  handler isatty program (pre ++ (45 :: fl ++ [109]) :: m :: args)
  = if ohas k_i o1 then OModuleRepl (flags_of o1) else ORun (flags_of o1) (AModule m) (program :: args) None.
Proof.
  unfold handler, handler_with. rewrite (loop_prefix gdefs g_no_ddash_option _ _ _ Hpre).
  destruct g_minus_m as (d & Hv & Ht).
  rewrite (loop_bundle_term_sep gdefs g_no_ddash_option o fl 109 d k_mod m args Hfl Hv Ht).
  apply finish_module; [exact Hclean | apply o1_no_command].
Qed.

Theorem mode_m_attached c cs args :
  handler isatty program (pre ++ (45 :: fl ++ 109 :: c :: cs) :: args)
  = if ohas k_i o1 then OModuleRepl (flags_of o1)
    else ORun (flags_of o1) (AModule (strip_eq (c :: cs))) (program :: args) None.
Proof.
  unfold handler, handler_with. rewrite (loop_prefix gdefs g_no_ddash_option _ _ _ Hpre).
  destruct g_minus_m as (d & Hv & Ht).
  rewrite (loop_bundle_term_attached gdefs g_no_ddash_option o fl 109 d k_mod c cs args Hfl Hv Ht).
  apply finish_module; [exact Hclean | apply o1_no_command].
Qed.
End Modes.

Section ModesNoBundle.
Variables (isatty : bool) (program : text) (pre : list text) (o : options).
Hypothesis Hpre : consumes gdefs [] pre o.
Hypothesis Hclean : clean o.

(* hy [opts] FILE ARGS : FILE is anything that does not look like an option *)
Theorem mode_file file args : not_option file -> file <> dash ->
  handler isatty program (pre ++ file :: args)
  = ORun (flags_of o) (AFile file) (file :: args) (repl_of o (AFile file)).
Proof.
  intros Hn Hd. unfold handler, handler_with. rewrite (loop_prefix gdefs g_no_ddash_option _ _ _ Hpre).
  rewrite (loop_arg gdefs _ _ _ Hn). destruct (consumed_no_command _ _ Hpre) as [Hc Hm].
  apply finish_file; assumption.
Qed.

(* hy [opts] -- FILE ARGS : after "--" even an option-like FILE is the script *)
Theorem mode_file_after_ddash file args : file <> dash ->
  handler isatty program (pre ++ ddash :: file :: args)
  = ORun (flags_of o) (AFile file) (file :: args) (repl_of o (AFile file)).
Proof.
  intros Hd. unfold handler, handler_with. rewrite (loop_prefix gdefs g_no_ddash_option _ _ _ Hpre).
  rewrite loop_ddash. destruct (consumed_no_command _ _ Hpre) as [Hc Hm]. apply finish_file; assumption.
Qed.

(* hy [opts] - ARGS *)
Theorem mode_stdin args :
  handler isatty program (pre ++ dash :: args) = ORun (flags_of o) AStdin (dash :: args) (repl_of o AStdin).
Proof.
  unfold handler, handler_with. rewrite (loop_prefix gdefs g_no_ddash_option _ _ _ Hpre).
  rewrite (loop_arg gdefs _ _ _ (or_intror eq_refl)). destruct (consumed_no_command _ _ Hpre) as [Hc Hm].
  apply finish_stdin; assumption.
Qed.
End ModesNoBundle.

(* ---- for every argument vector whatsoever ---- *)

(* the program's sys.argv is a suffix of the command line, possibly behind
   "-c" or the program name: nothing behind the point where option processing
   stopped is consumed, reordered or rewritten *)
Theorem sysargv_is_suffix isatty program argv f a sa r :
  handler isatty program argv = ORun f a sa r -> a <> ARepl ->
  exists front rest, argv = front ++ rest /\ (sa = rest \/ sa = minus_c :: rest \/ sa = program :: rest).
Proof.
  unfold handler, handler_with. destruct (loop gdefs [] argv) as [e | o rest] eqn:L.
  - destruct e; discriminate.
  - destruct (loop_suffix gdefs _ _ _ _ L) as [front ->]. unfold finish.
    destruct (ohas k_help o); [discriminate|]. destruct (ohas k_version o); [discriminate|].
    intros H Ha. exists front, rest. split; [reflexivity|].
    destruct (action_of isatty o rest) eqn:A.
    + inversion H; subst. right. left. reflexivity.
    + destruct (repl_of o (AModule m)); [discriminate|]. inversion H; subst. right. right. reflexivity.
    + inversion H; subst. left. reflexivity.
    + inversion H; subst. left. reflexivity.
    + inversion H; subst. contradiction.
Qed.

(* the handler never dies in `[match] = matches` *)
Theorem handler_never_unpack_error isatty program argv opt : handler isatty program argv <> OUnpack opt.
Proof.
  unfold handler, handler_with. destruct (loop gdefs [] argv) as [e | o rest] eqn:L.
  - destruct e; try discriminate. exfalso. exact (loop_not_ambiguous gdefs g_names_distinct _ _ _ L).
  - unfold finish. destruct (ohas k_help o); [discriminate|]. destruct (ohas k_version o); [discriminate|].
    destruct (action_of isatty o rest); try discriminate. destruct (repl_of o (AModule m)); discriminate.
Qed.

(* ---- the hypotheses are inhabited: hy -B --spy --repl-output-fn repr -iE -uc CODE a -x ---- *)
Definition ex_pre : list text :=
  [txt "-B"; txt "--spy"; txt "--repl-output-fn"; txt "repr"; txt "--unbuffered=1"; txt "-iE"].
Definition ex_opts : options :=
  [(k_B, VTrue); (k_spy, VTrue); (k_repl_output_fn, VStr (txt "repr")); (k_unbuffered, VTrue); (k_i, VTrue); (k_E, VTrue)].

Lemma flag_letter_intro c d : matches gdefs [45; c] = [d] -> od_dest d = None -> od_term d = false ->
  exists d, is_flag gdefs [45; c] d.
Proof. intros. exists d. repeat split; assumption. Qed.

Ltac flag_letter := eapply flag_letter_intro; vm_compute; reflexivity.
Ltac is_flag_tac := repeat split; vm_compute; reflexivity.

Example ex_flag_letters : flag_letters gdefs (txt "BEiu").
Proof. repeat (constructor; [flag_letter|]). constructor. Qed.

Example ex_consumes : consumes gdefs [] ex_pre ex_opts.
Proof.
  unfold ex_pre.
  change (txt "-B") with (45 :: 66 :: []). eapply C_bundle. { constructor; [flag_letter | constructor]. }
  change (txt "--spy") with (txt "--spy" ++ []). eapply C_long_flag.
  { exists 115, (txt "py"). split; reflexivity. } { is_flag_tac. } { left. reflexivity. }
  change (txt "--repl-output-fn") with (txt "--repl-output-fn" ++ []). eapply C_long_sep.
  { exists 114, (txt "epl-output-fn"). split; reflexivity. } { split; vm_compute; reflexivity. } { reflexivity. }
  { left. reflexivity. }
  change (txt "--unbuffered=1") with (txt "--unbuffered" ++ ch_eq :: txt "1"). eapply C_long_flag.
  { exists 117, (txt "nbuffered"). split; reflexivity. } { is_flag_tac. } { right. eexists. reflexivity. }
  change (txt "-iE") with (45 :: 105 :: [69]). eapply C_bundle. { repeat (constructor; [flag_letter|]). constructor. }
  vm_compute. constructor.
Qed.

Example ex_clean : clean (apply_flags gdefs (txt "u") ex_opts).
Proof. split; vm_compute; reflexivity. Qed.

Example ex_run :
  handler false (txt "hy") (ex_pre ++ [txt "-uc"; txt "CODE"; txt "a"; txt "-x"])
  = ORun {| f_E := true; f_B := true; f_u := true |} (AEval (txt "CODE")) [txt "-c"; txt "a"; txt "-x"]
         (Some (true, Some (txt "repr"))).
Proof. vm_compute. reflexivity. Qed.

(* ---- the four modes side by side, over an abstract executor ---- *)
Section Agree.
Variable behaviour : Type.
Variable exec : action -> list text -> behaviour.
Variable beh : text -> list text -> behaviour.
Variables (in_file : text -> text -> Prop) (in_module : text -> text -> Prop) (on_stdin : text -> Prop).

Definition ran_ (x : outcome) : option behaviour :=
  match x with ORun _ a sa None => Some (exec a sa) | _ => None end.

Lemma clean_nil : clean [].
Proof. split; reflexivity. Qed.

Lemma modes_agree :
  (forall code args,
    exec (AEval code) (minus_c :: args) = beh code args
    /\ (forall file, in_file file code -> exec (AFile file) (file :: args) = beh code args)
    /\ (on_stdin code -> exec AStdin (dash :: args) = beh code args)
    /\ (forall m program, in_module m code -> exec (AModule m) (program :: args) = beh code args)) ->
  forall isatty program code args file m,
    not_option file -> file <> dash -> in_file file code -> in_module m code -> on_stdin code ->
    ran_ (handler isatty program (minus_c :: code :: args)) = Some (beh code args)
    /\ ran_ (handler isatty program (file :: args)) = Some (beh code args)
    /\ ran_ (handler isatty program (dash :: args)) = Some (beh code args)
    /\ ran_ (handler isatty program (minus_m :: m :: args)) = Some (beh code args).
Proof.
  intros H isatty program code args file m Hn Hd Hf Hm Hs.
  destruct (H code args) as (E1 & E2 & E3 & E4).
  pose proof (mode_c_separate isatty program [] [] [] (C_nil gdefs []) (Forall_nil _) clean_nil code args) as R1.
  pose proof (mode_file isatty program [] [] (C_nil gdefs []) clean_nil file args Hn Hd) as R2.
  pose proof (mode_stdin isatty program [] [] (C_nil gdefs []) clean_nil args) as R3.
  pose proof (mode_m_separate isatty program [] [] [] (C_nil gdefs []) (Forall_nil _) clean_nil m args) as R4.
  cbv zeta in R1, R4. cbn [app apply_flags] in R1, R2, R3, R4.
  change (45 :: [99]) with minus_c in R1. change (45 :: [109]) with minus_m in R4.
  unfold text in *. split; [|split; [|split]].
  - rewrite R1. cbn. rewrite E1. reflexivity.
  - rewrite R2. cbn. rewrite (E2 _ Hf). reflexivity.
  - rewrite R3. cbn. rewrite (E3 Hs). reflexivity.
  - rewrite R4. cbn. rewrite (E4 _ _ Hm). reflexivity.
Qed.
End Agree.
