(* Proofs for Cmd/StagingModel.v (C16). *)
From HyV Require Import Base.Text Cmd.StagingModel.

(* induction over forms with the nested lists *)
Section FormInd.
Variable P : form -> Prop.
Hypothesis HLog : forall k, P (FLog k).
Hypothesis HConst : forall v, P (FConst v).
Hypothesis HDo : forall l, Forall P l -> P (FDo l).
Hypothesis HEAC : forall l, Forall P l -> P (FEvalAndCompile l).
Hypothesis HEWC : forall l, Forall P l -> P (FEvalWhenCompile l).
Hypothesis HDoMac : forall l r, Forall P l -> P r -> P (FDoMac l r).
Hypothesis HFn : forall n l, Forall P l -> P (FFn n l).

Fixpoint form_ind' (f : form) : P f :=
  let all := (fix go (l : list form) : Forall P l :=
                match l with [] => Forall_nil P | x :: r => Forall_cons x (form_ind' x) (go r) end) in
  match f with
  | FLog k => HLog k
  | FConst v => HConst v
  | FDo l => HDo l (all l)
  | FEvalAndCompile l => HEAC l (all l)
  | FEvalWhenCompile l => HEWC l (all l)
  | FDoMac l r => HDoMac l r (all l) (form_ind' r)
  | FFn n l => HFn n l (all l)
  end.
End FormInd.

(* ---- unfolding lemmas: the local fixes are the named functions ---- *)
Lemma run_CSeq l : run (CSeq l) = run_seq l VNone.
Proof. reflexivity. Qed.
Lemma run_CFn n b : run (CFn n b) = (rep_trace n (fst (run b)), VNone).
Proof.
  cbn [run]. destruct (run b) as [t v]. cbn [fst]. f_equal.
  induction n as [|n IH]; [reflexivity|]. cbn [rep_trace]. rewrite <- IH. reflexivity.
Qed.

Lemma compile_FDo l : compile (FDo l) = let '(t, cs) := compile_body l in (t, CSeq cs).
Proof. reflexivity. Qed.
Lemma compile_FEAC l : compile (FEvalAndCompile l) =
  let '(t1, cs1) := compile_body l in let '(t2, _) := run (CSeq cs1) in let '(t3, cs3) := compile_body l in
  (t1 ++ t2 ++ t3, CSeq cs3).
Proof. reflexivity. Qed.
Lemma compile_FEWC l : compile (FEvalWhenCompile l) =
  let '(t1, cs1) := compile_body l in let '(t2, _) := run (CSeq cs1) in (t1 ++ t2, CConst VNone).
Proof. reflexivity. Qed.
Lemma compile_FDoMac l r : compile (FDoMac l r) =
  let '(t1, cs1) := compile_body l in let '(t2, _) := run (CSeq cs1) in let '(t3, c3) := compile r in
  (t1 ++ t2 ++ t3, c3).
Proof. reflexivity. Qed.
Lemma compile_FFn n l : compile (FFn n l) = let '(t, cs) := compile_body l in (t, CFn n (CSeq cs)).
Proof. reflexivity. Qed.

Lemma spec_rt_FDo l : spec_rt (FDo l) = spec_rt_body l VNone.
Proof. reflexivity. Qed.
Lemma spec_rt_FEAC l : spec_rt (FEvalAndCompile l) = spec_rt_body l VNone.
Proof. reflexivity. Qed.
Lemma spec_rt_FFn n l : spec_rt (FFn n l) = (rep_trace n (fst (spec_rt_body l VNone)), VNone).
Proof. reflexivity. Qed.
Lemma spec_ct_FDo l : spec_ct (FDo l) = spec_ct_body l.
Proof. reflexivity. Qed.
Lemma spec_ct_FEAC l : spec_ct (FEvalAndCompile l) = spec_ct_body l ++ fst (spec_rt_body l VNone).
Proof. reflexivity. Qed.
Lemma spec_ct_FEWC l : spec_ct (FEvalWhenCompile l) = spec_ct_body l ++ fst (spec_rt_body l VNone).
Proof. reflexivity. Qed.
Lemma spec_ct_FDoMac l r : spec_ct (FDoMac l r) = spec_ct_body l ++ fst (spec_rt_body l VNone) ++ spec_ct r.
Proof. reflexivity. Qed.
Lemma spec_ct_FFn n l : spec_ct (FFn n l) = spec_ct_body l.
Proof. reflexivity. Qed.
Lemma has_staging_FDo l : has_staging (FDo l) = has_staging_body l.
Proof. reflexivity. Qed.
Lemma has_staging_FFn n l : has_staging (FFn n l) = has_staging_body l.
Proof. reflexivity. Qed.
Lemma eac_clean_FDo l : eac_clean (FDo l) = eac_clean_body l.
Proof. reflexivity. Qed.
Lemma eac_clean_FFn n l : eac_clean (FFn n l) = eac_clean_body l.
Proof. reflexivity. Qed.
Lemma eac_clean_FEWC l : eac_clean (FEvalWhenCompile l) = eac_clean_body l.
Proof. reflexivity. Qed.
Lemma eac_clean_FDoMac l r : eac_clean (FDoMac l r) = eac_clean_body l && eac_clean r.
Proof. reflexivity. Qed.

(* ---- run time: for EVERY program (any nesting) the residual code does what the
   property prescribes: eval-and-compile = do, eval-when-compile = nothing/None,
   do-mac = its result, once per execution of the position ---- *)
Lemma run_body_spec l : Forall (fun f => run (snd (compile f)) = spec_rt f) l ->
  forall last, run_seq (snd (compile_body l)) last = spec_rt_body l last.
Proof.
  induction 1 as [|x r Hx _ IH]; intros last; [reflexivity|].
  cbn [compile_body spec_rt_body]. destruct (compile x) as [t1 c1] eqn:E1. destruct (compile_body r) as [t2 c2] eqn:E2.
  cbn [snd run_seq]. cbn [snd] in Hx, IH. rewrite Hx. destruct (spec_rt x) as [s1 v1]. rewrite IH. reflexivity.
Qed.

Theorem run_compile_spec : forall f, run (snd (compile f)) = spec_rt f.
Proof.
  induction f using form_ind'.
  - reflexivity.
  - reflexivity.
  - rewrite compile_FDo, spec_rt_FDo. pose proof (run_body_spec l H VNone) as R.
    destruct (compile_body l) as [t cs]. cbn [snd] in *. rewrite run_CSeq. exact R.
  - rewrite compile_FEAC, spec_rt_FEAC. pose proof (run_body_spec l H VNone) as R.
    destruct (compile_body l) as [t cs]. destruct (run (CSeq cs)) as [t2 v2] eqn:E. cbn [snd] in *.
    rewrite run_CSeq. exact R.
  - rewrite compile_FEWC. destruct (compile_body l) as [t cs]. destruct (run (CSeq cs)) as [t2 v2]. reflexivity.
  - rewrite compile_FDoMac. destruct (compile_body l) as [t cs]. destruct (run (CSeq cs)) as [t2 v2].
    destruct (compile f) as [t3 c3] eqn:E3. cbn [snd] in *. exact IHf.
  - rewrite compile_FFn, spec_rt_FFn. pose proof (run_body_spec l H VNone) as R.
    destruct (compile_body l) as [t cs]. cbn [snd] in *. rewrite run_CFn, run_CSeq, R. reflexivity.
Qed.

Corollary run_module_spec prog : run (snd (compile_module prog)) = spec_rt_body prog VNone.
Proof.
  unfold compile_module. pose proof (run_body_spec prog) as R.
  assert (HF : Forall (fun f => run (snd (compile f)) = spec_rt f) prog).
  { apply Forall_forall. intros f _. apply run_compile_spec. }
  specialize (R HF VNone). destruct (compile_body prog) as [t cs]. cbn [snd] in *. rewrite run_CSeq. exact R.
Qed.

(* ---- compile time ---- *)
(* code without staging forms has no compile-time effect *)
Lemma no_staging_no_ct : forall f, has_staging f = false -> fst (compile f) = [] /\ spec_ct f = [].
Proof.
  induction f using form_ind'; intros Hs; try discriminate; try (split; reflexivity).
  - rewrite has_staging_FDo in Hs. rewrite compile_FDo, spec_ct_FDo.
    assert (Hb : fst (compile_body l) = [] /\ spec_ct_body l = []).
    { clear - H Hs. induction H as [|x r Hx _ IH]; [split; reflexivity|].
      cbn [has_staging_body] in Hs. apply orb_false_iff in Hs. destruct Hs as [H1 H2].
      destruct (Hx H1) as [A B]. destruct (IH H2) as [C D]. cbn [compile_body spec_ct_body].
      destruct (compile x) as [t1 c1]. destruct (compile_body r) as [t2 c2]. cbn [fst] in *. subst. rewrite B, D. split; reflexivity. }
    destruct (compile_body l) as [t cs]. cbn [fst] in *. exact Hb.
  - rewrite has_staging_FFn in Hs. rewrite compile_FFn, spec_ct_FFn.
    assert (Hb : fst (compile_body l) = [] /\ spec_ct_body l = []).
    { clear - H Hs. induction H as [|x r Hx _ IH]; [split; reflexivity|].
      cbn [has_staging_body] in Hs. apply orb_false_iff in Hs. destruct Hs as [H1 H2].
      destruct (Hx H1) as [A B]. destruct (IH H2) as [C D]. cbn [compile_body spec_ct_body].
      destruct (compile x) as [t1 c1]. destruct (compile_body r) as [t2 c2]. cbn [fst] in *. subst. rewrite B, D. split; reflexivity. }
    destruct (compile_body l) as [t cs]. cbn [fst] in *. exact Hb.
Qed.

Lemma no_staging_body_no_ct l : has_staging_body l = false -> fst (compile_body l) = [] /\ spec_ct_body l = [].
Proof.
  induction l as [|x r IH]; intros Hs; [split; reflexivity|].
  cbn [has_staging_body] in Hs. apply orb_false_iff in Hs. destruct Hs as [H1 H2].
  destruct (no_staging_no_ct x H1) as [A B]. destruct (IH H2) as [C D]. cbn [compile_body spec_ct_body].
  destruct (compile x) as [t1 c1]. destruct (compile_body r) as [t2 c2]. cbn [fst] in *. subst. rewrite B, D. split; reflexivity.
Qed.

Lemma run_body_fst l : fst (run (CSeq (snd (compile_body l)))) = fst (spec_rt_body l VNone).
Proof.
  rewrite run_CSeq. rewrite run_body_spec; [reflexivity|]. apply Forall_forall. intros f _. apply run_compile_spec.
Qed.

Lemma ct_body_spec l : Forall (fun f => eac_clean f = true -> fst (compile f) = spec_ct f) l ->
  eac_clean_body l = true -> fst (compile_body l) = spec_ct_body l.
Proof.
  induction 1 as [|x r Hx _ IH]; intros Hc; [reflexivity|].
  cbn [eac_clean_body] in Hc. apply andb_true_iff in Hc. destruct Hc as [H1 H2].
  cbn [compile_body spec_ct_body]. specialize (Hx H1). specialize (IH H2).
  destruct (compile x) as [t1 c1]. destruct (compile_body r) as [t2 c2]. cbn [fst] in *. subst. reflexivity.
Qed.

(* for every program in which no staging form sits inside an eval-and-compile body
   (any other nesting: in do, in function bodies, inside eval-when-compile and
   do-mac bodies and results, to any depth): the compile-time trace is, in source
   order, each staging body compiled once and run once *)
Theorem compile_time_spec : forall f, eac_clean f = true -> fst (compile f) = spec_ct f.
Proof.
  induction f using form_ind'; intros Hc.
  - reflexivity.
  - reflexivity.
  - rewrite eac_clean_FDo in Hc. rewrite compile_FDo, spec_ct_FDo. pose proof (ct_body_spec l H Hc) as R.
    destruct (compile_body l) as [t cs]. exact R.
  - cbn [eac_clean] in Hc. apply negb_true_iff in Hc. destruct (no_staging_body_no_ct l Hc) as [A B].
    rewrite compile_FEAC, spec_ct_FEAC, B. pose proof (run_body_fst l) as R.
    destruct (compile_body l) as [t cs]. cbn [fst snd] in *. destruct (run (CSeq cs)) as [t2 v2]. cbn [fst] in *.
    subst. rewrite app_nil_r. reflexivity.
  - rewrite eac_clean_FEWC in Hc. rewrite compile_FEWC, spec_ct_FEWC. pose proof (ct_body_spec l H Hc) as R.
    pose proof (run_body_fst l) as R2.
    destruct (compile_body l) as [t cs]. cbn [fst snd] in *. destruct (run (CSeq cs)) as [t2 v2]. cbn [fst] in *.
    subst. reflexivity.
  - rewrite eac_clean_FDoMac in Hc. apply andb_true_iff in Hc. destruct Hc as [H1 H2].
    rewrite compile_FDoMac, spec_ct_FDoMac. pose proof (ct_body_spec l H H1) as R. pose proof (run_body_fst l) as R2.
    specialize (IHf H2).
    destruct (compile_body l) as [t cs]. cbn [fst snd] in *. destruct (run (CSeq cs)) as [t2 v2]. cbn [fst] in *.
    destruct (compile f) as [t3 c3]. cbn [fst] in *. subst. reflexivity.
  - rewrite eac_clean_FFn in Hc. rewrite compile_FFn, spec_ct_FFn. pose proof (ct_body_spec l H Hc) as R.
    destruct (compile_body l) as [t cs]. exact R.
Qed.

Corollary compile_module_spec prog : eac_clean_body prog = true ->
  fst (compile_module prog) = spec_ct_body prog.
Proof.
  intros Hc. unfold compile_module. pose proof (ct_body_spec prog) as R.
  assert (HF : Forall (fun f => eac_clean f = true -> fst (compile f) = spec_ct f) prog).
  { apply Forall_forall. intros f _. apply compile_time_spec. }
  specialize (R HF Hc). destruct (compile_body prog) as [t cs]. exact R.
Qed.

(* ---- histories ---- *)
Theorem cached_run_is_runtime_only prog :
  effects_of_load prog ImportCached = fst (spec_rt_body prog VNone)
  /\ effects_of_load prog ImportFresh = fst (compile_module prog) ++ effects_of_load prog ImportCached.
Proof.
  unfold effects_of_load. pose proof (run_module_spec prog) as R.
  destruct (compile_module prog) as [ct c]. cbn [fst snd] in *. rewrite R. split; reflexivity.
Qed.

(* ---- the unrestricted compile-time claim is false for the faithful model ---- *)
Definition nested_witness : list form := [FEvalAndCompile [FEvalWhenCompile [FLog 1]; FLog 2]].

Theorem compile_time_once_refuted :
  fst (compile_module nested_witness) = [1; 2; 1] /\ spec_ct_body nested_witness = [1; 2].
Proof. split; vm_compute; reflexivity. Qed.

Theorem compile_time_full_refuted : exists prog, fst (compile_module prog) <> spec_ct_body prog.
Proof.
  exists nested_witness. destruct compile_time_once_refuted as [A B]. rewrite A, B. discriminate.
Qed.

(* a program meeting the hypothesis of compile_time_spec with every kind of nesting it allows *)
Definition clean_example : list form :=
  [ FFn 2 [FEvalAndCompile [FLog 1; FLog 2]; FEvalWhenCompile [FLog 3]];
    FEvalWhenCompile [FEvalAndCompile [FLog 4]; FDoMac [FLog 5] (FLog 6)];
    FDoMac [FLog 7] (FDo [FEvalAndCompile [FLog 8]; FLog 9]) ].
Example clean_example_ok : eac_clean_body clean_example = true
  /\ fst (compile_module clean_example) = [1; 2; 3; 4; 5; 4; 6; 7; 8]
  /\ run (snd (compile_module clean_example)) = ([1; 2; 1; 2; 8; 9], VNum 9).
Proof. repeat split; vm_compute; reflexivity. Qed.
