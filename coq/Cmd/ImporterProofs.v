(* Proofs for Cmd/ImporterModel.v (C15). *)
From Coq Require Import String Ascii.
From HyV Require Import Base.Text Gen.CmdSuffixes Gen.CmdRequire Cmd.CmdlineModel Cmd.CmdlineProofs Cmd.ImporterModel.

(* ================= (1) Hy source or not ================= *)

Lemma in_texts_In s l : in_texts s l = true <-> In s l.
Proof. apply existsb_text_In. Qed.

Theorem could_be_hy_iff_generic f : could_be_hy f = true <-> ~ In (ext_of f) other_suffixes.
Proof.
  unfold could_be_hy. rewrite negb_true_iff. split.
  - intros H Hin. apply in_texts_In in Hin. congruence.
  - intros H. destruct (in_texts (ext_of f) other_suffixes) eqn:E; [|reflexivity].
    apply in_texts_In in E. contradiction.
Qed.

(* on the generated constants: removing what _could_be_hy_src subtracts from the patched
   SOURCE_SUFFIXES leaves exactly the interpreter's own suffixes *)
Lemma g_other_suffixes : other_suffixes = py_source_suffixes.
Proof. vm_compute. reflexivity. Qed.

Lemma g_hy_not_python_suffix : in_texts hy_suffix_inserted py_source_suffixes = false.
Proof. vm_compute. reflexivity. Qed.

Theorem could_be_hy_iff f : could_be_hy f = true <-> ~ In (ext_of f) py_source_suffixes.
Proof. rewrite <- g_other_suffixes. apply could_be_hy_iff_generic. Qed.

(* ---- posixpath.splitext on dir/stem.ext ---- *)
Lemma basename_aux_nosep b cur : mem os_sep b = false -> basename_aux b cur = rev cur ++ b.
Proof.
  revert cur. induction b as [|c r IH]; intros cur H; cbn [basename_aux].
  - rewrite app_nil_r. reflexivity.
  - cbn [mem existsb] in H. fold (mem os_sep r) in H. apply orb_false_iff in H. destruct H as [H1 H2].
    rewrite N.eqb_sym, H1, (IH _ H2). cbn [rev]. rewrite <- app_assoc. reflexivity.
Qed.

Lemma basename_aux_after_sep p b cur : mem os_sep b = false -> basename_aux (p ++ os_sep :: b) cur = b.
Proof.
  intros H. revert cur. induction p as [|c r IH]; intros cur; cbn [app basename_aux].
  - rewrite N.eqb_refl. rewrite (basename_aux_nosep _ _ H). reflexivity.
  - destruct (N.eqb c os_sep); apply IH.
Qed.

Lemma basename_dir d b : mem os_sep b = false -> basename (d ++ os_sep :: b) = b.
Proof. apply basename_aux_after_sep. Qed.

Lemma basename_plain b : mem os_sep b = false -> basename b = b.
Proof. intros H. unfold basename. rewrite (basename_aux_nosep _ _ H). reflexivity. Qed.

Lemma last_dot_suffix_none s : mem os_extsep s = false -> last_dot_suffix s = None.
Proof.
  induction s as [|c r IH]; intros H; [reflexivity|].
  cbn [mem existsb] in H. fold (mem os_extsep r) in H. apply orb_false_iff in H. destruct H as [H1 H2].
  cbn [last_dot_suffix]. rewrite (IH H2), N.eqb_sym, H1. reflexivity.
Qed.

Lemma last_dot_suffix_app s e : mem os_extsep e = false -> last_dot_suffix (s ++ os_extsep :: e) = Some (os_extsep :: e).
Proof.
  intros H. induction s as [|c r IH]; cbn [app last_dot_suffix].
  - rewrite (last_dot_suffix_none _ H), N.eqb_refl. reflexivity.
  - rewrite IH. reflexivity.
Qed.

(* a last component c :: stem ++ "." ++ e, c not a dot, e without dots *)
Lemma ext_of_component c stem e : N.eqb c os_extsep = false -> mem os_extsep e = false ->
  mem os_sep (c :: stem ++ os_extsep :: e) = false ->
  forall dir, (dir = [] \/ exists d, dir = d ++ [os_sep]) ->
  ext_of (dir ++ c :: stem ++ os_extsep :: e) = os_extsep :: e.
Proof.
  intros Hc He Hs dir Hdir. unfold ext_of.
  assert (Hb : basename (dir ++ c :: stem ++ os_extsep :: e) = c :: stem ++ os_extsep :: e).
  { destruct Hdir as [-> | [d ->]]; [apply basename_plain; exact Hs|].
    rewrite <- app_assoc. cbn [app]. apply basename_dir. exact Hs. }
  rewrite Hb. cbn [dropwhile]. rewrite N.eqb_sym, Hc. rewrite (last_dot_suffix_app _ _ He). reflexivity.
Qed.

(* a last component without any dot has no extension *)
Lemma ext_of_no_dot b : mem os_sep b = false -> mem os_extsep b = false ->
  forall dir, (dir = [] \/ exists d, dir = d ++ [os_sep]) -> ext_of (dir ++ b) = [].
Proof.
  intros Hs Hd dir Hdir. unfold ext_of.
  assert (Hb : basename (dir ++ b) = b).
  { destruct Hdir as [-> | [d ->]]; [apply basename_plain; exact Hs|].
    rewrite <- app_assoc. cbn [app]. apply basename_dir. exact Hs. }
  rewrite Hb. destruct b as [|c r]; [reflexivity|].
  cbn [mem existsb] in Hd. fold (mem os_extsep r) in Hd. apply orb_false_iff in Hd. destruct Hd as [H1 H2].
  cbn [dropwhile]. rewrite H1. rewrite (last_dot_suffix_none _ H2). reflexivity.
Qed.

(* ================= (2) the emitted call mirrors the compile-time call ================= *)
Section Req.
Variable mangle : text -> text.

Lemma pairs_of_map l :
  pairs_of (map (fun kv : text * text => LList [LStr (fst kv); LStr (snd kv)]) l) = Some l.
Proof. induction l as [|[k v] r IH]; [reflexivity|]. cbn [map pairs_of fst snd]. rewrite IH. reflexivity. Qed.

Theorem emitted_require_mirrors m rest this_module :
  run_time_args (emitted_call mangle m rest this_module) = Some (compile_time_args mangle m rest, this_module).
Proof.
  unfold emitted_call, compile_time_args. destruct (require_shape mangle m rest) as [prefix a] eqn:E.
  unfold run_time_args. cbn [em_positional em_keywords kwarg].
  assert (Hk1 : text_eqb (txt "target_module_name") (txt "assignments") = false) by reflexivity.
  assert (Hk2 : text_eqb (txt "target_module_name") (txt "prefix") = false) by reflexivity.
  assert (Hk3 : text_eqb (txt "assignments") (txt "prefix") = false) by reflexivity.
  rewrite Hk1, Hk2, Hk3, !text_eqb_refl.
  destruct a as [| |l]; [reflexivity | reflexivity |].
  cbn [read_assignments]. rewrite pairs_of_map. reflexivity.
Qed.

(* the star form and the name-list form keep what assignment_shape says; every prefixed form asks for ALL *)
Theorem prefixed_require_asks_for_all m rest prefix a :
  require_shape mangle m rest = (prefix, a) -> prefix <> [] -> a = AAll.
Proof.
  unfold require_shape. destruct (assignment_shape mangle m rest) as [p a0]. destruct p as [|c p'].
  - intros E; inversion E; subst. intros H; contradiction.
  - intros E _. inversion E. reflexivity.
Qed.
Theorem unprefixed_require_keeps_shape m rest a :
  require_shape mangle m rest = ([], a) -> assignment_shape mangle m rest = ([], a).
Proof.
  unfold require_shape. destruct (assignment_shape mangle m rest) as [p a0]. destruct p as [|c p'].
  - intros E; exact E.
  - intros E; inversion E.
Qed.

(* ================= (3) require ================= *)

Definition new_name (x : transfer) : text := fst (fst x).
Definition macro_of (x : transfer) : N := snd x.

(* the macro put under k by the last transfer that writes k *)
Fixpoint last_transfer (k : text) (out : list transfer) : option N :=
  match out with
  | [] => None
  | x :: r =>
    match last_transfer k r with
    | Some f => Some f
    | None => if text_eqb (new_name x) k then Some (macro_of x) else None
    end
  end.

Lemma tget_tset_same k v t : tget k (tset k v t) = Some v.
Proof.
  induction t as [|[k' v'] r IH]; cbn [tset tget].
  - rewrite text_eqb_refl. reflexivity.
  - destruct (text_eqb k' k) eqn:E; cbn [tget]; rewrite E; [reflexivity | exact IH].
Qed.

Lemma tget_tset_other k k' v t : text_eqb k k' = false -> tget k' (tset k v t) = tget k' t.
Proof.
  intros H. induction t as [|[k2 v2] r IH]; cbn [tset tget].
  - rewrite H. reflexivity.
  - destruct (text_eqb k2 k) eqn:E; cbn [tget].
    + apply text_eqb_eq in E. subst k2. rewrite H. reflexivity.
    + rewrite IH. reflexivity.
Qed.

Lemma tget_apply_transfers k out : forall t,
  tget k (apply_transfers out t) = match last_transfer k out with Some f => Some f | None => tget k t end.
Proof.
  unfold apply_transfers. induction out as [|x r IH]; intros t; [reflexivity|].
  cbn [fold_left last_transfer]. rewrite IH. destruct (last_transfer k r); [reflexivity|].
  unfold new_name, macro_of. destruct (text_eqb (fst (fst x)) k) eqn:E.
  - apply text_eqb_eq in E. subst k. apply tget_tset_same.
  - apply tget_tset_other. exact E.
Qed.

(* requiring twice is the same as requiring once *)
Theorem apply_transfers_idempotent out t k :
  tget k (apply_transfers out (apply_transfers out t)) = tget k (apply_transfers out t).
Proof. rewrite !tget_apply_transfers. destruct (last_transfer k out); reflexivity. Qed.

(* what the main loop transfers: in order, pair (name, alias) yields
   mangle(prefix. alias) -> source[mangle name]; it fails iff a name is missing *)
Lemma transfer_loop_spec src p pairs out : transfer_loop mangle src p pairs = inr out ->
  map new_name out = map (fun na => mangle (p ++ snd na)) pairs
  /\ map (fun x : transfer => snd (fst x)) out = map (fun na => mangle (fst na)) pairs
  /\ Forall (fun x : transfer => tget (snd (fst x)) src = Some (macro_of x)) out.
Proof.
  revert out. induction pairs as [|[name alias] r IH]; intros out H; cbn [transfer_loop] in H.
  - inversion H; subst. repeat split; constructor.
  - destruct (tget (mangle name) src) as [f|] eqn:E; [|discriminate].
    destruct (transfer_loop mangle src p r) as [e|out'] eqn:L; [discriminate|]. inversion H; subst.
    destruct (IH out' eq_refl) as (H1 & H2 & H3). cbn [map new_name fst snd]. rewrite H1, H2.
    repeat split. constructor; [exact E | exact H3].
Qed.

Lemma transfer_loop_fails_iff src p pairs :
  (exists e, transfer_loop mangle src p pairs = inl e) <-> exists na, In na pairs /\ tget (mangle (fst na)) src = None.
Proof.
  induction pairs as [|[name alias] r IH]; cbn [transfer_loop].
  - split; [intros [e H]; discriminate | intros [na [[] _]]].
  - destruct (tget (mangle name) src) as [f|] eqn:E.
    + destruct (transfer_loop mangle src p r) as [e|out] eqn:L.
      * split; [|intros _; exists e; reflexivity]. intros _. destruct (proj1 IH (ex_intro _ e eq_refl)) as [na [Hin Hn]].
        exists na. split; [right; exact Hin | exact Hn].
      * split; [intros [e H]; discriminate|]. intros [na [[<- | Hin] Hn]]; [cbn in Hn; congruence|].
        destruct (proj2 IH (ex_intro _ na (conj Hin Hn))) as [e H]. discriminate.
    + split; [|intros _; eexists; reflexivity]. intros _. exists (name, alias). split; [left; reflexivity | exact E].
Qed.

(* which names "EXPORTS" covers: the documented rule *)
Theorem exports_spec m k :
  In k (map fst (effective_pairs m AExports)) <->
  In k (keys (hm_macros m)) /\
  match hm_exports m with Some l => In k l | None => starts_with [95] k = false end.
Proof.
  unfold effective_pairs. rewrite map_map. cbn [fst]. rewrite map_id, filter_In, in_texts_In.
  unfold exports_of. destruct (hm_exports m) as [l|]; [reflexivity|].
  rewrite filter_In, negb_true_iff. tauto.
Qed.

Theorem all_spec m k : In k (map fst (effective_pairs m AAll)) <-> In k (keys (hm_macros m)).
Proof. unfold effective_pairs. rewrite map_map. cbn [fst]. rewrite map_id. reflexivity. Qed.

(* the target table after a successful require *)
Theorem require_spec env src t a p t' out : require mangle env src t a p = inr (t', out) ->
  forall k, tget k t' = match last_transfer k out with Some f => Some f | None => tget k t end.
Proof.
  unfold require. destruct (require_out mangle env src a p) as [e|o]; [discriminate|].
  intros H k. inversion H; subst. apply tget_apply_transfers.
Qed.

(* the transfers depend on the source modules only, never on the target *)
Theorem require_out_independent_of_target env src t1 t2 a p :
  match require mangle env src t1 a p, require mangle env src t2 a p with
  | inl e1, inl e2 => e1 = e2
  | inr (_, o1), inr (_, o2) => o1 = o2
  | _, _ => False
  end.
Proof. unfold require. destruct (require_out mangle env src a p); reflexivity. Qed.

(* ================= (4) fresh vs cached ================= *)

Definition sets_of (env : menv) (o : mop) : rerr + list transfer :=
  match o with
  | OpRequire c => require_out mangle env (ca_module c) (ca_assignments c) (ca_prefix c)
  | OpDefmacro n f => inr [(mangle n, mangle n, f)]
  end.

Lemma ct_step_sets env t o :
  ct_step mangle env t o = match sets_of env o with inl e => inl e | inr TS => inr (apply_transfers TS t) end.
Proof.
  destruct o as [c | n f]; cbn [ct_step sets_of].
  - unfold require. destruct (require_out mangle env (ca_module c) (ca_assignments c) (ca_prefix c)); reflexivity.
  - reflexivity.
Qed.

Fixpoint all_sets (env : menv) (ops : list mop) : rerr + list transfer :=
  match ops with
  | [] => inr []
  | o :: r =>
    match sets_of env o with
    | inl e => inl e
    | inr TS => match all_sets env r with inl e => inl e | inr TS' => inr (TS ++ TS') end
    end
  end.

Lemma apply_transfers_app a b t : apply_transfers (a ++ b) t = apply_transfers b (apply_transfers a t).
Proof. unfold apply_transfers. apply fold_left_app. Qed.

Lemma run_ops_sets env ops : forall t,
  run_ops (ct_step mangle env) ops t
  = match all_sets env ops with inl e => inl e | inr TS => inr (apply_transfers TS t) end.
Proof.
  induction ops as [|o r IH]; intros t; [reflexivity|].
  cbn [run_ops all_sets]. rewrite ct_step_sets. destruct (sets_of env o) as [e|TS]; [reflexivity|].
  rewrite IH. destruct (all_sets env r) as [e|TS']; [reflexivity|]. rewrite apply_transfers_app. reflexivity.
Qed.

(* dropping the entries for which nothing is emitted does not change the sets, provided compilation succeeded *)
Lemma all_sets_filter env ops TS : all_sets env ops = inr TS -> all_sets env (filter (emits mangle env) ops) = inr TS.
Proof.
  revert TS. induction ops as [|o r IH]; intros TS H; [exact H|].
  cbn [all_sets] in H. destruct (sets_of env o) as [e|S1] eqn:E1; [discriminate|].
  destruct (all_sets env r) as [e|S2] eqn:E2; [discriminate|]. inversion H; subst.
  cbn [filter]. destruct o as [c | n f].
  - cbn [emits]. cbn [sets_of] in E1. rewrite E1. destruct S1 as [|x S1].
    + cbn [app]. apply IH. reflexivity.
    + cbn [all_sets sets_of]. rewrite E1, (IH _ eq_refl). reflexivity.
  - cbn [emits all_sets]. rewrite E1, (IH _ eq_refl). reflexivity.
Qed.

Lemma tget_keys k (t : table) : In k (keys t) <-> tget k t <> None.
Proof.
  induction t as [|[k' v] r IH]; cbn [keys map tget fst].
  - split; [intros [] | intros H; contradiction].
  - destruct (text_eqb k' k) eqn:E.
    + apply text_eqb_eq in E. subst. split; [discriminate | intros _; left; reflexivity].
    + fold (keys r). rewrite <- IH. split; [intros [-> | H]; [rewrite text_eqb_refl in E; discriminate | exact H] | intros H; right; exact H].
Qed.

(* a module that compiles has, after import from source and after import from
   bytecode, macro tables with the same keys bound to the same macros *)
Theorem require_cached_eq_fresh env ops t1 : compile_pass mangle env ops [] = inr t1 ->
  exists tf tc,
    table_after mangle env ops ImportFresh = inr tf /\ table_after mangle env ops ImportCached = inr tc
    /\ (forall k, tget k tf = tget k tc) /\ (forall k, In k (keys tf) <-> In k (keys tc)).
Proof.
  intros H. unfold compile_pass in H. rewrite run_ops_sets in H.
  destruct (all_sets env ops) as [e|TS] eqn:E; [discriminate|]. inversion H; subst.
  pose proof (all_sets_filter env ops TS E) as Ef.
  exists (apply_transfers TS (apply_transfers TS [])), (apply_transfers TS []).
  assert (Heq : forall k, tget k (apply_transfers TS (apply_transfers TS [])) = tget k (apply_transfers TS [])).
  { intros k. apply apply_transfers_idempotent. }
  repeat split.
  - unfold table_after, compile_pass, run_pass. rewrite run_ops_sets, E. cbv beta iota. rewrite run_ops_sets, Ef. reflexivity.
  - unfold table_after, run_pass. rewrite run_ops_sets, Ef. reflexivity.
  - exact Heq.
  - rewrite !tget_keys, Heq. tauto.
  - rewrite !tget_keys, Heq. tauto.
Qed.

End Req.
