(* Model for C16: hy/core/result_macros.py:compile_eval_foo_compile.

   Source forms log effects (log k) -- an effect labelled k whose value is k.
   [compile] returns the compile-time trace and the residual code, following
   the handler:  value = compiler.eval(do body)   -- a nested compile of the
   body (its own compile-time effects happen now) followed by running it;
   then  do-mac -> compile(as_model(value)); eval-and-compile ->
   _compile_branch(body) (the body is compiled a second time);
   eval-when-compile -> an empty Result (value None). *)
From HyV Require Import Base.Text.

Inductive value := VNone | VNum (n : N).

Inductive form :=
| FLog (k : N)                                   (* (log k) *)
| FConst (v : value)
| FDo (body : list form)                         (* (do ...) *)
| FEvalAndCompile (body : list form)
| FEvalWhenCompile (body : list form)
| FDoMac (body : list form) (result : form)      (* (do-mac body... 'result): the value is the quoted form [result] *)
| FFn (calls : nat) (body : list form).          (* (defn f [] body...) then (f) [calls] times; value None *)

Inductive code :=
| CLog (k : N)
| CConst (v : value)
| CSeq (l : list code)                           (* statements; value of the last, None when empty *)
| CFn (calls : nat) (body : code).

Definition trace := list N.

(* ---- running compiled code: trace and value ---- *)
Fixpoint run (c : code) : trace * value :=
  match c with
  | CLog k => ([k], VNum k)
  | CConst v => ([], v)
  | CSeq l =>
    (fix go (l : list code) (last : value) : trace * value :=
       match l with
       | [] => ([], last)
       | x :: r => let '(t1, v1) := run x in let '(t2, v2) := go r v1 in (t1 ++ t2, v2)
       end) l VNone
  | CFn calls body =>
    let '(t, _) := run body in
    ((fix rep (n : nat) : trace := match n with O => [] | S m => t ++ rep m end) calls, VNone)
  end.

Fixpoint run_seq (l : list code) (last : value) : trace * value :=
  match l with
  | [] => ([], last)
  | x :: r => let '(t1, v1) := run x in let '(t2, v2) := run_seq r v1 in (t1 ++ t2, v2)
  end.
Fixpoint rep_trace (n : nat) (t : trace) : trace := match n with O => [] | S m => t ++ rep_trace m t end.

(* ---- compiling: compile-time trace and residual code ---- *)
Fixpoint compile (f : form) : trace * code :=
  let compile_body :=
    (fix cb (l : list form) : trace * list code :=
       match l with
       | [] => ([], [])
       | x :: r => let '(t1, c1) := compile x in let '(t2, c2) := cb r in (t1 ++ t2, c1 :: c2)
       end) in
  match f with
  | FLog k => ([], CLog k)
  | FConst v => ([], CConst v)
  | FDo body => let '(t, cs) := compile_body body in (t, CSeq cs)
  | FEvalAndCompile body =>
    let '(t1, cs1) := compile_body body in          (* compiler.eval: nested compile ... *)
    let '(t2, _) := run (CSeq cs1) in                (* ... and run, now *)
    let '(t3, cs3) := compile_body body in           (* _compile_branch(body) *)
    (t1 ++ t2 ++ t3, CSeq cs3)
  | FEvalWhenCompile body =>
    let '(t1, cs1) := compile_body body in
    let '(t2, _) := run (CSeq cs1) in
    (t1 ++ t2, CConst VNone)
  | FDoMac body result =>
    let '(t1, cs1) := compile_body body in
    let '(t2, _) := run (CSeq cs1) in                (* the quote itself has no effect *)
    let '(t3, c3) := compile result in               (* compile(as_model(value)) *)
    (t1 ++ t2 ++ t3, c3)
  | FFn calls body => let '(t, cs) := compile_body body in (t, CFn calls (CSeq cs))
  end.

Fixpoint compile_body (l : list form) : trace * list code :=
  match l with
  | [] => ([], [])
  | x :: r => let '(t1, c1) := compile x in let '(t2, c2) := compile_body r in (t1 ++ t2, c1 :: c2)
  end.

(* a module: its top-level forms *)
Definition compile_module (prog : list form) : trace * code :=
  let '(t, cs) := compile_body prog in (t, CSeq cs).

(* load histories (C15): from source = compile, then run; from bytecode = run only *)
Inductive load := ImportFresh | ImportCached.
Definition effects_of_load (prog : list form) (l : load) : trace :=
  let '(ct, c) := compile_module prog in
  match l with
  | ImportFresh => ct ++ fst (run c)
  | ImportCached => fst (run c)
  end.

(* ---- what the property prescribes ---- *)
(* run-time trace and value of a form: eval-and-compile behaves like do,
   eval-when-compile contributes nothing and is None, do-mac is its result *)
Fixpoint spec_rt (f : form) : trace * value :=
  let body :=
    (fix go (l : list form) (last : value) : trace * value :=
       match l with
       | [] => ([], last)
       | x :: r => let '(t1, v1) := spec_rt x in let '(t2, v2) := go r v1 in (t1 ++ t2, v2)
       end) in
  match f with
  | FLog k => ([k], VNum k)
  | FConst v => ([], v)
  | FDo l => body l VNone
  | FEvalAndCompile l => body l VNone
  | FEvalWhenCompile _ => ([], VNone)
  | FDoMac _ result => spec_rt result
  | FFn calls l => (rep_trace calls (fst (body l VNone)), VNone)
  end.
Fixpoint spec_rt_body (l : list form) (last : value) : trace * value :=
  match l with
  | [] => ([], last)
  | x :: r => let '(t1, v1) := spec_rt x in let '(t2, v2) := spec_rt_body r v1 in (t1 ++ t2, v2)
  end.

(* compile-time trace: each staging body is compiled once and run once, in
   source order; code outside staging forms has no compile-time effect *)
Fixpoint spec_ct (f : form) : trace :=
  let body := (fix go (l : list form) : trace := match l with [] => [] | x :: r => spec_ct x ++ go r end) in
  match f with
  | FLog _ | FConst _ => []
  | FDo l => body l
  | FEvalAndCompile l => body l ++ fst (spec_rt (FDo l))
  | FEvalWhenCompile l => body l ++ fst (spec_rt (FDo l))
  | FDoMac l result => body l ++ fst (spec_rt (FDo l)) ++ spec_ct result
  | FFn _ l => body l
  end.
Fixpoint spec_ct_body (l : list form) : trace := match l with [] => [] | x :: r => spec_ct x ++ spec_ct_body r end.

(* does a form contain a staging form? *)
Fixpoint has_staging (f : form) : bool :=
  let any := (fix go (l : list form) : bool := match l with [] => false | x :: r => has_staging x || go r end) in
  match f with
  | FLog _ | FConst _ => false
  | FDo l => any l
  | FFn _ l => any l
  | FEvalAndCompile _ | FEvalWhenCompile _ | FDoMac _ _ => true
  end.
Fixpoint has_staging_body (l : list form) : bool := match l with [] => false | x :: r => has_staging x || has_staging_body r end.

(* no staging form inside the body of an eval-and-compile (anywhere) *)
Fixpoint eac_clean (f : form) : bool :=
  let all := (fix go (l : list form) : bool := match l with [] => true | x :: r => eac_clean x && go r end) in
  match f with
  | FLog _ | FConst _ => true
  | FDo l => all l
  | FFn _ l => all l
  | FEvalAndCompile l => negb (has_staging_body l)
  | FEvalWhenCompile l => all l
  | FDoMac l result => all l && eac_clean result
  end.
Fixpoint eac_clean_body (l : list form) : bool := match l with [] => true | x :: r => eac_clean x && eac_clean_body r end.

(* flat rendering for the correspondence run *)
Definition enc_value (v : value) : list N := match v with VNone => [0] | VNum n => [1; n] end.
Definition enc_trace (t : trace) : list N := N.of_nat (length t) :: t.
Definition render_module (prog : list form) : list N :=
  let '(ct, c) := compile_module prog in
  let '(rt, v) := run c in
  enc_trace ct ++ enc_trace rt ++ enc_value v
  ++ enc_trace (spec_ct_body prog) ++ enc_trace (fst (spec_rt_body prog VNone)) ++ enc_value (snd (spec_rt_body prog VNone))
  ++ [if eac_clean_body prog then 1 else 0].
