(* Model of hy/cmdline.py:cmdline_handler -- the hand-written option loop
   (proc_opt, the `while argv` loop) and the dispatch that follows it, up to
   the calls that hand control to the program (run_command, runpy.run_module,
   runhy.run_path, REPL).  The option table, the error formats and the list
   of consulted keys come from Gen/CmdTables.v (regenerated from the source
   on every run).  Text = list of code points. *)
From Coq Require Import String Ascii.
From HyV Require Import Base.Text Gen.CmdTables.

Definition txt (s : string) : text := map (fun a => N.of_nat (nat_of_ascii a)) (list_ascii_of_string s).

Definition ch_eq : N := 61.       (* = *)
Definition dash : text := [45].     (* "-" *)
Definition ddash : text := [45; 45]. (* "--" *)

(* ---- the option table ---- *)
Record optdef := { od_names : list text; od_dest : option text; od_term : bool; od_action : option text }.
Definition mkdef (x : list text * option text * bool * option text) : optdef :=
  let '(n, d, t, a) := x in {| od_names := n; od_dest := d; od_term := t; od_action := a |}.
Definition gdefs : list optdef := map mkdef cmd_defs.

(* ---- the `options` dict ---- *)
Inductive oval := VTrue | VStr (s : text).
Definition options := list (text * oval).

Fixpoint oset (k : text) (v : oval) (o : options) : options :=
  match o with
  | [] => [(k, v)]
  | (k', v') :: r => if text_eqb k' k then (k', v) :: r else (k', v') :: oset k v r
  end.
Fixpoint oget (k : text) (o : options) : option oval :=
  match o with
  | [] => None
  | (k', v') :: r => if text_eqb k' k then Some v' else oget k r
  end.
Definition ohas (k : text) (o : options) : bool := match oget k o with Some _ => true | None => false end.

(* str.lstrip("-") *)
Definition lstrip_dash (s : text) : text := dropwhile (N.eqb 45) s.

(* str.partition("=") : (before, after); after = "" when there is no "=" *)
Fixpoint partition_eq (s : text) : text * text :=
  match s with
  | [] => ([], [])
  | c :: r => if N.eqb c ch_eq then ([], r) else let '(a, b) := partition_eq r in (c :: a, b)
  end.

Inductive perr := EUnrecognized (opt : text) | EExpected (opt : text) | EAmbiguous (opt : text).
(* what proc_opt returns: "terminate" | True | False *)
Inductive ret3 := RTerm | RTrue | RFalse.
(* PNeed: proc_opt reached `arg = argv.pop(0)` / the "expected one argument" error:
   the caller supplies the next element of argv *)
Inductive pres :=
| PErr (e : perr)
| PDone (o : options) (r : ret3)
| PNeed (o : options) (dest : text) (term : bool) (opt : text).

Section Loop.
Variable defs : list optdef.

(* matches = [o for o in defs if opt in o["name"]] *)
Definition matches (opt : text) : list optdef :=
  filter (fun d => existsb (text_eqb opt) (od_names d)) defs.

Definition ret_of (d : optdef) : ret3 :=
  if od_term d then RTerm else match od_dest d with Some _ => RTrue | None => RFalse end.

(* options[match["name"][-1].lstrip("-")] *)
Definition flag_key (d : optdef) : text := lstrip_dash (last (od_names d) []).

(* proc_opt(opt, arg, item, i).  [arg] is the `arg` parameter with "" for both
   None and the empty string (the code only tests its truth value);
   [attached] is None when i is None and Some item[i+1:] otherwise. *)
Definition proc_opt (opt : text) (arg : text) (attached : option text) (o : options) : pres :=
  match matches opt with
  | [] => PErr (EUnrecognized opt)
  | [d] =>
    match od_dest d with
    | Some dest =>
      match arg with
      | _ :: _ => PDone (oset dest (VStr arg) o) (ret_of d)
      | [] =>
        match attached with
        | Some (c :: cs) => PDone (oset dest (VStr (if N.eqb c ch_eq then cs else c :: cs)) o) (ret_of d)
        | _ => PNeed o dest (od_term d) opt
        end
      end
    | None => PDone (oset (flag_key d) VTrue o) (ret_of d)
    end
  | _ => PErr (EAmbiguous opt)     (* `[match] = matches` fails to unpack *)
  end.

(* for i in range(1, len(item)): x = proc_opt("-" + item[i], item=item, i=i); if x: break
   -- [cs] is item[i:] *)
Fixpoint sloop (cs : text) (o : options) : pres :=
  match cs with
  | [] => PDone o RFalse
  | c :: r =>
    match proc_opt [45; c] [] (Some r) o with
    | PDone o' RFalse => sloop r o'
    | x => x
    end
  end.

Inductive kind := KEnd | KLong | KShort | KArg.
Definition classify (item : text) : kind :=
  if text_eqb item ddash then KEnd
  else if starts_with ddash item then KLong
  else if starts_with dash item && negb (text_eqb item dash) then KShort
  else KArg.

Definition step (item : text) (o : options) : pres :=
  match classify item with
  | KLong => let '(opt, arg) := partition_eq item in proc_opt opt arg None o
  | _ => sloop (tl item) o
  end.

Inductive lres := LErr (e : perr) | LParsed (o : options) (rest : list text).

(* the `while argv:` loop; result = final options and what is left of argv *)
Fixpoint loop (o : options) (argv : list text) : lres :=
  match argv with
  | [] => LParsed o []
  | item :: rest =>
    match classify item with
    | KEnd => LParsed o rest
    | KArg => LParsed o (item :: rest)
    | _ =>
      match step item o with
      | PErr e => LErr e
      | PDone o' RTerm => LParsed o' rest
      | PDone o' _ => loop o' rest
      | PNeed o' dest term opt =>
        match rest with
        | [] => LErr (EExpected opt)
        | a :: rest' =>
          if term then LParsed (oset dest (VStr a) o') rest' else loop (oset dest (VStr a) o') rest'
        end
      end
    end
  end.
End Loop.

(* ---- after the loop ---- *)
Definition k_E := txt "E".
Definition k_B := txt "B".
Definition k_unbuffered := txt "unbuffered".
Definition k_help := txt "help".
Definition k_version := txt "version".
Definition k_command := txt "command".
Definition k_mod := txt "mod".
Definition k_i := txt "i".
Definition k_spy := txt "spy".
Definition k_repl_output_fn := txt "repl_output_fn".
Definition model_keys : list text :=
  [k_E; k_B; k_unbuffered; k_help; k_version; k_command; k_mod; k_i; k_spy; k_repl_output_fn].

Inductive action := AEval (code : text) | AModule (m : text) | AStdin | AFile (f : text) | ARepl.
Record envflags := { f_E : bool; f_B : bool; f_u : bool }.
(* REPL(spy = options.get("spy"), output_fn = options.get("repl_output_fn")) *)
Definition replcfg := (bool * option text)%type.

Inductive outcome :=
| OArgError (msg : text)                 (* HyArgError(msg): hy_main prints it, exit 1 *)
| OUnpack (opt : text)                   (* ValueError out of `[match] = matches` *)
| OHelp (f : envflags)
| OVersion (f : envflags)
| OModuleRepl (f : envflags)             (* `if repl: raise ValueError()` under -m *)
| ORun (f : envflags) (a : action) (sysargv : list text) (repl : option replcfg).

Definition val_text (v : oval) : text := match v with VStr s => s | VTrue => [] end.

Definition flags_of (o : options) : envflags :=
  {| f_E := ohas k_E o; f_B := ohas k_B o; f_u := ohas k_unbuffered o |}.

Definition action_of (isatty : bool) (o : options) (argv : list text) : action :=
  match oget k_command o with
  | Some v => AEval (val_text v)
  | None =>
    match oget k_mod o with
    | Some v => AModule (val_text v)
    | None =>
      match argv with
      | x :: _ => if text_eqb x dash then AStdin else AFile x
      | [] => if isatty then ARepl else AStdin
      end
    end
  end.

Definition repl_of (o : options) (a : action) : option replcfg :=
  if ohas k_i o || match a with ARepl => true | _ => false end
  then Some (ohas k_spy o, match oget k_repl_output_fn o with Some v => Some (val_text v) | None => None end)
  else None.

Definition minus_c : text := [45; 99].

(* [orig] is sys.argv on entry (hy_main passes sys.argv itself) *)
Definition finish (isatty : bool) (program : text) (orig : list text) (o : options) (argv : list text) : outcome :=
  let f := flags_of o in
  if ohas k_help o then OHelp f
  else if ohas k_version o then OVersion f
  else
    let a := action_of isatty o argv in
    let r := repl_of o a in
    match a with
    | AEval _ => ORun f a (minus_c :: argv) r
    | AModule _ => match r with Some _ => OModuleRepl f | None => ORun f a (program :: argv) None end
    | AStdin | AFile _ => ORun f a argv r
    | ARepl => ORun f a orig r
    end.

Definition err_msg (e : perr) : outcome :=
  match e with
  | EUnrecognized opt => OArgError (cmd_err_prefix ++ fst cmd_err_unrecognized ++ opt ++ snd cmd_err_unrecognized)
  | EExpected opt => OArgError (cmd_err_prefix ++ fst cmd_err_expected_arg ++ opt ++ snd cmd_err_expected_arg)
  | EAmbiguous opt => OUnpack opt
  end.

(* cmdline_handler(program :: argv) with sys.stdin.isatty() = isatty *)
Definition handler_with (defs : list optdef) (isatty : bool) (program : text) (argv : list text) : outcome :=
  match loop defs [] argv with
  | LErr e => err_msg e
  | LParsed o rest => finish isatty program (program :: argv) o rest
  end.
Definition handler := handler_with gdefs.

(* ---- flat rendering for the correspondence run: every text is its code
   points + 1 followed by 0; structure is given by leading tags ---- *)
Definition enc (t : text) : list N := map N.succ t ++ [0].
Definition enc_list (l : list text) : list N := N.of_nat (length l) :: flat_map enc l.
Definition enc_bool (b : bool) : N := if b then 1 else 0.
Definition enc_flags (f : envflags) : list N := [enc_bool (f_E f); enc_bool (f_B f); enc_bool (f_u f)].
Definition enc_action (a : action) : list N :=
  match a with
  | AEval c => 1 :: enc c
  | AModule m => 2 :: enc m
  | AStdin => [3]
  | AFile f => 4 :: enc f
  | ARepl => [5]
  end.
Definition enc_repl (r : option replcfg) : list N :=
  match r with
  | None => [0]
  | Some (spy, None) => [1; enc_bool spy; 0]
  | Some (spy, Some f) => 1 :: enc_bool spy :: 1 :: enc f
  end.
Definition render (x : outcome) : list N :=
  match x with
  | OArgError m => 1 :: enc m
  | OUnpack o => 2 :: enc o
  | OHelp f => 3 :: enc_flags f
  | OVersion f => 4 :: enc_flags f
  | OModuleRepl f => 5 :: enc_flags f
  | ORun f a sa r => 6 :: enc_flags f ++ enc_action a ++ enc_list sa ++ enc_repl r
  end.
