(* Proofs about the option loop of Cmd/CmdlineModel.v, for an arbitrary
   option table; Cmd/CmdlineGen.v instantiates them with the generated one. *)
From Coq Require Import String Ascii.
From HyV Require Import Base.Text Gen.CmdTables Cmd.CmdlineModel.

Lemma text_eqb_refl a : text_eqb a a = true.
Proof. apply text_eqb_eq. reflexivity. Qed.

Lemma text_eqb_neq a b : a <> b -> text_eqb a b = false.
Proof. intros H. destruct (text_eqb a b) eqn:E; [|reflexivity]. apply text_eqb_eq in E. contradiction. Qed.

Lemma text_eqb_false_neq a b : text_eqb a b = false -> a <> b.
Proof. intros H ->. rewrite text_eqb_refl in H. discriminate. Qed.

Lemma text_eqb_sym a b : text_eqb a b = text_eqb b a.
Proof.
  destruct (text_eqb a b) eqn:E.
  - apply text_eqb_eq in E. subst. symmetry. apply text_eqb_refl.
  - symmetry. apply text_eqb_neq. intros ->. rewrite text_eqb_refl in E. discriminate.
Qed.

(* ---- the options dict ---- *)
Lemma oget_oset_same k v o : oget k (oset k v o) = Some v.
Proof.
  induction o as [|[k' v'] r IH]; cbn [oset oget].
  - rewrite text_eqb_refl. reflexivity.
  - destruct (text_eqb k' k) eqn:E; cbn [oget]; rewrite E; [reflexivity | exact IH].
Qed.

Lemma oget_oset_other k k' v o : text_eqb k k' = false -> oget k' (oset k v o) = oget k' o.
Proof.
  intros H. induction o as [|[k2 v2] r IH]; cbn [oset oget].
  - rewrite H. reflexivity.
  - destruct (text_eqb k2 k) eqn:E; cbn [oget].
    + apply text_eqb_eq in E. subst k2. rewrite H. reflexivity.
    + rewrite IH. reflexivity.
Qed.

Lemma ohas_oset_same k v o : ohas k (oset k v o) = true.
Proof. unfold ohas. rewrite oget_oset_same. reflexivity. Qed.

Lemma ohas_oset_other k k' v o : text_eqb k k' = false -> ohas k' (oset k v o) = ohas k' o.
Proof. intros H. unfold ohas. rewrite oget_oset_other by exact H. reflexivity. Qed.

(* ---- classification of an argv item ---- *)
Lemma classify_ddash : classify ddash = KEnd.
Proof. reflexivity. Qed.

Definition not_option (item : text) : Prop := starts_with dash item = false \/ item = dash.

Lemma classify_arg item : not_option item -> classify item = KArg.
Proof.
  intros [H | ->]; [|reflexivity].
  unfold classify. destruct item as [|c r]; [reflexivity|].
  cbn [starts_with dash] in H. rewrite andb_true_r in H.
  unfold ddash, dash. cbn [text_eqb starts_with]. rewrite (N.eqb_sym c 45), H. reflexivity.
Qed.

Lemma classify_short c cs : N.eqb c 45 = false -> classify (45 :: c :: cs) = KShort.
Proof.
  intros H. unfold classify, ddash, dash. cbn [text_eqb starts_with].
  rewrite (N.eqb_sym 45 c), H. cbn. reflexivity.
Qed.

Lemma classify_long c cs : classify (45 :: 45 :: c :: cs) = KLong.
Proof. reflexivity. Qed.

(* str.partition("=") on name ++ "=" ++ a, and on a name without "=" *)
Lemma partition_eq_none s : mem ch_eq s = false -> partition_eq s = (s, []).
Proof.
  induction s as [|c r IH]; intros H; [reflexivity|].
  cbn [mem existsb] in H. fold (mem ch_eq r) in H. apply orb_false_iff in H. destruct H as [H1 H2].
  cbn [partition_eq]. rewrite N.eqb_sym, H1, (IH H2). reflexivity.
Qed.

Lemma partition_eq_app s a : mem ch_eq s = false -> partition_eq (s ++ ch_eq :: a) = (s, a).
Proof.
  induction s as [|c r IH]; intros H; [reflexivity|].
  cbn [mem existsb] in H. fold (mem ch_eq r) in H. apply orb_false_iff in H. destruct H as [H1 H2].
  cbn [partition_eq app]. rewrite N.eqb_sym, H1, (IH H2). reflexivity.
Qed.

Lemma nodup_app_inv {A} (a b : list A) : NoDup (a ++ b) -> NoDup b /\ forall x, In x a -> ~ In x b.
Proof.
  induction a as [|y a IH]; cbn [app]; intros H.
  - split; [exact H | intros x []].
  - inversion H; subst. destruct (IH H3) as [Hb Hd]. split; [exact Hb|].
    intros x [-> | Hx]; [|apply Hd; exact Hx]. intros Hin. apply H2. apply in_or_app. right. exact Hin.
Qed.

Section LoopFacts.
Variable defs : list optdef.
Notation matches := (matches defs).
Notation proc_opt := (proc_opt defs).
Notation sloop := (sloop defs).
Notation step := (step defs).
Notation loop := (loop defs).

(* the two kinds of table entry *)
Definition is_flag (opt : text) (d : optdef) : Prop :=
  matches opt = [d] /\ od_dest d = None /\ od_term d = false.
Definition is_valued (opt : text) (d : optdef) (dest : text) : Prop :=
  matches opt = [d] /\ od_dest d = Some dest.

Lemma loop_unfold o item rest :
  loop o (item :: rest) =
  match classify item with
  | KEnd => LParsed o rest
  | KArg => LParsed o (item :: rest)
  | _ =>
    match step item o with
    | PErr e => LErr e
    | PDone o' RTerm => LParsed o' rest
    | PDone o' _ => loop o' rest
    | PNeed o' dest term opt =>
      match rest with
      | [] => LErr (EExpected opt)
      | a :: rest' => if term then LParsed (oset dest (VStr a) o') rest' else loop (oset dest (VStr a) o') rest'
      end
    end
  end.
Proof. reflexivity. Qed.

(* "--" ends option processing and is itself dropped *)
Lemma loop_ddash o args : loop o (ddash :: args) = LParsed o args.
Proof. reflexivity. Qed.

(* the first non-option ends option processing and stays *)
Lemma loop_arg o item args : not_option item -> loop o (item :: args) = LParsed o (item :: args).
Proof. intros H. rewrite loop_unfold, (classify_arg _ H). reflexivity. Qed.

(* ---- bundles of single-letter options ---- *)
Fixpoint apply_flags (cs : text) (o : options) : options :=
  match cs with
  | [] => o
  | c :: r => match matches [45; c] with [d] => apply_flags r (oset (flag_key d) VTrue o) | _ => o end
  end.

Definition flag_letters (cs : text) : Prop := Forall (fun c => exists d, is_flag [45; c] d) cs.

Lemma proc_opt_flag opt d arg att o : is_flag opt d -> proc_opt opt arg att o = PDone (oset (flag_key d) VTrue o) RFalse.
Proof.
  intros (Hm & Hd & Ht). unfold CmdlineModel.proc_opt. rewrite Hm, Hd. unfold ret_of. rewrite Ht, Hd. reflexivity.
Qed.

Lemma sloop_flags fl r o : flag_letters fl -> sloop (fl ++ r) o = sloop r (apply_flags fl o).
Proof.
  intros H. revert o. induction H as [|c fl [d Hd] _ IH]; intros o; [reflexivity|].
  cbn [app CmdlineModel.sloop apply_flags]. rewrite (proc_opt_flag _ _ _ _ _ Hd).
  destruct Hd as (Hm & _). rewrite Hm. apply IH.
Qed.

Definition strip_eq (s : text) : text := match s with c :: cs => if N.eqb c ch_eq then cs else s | [] => [] end.

Lemma sloop_valued_last x d dest o : is_valued [45; x] d dest -> sloop [x] o = PNeed o dest (od_term d) [45; x].
Proof. intros (Hm & Hd). cbn [CmdlineModel.sloop]. unfold CmdlineModel.proc_opt. rewrite Hm, Hd. reflexivity. Qed.

Lemma sloop_valued_attached x d dest c cs o : is_valued [45; x] d dest -> od_term d = true ->
  sloop (x :: c :: cs) o = PDone (oset dest (VStr (strip_eq (c :: cs))) o) RTerm.
Proof.
  intros (Hm & Hd) Ht. cbn [CmdlineModel.sloop]. unfold CmdlineModel.proc_opt. rewrite Hm, Hd.
  unfold ret_of. rewrite Ht. reflexivity.
Qed.

Lemma flag_letter_not_dash c d : matches ddash = [] -> is_flag [45; c] d -> N.eqb c 45 = false.
Proof.
  intros Hdd (Hm & _). destruct (N.eqb c 45) eqn:E; [|reflexivity].
  apply N.eqb_eq in E. subst c. unfold ddash in Hdd. rewrite Hdd in Hm. discriminate.
Qed.

Hypothesis no_ddash_option : matches ddash = [].

(* a bundle "-xyz" of flag letters is consumed and processing goes on *)
Lemma loop_bundle o c fl rest : flag_letters (c :: fl) ->
  loop o ((45 :: c :: fl) :: rest) = loop (apply_flags (c :: fl) o) rest.
Proof.
  intros H. rewrite loop_unfold.
  assert (Hc : N.eqb c 45 = false).
  { inversion H as [|? ? [d Hd] _]; subst. eapply flag_letter_not_dash; eauto. }
  rewrite (classify_short _ _ Hc). unfold CmdlineModel.step. rewrite (classify_short _ _ Hc). cbn [tl].
  rewrite <- (app_nil_r (c :: fl)) at 1. rewrite (sloop_flags _ _ _ H). reflexivity.
Qed.

(* "-xyzT" + separate argument, T a terminating valued option (like -c, -m):
   everything after the argument is left alone *)
Lemma loop_bundle_term_sep o fl x d dest a args :
  flag_letters fl -> is_valued [45; x] d dest -> od_term d = true ->
  loop o ((45 :: fl ++ [x]) :: a :: args) = LParsed (oset dest (VStr a) (apply_flags fl o)) args.
Proof.
  intros Hf Hv Ht. rewrite loop_unfold.
  assert (Hc : exists c cs, fl ++ [x] = c :: cs /\ N.eqb c 45 = false).
  { destruct Hf as [|c fl [d' Hd'] Hf].
    - exists x, []. split; [reflexivity|]. destruct Hv as (Hm & _).
      destruct (N.eqb x 45) eqn:E; [|reflexivity]. apply N.eqb_eq in E. subst x.
      unfold ddash in no_ddash_option. rewrite no_ddash_option in Hm. discriminate.
    - exists c, (fl ++ [x]). split; [reflexivity|]. eapply flag_letter_not_dash; eauto. }
  destruct Hc as (c & cs & Heq & Hc). rewrite Heq, (classify_short _ _ Hc).
  unfold CmdlineModel.step. rewrite (classify_short _ _ Hc). cbn [tl]. rewrite <- Heq.
  rewrite (sloop_flags _ _ _ Hf), (sloop_valued_last _ _ _ _ Hv), Ht. reflexivity.
Qed.

(* "-xyzTARG" / "-xyzT=ARG" *)
Lemma loop_bundle_term_attached o fl x d dest c cs args :
  flag_letters fl -> is_valued [45; x] d dest -> od_term d = true ->
  loop o ((45 :: fl ++ x :: c :: cs) :: args) = LParsed (oset dest (VStr (strip_eq (c :: cs))) (apply_flags fl o)) args.
Proof.
  intros Hf Hv Ht. rewrite loop_unfold.
  assert (Hc : exists c' cs', fl ++ x :: c :: cs = c' :: cs' /\ N.eqb c' 45 = false).
  { destruct Hf as [|c' fl [d' Hd'] Hf].
    - exists x, (c :: cs). split; [reflexivity|]. destruct Hv as (Hm & _).
      destruct (N.eqb x 45) eqn:E; [|reflexivity]. apply N.eqb_eq in E. subst x.
      unfold ddash in no_ddash_option. rewrite no_ddash_option in Hm. discriminate.
    - exists c', (fl ++ x :: c :: cs). split; [reflexivity|]. eapply flag_letter_not_dash; eauto. }
  destruct Hc as (c' & cs' & Heq & Hc). rewrite Heq, (classify_short _ _ Hc).
  unfold CmdlineModel.step. rewrite (classify_short _ _ Hc). cbn [tl]. rewrite <- Heq.
  rewrite (sloop_flags _ _ _ Hf), (sloop_valued_attached _ _ _ _ _ _ Hv Ht). reflexivity.
Qed.

(* ---- long options ---- *)
Definition long_name (name : text) : Prop := exists c r, name = 45 :: 45 :: c :: r /\ mem ch_eq name = false.

Lemma classify_long_name name junk : long_name name -> classify (name ++ junk) = KLong.
Proof. intros (c & r & -> & _). reflexivity. Qed.

(* "--flag" or "--flag=anything": the value is ignored *)
Lemma loop_long_flag o name d junk rest :
  long_name name -> is_flag name d -> junk = [] \/ (exists a, junk = ch_eq :: a) ->
  loop o ((name ++ junk) :: rest) = loop (oset (flag_key d) VTrue o) rest.
Proof.
  intros Hl Hf Hj. rewrite loop_unfold, (classify_long_name _ _ Hl).
  unfold CmdlineModel.step. rewrite (classify_long_name _ _ Hl).
  destruct Hl as (c & r & Hn & Hne).
  assert (Hp : exists a, partition_eq (name ++ junk) = (name, a)).
  { destruct Hj as [-> | [a ->]].
    - exists []. rewrite app_nil_r. apply partition_eq_none. exact Hne.
    - exists a. apply partition_eq_app. exact Hne. }
  destruct Hp as (a & ->). rewrite (proc_opt_flag _ _ _ _ _ Hf). reflexivity.
Qed.

(* "--opt=ARG" with a non-empty ARG, for a non-terminating valued option *)
Lemma loop_long_valued_attached o name d dest c cs rest :
  long_name name -> is_valued name d dest -> od_term d = false ->
  loop o ((name ++ ch_eq :: c :: cs) :: rest) = loop (oset dest (VStr (c :: cs)) o) rest.
Proof.
  intros Hl (Hm & Hd) Ht. rewrite loop_unfold, (classify_long_name _ _ Hl).
  unfold CmdlineModel.step. rewrite (classify_long_name _ _ Hl).
  destruct Hl as (c' & r & Hn & Hne). rewrite (partition_eq_app _ _ Hne).
  unfold CmdlineModel.proc_opt. rewrite Hm, Hd. unfold ret_of. rewrite Ht, Hd. reflexivity.
Qed.

(* "--opt ARG" and "--opt= ARG": the next item is the value, whatever it looks like *)
Lemma loop_long_valued_sep o name d dest junk a rest :
  long_name name -> is_valued name d dest -> od_term d = false -> junk = [] \/ junk = [ch_eq] ->
  loop o ((name ++ junk) :: a :: rest) = loop (oset dest (VStr a) o) rest.
Proof.
  intros Hl (Hm & Hd) Ht Hj. rewrite loop_unfold, (classify_long_name _ _ Hl).
  unfold CmdlineModel.step. rewrite (classify_long_name _ _ Hl).
  destruct Hl as (c' & r & Hn & Hne).
  assert (Hp : partition_eq (name ++ junk) = (name, [])).
  { destruct Hj as [-> | ->]; [rewrite app_nil_r; apply partition_eq_none | apply partition_eq_app]; exact Hne. }
  rewrite Hp. unfold CmdlineModel.proc_opt. rewrite Hm, Hd, Ht. reflexivity.
Qed.

(* ---- any sequence of recognised non-terminating options in front ---- *)
Inductive consumes : options -> list text -> options -> Prop :=
| C_nil o : consumes o [] o
| C_bundle o c fl pre o' : flag_letters (c :: fl) ->
    consumes (apply_flags (c :: fl) o) pre o' -> consumes o ((45 :: c :: fl) :: pre) o'
| C_long_flag o name d junk pre o' : long_name name -> is_flag name d -> junk = [] \/ (exists a, junk = ch_eq :: a) ->
    consumes (oset (flag_key d) VTrue o) pre o' -> consumes o ((name ++ junk) :: pre) o'
| C_long_attached o name d dest c cs pre o' : long_name name -> is_valued name d dest -> od_term d = false ->
    consumes (oset dest (VStr (c :: cs)) o) pre o' -> consumes o ((name ++ ch_eq :: c :: cs) :: pre) o'
| C_long_sep o name d dest junk a pre o' : long_name name -> is_valued name d dest -> od_term d = false ->
    junk = [] \/ junk = [ch_eq] ->
    consumes (oset dest (VStr a) o) pre o' -> consumes o ((name ++ junk) :: a :: pre) o'.

Theorem loop_prefix o pre o' : consumes o pre o' -> forall rest, loop o (pre ++ rest) = loop o' rest.
Proof.
  induction 1; intros rest; cbn [app].
  - reflexivity.
  - rewrite loop_bundle by assumption. apply IHconsumes.
  - rewrite (loop_long_flag _ _ _ _ _ H H0 H1). apply IHconsumes.
  - rewrite (loop_long_valued_attached _ _ _ _ _ _ _ H H0 H1). apply IHconsumes.
  - rewrite (loop_long_valued_sep _ _ _ _ _ _ _ H H0 H1 H2). apply IHconsumes.
Qed.

(* keys that only terminating options (or none) can set are untouched by a consumed prefix *)
Definition key_of (d : optdef) : text := match od_dest d with Some k => k | None => flag_key d end.
Definition only_terminating_sets (k : text) : bool :=
  forallb (fun d => od_term d || negb (text_eqb (key_of d) k)) defs.

Lemma matches_In opt d : matches opt = [d] -> In d defs.
Proof.
  intros H. assert (Hin : In d (matches opt)) by (rewrite H; left; reflexivity).
  unfold CmdlineModel.matches in Hin. apply filter_In in Hin. tauto.
Qed.

Lemma nonterm_key_differs k d : only_terminating_sets k = true -> In d defs -> od_term d = false ->
  text_eqb (key_of d) k = false.
Proof.
  intros H Hin Ht. unfold only_terminating_sets in H. rewrite forallb_forall in H.
  specialize (H d Hin). rewrite Ht in H. cbn in H. destruct (text_eqb (key_of d) k); [discriminate | reflexivity].
Qed.

Lemma apply_flags_keeps k fl o : only_terminating_sets k = true -> flag_letters fl ->
  oget k (apply_flags fl o) = oget k o.
Proof.
  intros Hk H. revert o. induction H as [|c fl [d Hd] _ IH]; intros o; [reflexivity|].
  cbn [apply_flags]. destruct Hd as (Hm & Hd & Ht). rewrite Hm, IH.
  apply oget_oset_other. pose proof (nonterm_key_differs k d Hk (matches_In _ _ Hm) Ht) as E.
  unfold key_of in E. rewrite Hd in E. exact E.
Qed.

Lemma consumes_keeps k o pre o' : only_terminating_sets k = true -> consumes o pre o' -> oget k o' = oget k o.
Proof.
  intros Hk H. induction H.
  - reflexivity.
  - rewrite IHconsumes. apply apply_flags_keeps; assumption.
  - rewrite IHconsumes. apply oget_oset_other. destruct H0 as (Hm & Hd & Ht).
    pose proof (nonterm_key_differs k d Hk (matches_In _ _ Hm) Ht) as E. unfold key_of in E. rewrite Hd in E. exact E.
  - rewrite IHconsumes. apply oget_oset_other. destruct H0 as (Hm & Hd).
    pose proof (nonterm_key_differs k d Hk (matches_In _ _ Hm) H1) as E. unfold key_of in E. rewrite Hd in E. exact E.
  - rewrite IHconsumes. apply oget_oset_other. destruct H0 as (Hm & Hd).
    pose proof (nonterm_key_differs k d Hk (matches_In _ _ Hm) H1) as E. unfold key_of in E. rewrite Hd in E. exact E.
Qed.

(* ---- whatever the loop leaves is a suffix of argv: nothing behind the point
   where option processing stopped is consumed, reordered or rewritten ---- *)
Lemma loop_suffix_n n : forall argv o o' rest, (length argv <= n)%nat ->
  loop o argv = LParsed o' rest -> exists pre, argv = pre ++ rest.
Proof.
  induction n as [|n IH]; intros argv o o' rest Hlen H.
  - destruct argv; [|cbn in Hlen; lia]. cbn in H. inversion H; subst. exists []. reflexivity.
  - destruct argv as [|item r]. { cbn in H. inversion H; subst. exists []. reflexivity. }
    cbn [length] in Hlen. rewrite loop_unfold in H.
    assert (Hrec : forall o1, loop o1 r = LParsed o' rest -> exists pre, item :: r = pre ++ rest).
    { intros o1 H1. destruct (IH r o1 o' rest ltac:(lia) H1) as [pre ->]. exists (item :: pre). reflexivity. }
    destruct (classify item).
    + inversion H; subst. exists [item]. reflexivity.
    + destruct (step item o) as [e | o1 [| |] | o1 dest term opt]; try discriminate.
      * inversion H; subst. exists [item]. reflexivity.
      * eapply Hrec; eauto.
      * eapply Hrec; eauto.
      * destruct r as [|a r']; [discriminate|]. destruct term.
        -- inversion H; subst. exists [item; a]. reflexivity.
        -- cbn [length] in Hlen. destruct (IH r' _ o' rest ltac:(lia) H) as [pre ->]. exists (item :: a :: pre). reflexivity.
    + destruct (step item o) as [e | o1 [| |] | o1 dest term opt]; try discriminate.
      * inversion H; subst. exists [item]. reflexivity.
      * eapply Hrec; eauto.
      * eapply Hrec; eauto.
      * destruct r as [|a r']; [discriminate|]. destruct term.
        -- inversion H; subst. exists [item; a]. reflexivity.
        -- cbn [length] in Hlen. destruct (IH r' _ o' rest ltac:(lia) H) as [pre ->]. exists (item :: a :: pre). reflexivity.
    + inversion H; subst. exists []. reflexivity.
Qed.

Theorem loop_suffix argv o o' rest : loop o argv = LParsed o' rest -> exists pre, argv = pre ++ rest.
Proof. apply (loop_suffix_n (length argv)). lia. Qed.

(* ---- with pairwise distinct option names `[match] = matches` never fails ---- *)
Hypothesis names_distinct : NoDup (flat_map od_names defs).

Lemma existsb_text_In opt l : existsb (text_eqb opt) l = true <-> In opt l.
Proof.
  rewrite existsb_exists. split.
  - intros (x & Hin & E). apply text_eqb_eq in E. subst. exact Hin.
  - intros Hin. exists opt. split; [exact Hin | apply text_eqb_refl].
Qed.

Lemma matches_at_most_one opt : (length (matches opt) <= 1)%nat.
Proof.
  unfold CmdlineModel.matches. revert names_distinct. generalize defs as l.
  induction l as [|d l IH]; intros ND; [cbn; lia|].
  cbn [flat_map] in ND. destruct (nodup_app_inv _ _ ND) as [ND2 Hdis]. cbn [filter].
  destruct (existsb (text_eqb opt) (od_names d)) eqn:E; [|apply IH; exact ND2].
  apply existsb_text_In in E.
  assert (Hnone : filter (fun d0 => existsb (text_eqb opt) (od_names d0)) l = []).
  { destruct (filter _ l) as [|d2 t] eqn:F; [reflexivity|]. exfalso.
    assert (Hin : In d2 (filter (fun d0 => existsb (text_eqb opt) (od_names d0)) l)) by (rewrite F; left; reflexivity).
    apply filter_In in Hin. destruct Hin as [Hin2 E2]. apply existsb_text_In in E2.
    apply (Hdis opt E). apply in_flat_map. exists d2. tauto. }
  rewrite Hnone. cbn. lia.
Qed.

Lemma proc_opt_not_ambiguous opt arg att o x : proc_opt opt arg att o <> PErr (EAmbiguous x).
Proof.
  unfold CmdlineModel.proc_opt. pose proof (matches_at_most_one opt) as H.
  destruct (matches opt) as [|d [|d2 t]]; [discriminate | | cbn in H; lia].
  destruct (od_dest d); [destruct arg; [destruct att as [[|]|]|]|]; discriminate.
Qed.

Lemma sloop_not_ambiguous cs o x : sloop cs o <> PErr (EAmbiguous x).
Proof.
  revert o. induction cs as [|c r IH]; intros o; [discriminate|].
  cbn [CmdlineModel.sloop]. pose proof (proc_opt_not_ambiguous [45; c] [] (Some r) o x) as H.
  destruct (proc_opt [45; c] [] (Some r) o) as [e | o1 [| |] | ]; try discriminate; try exact H. apply IH.
Qed.

Lemma step_not_ambiguous item o x : step item o <> PErr (EAmbiguous x).
Proof.
  unfold CmdlineModel.step. destruct (classify item); try apply sloop_not_ambiguous.
  destruct (partition_eq item). apply proc_opt_not_ambiguous.
Qed.

Lemma loop_not_ambiguous_n n : forall argv o x, (length argv <= n)%nat -> loop o argv <> LErr (EAmbiguous x).
Proof.
  induction n as [|n IH]; intros argv o x Hlen.
  - destruct argv; [discriminate | cbn in Hlen; lia].
  - destruct argv as [|item r]; [discriminate|]. cbn [length] in Hlen. rewrite loop_unfold.
    pose proof (step_not_ambiguous item o x) as Hs.
    assert (Hgo : match step item o with
      | PErr e => LErr e | PDone o' RTerm => LParsed o' r | PDone o' _ => loop o' r
      | PNeed o' dest term opt => match r with [] => LErr (EExpected opt)
          | a :: rest' => if term then LParsed (oset dest (VStr a) o') rest' else loop (oset dest (VStr a) o') rest' end
      end <> LErr (EAmbiguous x)).
    { destruct (step item o) as [e | o1 [| |] | o1 dest term opt].
      - intros E. inversion E; subst. apply Hs. reflexivity.
      - discriminate.
      - apply IH. lia.
      - apply IH. lia.
      - destruct r as [|a r']; [discriminate|]. destruct term; [discriminate|]. apply IH. cbn [length] in Hlen. lia. }
    destruct (classify item); try exact Hgo; discriminate.
Qed.

Theorem loop_not_ambiguous argv o x : loop o argv <> LErr (EAmbiguous x).
Proof. apply (loop_not_ambiguous_n (length argv)). lia. Qed.

End LoopFacts.
