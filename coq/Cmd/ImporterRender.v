(* flat renderings of the C15 model's results for the correspondence run
   (texts as in CmdlineModel.enc: code points + 1, then 0) *)
From Coq Require Import String Ascii.
From HyV Require Import Base.Text Gen.CmdSuffixes Gen.CmdRequire Cmd.CmdlineModel Cmd.ImporterModel.

Definition render_assign (a : assignments) : list N :=
  match a with
  | AAll => [1]
  | AExports => [2]
  | APairs l => 3 :: N.of_nat (length l) :: flat_map (fun kv => enc (fst kv) ++ enc (snd kv)) l
  end.
Definition render_args (c : call_args) : list N := enc (ca_module c) ++ render_assign (ca_assignments c) ++ enc (ca_prefix c).

(* both the compile-time arguments and what the emitted literal evaluates to *)
Definition render_entry (m : modref) (rest : option importlike) (this_module : text) : list N :=
  render_args (compile_time_args mangle_simple m rest)
  ++ match run_time_args (emitted_call mangle_simple m rest this_module) with
     | Some (c, t) => 1 :: render_args c ++ enc t
     | None => [0]
     end.

Definition render_table (t : table) : list N := N.of_nat (length t) :: flat_map (fun kv => enc (fst kv) ++ [snd kv]) t.
Definition render_require (r : rerr + (table * list transfer)) : list N :=
  match r with
  | inl (EImport n) => 0 :: 1 :: enc n
  | inl (ECouldNotRequire n) => 0 :: 2 :: enc n
  | inl (ECannotImportName n) => 0 :: 3 :: enc n
  | inr (t, out) =>
    1 :: render_table t ++ N.of_nat (length out)
      :: flat_map (fun x : transfer => enc (fst (fst x)) ++ enc (snd (fst x)) ++ [snd x]) out
  end.

Definition render_ext (f : text) : list N := (if could_be_hy f then 1 else 0) :: enc (ext_of f).
