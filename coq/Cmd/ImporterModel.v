(* Model for C15:
   (1) which files hy/importer.py compiles as Hy (_could_be_hy_src over the
       interpreter's SOURCE_SUFFIXES, with posixpath.splitext);
   (2) what `(require ...)` entries turn into: the arguments of the
       compile-time call require(...) and the run-time call that
       compile_require emits (hy/core/result_macros.py);
   (3) hy.macros.require over finite macro tables;
   (4) the load histories ImportFresh / ImportCached of a module.
   Constants come from Gen/CmdSuffixes.v and Gen/CmdRequire.v. *)
From Coq Require Import String Ascii.
From HyV Require Import Base.Text Gen.CmdSuffixes Gen.CmdRequire Cmd.CmdlineModel.

(* ================= (1) Hy source or not ================= *)

(* SOURCE_SUFFIXES once hy.importer has been imported *)
Definition source_suffixes : list text := hy_suffix_inserted :: py_source_suffixes.
Definition in_texts (s : text) (l : list text) : bool := existsb (text_eqb s) l.
(* set(SOURCE_SUFFIXES) - {".hy"} *)
Definition other_suffixes : list text := filter (fun s => negb (in_texts s hy_suffixes_excluded)) source_suffixes.

(* the part of p after the last separator *)
Fixpoint basename_aux (p cur : text) : text :=
  match p with
  | [] => rev cur
  | c :: r => if N.eqb c os_sep then basename_aux r [] else basename_aux r (c :: cur)
  end.
Definition basename (p : text) : text := basename_aux p [].

(* the suffix of s that starts at its last extsep, if there is one *)
Fixpoint last_dot_suffix (s : text) : option text :=
  match s with
  | [] => None
  | c :: r =>
    match last_dot_suffix r with
    | Some e => Some e
    | None => if N.eqb c os_extsep then Some s else None
    end
  end.

(* os.path.splitext(p)[1] (genericpath._splitext without altsep): leading dots
   of the last component do not start an extension *)
Definition ext_of (p : text) : text :=
  match dropwhile (N.eqb os_extsep) (basename p) with
  | [] => []
  | _ :: r => match last_dot_suffix r with Some e => e | None => [] end
  end.

Definition could_be_hy (filename : text) : bool := negb (in_texts (ext_of filename) other_suffixes).

(* ================= (2) require entries ================= *)

Section Require.
Variable mangle : text -> text.

Definition dot : text := [46].
Fixpoint join_dot (l : list text) : text :=
  match l with
  | [] => []
  | [x] => x
  | x :: r => x ++ 46 :: join_dot r
  end.

(* the module position of an entry as the reader delivers it *)
Inductive modref :=
| MPlain (parts : list text)              (* a  /  a.b.c *)
| MRel (dots : nat) (parts : list text)   (* .a.b  /  ..a   (head symbol of [dots] dots, then None, parts) *)
| MDots (dots : nat).                     (* .  /  .. *)

(* importlike *)
Inductive importlike :=
| IStar
| IAs (alias : text)
| INames (l : list (text * option text)).

Inductive assignments := AAll | AExports | APairs (l : list (text * text)).

(* module_name_str *)
Definition module_name_str (m : modref) : text :=
  match m with
  | MPlain ps => join_dot (map mangle ps)
  | MRel _ ps => join_dot (map mangle ps)
  | MDots n => repeat 46 n
  end.

(* assignment_shape(module, rest) *)
Definition assignment_shape (m : modref) (rest : option importlike) : text * assignments :=
  match rest with
  | None => (module_name_str m, AExports)
  | Some IStar => ([], AExports)
  | Some (IAs a) => (mangle a, AExports)
  | Some (INames l) => ([], APairs (map (fun kv => (fst kv, match snd kv with Some v => v | None => fst kv end)) l))
  end.

(* module_name in compile_require: leading dots are put back *)
Definition module_name (m : modref) : text :=
  match m with
  | MRel n _ => repeat 46 n ++ module_name_str m
  | _ => module_name_str m
  end.

(* compile_require: `prefix, assignments = assignment_shape(module, rest)` followed by
   `if prefix: assignments = "ALL"` -- a prefixed require brings in every macro of the module;
   _hy_export_macros only governs the star form *)
Definition require_shape (m : modref) (rest : option importlike) : text * assignments :=
  let '(prefix, a) := assignment_shape m rest in
  match prefix with [] => (prefix, a) | _ => (prefix, AAll) end.

(* arguments of the compile-time call require(module_name, compiler.module, assignments=, prefix=) *)
Record call_args := { ca_module : text; ca_assignments : assignments; ca_prefix : text }.
Definition compile_time_args (m : modref) (rest : option importlike) : call_args :=
  let '(prefix, a) := require_shape m rest in
  {| ca_module := module_name m; ca_assignments := a; ca_prefix := prefix |}.

(* the emitted call as data: Hy models that compile to Python literals *)
Inductive lit := LStr (s : text) | LNone | LList (l : list lit).
Record emitted := { em_positional : list lit; em_keywords : list (text * lit) }.
Definition k_exports : text := txt "EXPORTS".
Definition k_all : text := txt "ALL".

Definition emitted_call (m : modref) (rest : option importlike) (this_module : text) : emitted :=
  let '(prefix, a) := require_shape m rest in
  {| em_positional := [LStr (module_name m); LNone];
     em_keywords :=
       [(txt "target_module_name", LStr this_module);
        (txt "assignments",
         match a with
         | APairs l => LList (map (fun kv => LList [LStr (fst kv); LStr (snd kv)]) l)
         | AAll => LStr k_all
         | AExports => LStr k_exports
         end);
        (txt "prefix", LStr prefix)] |}.

(* what hy.macros.require makes of the evaluated literals *)
Fixpoint pairs_of (l : list lit) : option (list (text * text)) :=
  match l with
  | [] => Some []
  | LList [LStr k; LStr v] :: r => match pairs_of r with Some t => Some ((k, v) :: t) | None => None end
  | _ => None
  end.
Definition read_assignments (x : lit) : option assignments :=
  match x with
  | LStr s => if text_eqb s k_exports then Some AExports else if text_eqb s k_all then Some AAll else None
  | LList l => match pairs_of l with Some p => Some (APairs p) | None => None end
  | LNone => None
  end.
Fixpoint kwarg (k : text) (l : list (text * lit)) : option lit :=
  match l with
  | [] => None
  | (k', v) :: r => if text_eqb k' k then Some v else kwarg k r
  end.
Definition run_time_args (e : emitted) : option (call_args * text) :=
  match em_positional e, kwarg (txt "assignments") (em_keywords e), kwarg (txt "prefix") (em_keywords e),
        kwarg (txt "target_module_name") (em_keywords e) with
  | [LStr mn; LNone], Some a, Some (LStr p), Some (LStr t) =>
    match read_assignments a with
    | Some a' => Some ({| ca_module := mn; ca_assignments := a'; ca_prefix := p |}, t)
    | None => None
    end
  | _, _, _, _ => None
  end.

(* ================= (3) hy.macros.require ================= *)

(* a macro table: dict from mangled name to macro (an opaque id), in insertion order *)
Definition table := list (text * N).
Fixpoint tget (k : text) (t : table) : option N :=
  match t with
  | [] => None
  | (k', v) :: r => if text_eqb k' k then Some v else tget k r
  end.
Fixpoint tset (k : text) (v : N) (t : table) : table :=
  match t with
  | [] => [(k, v)]
  | (k', v') :: r => if text_eqb k' k then (k', v) :: r else (k', v') :: tset k v r
  end.
Definition keys (t : table) : list text := map fst t.

Record hmodule := { hm_macros : table; hm_exports : option (list text) }.
(* importable modules by absolute name *)
Definition menv := list (text * hmodule).
Fixpoint find_module (name : text) (env : menv) : option hmodule :=
  match env with
  | [] => None
  | (n, m) :: r => if text_eqb n name then Some m else find_module name r
  end.

Inductive rerr := EImport (name : text) | ECouldNotRequire (name : text) | ECannotImportName (name : text).

(* source_exports *)
Definition exports_of (m : hmodule) : list text :=
  match hm_exports m with
  | Some l => l
  | None => filter (fun k => negb (starts_with [95] k)) (keys (hm_macros m))
  end.

(* the (name, alias) pairs the main loop runs over *)
Definition effective_pairs (m : hmodule) (a : assignments) : list (text * text) :=
  match a with
  | APairs l => l
  | AAll => map (fun k => (k, k)) (keys (hm_macros m))
  | AExports => map (fun k => (k, k)) (filter (fun k => in_texts k (exports_of m)) (keys (hm_macros m)))
  end.

(* one transfer: (new name, source name, macro) *)
Definition transfer := (text * text * N)%type.

(* the main loop; prefix' already carries its "." *)
Fixpoint transfer_loop (src : table) (prefix' : text) (pairs : list (text * text)) : rerr + list transfer :=
  match pairs with
  | [] => inr []
  | (name, alias) :: r =>
    let n := mangle name in
    match tget n src with
    | None => inl (ECouldNotRequire n)
    | Some f =>
      match transfer_loop src prefix' r with
      | inl e => inl e
      | inr out => inr ((mangle (prefix' ++ alias), n, f) :: out)
      end
    end
  end.

Definition with_dot (prefix : text) : text := match prefix with [] => [] | _ => prefix ++ dot end.

(* require on a module that has macros, or with "ALL"/"EXPORTS" on one that has none *)
Definition require_core (m : hmodule) (a : assignments) (prefix : text) : rerr + list transfer :=
  match hm_macros m with
  | [] => match a with APairs _ => inl (ECannotImportName []) | _ => inr [] end
  | _ => transfer_loop (hm_macros m) (with_dot prefix) (effective_pairs m a)
  end.

(* sub-module fallback: for name, alias in assignments: require(f"{source}.{mangle(name)}", target, "ALL", prefix=alias) *)
Fixpoint fallback (env : menv) (src_name : text) (pairs : list (text * text)) : rerr + list transfer :=
  match pairs with
  | [] => inr []
  | (name, alias) :: r =>
    match find_module (src_name ++ dot ++ mangle name) env with
    | None => inl (ECannotImportName name)
    | Some sub =>
      match require_core sub AAll alias with
      | inl _ => inl (ECannotImportName name)
      | inr out1 =>
        match fallback env src_name r with
        | inl e => inl e
        | inr out2 => inr (out1 ++ out2)
        end
      end
    end
  end.

(* require(source_module, target, assignments, prefix): the list of transfers, in order *)
Definition require_out (env : menv) (src_name : text) (a : assignments) (prefix : text) : rerr + list transfer :=
  match find_module src_name env with
  | None => inl (EImport src_name)
  | Some m =>
    match hm_macros m, a with
    | [], APairs l => fallback env src_name l
    | _, _ => require_core m a prefix
    end
  end.

Definition apply_transfers (out : list transfer) (t : table) : table :=
  fold_left (fun t x => tset (fst (fst x)) (snd x) t) out t.

Definition require (env : menv) (src_name : text) (target : table) (a : assignments) (prefix : text)
  : rerr + (table * list transfer) :=
  match require_out env src_name a prefix with
  | inl e => inl e
  | inr out => inr (apply_transfers out target, out)
  end.

(* ================= (4) load histories ================= *)

(* what a module does to its own macro table, in source order *)
Inductive mop :=
| OpRequire (args : call_args)     (* a module-level (require ...) entry *)
| OpDefmacro (name : text) (f : N). (* (defmacro name ...) *)

(* compile time: every op runs (require is called, defmacro's eval-and-compile runs) *)
Definition ct_step (env : menv) (t : table) (o : mop) : rerr + table :=
  match o with
  | OpRequire c =>
    match require env (ca_module c) t (ca_assignments c) (ca_prefix c) with
    | inl e => inl e
    | inr (t', _) => inr t'
    end
  | OpDefmacro n f => inr (tset (mangle n) f t)
  end.

(* does compile_require emit the run-time call for this entry?  only if the compile-time call transferred something *)
Definition emits (env : menv) (o : mop) : bool :=
  match o with
  | OpRequire c => match require_out env (ca_module c) (ca_assignments c) (ca_prefix c) with inr (_ :: _) => true | _ => false end
  | OpDefmacro _ _ => true
  end.

Fixpoint run_ops (step : table -> mop -> rerr + table) (ops : list mop) (t : table) : rerr + table :=
  match ops with
  | [] => inr t
  | o :: r => match step t o with inl e => inl e | inr t' => run_ops step r t' end
  end.

Definition compile_pass (env : menv) (ops : list mop) (t : table) : rerr + table := run_ops (ct_step env) ops t.
(* run time: the emitted code; the emitted call carries the same arguments (part 2) *)
Definition run_pass (env : menv) (ops : list mop) (t : table) : rerr + table :=
  run_ops (ct_step env) (filter (emits env) ops) t.

Inductive load := ImportFresh | ImportCached.
(* the module's _hy_macros after one import in a new process *)
Definition table_after (env : menv) (ops : list mop) (l : load) : rerr + table :=
  match l with
  | ImportFresh => match compile_pass env ops [] with inl e => inl e | inr t => run_pass env ops t end
  | ImportCached => run_pass env ops []
  end.

End Require.

(* mangle for the names the correspondence run generates: ASCII identifiers with hyphens *)
Definition mangle_simple (s : text) : text :=
  match s with
  | [] => []
  | c :: r => c :: replace_ch 45 95 r
  end.
