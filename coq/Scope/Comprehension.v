(* C04: what a clause list means, and what the two shapes compile_comprehension emits mean.

   Everything is parametric in the expression semantics: [ev] may do anything to the state
   (effects, setx), iterables yield [elems v], truth is [truthy].  So the theorems hold for every
   expression language and every store model; only the *loop structure* is under study.

   - [ref]: the documented nested-loop semantics (docs/api.rst, lfor): iteration clauses nest,
     :if skips, :setv assigns, :do evaluates; (break)/(continue) in a :do act on the innermost
     iteration clause before it.
   - [to_gens] + [native]: the ListComp/SetComp/DictComp/GeneratorExp generators that the code
     builds (`generators.append(...)`, `generators[-1].ifs.append(...)`, :setv as `for x in (e,)`)
     with Python's comprehension semantics.
   - [gen_body] + [exec]: the for/if/assign/expr/yield nest of the generator function (the
     recursive function f(parts) of compile_comprehension) with Python's statement semantics,
     eager reading: the list of yielded values with interleaved effects.
   - [gen_for]: the same nest for the `for` statement, with the else block. *)
From Coq Require Import List Bool.
Import ListNotations.

Inductive oc := ONormal | OBreak | OContinue.

Section Comp.
Variables var val expr st : Type.
Variable ev : expr -> st -> val * st.
Variable assign : var -> val -> st -> st.
Variable truthy : val -> bool.
Variable elems : val -> list val.        (* what iterating the value yields *)
Variable pairv : val -> val -> val.      (* the tuple (k, v) *)
Variable items : val -> list val.        (* v.items() *)

Inductive clause :=
| CFor (x : var) (it : expr)
| CIf (c : expr)
| CSetv (x : var) (e : expr)
| CDo (e : expr)
| CBreakIf (c : expr)        (* :do (when c (break)) *)
| CContIf (c : expr).        (* :do (when c (continue)) *)

Inductive final :=
| FVal (e : expr)            (* VALUE *)
| FStar (e : expr)           (* #* e *)
| FKV (k v : expr)           (* dfor KEY VALUE *)
| FDStar (e : expr).         (* dfor #** e *)

Definition ref_final (fin : final) (s : st) : list val * st :=
  match fin with
  | FVal e => let '(v, s1) := ev e s in ([v], s1)
  | FStar e => let '(v, s1) := ev e s in (elems v, s1)
  | FKV k v => let '(a, s1) := ev k s in let '(b, s2) := ev v s1 in ([pairv a b], s2)
  | FDStar e => let '(v, s1) := ev e s in (items v, s1)
  end.

(* one Python for loop: returns what was produced, the state, and whether a break ended it *)
Fixpoint loop (body : st -> list val * st * oc) (x : var) (vs : list val) (s : st) : list val * st * bool :=
  match vs with
  | [] => ([], s, false)
  | v :: r =>
      let '(o, s1, c) := body (assign x v s) in
      match c with
      | OBreak => (o, s1, true)
      | _ => let '(o2, s2, b) := loop body x r s1 in (o ++ o2, s2, b)
      end
  end.

(* ---- the reference ---- *)
Fixpoint ref (cs : list clause) (fin : final) (s : st) : list val * st * oc :=
  match cs with
  | [] => let '(o, s1) := ref_final fin s in (o, s1, ONormal)
  | CFor x it :: r =>
      let '(v, s1) := ev it s in
      let '(o, s2, _) := loop (ref r fin) x (elems v) s1 in (o, s2, ONormal)
  | CIf c :: r => let '(b, s1) := ev c s in if truthy b then ref r fin s1 else ([], s1, ONormal)
  | CSetv x e :: r => let '(v, s1) := ev e s in ref r fin (assign x v s1)
  | CDo e :: r => let '(_, s1) := ev e s in ref r fin s1
  | CBreakIf c :: r => let '(b, s1) := ev c s in if truthy b then ([], s1, OBreak) else ref r fin s1
  | CContIf c :: r => let '(b, s1) := ev c s in if truthy b then ([], s1, OContinue) else ref r fin s1
  end.

(* ---- the native comprehension ---- *)
Inductive itsrc := ItExpr (e : expr) | ItOne (e : expr).     (* `in e` | `in (e,)` *)
Record gen := Gen { g_x : var; g_it : itsrc; g_ifs : list expr }.

(* the code's loop over the parts; [acc]: the generators built so far, latest first *)
Fixpoint to_gens (cs : list clause) (acc : list gen) : option (list gen) :=
  match cs with
  | [] => Some (rev acc)
  | CFor x it :: r => to_gens r (Gen x (ItExpr it) [] :: acc)
  | CSetv x e :: r => to_gens r (Gen x (ItOne e) [] :: acc)
  | CIf c :: r =>
      match acc with
      | [] => None                   (* generators[-1] on an empty list: IndexError *)
      | g :: a => to_gens r (Gen (g_x g) (g_it g) (g_ifs g ++ [c]) :: a)
      end
  | _ => None                        (* :do forces the generator-function strategy *)
  end.

Fixpoint eval_ifs (ifs : list expr) (s : st) : bool * st :=
  match ifs with
  | [] => (true, s)
  | c :: r => let '(b, s1) := ev c s in if truthy b then eval_ifs r s1 else (false, s1)
  end.

Fixpoint nloop (body : st -> list val * st) (x : var) (vs : list val) (s : st) : list val * st :=
  match vs with
  | [] => ([], s)
  | v :: r => let '(o, s1) := body (assign x v s) in let '(o2, s2) := nloop body x r s1 in (o ++ o2, s2)
  end.

Definition eval_it (i : itsrc) (s : st) : list val * st :=
  match i with
  | ItExpr e => let '(v, s1) := ev e s in (elems v, s1)
  | ItOne e => let '(v, s1) := ev e s in ([v], s1)
  end.

(* Python: for each generator in order, iterate, test its ifs in order, go on; [k] is the innermost part *)
Fixpoint native_k (gs : list gen) (k : st -> list val * st) (s : st) : list val * st :=
  match gs with
  | [] => k s
  | g :: r =>
      let '(vs, s1) := eval_it (g_it g) s in
      nloop (fun s => let '(ok, s2) := eval_ifs (g_ifs g) s in if ok then native_k r k s2 else ([], s2)) (g_x g) vs s1
  end.

Definition native (gs : list gen) (fin : final) (s : st) : list val * st := native_k gs (ref_final fin) s.

(* ---- the generator function ---- *)
Inductive stmt :=
| SFor (x : var) (it : expr) (body : list stmt) (orelse : list stmt)
| SIf (c : expr) (body : list stmt)
| SAssign (x : var) (e : expr)
| SExpr (e : expr)
| SYield (fin : final)          (* yield VALUE / yield (k, v) / for t in VALUE: yield t / for t in m.items(): yield t *)
| SBreakIf (c : expr)
| SContIf (c : expr).

Fixpoint exec_stmt (t : stmt) (s : st) {struct t} : list val * st * oc :=
  let exec_list :=
    (fix exec_list (ts : list stmt) (s : st) {struct ts} : list val * st * oc :=
       match ts with
       | [] => ([], s, ONormal)
       | t :: r =>
           let '(o, s1, c) := exec_stmt t s in
           match c with
           | ONormal => let '(o2, s2, c2) := exec_list r s1 in (o ++ o2, s2, c2)
           | _ => (o, s1, c)
           end
       end) in
  match t with
  | SFor x it body orelse =>
      let '(v, s1) := ev it s in
      let '(o, s2, broke) := loop (exec_list body) x (elems v) s1 in
      if broke then (o, s2, ONormal)
      else let '(o2, s3, c2) := exec_list orelse s2 in (o ++ o2, s3, c2)
  | SIf c body => let '(b, s1) := ev c s in if truthy b then exec_list body s1 else ([], s1, ONormal)
  | SAssign x e => let '(v, s1) := ev e s in ([], assign x v s1, ONormal)
  | SExpr e => let '(_, s1) := ev e s in ([], s1, ONormal)
  | SYield fin => let '(o, s1) := ref_final fin s in (o, s1, ONormal)
  | SBreakIf c => let '(b, s1) := ev c s in ([], s1, if truthy b then OBreak else ONormal)
  | SContIf c => let '(b, s1) := ev c s in ([], s1, if truthy b then OContinue else ONormal)
  end.

Fixpoint exec (ts : list stmt) (s : st) {struct ts} : list val * st * oc :=
  match ts with
  | [] => ([], s, ONormal)
  | t :: r =>
      let '(o, s1, c) := exec_stmt t s in
      match c with
      | ONormal => let '(o2, s2, c2) := exec r s1 in (o ++ o2, s2, c2)
      | _ => (o, s1, c)
      end
  end.

(* the statement cases in terms of [exec] *)
Lemma exec_stmt_for x it body orelse s :
  exec_stmt (SFor x it body orelse) s =
    let '(v, s1) := ev it s in
    let '(o, s2, broke) := loop (exec body) x (elems v) s1 in
    if broke then (o, s2, ONormal)
    else let '(o2, s3, c2) := exec orelse s2 in (o ++ o2, s3, c2).
Proof. reflexivity. Qed.

Lemma exec_stmt_if c body s :
  exec_stmt (SIf c body) s = let '(b, s1) := ev c s in if truthy b then exec body s1 else ([], s1, ONormal).
Proof. reflexivity. Qed.

(* f(parts) of compile_comprehension for lfor/sfor/dfor/gfor *)
Fixpoint gen_body (cs : list clause) (fin : final) : list stmt :=
  match cs with
  | [] => [SYield fin]
  | CFor x it :: r => [SFor x it (gen_body r fin) []]
  | CIf c :: r => [SIf c (gen_body r fin)]
  | CSetv x e :: r => SAssign x e :: gen_body r fin
  | CDo e :: r => SExpr e :: gen_body r fin
  | CBreakIf c :: r => SBreakIf c :: gen_body r fin
  | CContIf c :: r => SContIf c :: gen_body r fin
  end.

(* f(parts) for the `for` statement: the first iteration clause takes the else block (orel.pop()) *)
Fixpoint gen_for (cs : list clause) (body orelse : list stmt) : list stmt :=
  match cs with
  | [] => body
  | CFor x it :: r => [SFor x it (gen_for r body []) orelse]
  | CIf c :: r => [SIf c (gen_for r body orelse)]
  | CSetv x e :: r => SAssign x e :: gen_for r body orelse
  | CDo e :: r => SExpr e :: gen_for r body orelse
  | CBreakIf c :: r => SBreakIf c :: gen_for r body orelse
  | CContIf c :: r => SContIf c :: gen_for r body orelse
  end.

(* which strategy compile_comprehension takes, from what it looks at: a :do clause, a part or final
   form that leaves statements, an unpacking final form (before Python 3.15) *)
Definition is_do (c : clause) : bool := match c with CDo _ | CBreakIf _ | CContIf _ => true | _ => false end.
Definition uses_genfn (cs : list clause) (any_part_has_stmts final_has_stmts : bool) (fin : final) : bool :=
  existsb is_do cs || any_part_has_stmts || final_has_stmts
  || match fin with FStar _ | FDStar _ => true | _ => false end.

End Comp.

Arguments CFor {var expr}. Arguments CIf {var expr}. Arguments CSetv {var expr}. Arguments CDo {var expr}.
Arguments CBreakIf {var expr}. Arguments CContIf {var expr}.
Arguments FVal {expr}. Arguments FStar {expr}. Arguments FKV {expr}. Arguments FDStar {expr}.
Arguments ItExpr {expr}. Arguments ItOne {expr}. Arguments Gen {var expr}.
Arguments g_x {var expr}. Arguments g_it {var expr}. Arguments g_ifs {var expr}.
Arguments SFor {var expr}. Arguments SIf {var expr}. Arguments SAssign {var expr}. Arguments SExpr {var expr}.
Arguments SYield {var expr}. Arguments SBreakIf {var expr}. Arguments SContIf {var expr}.
