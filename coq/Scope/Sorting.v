(* Python's sorted() on a list of str, and the fact the scope code relies on:
   sorting is canonical -- any two permutations of the same elements sort to
   the same list.  Names are code-point lists; str comparison is
   lexicographic by code point. *)
From HyV Require Import Base.Text.
From Coq Require Import Permutation Sorted.

Section GenericSort.
Variable A : Type.
Variable leb : A -> A -> bool.
Hypothesis leb_total : forall a b, leb a b = true \/ leb b a = true.
Hypothesis leb_antisym : forall a b, leb a b = true -> leb b a = true -> a = b.
Hypothesis leb_trans : forall a b c, leb a b = true -> leb b c = true -> leb a c = true.

Fixpoint insert (x : A) (l : list A) : list A :=
  match l with
  | [] => [x]
  | y :: r => if leb x y then x :: l else y :: insert x r
  end.

Fixpoint isort (l : list A) : list A :=
  match l with
  | [] => []
  | x :: r => insert x (isort r)
  end.

Definition le (a b : A) : Prop := leb a b = true.

Lemma insert_perm x l : Permutation (insert x l) (x :: l).
Proof.
  induction l as [|y r IH]; simpl; [apply Permutation_refl|].
  destruct (leb x y); [apply Permutation_refl|].
  eapply Permutation_trans; [apply perm_skip; exact IH | apply perm_swap].
Qed.

Lemma isort_perm l : Permutation (isort l) l.
Proof.
  induction l as [|x r IH]; simpl; [apply perm_nil|].
  eapply Permutation_trans; [apply insert_perm | apply perm_skip; exact IH].
Qed.

Lemma insert_sorted x l : StronglySorted le l -> StronglySorted le (insert x l).
Proof.
  induction 1 as [|y r Hs IH Hall]; simpl.
  - constructor; constructor.
  - destruct (leb x y) eqn:E.
    + constructor; [constructor; assumption|].
      constructor; [exact E|].
      rewrite Forall_forall in *. intros z Hz. eapply leb_trans; [exact E | apply Hall; exact Hz].
    + constructor; [exact IH|].
      assert (Hyx : leb y x = true) by (destruct (leb_total x y) as [H|H]; [congruence | exact H]).
      rewrite Forall_forall in *. intros z Hz.
      apply (Permutation_in _ (insert_perm x r)) in Hz. destruct Hz as [<-|Hz]; [exact Hyx | apply Hall; exact Hz].
Qed.

Lemma isort_sorted l : StronglySorted le (isort l).
Proof. induction l; simpl; [constructor | apply insert_sorted; assumption]. Qed.

Lemma sorted_perm_eq l1 : forall l2, StronglySorted le l1 -> StronglySorted le l2 -> Permutation l1 l2 -> l1 = l2.
Proof.
  induction l1 as [|x r IH]; intros l2 H1 H2 HP.
  - apply Permutation_nil in HP. symmetry; exact HP.
  - destruct l2 as [|y s]; [apply Permutation_sym, Permutation_nil in HP; discriminate|].
    inversion H1 as [|? ? Hr Hxr]; subst. inversion H2 as [|? ? Hs Hys]; subst.
    assert (x = y) as ->.
    { rewrite Forall_forall in Hxr, Hys.
      assert (Hy : In y (x :: r)) by (eapply Permutation_in; [apply Permutation_sym; exact HP | left; reflexivity]).
      assert (Hx : In x (y :: s)) by (eapply Permutation_in; [exact HP | left; reflexivity]).
      destruct Hy as [->|Hy]; [reflexivity|]. destruct Hx as [<-|Hx]; [reflexivity|].
      apply leb_antisym; [apply Hxr; exact Hy | apply Hys; exact Hx]. }
    f_equal. apply IH; [assumption | assumption | eapply Permutation_cons_inv; exact HP].
Qed.

(* the lemma the scope code's use of sorted() rests on *)
Theorem isort_canonical l1 l2 : Permutation l1 l2 -> isort l1 = isort l2.
Proof.
  intros HP. apply sorted_perm_eq; try apply isort_sorted.
  eapply Permutation_trans; [apply isort_perm|].
  eapply Permutation_trans; [exact HP | apply Permutation_sym, isort_perm].
Qed.

End GenericSort.

(* str <= str : lexicographic by code point *)
Fixpoint text_leb (a b : text) : bool :=
  match a, b with
  | [], _ => true
  | _ :: _, [] => false
  | x :: a', y :: b' => if N.ltb x y then true else if N.eqb x y then text_leb a' b' else false
  end.

Lemma text_leb_total a : forall b, text_leb a b = true \/ text_leb b a = true.
Proof.
  induction a as [|x a IH]; intros [|y b]; simpl; auto.
  destruct (N.ltb x y) eqn:L1; [auto|]. destruct (N.ltb y x) eqn:L2; [auto|].
  apply N.ltb_ge in L1, L2. assert (x = y) as -> by lia. rewrite N.eqb_refl. apply IH.
Qed.

Lemma text_leb_antisym a : forall b, text_leb a b = true -> text_leb b a = true -> a = b.
Proof.
  induction a as [|x a IH]; intros [|y b]; simpl; try discriminate; auto.
  destruct (N.ltb x y) eqn:L1.
  - apply N.ltb_lt in L1. destruct (N.ltb y x) eqn:L2; [apply N.ltb_lt in L2; lia|].
    destruct (N.eqb y x) eqn:E; [apply N.eqb_eq in E; lia | discriminate].
  - destruct (N.eqb x y) eqn:E; [|discriminate]. apply N.eqb_eq in E. subst y.
    rewrite N.ltb_irrefl, N.eqb_refl. intros H1 H2. f_equal. apply IH; assumption.
Qed.

Lemma text_leb_trans a : forall b c, text_leb a b = true -> text_leb b c = true -> text_leb a c = true.
Proof.
  induction a as [|x a IH]; intros [|y b] [|z c]; simpl; try discriminate; auto.
  destruct (N.ltb x y) eqn:L1.
  - apply N.ltb_lt in L1. intros _. destruct (N.ltb y z) eqn:L2.
    + apply N.ltb_lt in L2. intros _. assert (H : N.ltb x z = true) by (apply N.ltb_lt; lia). rewrite H. reflexivity.
    + destruct (N.eqb y z) eqn:E; [|discriminate]. apply N.eqb_eq in E. subst z. intros _.
      assert (H : N.ltb x y = true) by (apply N.ltb_lt; lia). rewrite H. reflexivity.
  - destruct (N.eqb x y) eqn:E; [|discriminate]. apply N.eqb_eq in E. subst y. intros H1.
    destruct (N.ltb x z); [reflexivity|]. destruct (N.eqb x z); [|discriminate]. intros H2. eapply IH; eassumption.
Qed.

(* sorted(names) *)
Definition sort_names : list text -> list text := isort text text_leb.

Theorem sort_names_canonical l1 l2 : Permutation l1 l2 -> sort_names l1 = sort_names l2.
Proof. apply isort_canonical; [apply text_leb_total | apply text_leb_antisym | apply text_leb_trans]. Qed.

Lemma sort_names_perm l : Permutation (sort_names l) l.
Proof. apply isort_perm. Qed.
