(* C06 refinement proof, part 17: let: the binding loop. *)
From HyV Require Import Base.Text Scope.SetDecl Scope.OuterVars Scope.Machine Scope.MachineFacts Scope.Walk Scope.Lexical Scope.Refine.
From Coq Require Import Permutation.
From HyV Require Import Scope.RefineP01 Scope.RefineP02 Scope.RefineP03 Scope.RefineP04 Scope.RefineP05 Scope.RefineP06 Scope.RefineP07 Scope.RefineP08 Scope.RefineP09 Scope.RefineP10 Scope.RefineP11 Scope.RefineP12 Scope.RefineP13 Scope.RefineP14 Scope.RefineP15 Scope.RefineP16.
Local Open Scope nat_scope.

Section LetLoop.
Variable fresh : name -> nat -> name.
Variable user : name -> bool.
Hypothesis fresh_nonuser : forall x k, user (fresh x k) = false.

Notation good := (good user).
Notation step := (step (fun l : list name => l) OSorted).
Notation run := (run (fun l : list name => l) OSorted).
Notation Pform := (Pform fresh user).
Notation Plist := (Plist fresh user).
Notation postc := (postc user).

Lemma good_w ctx st w w' : good ctx st w -> w_sid w = w_sid w' -> good ctx st w'.
Proof. intros G E. eapply good_wmono; [exact G | lia]. Qed.

Lemma let_loop ctx sid body : Plist body -> forall bs, Forall (fun b => Pform (snd b)) bs ->
  forall cur st w rest,
  good ctx st w -> let_parked st sid cur rest -> sid < w_sid w ->
  (forall k v, In (k, v) cur -> user k = true) -> (forall k v, In (k, v) cur -> user v = false) ->
  (forall x e, In (x, e) bs -> user x = true /\ names_user user e) -> names_user_l user body ->
  covers user ctx (let_assigned bs body (map fst cur ++ inner_of ctx)) ->
  l_ok (lex_binds fresh body bs (cur ++ env_of ctx) (map fst cur ++ inner_of ctx) (w_let w)) = true ->
  let a := fst (binds_of fresh sid bs w) in let w1 := snd (binds_of fresh sid bs w) in
  let evs := a ++ [EEnter KLet sid []] ++ fst (events_of_list fresh body w1) ++ [EExit] in
  postc ctx st (run evs st) w (snd (events_of_list fresh body w1))
        (lex_binds fresh body bs (cur ++ env_of ctx) (map fst cur ++ inner_of ctx) (w_let w))
        (let_assigned bs body (map fst cur ++ inner_of ctx))
  /\ exists dead s', st_susp (run evs st) = s' :: dead ++ rest.
Proof.
  intros PB bs HF. induction HF as [|[x e] r He Hr IH]; intros cur st w rest G P Hs Hk Hv Hn Hu Hc Hok.
  - cbn [binds_of fst snd lex_binds let_assigned app]. apply (let_body fresh user ctx sid body cur st w rest PB G P Hs Hk Hv Hu Hc Hok).
  - cbn [snd] in He. destruct (Hn x e (or_introl eq_refl)) as [Hux Hue].
    cbn [let_assigned] in Hc. destruct (covers_app user _ _ _ Hc) as [Hc1 Hc2].
    cbn [lex_binds l_ok] in Hok. apply andb_true_iff in Hok. destruct Hok as [Ok1 Ok2].
    (* enter the let for the value *)
    destruct (step_enter_let user ctx st w sid cur rest G P Hs Hk Hv) as [G1 [F1 [S1 [T1 I1]]]].
    set (st1 := step st (EEnter KLet sid [])) in *. set (ctx1 := FrLet sid cur :: ctx) in *.
    assert (Hc1' : covers user ctx1 (assigned (inner_of ctx1) e)) by (intros y Hy; apply own_allows_let; apply Hc1; exact Hy).
    pose proof (He ctx1 st1 w G1 Hue Hc1' Ok1) as PE.
    cbn [binds_of lex_binds]. destruct (events_of fresh e w) as [a w1] eqn:Ea. cbn [fst snd] in PE.
    destruct PE as [G2 [K2 [Sd2 [F2 [A2 [M2 [[d2 D2] I2]]]]]]].
    set (st2 := run a st1) in *.
    (* leave it, add the binding, assign the new variable in the enclosing scope *)
    destruct (step_exit_let user ctx sid cur st2 w1 G2) as [s [E3 [S3 [Is [Ks [Sns [Hbs [G3 F3]]]]]]]].
    set (st3 := step st2 EExit) in *.
    set (new := fresh x (w_let w1)).
    destruct (step_let_add user ctx st3 w1 sid s (st_susp st2) x new G3 S3 Is Ks) as [G4 [F4 [T4 S4]]].
    set (st4 := step st3 (ELetAdd sid x new)) in *.
    assert (Hnew : user new = false) by apply fresh_nonuser.
    destruct (run_target user ctx st4 w1 new G4) as [G5 [F5 [S5 [_ [M5 I5]]]]].
    { intros _. apply own_allows_nonuser. exact Hnew. }
    set (st5 := run [EAccess new; EAssignSame] st4) in *.
    (* the rest of the bindings and the body *)
    set (w' := W (w_sid w1) (S (w_let w1))).
    set (cur' := (x, new) :: cur).
    set (rest' := d2 ++ rest).
    assert (P5 : let_parked st5 sid cur' rest').
    { right. exists (with_bindings s (dict_set x new (s_bindings s))).
      split; [etransitivity; [exact S5|]; etransitivity; [exact S4|]; f_equal; etransitivity; [exact D2|]; unfold rest'; f_equal; exact S1|].
      cbn [s_id s_kind s_seen s_bindings with_bindings]. split; [exact Is|]. split; [exact Ks|]. split; [exact Sns|].
      intros y. rewrite lookup_dict_set. unfold cur'. cbn [lookup]. destruct (text_eqb y x); [reflexivity | apply Hbs]. }
    assert (Hk' : forall k v, In (k, v) cur' -> user k = true) by (intros k v [E|Hin]; [inversion E; subst; exact Hux | apply (Hk k v Hin)]).
    assert (Hv' : forall k v, In (k, v) cur' -> user v = false) by (intros k v [E|Hin]; [inversion E; subst; exact Hnew | apply (Hv k v Hin)]).
    assert (Hn' : forall y f, In (y, f) r -> user y = true /\ names_user user f) by (intros y f Hin; apply Hn; right; exact Hin).
    assert (Hs' : sid < w_sid w') by (unfold w'; cbn [w_sid]; lia).
    pose proof K2 as K2'. unfold ctx1 in K2'. cbn [env_of inner_of] in K2'. rewrite <- K2' in Ok2 |- *.
    specialize (IH cur' st5 w' rest' (good_w ctx st5 w1 w' G5 eq_refl) P5 Hs' Hk' Hv' Hn' Hu Hc2 Ok2).
    destruct (binds_of fresh sid r w') as [b w2] eqn:Eb. cbn [fst snd] in IH |- *.
    destruct IH as [[G6 [K6 [Sd6 [F6 [A6 [M6 I6]]]]]] [dead [s' D6]]].
    (* put the event list back together *)
    match goal with |- context [run ?evs st] =>
      replace (run evs st) with (run (b ++ [EEnter KLet sid []] ++ fst (events_of_list fresh body w2) ++ [EExit]) st5)
    end.
    2:{ unfold st5, st4, st3, st2, st1. cbn [target_events]. repeat rewrite <- app_assoc. rewrite !run_app. reflexivity. }
    split.
    + unfold RefineP16.postc. cbn [l_cells l_let let_assigned].
      split; [exact G6|]. split; [exact K6|]. split; [unfold w' in Sd6; cbn [w_sid] in Sd6; lia|].
      split.
      { assert (FN5 : fin_names ctx st5 = (fin_names ctx st ++ map (hd []) (l_cells (lexf fresh e (env_of ctx1) (inner_of ctx1) (w_let w)))) ++ [new; new]).
        { etransitivity; [exact F5|]. rewrite (up_nonuser user ctx new (g_user _ _ _ _ G) Hnew). f_equal.
          etransitivity; [exact F4|]. etransitivity; [exact F3|]. etransitivity; [exact F2|]. f_equal. exact F1. }
        etransitivity; [exact F6|]. rewrite FN5. unfold ctx1. cbn [env_of inner_of target_cells].
        rewrite !map_app. cbn [map hd]. rewrite <- !app_assoc. reflexivity. }
      split.
      { intros y Hy. apply in_app_or in Hy. destruct Hy as [Hy|Hy]; [|apply A6; exact Hy].
        apply (ndef_smono _ _ M6). apply (ndef_smono _ _ M5). rewrite T4.
        specialize (A2 y Hy). rewrite E3 in A2. cbn [ndef] in A2. rewrite Ks in A2. exact A2. }
      split.
      { eapply smono_trans; [|exact M6]. eapply smono_trans; [|exact M5]. rewrite T4.
        pose proof (smono_tl _ _ M2) as X. rewrite T1 in X. rewrite E3 in X. cbn [tl] in X. exact X. }
      etransitivity; [exact I6|]. etransitivity; [exact I5|]. rewrite T4.
      assert (X : map s_id (st_stack st2) = sid :: map s_id (st_stack st)) by (etransitivity; [exact I2 | exact I1]).
      rewrite E3 in X. cbn [map] in X. inversion X. reflexivity.
    + exists (dead ++ d2), s'. rewrite D6. unfold rest'. rewrite app_assoc. reflexivity.
Qed.

End LetLoop.
