(* C06 refinement proof, part 15: let: enter / exit / add. *)
From HyV Require Import Base.Text Scope.SetDecl Scope.OuterVars Scope.Machine Scope.MachineFacts Scope.Walk Scope.Lexical Scope.Refine.
From Coq Require Import Permutation.
From HyV Require Import Scope.RefineP01 Scope.RefineP02 Scope.RefineP03 Scope.RefineP04 Scope.RefineP05 Scope.RefineP06 Scope.RefineP07 Scope.RefineP08 Scope.RefineP09 Scope.RefineP10 Scope.RefineP11 Scope.RefineP12 Scope.RefineP13 Scope.RefineP14.
Local Open Scope nat_scope.

Section LetProto.
Variable user : name -> bool.
Notation srel := (srel user).
Notation good := (good user).
Notation step := (step (fun l : list name => l) OSorted).

(* the let scope [sid] with bindings [cur] is either not created yet or suspended at the head of susp *)
Definition let_parked (st : state) (sid : nat) (cur : env) (rest : list scope) : Prop :=
  (cur = [] /\ ~ In sid (map s_id (st_stack st ++ st_susp st)) /\ rest = st_susp st)
  \/ (exists s, st_susp st = s :: rest /\ s_id s = sid /\ s_kind s = KLet /\ s_seen s = []
                /\ forall y, lookup y (s_bindings s) = lookup y cur).

Lemma step_enter_let ctx st w sid cur rest : good ctx st w -> let_parked st sid cur rest -> sid < w_sid w ->
  (forall k v, In (k, v) cur -> user k = true) -> (forall k v, In (k, v) cur -> user v = false) ->
  let st' := step st (EEnter KLet sid []) in
  good (FrLet sid cur :: ctx) st' w
  /\ fin_names (FrLet sid cur :: ctx) st' = fin_names ctx st
  /\ st_susp st' = rest
  /\ tl (st_stack st') = st_stack st
  /\ map s_id (st_stack st') = sid :: map s_id (st_stack st).
Proof.
  intros G P Hs Hk Hv. destruct G as [Ge Gr Gs Gl Gc Gi Gn Gu Gv]. unfold step. rewrite Ge. unfold enter.
  destruct P as [[-> [Hn ->]]|[s [Es [I [K [Sn Hb]]]]]].
  - rewrite take_susp_none.
    2:{ intros i Hi E. apply Hn. rewrite map_app. apply in_or_app. right. subst i. exact Hi. }
    cbn [st_err st_stack st_cells st_susp].
    split; [|split; [|split; [reflexivity | split; reflexivity]]].
    + constructor; cbn [st_err st_stack st_cells st_susp]; auto.
      * cbn [RefineP03.srel new_scope s_kind s_id s_seen s_bindings]. repeat split; auto.
      * intros s' r [<-|Hs'] Hr; [destruct Hr | apply (Gs s' r Hs' Hr)].
      * intros sid' own lo [E|Hin]; [discriminate E | apply (Gl sid' own lo Hin)].
      * intros i [<-|Hi]; [cbn; exact Hs | apply Gi; exact Hi].
      * cbn [map app new_scope s_id]. constructor; assumption.
      * cbn [ctx_user]. split; assumption.
      * cbn [ctx_vals]. split; assumption.
    + unfold fin_names. reflexivity.
  - rewrite Es. cbn [take_susp]. rewrite I, Nat.eqb_refl. cbn [st_err st_stack st_cells st_susp].
    split; [|split; [|split; [reflexivity | split; [reflexivity | cbn [map]; rewrite I; reflexivity]]]].
    + constructor; cbn [st_err st_stack st_cells st_susp]; auto.
      * cbn [RefineP03.srel]. repeat split; auto.
      * intros s' r [<-|Hs'] Hr; [rewrite Sn in Hr; destruct Hr | apply (Gs s' r Hs' Hr)].
      * intros sid' own lo [E|Hin]; [discriminate E | apply (Gl sid' own lo Hin)].
      * intros i Hi. apply Gi. rewrite Es. rewrite map_app in *. cbn [map app] in *.
        destruct Hi as [<-|Hi]; [apply in_or_app; right; left; reflexivity|].
        apply in_app_or in Hi. apply in_or_app. destruct Hi as [Hi|Hi]; [left; exact Hi | right; right; exact Hi].
      * rewrite Es in Gn. rewrite map_app in *. cbn [map app] in *.
        eapply Permutation_NoDup; [|exact Gn]. apply Permutation_sym. apply Permutation_middle.
      * cbn [ctx_user]. split; assumption.
      * cbn [ctx_vals]. split; assumption.
    + unfold fin_names. reflexivity.
Qed.

Lemma step_exit_let ctx sid cur st w : good (FrLet sid cur :: ctx) st w ->
  let st' := step st EExit in
  exists s, st_stack st = s :: st_stack st' /\ st_susp st' = s :: st_susp st
    /\ s_id s = sid /\ s_kind s = KLet /\ s_seen s = [] /\ (forall y, lookup y (s_bindings s) = lookup y cur)
    /\ good ctx st' w
    /\ fin_names ctx st' = fin_names (FrLet sid cur :: ctx) st.
Proof.
  intros G. destruct G as [Ge Gr Gs Gl Gc Gi Gn Gu Gv]. unfold step. rewrite Ge. unfold exit_scope.
  destruct (st_stack st) as [|s rest] eqn:Es; [destruct Gr|]. destruct Gr as [K [I [Sn [Hb H]]]]. rewrite K.
  cbn [st_err st_stack st_cells st_susp]. exists s.
  split; [reflexivity|]. split; [reflexivity|]. split; [exact I|]. split; [exact K|]. split; [exact Sn|]. split; [exact Hb|].
  destruct Gu as [Gu1 Gu2]. destruct Gv as [Gv1 Gv2].
  split.
  - constructor; cbn [st_err st_stack st_cells st_susp]; auto.
    + eapply seen_below_tl. exact Gs.
    + eapply lo_ok_tl. exact Gl.
    + intros i Hi. apply Gi. rewrite map_app in *. cbn [map app] in *.
      apply in_app_or in Hi. destruct Hi as [Hi|[<-|Hi]]; [right; apply in_or_app; left; exact Hi | left; reflexivity | right; apply in_or_app; right; exact Hi].
    + rewrite map_app in *. cbn [map app] in *. eapply Permutation_NoDup; [|exact Gn]. apply Permutation_middle.
  - unfold fin_names. cbn [st_stack st_cells]. rewrite Es. reflexivity.
Qed.

Lemma step_let_add ctx st w sid s rest x new : good ctx st w -> st_susp st = s :: rest -> s_id s = sid -> s_kind s = KLet ->
  let st' := step st (ELetAdd sid x new) in
  good ctx st' w /\ fin_names ctx st' = fin_names ctx st /\ st_stack st' = st_stack st
  /\ st_susp st' = with_bindings s (dict_set x new (s_bindings s)) :: rest.
Proof.
  intros G Es I K. subst sid. destruct G as [Ge Gr Gs Gl Gc Gi Gn Gu Gv]. unfold step. rewrite Ge. unfold let_add.
  rewrite Es in *. rewrite map_app in Gn. cbn [map] in Gn. pose proof (NoDup_remove_2 _ _ _ Gn) as Gn2.
  assert (N1 : forall i, In i (map s_id (st_stack st)) -> i <> s_id s).
  { intros i Hi E. subst i. apply Gn2. apply in_or_app. left. exact Hi. }
  assert (N2 : forall i, In i (map s_id rest) -> i <> s_id s).
  { intros i Hi E. subst i. apply Gn2. apply in_or_app. right. exact Hi. }
  rewrite (let_add_in_none (s_id s) x new (st_stack st) N1).
  rewrite (let_add_in_head (s_id s) x new s rest eq_refl K N2). cbn [orb st_err st_stack st_cells st_susp].
  split; [|split; [|split]]; try reflexivity.
  constructor; cbn [st_err st_stack st_cells st_susp]; auto.
  - intros i Hi. apply Gi. rewrite map_app in *. cbn [map s_id with_bindings] in *. exact Hi.
  - rewrite map_app. cbn [map s_id with_bindings]. exact Gn.
Qed.

End LetProto.
