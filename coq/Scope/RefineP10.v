(* C06 refinement proof, part 10: ScopeFn.__exit__: every pending node gets the name it had coming. *)
From HyV Require Import Base.Text Scope.SetDecl Scope.OuterVars Scope.Machine Scope.MachineFacts Scope.Walk Scope.Lexical Scope.Refine.
From HyV Require Import Scope.RefineP01 Scope.RefineP02 Scope.RefineP03 Scope.RefineP04 Scope.RefineP05 Scope.RefineP06 Scope.RefineP07.
Local Open Scope nat_scope.

Section Exit.
Variable user : name -> bool.
Notation srel := (srel user).

Definition pending (stk : list scope) : list nat := flat_map (fun s => map nr_label (s_seen s)) stk.

Lemma pending_in stk l : In l (pending stk) <-> exists s r, In s stk /\ In r (s_seen s) /\ nr_label r = l.
Proof.
  unfold pending. rewrite in_flat_map. split.
  - intros [s [Hs Hl]]. apply in_map_iff in Hl. destruct Hl as [r [E Hr]]. exists s, r. auto.
  - intros [s [r [Hs [Hr E]]]]. exists s. split; [exact Hs|]. apply in_map_iff. exists r. auto.
Qed.

Lemma in_seen_false_iff l s : in_seen l s = false <-> ~ In l (map nr_label (s_seen s)).
Proof.
  unfold in_seen. split.
  - intros H Hin. apply in_map_iff in Hin. destruct Hin as [r [E Hr]].
    assert (X : existsb (fun r0 => Nat.eqb (nr_label r0) l) (s_seen s) = true)
      by (apply existsb_exists; exists r; split; [exact Hr | apply Nat.eqb_eq; exact E]).
    congruence.
  - intros H. destruct (existsb _ _) eqn:E; [|reflexivity]. exfalso. apply H.
    apply existsb_exists in E. destruct E as [r [Hr E]]. apply Nat.eqb_eq in E. apply in_map_iff. exists r. auto.
Qed.

Lemma evt_not_pending ctx : forall stk c l, ~ In l (pending stk) -> evt ctx stk c l = name_of c (NR l 0).
Proof.
  induction ctx as [|[sid bs|sid own lo] ctx IH]; intros stk c l H; destruct stk as [|s stk]; cbn [evt]; try reflexivity.
  - apply IH. intros Hin. apply H. unfold pending. cbn [flat_map]. apply in_or_app. right. exact Hin.
  - assert (E : in_seen l s = false).
    { apply in_seen_false_iff. intros Hin. apply H. unfold pending. cbn [flat_map]. apply in_or_app. left. exact Hin. }
    rewrite E. apply IH. intros Hin. apply H. unfold pending. cbn [flat_map]. apply in_or_app. right. exact Hin.
Qed.

Lemma acc_pending ctx : forall stk l n l', srel ctx stk ->
  In l' (pending (fst (acc ctx stk (NR l 0) n))) -> In l' (pending stk) \/ l' = l.
Proof.
  induction ctx as [|[sid bs|sid own lo] ctx IH]; intros stk l n l' H Hin.
  - destruct stk as [|g [|g2 t]]; [destruct H| |destruct H]. left. exact Hin.
  - destruct stk as [|s stk]; [destruct H|]. destruct H as [K [I [Sn [Hbs H]]]]. cbn [acc] in Hin.
    destruct (lookup n bs); [left; exact Hin|].
    specialize (IH stk l n l' H). destruct (acc ctx stk (NR l 0) n) as [t m]. cbn [fst] in *.
    unfold pending in *. cbn [flat_map] in *. apply in_app_or in Hin. destruct Hin as [Hin|Hin].
    + left. apply in_or_app. left. exact Hin.
    + destruct (IH Hin) as [A|A]; [left; apply in_or_app; right; exact A | right; exact A].
  - destruct stk as [|s stk]; [destruct H|]. cbn [acc fst] in Hin. unfold pending in *. cbn [flat_map s_seen with_seen] in *.
    apply in_app_or in Hin. destruct Hin as [Hin|Hin].
    + rewrite map_app in Hin. apply in_app_or in Hin. destruct Hin as [Hin|[E|[]]].
      * left. apply in_or_app. left. exact Hin.
      * right. cbn in E. congruence.
    + left. apply in_or_app. right. exact Hin.
Qed.

Lemma NoDup_snoc (ls : list nat) l : NoDup ls -> ~ In l ls -> NoDup (ls ++ [l]).
Proof.
  intros H. induction H as [|x r Hx Hr IH]; intros Hn; cbn; [constructor; [intros []|constructor]|].
  constructor.
  - intros Hin. apply in_app_or in Hin. destruct Hin as [Hin|[E|[]]]; [exact (Hx Hin)|]. apply Hn. left. symmetry. exact E.
  - apply IH. intros X. apply Hn. right. exact X.
Qed.

Lemma acc_srel' ctx : forall stk l n, srel ctx stk -> ~ In l (pending stk) -> lo_ok ctx l ->
  srel ctx (fst (acc ctx stk (NR l 0) n)).
Proof.
  induction ctx as [|[sid bs|sid own lo] ctx IH]; intros stk l n H Hp Hlo.
  - destruct stk as [|g [|g2 t]]; [destruct H| |destruct H]. exact H.
  - destruct stk as [|s stk]; [destruct H|]. destruct H as [K [I [Sn [Hbs H]]]]. cbn [acc].
    destruct (lookup n bs); [cbn [fst srel]; auto|].
    assert (Hp' : ~ In l (pending stk)) by (intros X; apply Hp; unfold pending; cbn [flat_map]; apply in_or_app; right; exact X).
    specialize (IH stk l n H Hp' (lo_ok_tl _ _ _ Hlo)). destruct (acc ctx stk (NR l 0) n) as [t m]. cbn [fst srel] in *. auto.
  - destruct stk as [|s stk]; [destruct H|]. destruct H as [K [I [Nl [D [Sn [Nd [Sb [Lk H]]]]]]]]. cbn [acc fst].
    cbn [srel s_kind s_id s_defined s_seen s_nonlocal with_seen].
    split; [exact K|]. split; [exact I|]. split; [exact Nl|]. split; [exact D|]. split; [|split; [|split; [exact Sb | split; [exact Lk | exact H]]]].
    + intros r Hr. apply in_app_or in Hr. destruct Hr as [Hr|[<-|[]]]; [apply (Sn r Hr)|].
      cbn [nr_index nr_label]. split; [reflexivity | eapply Hlo; left; reflexivity].
    + rewrite map_app. cbn [map nr_label]. apply NoDup_snoc; [exact Nd|].
      intros X. apply Hp. unfold pending. cbn [flat_map]. apply in_or_app. left. exact X.
Qed.

Lemma acc_evt_new' ctx : forall stk l n c', srel ctx stk -> ~ In l (pending stk) ->
  name_of c' (NR l 0) = snd (acc ctx stk (NR l 0) n) ->
  evt ctx (fst (acc ctx stk (NR l 0) n)) c' l = up ctx n.
Proof.
  induction ctx as [|[sid bs|sid own lo] ctx IH]; intros stk l n c' H Hp Hn.
  - destruct stk as [|g [|g2 t]]; [destruct H| |destruct H]. cbn [acc fst snd evt up] in *. exact Hn.
  - destruct stk as [|s stk]; [destruct H|]. destruct H as [K [I [Sn [Hbs H]]]]. cbn [acc up] in *.
    assert (Hp' : ~ In l (pending stk)) by (intros X; apply Hp; unfold pending; cbn [flat_map]; apply in_or_app; right; exact X).
    destruct (lookup n bs) as [m|].
    + cbn [fst snd evt] in *. rewrite evt_not_pending; [exact Hn | exact Hp'].
    + specialize (IH stk l n c' H Hp'). destruct (acc ctx stk (NR l 0) n) as [t m]. cbn [fst snd evt] in *. apply IH. exact Hn.
  - destruct stk as [|s stk]; [destruct H|]. cbn [acc fst snd evt up] in *.
    rewrite in_seen_app. cbn [nr_label]. rewrite Nat.eqb_refl, orb_true_r. rewrite Hn. reflexivity.
Qed.

Lemma sremove_all_nil (d : fset) : sremove_all d [] = d.
Proof.
  unfold sremove_all. induction d as [|x r IH]; [reflexivity|].
  cbn [filter smem existsb negb]. f_equal. exact IH.
Qed.


End Exit.

Section Exit2.
Variable user : name -> bool.
Notation srel := (srel user).

Lemma length_set_nth {A} i (v : A) l : length (set_nth i v l) = length l.
Proof. revert i. induction l as [|x r IH]; intros i; [destruct i; reflexivity|]. destruct i; cbn; [reflexivity | f_equal; apply IH]. Qed.

Lemma nth_set_nth_other {A} (d : A) i j v l : i <> j -> nth j (set_nth i v l) d = nth j l d.
Proof.
  revert i j. induction l as [|x r IH]; intros i j H; [destruct i; reflexivity|].
  destruct i, j; cbn; try reflexivity; [lia | apply IH; lia].
Qed.

Lemma length_set_name c r n : length (set_name c r n) = length c.
Proof. unfold set_name, set_cell. apply length_set_nth. Qed.

Lemma name_of_set_name_other c l l' n : l <> l' -> name_of (set_name c (NR l 0) n) (NR l' 0) = name_of c (NR l' 0).
Proof.
  intros H. unfold name_of, set_name, set_cell, cell_names. cbn [nr_label nr_index].
  rewrite nth_set_nth_other by exact H. reflexivity.
Qed.

Lemma cells_ok_nth c l : cells_ok c -> l < length c -> length (nth l c []) = 1.
Proof. intros H Hl. unfold cells_ok in H. rewrite Forall_forall in H. apply H. apply nth_In. exact Hl. Qed.

Lemma valid_ref_ok c l : cells_ok c -> l < length c -> valid_ref c (NR l 0).
Proof. intros H Hl. unfold valid_ref, cell_names. cbn [nr_label nr_index]. split; [exact Hl|]. rewrite (cells_ok_nth c l H Hl). lia. Qed.

Lemma cells_ok_set_name c l n : cells_ok c -> l < length c -> cells_ok (set_name c (NR l 0) n).
Proof.
  intros H Hl. unfold cells_ok in *. rewrite Forall_forall in *. intros cell Hin.
  unfold set_name, set_cell, cell_names in Hin. cbn [nr_label nr_index] in Hin.
  apply In_nth with (d := []) in Hin. destruct Hin as [j [Hj E]]. rewrite length_set_nth in Hj.
  destruct (Nat.eq_dec l j) as [->|Hne].
  - rewrite nth_set_nth_same in E by exact Hj. subst cell. rewrite length_set_nth. apply H. apply nth_In. exact Hj.
  - rewrite nth_set_nth_other in E by exact Hne. subst cell. apply H. apply nth_In. exact Hj.
Qed.

Lemma acc_ndef ctx : forall stk r n, srel ctx stk -> ndef (fst (acc ctx stk r n)) = ndef stk.
Proof.
  induction ctx as [|[sid bs|sid own lo] ctx IH]; intros stk r n H.
  - destruct stk as [|g [|g2 t]]; [destruct H| |destruct H]. reflexivity.
  - destruct stk as [|s stk]; [destruct H|]. destruct H as [K [I [Sn [Hbs H]]]]. cbn [acc].
    destruct (lookup n bs); [reflexivity|]. specialize (IH stk r n H). destruct (acc ctx stk r n) as [t m].
    cbn [fst ndef] in *. rewrite K. exact IH.
  - destruct stk as [|s stk]; [destruct H|]. destruct H as [K _]. cbn [acc fst ndef s_kind with_seen s_defined]. rewrite K. reflexivity.
Qed.

Definition exit_fold (D : fset) (sl : list noderef) (a : list scope * cells) : list scope * cells :=
  fold_left (fun acc r => let '(st, cc) := acc in if smem (name_of cc r) D then (st, cc) else access st cc r) sl a.

Lemma exit_fold_cons D r todo stk c :
  exit_fold D (r :: todo) (stk, c) = exit_fold D todo (if smem (name_of c r) D then (stk, c) else access stk c r).
Proof. reflexivity. Qed.

Section Fold.
Variables (ctx : list frame) (own : list name) (D : fset) (lo N : nat) (c0 : cells).
Hypothesis Hu : ctx_user user ctx.
Hypothesis HD1 : forall n, smem n D = true -> smem n own = true \/ user n = false.
Hypothesis HD2 : forall n, smem n own = true -> smem n D = true.
Hypothesis Hlo : lo_ok ctx lo.

Definition target (c : cells) (l : nat) : name := let n := name_of c (NR l 0) in if smem n own then n else up ctx n.

Lemma exit_fold_inv : forall todo (stk : list scope) (c : cells),
  srel ctx stk -> length c = N -> cells_ok c ->
  NoDup (map nr_label todo) ->
  (forall r, In r todo -> nr_index r = 0 /\ lo <= nr_label r /\ nr_label r < N) ->
  (forall r, In r todo -> ~ In (nr_label r) (pending stk)) ->
  srel ctx (fst (exit_fold D todo (stk, c))) /\ length (snd (exit_fold D todo (stk, c))) = N /\ cells_ok (snd (exit_fold D todo (stk, c)))
  /\ (forall l, l < N ->
        (In l (map nr_label todo) -> evt ctx (fst (exit_fold D todo (stk, c))) (snd (exit_fold D todo (stk, c))) l = target c l)
        /\ (~ In l (map nr_label todo) -> evt ctx (fst (exit_fold D todo (stk, c))) (snd (exit_fold D todo (stk, c))) l = evt ctx stk c l))
  /\ (forall l, In l (pending (fst (exit_fold D todo (stk, c)))) -> In l (pending stk) \/ In l (map nr_label todo))
  /\ ndef (fst (exit_fold D todo (stk, c))) = ndef stk
  /\ map s_id (fst (exit_fold D todo (stk, c))) = map s_id stk
  /\ smono stk (fst (exit_fold D todo (stk, c))).
Proof.
  induction todo as [|r todo IH]; intros stk c Hr Hlen Hc Hnd Hv Hp.
  - cbn [exit_fold fold_left fst snd map]. repeat split; auto; try (intros []). apply smono_refl.
  - destruct r as [l i]. destruct (Hv (NR l i) (or_introl eq_refl)) as [Hi [Hll HlN]]. cbn [nr_index nr_label] in *. subst i.
    cbn [map nr_label] in Hnd. apply NoDup_cons_iff in Hnd. destruct Hnd as [Hnot Hnd'].
    assert (Hv' : forall r, In r todo -> nr_index r = 0 /\ lo <= nr_label r /\ nr_label r < N) by (intros r Hr'; apply Hv; right; exact Hr').
    assert (Hpl : ~ In l (pending stk)) by (apply (Hp (NR l 0)); left; reflexivity).
    rewrite exit_fold_cons.
    destruct (smem (name_of c (NR l 0)) D) eqn:ED.
    + (* the function itself binds the name: the node keeps it *)
      assert (Hp' : forall r, In r todo -> ~ In (nr_label r) (pending stk)) by (intros r Hr'; apply Hp; right; exact Hr').
      destruct (IH stk c Hr Hlen Hc Hnd' Hv' Hp') as [A [B [C [E [F [G [I Mo]]]]]]].
      split; [exact A|]. split; [exact B|]. split; [exact C|]. split; [|split; [|split; [exact G | split; [exact I | exact Mo]]]].
      * intros l' Hl'. destruct (E l' Hl') as [E1 E2]. cbn [map nr_label]. split.
        -- intros [<-|Hin]; [|apply E1; exact Hin].
           transitivity (evt ctx stk c l); [apply E2; exact Hnot|].
           rewrite evt_not_pending by exact Hpl. unfold target. cbn zeta.
           destruct (smem (name_of c (NR l 0)) own) eqn:EO; [reflexivity|].
           destruct (HD1 _ ED) as [X|X]; [congruence|]. symmetry. apply (up_nonuser user); assumption.
        -- intros Hn. apply E2. intros X. apply Hn. right. exact X.
      * intros l' Hl'. destruct (F l' Hl') as [X|X]; [left; exact X | right; right; exact X].
    + (* not bound by the function: the node goes to the parent scope *)
      assert (Hval : valid_ref c (NR l 0)) by (apply valid_ref_ok; [exact Hc | lia]).
      rewrite (access_acc user ctx stk c (NR l 0) Hr Hval).
      set (n := name_of c (NR l 0)) in *.
      set (stk1 := fst (acc ctx stk (NR l 0) n)). set (c1 := set_name c (NR l 0) (snd (acc ctx stk (NR l 0) n))).
      assert (Hr1 : srel ctx stk1) by (apply (acc_srel' user); [exact Hr | exact Hpl | eapply lo_ok_mono; [exact Hlo | exact Hll]]).
      assert (Hlen1 : length c1 = N) by (unfold c1; rewrite length_set_name; exact Hlen).
      assert (Hc1 : cells_ok c1) by (apply cells_ok_set_name; [exact Hc | lia]).
      assert (Hp1 : forall r, In r todo -> ~ In (nr_label r) (pending stk1)).
      { intros r Hr' X. destruct (acc_pending user ctx stk l n (nr_label r) Hr X) as [Y|Y].
        - apply (Hp r); [right; exact Hr' | exact Y].
        - apply Hnot. rewrite <- Y. apply in_map. exact Hr'. }
      destruct (IH stk1 c1 Hr1 Hlen1 Hc1 Hnd' Hv' Hp1) as [A [B [C [E [F [G [I Mo]]]]]]].
      split; [exact A|]. split; [exact B|]. split; [exact C|]. split; [|split; [|split; [|split]]].
      * intros l' Hl'. destruct (E l' Hl') as [E1 E2]. cbn [map nr_label]. split.
        -- intros [<-|Hin].
           ++ transitivity (evt ctx stk1 c1 l); [apply E2; exact Hnot|].
              unfold stk1, c1. rewrite (acc_evt_new' user ctx stk l n _ Hr Hpl).
              ** unfold target. cbn zeta. fold n. destruct (smem n own) eqn:EO; [|reflexivity].
                 rewrite (HD2 _ EO) in ED. discriminate.
              ** apply name_of_set_name. exact Hval.
           ++ transitivity (target c1 l'); [apply E1; exact Hin|]. unfold target. cbn zeta. unfold c1.
              assert (Hne : l <> l') by (intros ->; exact (Hnot Hin)).
              rewrite name_of_set_name_other by exact Hne. reflexivity.
        -- intros Hn. assert (Hne : l' <> l) by (intros ->; apply Hn; left; reflexivity).
           transitivity (evt ctx stk1 c1 l'); [apply E2; intros X; apply Hn; right; exact X|].
           unfold stk1, c1. apply (acc_evt_old user); [exact Hr | exact Hne |]. apply name_of_set_name_other. lia.
      * intros l' Hl'. destruct (F l' Hl') as [X|X]; [|right; right; exact X].
        destruct (acc_pending user ctx stk l n l' Hr X) as [Y|Y]; [left; exact Y | right; left; symmetry; exact Y].
      * transitivity (ndef stk1); [exact G | apply acc_ndef; exact Hr].
      * transitivity (map s_id stk1); [exact I | apply (acc_ids user); exact Hr].
      * eapply smono_trans; [apply (acc_smono user); exact Hr | exact Mo].
Qed.
End Fold.
End Exit2.
