(* C06 refinement proof, part 8: the statement (post / Pform / Plist) and sequencing. *)
From HyV Require Import Base.Text Scope.SetDecl Scope.OuterVars Scope.Machine Scope.MachineFacts Scope.Walk Scope.Lexical Scope.Refine.
From HyV Require Import Scope.RefineP01 Scope.RefineP02 Scope.RefineP03 Scope.RefineP04 Scope.RefineP05 Scope.RefineP06 Scope.RefineP07.
Local Open Scope nat_scope.

Section Main.
Variable fresh : name -> nat -> name.
Variable user : name -> bool.
Hypothesis fresh_nonuser : forall x k, user (fresh x k) = false.

Notation srel := (srel user).
Notation good := (good user).
Notation step := (step (fun l : list name => l) OSorted).
Notation run := (run (fun l : list name => l) OSorted).

Lemma run_app a b st : run (a ++ b) st = run b (run a st).
Proof. unfold Machine.run. apply fold_left_app. Qed.

Definition names_user (f : form) : Prop := forall x, In x (names_of f) -> user x = true.
Definition names_user_l (fs : list form) : Prop := forall x, In x (flat_map names_of fs) -> user x = true.
Definition covers (ctx : list frame) (xs : list name) : Prop := forall x, In x xs -> own_allows user ctx x.

(* the statement, for one form / a list of forms / the part after the events *)
Definition post (ctx : list frame) (st st' : state) (w w' : wstate) (lx : lres) (asg : list name) : Prop :=
  good ctx st' w' /\ w_let w' = l_let lx /\ w_sid w <= w_sid w'
  /\ fin_names ctx st' = fin_names ctx st ++ map (hd []) (l_cells lx)
  /\ (forall x, In x asg -> smem x (ndef (st_stack st')) = true)
  /\ smono (st_stack st) (st_stack st')
  /\ (exists dead, st_susp st' = dead ++ st_susp st)
  /\ map s_id (st_stack st') = map s_id (st_stack st).

Definition Pform (f : form) : Prop := forall ctx st w,
  good ctx st w -> names_user f -> covers ctx (assigned (inner_of ctx) f) ->
  l_ok (lexf fresh f (env_of ctx) (inner_of ctx) (w_let w)) = true ->
  post ctx st (run (fst (events_of fresh f w)) st) w (snd (events_of fresh f w))
       (lexf fresh f (env_of ctx) (inner_of ctx) (w_let w)) (assigned (inner_of ctx) f).

Definition Plist (fs : list form) : Prop := forall ctx st w,
  good ctx st w -> names_user_l fs -> covers ctx (flat_map (assigned (inner_of ctx)) fs) ->
  l_ok (lex_list fresh fs (env_of ctx) (inner_of ctx) (w_let w)) = true ->
  post ctx st (run (fst (events_of_list fresh fs w)) st) w (snd (events_of_list fresh fs w))
       (lex_list fresh fs (env_of ctx) (inner_of ctx) (w_let w)) (flat_map (assigned (inner_of ctx)) fs).

Lemma post_refl ctx st w k : good ctx st w -> w_let w = k -> post ctx st st w w (L [] k true) [].
Proof.
  intros G E. unfold post. cbn [l_let l_cells map]. rewrite app_nil_r.
  split; [exact G|]. split; [exact E|]. split; [lia|]. split; [reflexivity|]. split; [intros x []|].
  split; [apply smono_refl|]. split; [exists []; reflexivity | reflexivity].
Qed.

Lemma good_wmono ctx st w w' : good ctx st w -> w_sid w <= w_sid w' -> good ctx st w'.
Proof.
  intros [Ge Gr Gs Gl Gc Gi Gn Gu Gv] H. constructor; auto. intros i Hi. specialize (Gi i Hi). lia.
Qed.

(* sequencing two posts *)
Lemma post_seq ctx st st1 st2 w w1 w2 la lb asga asgb :
  post ctx st st1 w w1 la asga -> post ctx st1 st2 w1 w2 lb asgb -> l_let la = w_let w1 ->
  post ctx st st2 w w2 (L (l_cells la ++ l_cells lb) (l_let lb) (l_ok la && l_ok lb)) (asga ++ asgb).
Proof.
  intros [G1 [K1 [S1 [F1 [A1 [M1 [[d1 D1] I1]]]]]]] [G2 [K2 [S2 [F2 [A2 [M2 [[d2 D2] I2]]]]]]] E.
  unfold post. cbn [l_cells l_let].
  split; [exact G2|]. split; [exact K2|]. split; [lia|].
  split; [rewrite F2, F1, map_app, app_assoc; reflexivity|].
  split; [intros x Hx; apply in_app_or in Hx; destruct Hx as [Hx|Hx]; [apply (ndef_smono _ _ M2), A1, Hx | apply A2, Hx]|].
  split; [eapply smono_trans; [exact M1 | exact M2]|].
  split; [exists (d2 ++ d1); rewrite D2, D1, app_assoc; reflexivity | congruence].
Qed.

Lemma names_user_cons f fs : names_user_l (f :: fs) -> names_user f /\ names_user_l fs.
Proof.
  intros H. split; intros x Hx; apply H; cbn [flat_map]; apply in_or_app; [left|right]; exact Hx.
Qed.

Lemma covers_app ctx a b : covers ctx (a ++ b) -> covers ctx a /\ covers ctx b.
Proof. intros H. split; intros x Hx; apply H; apply in_or_app; [left|right]; exact Hx. Qed.

Lemma Plist_of_Forall fs : Forall Pform fs -> Plist fs.
Proof.
  induction 1 as [|f r Hf Hr IH]; intros ctx st w G Hu Hc Hok.
  - cbn [events_of_list fst snd lex_list flat_map]. cbn [Machine.run fold_left]. apply post_refl; [exact G | reflexivity].
  - destruct (names_user_cons _ _ Hu) as [Hu1 Hu2]. cbn [flat_map] in Hc. destruct (covers_app _ _ _ Hc) as [Hc1 Hc2].
    cbn [lex_list l_ok] in Hok. apply andb_true_iff in Hok. destruct Hok as [Ok1 Ok2].
    cbn [events_of_list lex_list flat_map].
    specialize (Hf ctx st w G Hu1 Hc1 Ok1).
    destruct (events_of fresh f w) as [a w1] eqn:Ea. cbn [fst snd] in Hf.
    pose proof Hf as [G1 [K1 _]].
    rewrite <- K1 in Ok2 |- *.
    specialize (IH ctx (run a st) w1 G1 Hu2 Hc2 Ok2).
    destruct (events_of_list fresh r w1) as [b w2] eqn:Eb. cbn [fst snd] in *.
    rewrite run_app. eapply post_seq; [exact Hf | exact IH | symmetry; exact K1].
Qed.

End Main.
