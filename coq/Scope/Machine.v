(* The scope classes of hy/scoping.py as a state machine over scope events.

   ScopeGlobal / ScopeLet / ScopeFn (function or class) / ScopeGen are records
   on a stack (innermost first): `parent` of an active scope is the next stack
   entry, which is what ScopeBase.__enter__ establishes.  AST nodes that carry
   identifiers (Name, Global, OuterVar, MatchAs ...) are labelled mutable
   cells holding a list of names; a NodeRef is (label, index).  Renaming a
   node is writing its cell, so aliasing -- one node sitting in several
   `seen` / `assignments` lists -- behaves as in the code.

   A ScopeLet is entered and left several times by compile_let (once per
   binding value, once for the body); leaving one suspends it, entering it
   again resumes it, `add` reaches it wherever it is.  The new names that
   ScopeLet.add draws from compiler.get_anon_var are inputs of the machine
   (they come with the event).

   After the last event, [resolve_outervars] is ResolveOuterVars: it walks the
   final states of the ancestors of each OuterVar node (OuterVars.walk).
   Sets are [fset]s; the two places that iterate one take the order from
   [perm] ([ord_fin]: ScopeGen.finalize, [ord_ov]: visit_OuterVar). *)
From HyV Require Import Base.Text Scope.Sorting Scope.SetDecl Scope.OuterVars.

Definition name := text.

Record noderef := NR { nr_label : nat; nr_index : nat }.

Inductive skind := KGlobal | KLet | KFn | KClass | KGen.
Inductive decl_root := RGlobal | RNonlocal.

Record scope := Scope {
  s_id : nat;
  s_kind : skind;
  s_defined : fset;                  (* ScopeGlobal.defined / ScopeFn.defined *)
  s_gnonlocal : list name;           (* ScopeGlobal.nonlocal_vars (a list) *)
  s_bindings : list (name * name);   (* ScopeLet.bindings *)
  s_seen : list noderef;             (* ScopeFn.seen *)
  s_nonlocal : list name;            (* keys of ScopeFn.nonlocal_vars (a dict), insertion order *)
  s_iterators : fset;                (* ScopeGen.iterators *)
  s_assignments : list noderef;      (* ScopeGen.assignments *)
  s_exposing : bool                  (* ScopeGen.exposing_assignments *)
}.

Definition new_scope (sid : nat) (k : skind) : scope := Scope sid k [] [] [] [] [] [] [] false.

Definition with_defined (s : scope) d := Scope (s_id s) (s_kind s) d (s_gnonlocal s) (s_bindings s) (s_seen s) (s_nonlocal s) (s_iterators s) (s_assignments s) (s_exposing s).
Definition with_gnonlocal (s : scope) g := Scope (s_id s) (s_kind s) (s_defined s) g (s_bindings s) (s_seen s) (s_nonlocal s) (s_iterators s) (s_assignments s) (s_exposing s).
Definition with_bindings (s : scope) b := Scope (s_id s) (s_kind s) (s_defined s) (s_gnonlocal s) b (s_seen s) (s_nonlocal s) (s_iterators s) (s_assignments s) (s_exposing s).
Definition with_seen (s : scope) x := Scope (s_id s) (s_kind s) (s_defined s) (s_gnonlocal s) (s_bindings s) x (s_nonlocal s) (s_iterators s) (s_assignments s) (s_exposing s).
Definition with_nonlocal (s : scope) x := Scope (s_id s) (s_kind s) (s_defined s) (s_gnonlocal s) (s_bindings s) (s_seen s) x (s_iterators s) (s_assignments s) (s_exposing s).
Definition with_iterators (s : scope) x := Scope (s_id s) (s_kind s) (s_defined s) (s_gnonlocal s) (s_bindings s) (s_seen s) (s_nonlocal s) x (s_assignments s) (s_exposing s).
Definition with_assignments (s : scope) x := Scope (s_id s) (s_kind s) (s_defined s) (s_gnonlocal s) (s_bindings s) (s_seen s) (s_nonlocal s) (s_iterators s) x (s_exposing s).
Definition with_exposing (s : scope) x := Scope (s_id s) (s_kind s) (s_defined s) (s_gnonlocal s) (s_bindings s) (s_seen s) (s_nonlocal s) (s_iterators s) (s_assignments s) x.

(* ---- cells ---- *)
Definition cells := list (list name).

Definition cell_names (c : cells) (l : nat) : list name := nth l c [].
Definition name_of (c : cells) (r : noderef) : name := nth (nr_index r) (cell_names c (nr_label r)) [].

Fixpoint set_nth {A} (i : nat) (v : A) (l : list A) : list A :=
  match l, i with
  | [], _ => []
  | _ :: r, O => v :: r
  | x :: r, S j => x :: set_nth j v r
  end.

Definition set_cell (c : cells) (l : nat) (ns : list name) : cells := set_nth l ns c.
Definition set_name (c : cells) (r : noderef) (n : name) : cells :=
  set_cell c (nr_label r) (set_nth (nr_index r) n (cell_names c (nr_label r))).

(* ---- dict helpers ---- *)
Fixpoint lookup (k : name) (d : list (name * name)) : option name :=
  match d with
  | [] => None
  | (k', v) :: r => if text_eqb k k' then Some v else lookup k r
  end.
Fixpoint dict_set (k v : name) (d : list (name * name)) : list (name * name) :=
  match d with
  | [] => [(k, v)]
  | (k', v') :: r => if text_eqb k k' then (k, v) :: r else (k', v') :: dict_set k v r
  end.
Fixpoint dict_pop (k : name) (d : list (name * name)) : list (name * name) :=
  match d with
  | [] => []
  | (k', v') :: r => if text_eqb k k' then r else (k', v') :: dict_pop k r
  end.
Fixpoint remove_first (x : name) (l : list name) : list name :=
  match l with
  | [] => []
  | y :: r => if text_eqb x y then r else y :: remove_first x r
  end.
Definition sremove_all (s : fset) (ks : list name) : fset := filter (fun x => negb (smem x ks)) s.

(* ---- the scope interface: access / assign / define, innermost scope first ---- *)
Fixpoint access (stk : list scope) (c : cells) (r : noderef) : list scope * cells :=
  match stk with
  | [] => ([], c)
  | s :: rest =>
    match s_kind s with
    | KGlobal => (stk, c)
    | KLet =>
        match lookup (name_of c r) (s_bindings s) with
        | Some new => (stk, set_name c r new)
        | None => let '(rest', c') := access rest c r in (s :: rest', c')
        end
    | KFn | KClass => (with_seen s (s_seen s ++ [r]) :: rest, c)
    | KGen => if smem (name_of c r) (s_iterators s) then (stk, c) else (with_seen s (s_seen s ++ [r]) :: rest, c)
    end
  end.

Fixpoint assign (stk : list scope) (c : cells) (r : noderef) : list scope * cells :=
  match stk with
  | [] => ([], c)
  | s :: rest =>
    match s_kind s with
    | KGlobal => (with_defined s (sadd (name_of c r) (s_defined s)) :: rest, c)
    | KLet =>
        match lookup (name_of c r) (s_bindings s) with
        | Some new => (stk, set_name c r new)
        | None => let '(rest', c') := assign rest c r in (s :: rest', c')
        end
    | KFn | KClass =>
        let s1 := with_seen s (s_seen s ++ [r]) in
        (with_defined s1 (sadd (name_of c r) (s_defined s1)) :: rest, c)
    | KGen =>
        let s1 := if smem (name_of c r) (s_iterators s) then s else with_seen s (s_seen s ++ [r]) in
        let s2 := if smem (name_of c r) (s_defined s1) then s1 else with_assignments s1 (s_assignments s1 ++ [r]) in
        (s2 :: rest, c)
    end
  end.

Fixpoint define (stk : list scope) (x : name) : list scope :=
  match stk with
  | [] => []
  | s :: rest =>
    match s_kind s with
    | KLet => with_bindings s (dict_pop x (s_bindings s)) :: define rest x
    | _ => with_defined s (sadd x (s_defined s)) :: rest
    end
  end.

(* ScopeLet.define_nonlocal: `for name in list(node.names): if P name: node.names.remove(name)` --
   the loop runs over a copy, each removal takes the first occurrence out of the live list *)
Definition elide (P : name -> bool) (names : list name) : list name :=
  fold_left (fun acc x => if P x then remove_first x acc else acc) names names.

Inductive error :=
| ErrDeclAfterUse (x : name) (root : decl_root)   (* name 'x' is declared global/nonlocal after being used *)
| ErrNoBinding (x : name)                         (* no binding for nonlocal 'x' *)
| ErrStuck.                                       (* an event the scope stack cannot take (never produced by the compiler) *)

(* ScopeFn.define_nonlocal on the top scope [s] with parents [rest] *)
Definition fn_define_nonlocal (s : scope) (rest : list scope) (c : cells) (l : nat) (root : decl_root)
  : (list scope * cells) + error :=
  let names := cell_names c l in
  let s1 := match root with
            | RNonlocal => with_nonlocal s (supdate (s_nonlocal s) names)
            | RGlobal => with_defined s (supdate (s_defined s) names)
            end in
  match find (fun r => smem (name_of c r) names) (s_seen s1) with
  | Some r => inr (ErrDeclAfterUse (name_of c r) root)
  | None =>
    match root with
    | RGlobal => inl (s1 :: rest, c)
    | RNonlocal =>
        let '(rest', c') :=
          fold_left (fun acc i => let '(st, cc) := acc in access st cc (NR l i)) (seq 0 (length names)) (rest, c) in
        inl (s1 :: rest', c')
    end
  end.

(* ScopeLet.define_nonlocal: walk the run of let scopes starting at the top; [self] is true for the first *)
Fixpoint let_define_nonlocal (stk : list scope) (c : cells) (l : nat) (root : decl_root) (self : bool)
  : (list scope * cells) + error :=
  match stk with
  | [] => inr ErrStuck
  | s :: rest =>
    match s_kind s with
    | KLet =>
        let names := cell_names c l in
        match root with
        | RNonlocal =>
            let names' := if self then names
                          else elide (fun x => match lookup x (s_bindings s) with Some _ => true | None => false end) names in
            match let_define_nonlocal rest (set_cell c l names') l root false with
            | inl (rest', c') => inl (s :: rest', c')
            | inr e => inr e
            end
        | RGlobal =>
            let s' := with_bindings s (fold_left (fun b x => dict_set x x b) names (s_bindings s)) in
            match let_define_nonlocal rest c l root false with
            | inl (rest', c') => inl (s' :: rest', c')
            | inr e => inr e
            end
        end
    | KGlobal =>
        let names := cell_names c l in
        match root with
        | RNonlocal => inl (with_gnonlocal s (s_gnonlocal s ++ names) :: rest, c)
        | RGlobal => inl (with_defined s (supdate (s_defined s) names) :: rest, c)
        end
    | _ => fn_define_nonlocal s rest c l root
    end
  end.

Definition define_nonlocal (stk : list scope) (c : cells) (l : nat) (root : decl_root) :=
  let_define_nonlocal stk c l root true.

(* nearest_python_scope / is_function_scope / is_inside_function_scope *)
Fixpoint nearest_python_kind (stk : list scope) : skind :=
  match stk with
  | [] => KGlobal
  | s :: rest => match s_kind s with KLet | KGen => nearest_python_kind rest | k => k end
  end.
Fixpoint inside_function (stk : list scope) : bool :=
  match stk with
  | [] => false
  | s :: rest => match s_kind s with KGlobal => false | KFn => true | _ => inside_function rest end
  end.

Definition snapshot (s : scope) : pscope :=
  match s_kind s with
  | KGlobal => PGlobal (s_defined s)
  | KLet => PLet (map fst (s_bindings s))
  | KClass => PFn false (s_defined s)
  | _ => PFn true (s_defined s)
  end.

(* what compile_comprehension learns from the ScopeGen when it builds the generator function *)
Record fin_out := FinOut {
  fo_names : list name;       (* scope.finalize() *)
  fo_exposing : bool;         (* scope.exposing_assignments *)
  fo_nonlocal_stmt : bool;    (* is_inside_function_scope(scope.parent): Nonlocal rather than Global *)
  fo_gen_nonlocals : list name  (* sorted(scope.nonlocal_vars) *)
}.

Inductive event :=
| EEnter (k : skind) (sid : nat) (args : list name)   (* with scope: ; args = ScopeFn's parameter names *)
| EExit
| EAccess (x : name)              (* scope.access(Name(id=x)) *)
| EAssign (x : name)              (* scope.assign(Name(id=x)) *)
| EAssignSame                    (* _storeize: scope.assign(Name(id = n.id)) where n is the node just created by
                                    compiling the target symbol -- its name as already resolved by scope.access *)
| EAssignNode (l : nat) (x : name) (* Result.rename: an existing Name node gets id x, then scope.assign(node) *)
| EDefine (x : name)
| EDecl (root : decl_root) (names : list name)
| ELetAdd (sid : nat) (x new : name)   (* let_scope.add(x) -> new *)
| EIterator (xs : list name)
| EFinalize.

Record state := State {
  st_stack : list scope;
  st_susp : list scope;                       (* let scopes that were left and may be entered again *)
  st_cells : cells;
  st_finals : list (nat * pscope);            (* final state of every scope that was left, latest first *)
  st_outervars : list (nat * list nat);       (* OuterVar label, ids of the ancestors of node._scope *)
  st_fin : list fin_out;
  st_err : option error
}.

Definition init_state : state := State [new_scope 0 KGlobal] [] [] [] [] [] None.

Section Machine.
Variable perm : list name -> list name.
Variable ord_fin : order_kind.

Definition set_err (st : state) (e : error) : state :=
  State (st_stack st) (st_susp st) (st_cells st) (st_finals st) (st_outervars st) (st_fin st) (Some e).
Definition upd (st : state) (stk : list scope) (c : cells) : state :=
  State stk (st_susp st) c (st_finals st) (st_outervars st) (st_fin st) (st_err st).

Fixpoint take_susp (sid : nat) (l : list scope) : option scope * list scope :=
  match l with
  | [] => (None, [])
  | s :: r => if Nat.eqb (s_id s) sid then (Some s, r)
              else let '(f, r') := take_susp sid r in (f, s :: r')
  end.

Definition enter (st : state) (k : skind) (sid : nat) (args : list name) : state :=
  match k with
  | KGlobal => set_err st ErrStuck
  | KLet =>
      let '(found, susp') := take_susp sid (st_susp st) in
      let s := match found with Some s => s | None => new_scope sid KLet end in
      State (s :: st_stack st) susp' (st_cells st) (st_finals st) (st_outervars st) (st_fin st) (st_err st)
  | KGen =>
      let s := new_scope sid KGen in
      let expo := match nearest_python_kind (st_stack st) with KGlobal | KFn => true | _ => false end in
      upd st (with_exposing s expo :: st_stack st) (st_cells st)
  | _ => upd st (with_defined (new_scope sid k) (supdate [] args) :: st_stack st) (st_cells st)
  end.

(* ScopeFn.__exit__: defined -= nonlocal_vars; unbound seen nodes go to the parent *)
Definition fn_exit (s : scope) (rest : list scope) (c : cells) : scope * list scope * cells :=
  let s1 := with_defined s (sremove_all (s_defined s) (s_nonlocal s)) in
  let '(rest', c') :=
    fold_left (fun acc r => let '(st, cc) := acc in
                            if smem (name_of cc r) (s_defined s1) then (st, cc) else access st cc r)
              (s_seen s1) (rest, c) in
  (s1, rest', c').

Definition exit_scope (st : state) : state :=
  match st_stack st with
  | [] => set_err st ErrStuck
  | s :: rest =>
    match s_kind s with
    | KGlobal =>
        let st1 := State [with_gnonlocal s []] (st_susp st) (st_cells st) ((s_id s, snapshot s) :: st_finals st)
                         (st_outervars st) (st_fin st) (st_err st) in
        if ssubset (s_gnonlocal s) (s_defined s) then st1
        else set_err st1 (ErrNoBinding (hd [] (s_gnonlocal s)))
    | KLet =>
        State rest (s :: st_susp st) (st_cells st) ((s_id s, snapshot s) :: st_finals st)
              (st_outervars st) (st_fin st) (st_err st)
    | _ =>
        let '(s1, rest', c') := fn_exit s rest (st_cells st) in
        State rest' (st_susp st) c' ((s_id s, snapshot s1) :: st_finals st) (st_outervars st) (st_fin st) (st_err st)
    end
  end.

Definition let_add_in (sid : nat) (x new : name) (l : list scope) : list scope * bool :=
  fold_right (fun s acc => let '(r, hit) := acc in
                           if Nat.eqb (s_id s) sid && match s_kind s with KLet => true | _ => false end
                           then (with_bindings s (dict_set x new (s_bindings s)) :: r, true) else (s :: r, hit))
             ([], false) l.

Definition let_add (st : state) (sid : nat) (x new : name) : state :=
  let '(stk', hit1) := let_add_in sid x new (st_stack st) in
  let '(susp', hit2) := let_add_in sid x new (st_susp st) in
  let susp'' := if hit1 || hit2 then susp' else with_bindings (new_scope sid KLet) [(x, new)] :: susp' in
  State stk' susp'' (st_cells st) (st_finals st) (st_outervars st) (st_fin st) (st_err st).

Definition iterator (st : state) (xs : list name) : state :=
  match st_stack st with
  | s :: rest =>
    match s_kind s with
    | KGen =>
        let its := supdate (s_iterators s) xs in
        let keep := fun r => negb (smem (name_of (st_cells st) r) its) in
        let s' := with_seen (with_assignments (with_iterators s its) (filter keep (s_assignments s)))
                            (filter keep (s_seen s)) in
        upd st (s' :: rest) (st_cells st)
    | _ => set_err st ErrStuck
    end
  | [] => set_err st ErrStuck
  end.

Definition finalize (st : state) : state :=
  match st_stack st with
  | s :: rest =>
    match s_kind s with
    | KGen =>
        let '(rest', c', res) :=
          fold_left (fun acc r => let '(stk, cc, res) := acc in
                                  if smem (name_of cc r) (s_nonlocal s) then acc
                                  else let '(stk', cc') := access stk cc r in (stk', cc', sadd (name_of cc' r) res))
                    (s_assignments s) (rest, st_cells st, []) in
        let out := FinOut (names_of_set perm ord_fin res) (s_exposing s) (inside_function rest)
                          (sort_names (s_nonlocal s)) in
        State (s :: rest') (st_susp st) c' (st_finals st) (st_outervars st) (st_fin st ++ [out]) (st_err st)
    | _ => set_err st ErrStuck
    end
  | [] => set_err st ErrStuck
  end.

Definition step (st : state) (e : event) : state :=
  match st_err st with
  | Some _ => st
  | None =>
    match e with
    | EEnter k sid args => enter st k sid args
    | EExit => exit_scope st
    | EAccess x =>
        let l := length (st_cells st) in
        let '(stk, c) := access (st_stack st) (st_cells st ++ [[x]]) (NR l 0) in upd st stk c
    | EAssign x =>
        let l := length (st_cells st) in
        let '(stk, c) := assign (st_stack st) (st_cells st ++ [[x]]) (NR l 0) in upd st stk c
    | EAssignSame =>
        let l := length (st_cells st) in
        let x := name_of (st_cells st) (NR (l - 1) 0) in
        let '(stk, c) := assign (st_stack st) (st_cells st ++ [[x]]) (NR l 0) in upd st stk c
    | EAssignNode l x =>
        let '(stk, c) := assign (st_stack st) (set_cell (st_cells st) l [x]) (NR l 0) in upd st stk c
    | EDefine x => upd st (define (st_stack st) x) (st_cells st)
    | EDecl root names =>
        let l := length (st_cells st) in
        let c0 := st_cells st ++ [names] in
        let st0 := match root with
                   | RNonlocal => State (st_stack st) (st_susp st) c0 (st_finals st)
                                        (st_outervars st ++ [(l, map s_id (tl (st_stack st)))]) (st_fin st) (st_err st)
                   | RGlobal => upd st (st_stack st) c0
                   end in
        match define_nonlocal (st_stack st) c0 l root with
        | inl (stk, c) => upd st0 stk c
        | inr e => set_err st0 e
        end
    | ELetAdd sid x new => let_add st sid x new
    | EIterator xs => iterator st xs
    | EFinalize => finalize st
    end
  end.

Definition run (evs : list event) (st : state) : state := fold_left step evs st.

End Machine.

(* ResolveOuterVars over the final scope states *)
Definition final_of (st : state) (sid : nat) : pscope :=
  match find (fun p => Nat.eqb (fst p) sid) (st_finals st) with
  | Some (_, p) => p
  | None => PFn true []
  end.

Definition resolve_outervars (perm : list name -> list name) (ord_ov : order_kind) (st : state)
  : list (nat * list ostmt) :=
  map (fun ov => (fst ov, visit_outervar perm ord_ov (map (final_of st) (snd ov)) (cell_names (st_cells st) (fst ov))))
      (st_outervars st).
