(* The abstract specification for C06: a lexical resolver written from docs/api.rst (`let`) and
   Python's scoping rule for functions.  It passes an environment of visible let bindings
   down the syntax tree -- no scope objects, no deferred work, no mutation:

   * (let [x e ...] body): e sees the earlier bindings; the new variable for x (a fresh name) is
     visible in the later bindings and the body, shadowing any outer x, and nowhere else;
   * (setv x e) / a reference x: the innermost visible let binding of x, else the plain name x;
   * (fn [params] body): inside, the parameters and every name assigned directly in the body
     (not through a let of the function itself, not inside nested functions) are the function's
     own variables and hide the let bindings visible at the definition point; everything else
     keeps the meaning it has at the definition point;
   * defn names are function-level assignments (hoisting a let-bound name is outside this spec).

   [lex_module] returns, for every identifier node the compiler creates (in creation order), the
   final Python name the specification gives it. *)
From HyV Require Import Base.Text Scope.SetDecl Scope.OuterVars Scope.Machine Scope.Walk.
Local Open Scope nat_scope.

Definition env := list (name * name).   (* visible let bindings, innermost first: source name -> variable *)

Definition resolve (e : env) (x : name) : name := match lookup x e with Some n => n | None => x end.
Definition mask (own : list name) (e : env) : env := filter (fun p => negb (smem (fst p) own)) e.

(* names assigned directly in a function body; [bound]: names bound by lets of that function at this point *)
Fixpoint assigned (bound : list name) (f : form) {struct f} : list name :=
  match f with
  | FLit | FRef _ | FFn _ _ | FDecl _ _ => []
  | FSetv x e => assigned bound e ++ (if smem x bound then [] else [x])
  | FDo es => flat_map (assigned bound) es
  | FLet bs body =>
      (fix ab (bs : list (name * form)) (bound : list name) {struct bs} : list name :=
         match bs with
         | [] => flat_map (assigned bound) body
         | (x, e) :: r => assigned bound e ++ ab r (x :: bound)
         end) bs bound
  | FDefn g _ _ => [g]
  | FClass c _ => [c]
  | FCall g args => assigned bound g ++ flat_map (assigned bound) args
  end.

Record lres := L { l_cells : list (list name); l_let : nat; l_ok : bool }.

Section Lex.
Variable fresh : name -> nat -> name.

Definition target_cells (n : name) : list (list name) := [[n]; [n]].

(* [inner]: names bound by lets of the current Python scope (for the defn restriction) *)
Fixpoint lexf (f : form) (e : env) (inner : list name) (k : nat) {struct f} : lres :=
  let lexs := (fix lexs (fs : list form) (k : nat) {struct fs} : lres :=
                 match fs with
                 | [] => L [] k true
                 | g :: r => let a := lexf g e inner k in let b := lexs r (l_let a) in
                             L (l_cells a ++ l_cells b) (l_let b) (l_ok a && l_ok b)
                 end) in
  match f with
  | FLit => L [] k true
  | FRef x => L [[resolve e x]] k true
  | FSetv x v => let a := lexf v e inner k in
                 L (l_cells a ++ target_cells (resolve e x)) (l_let a) (l_ok a)
  | FDo es => lexs es k
  | FLet bs body =>
      (fix lb (bs : list (name * form)) (e : env) (inner : list name) (k : nat) {struct bs} : lres :=
         match bs with
         | [] => (fix lexs2 (fs : list form) (k : nat) {struct fs} : lres :=
                    match fs with
                    | [] => L [] k true
                    | g :: r => let a := lexf g e inner k in let b := lexs2 r (l_let a) in
                                L (l_cells a ++ l_cells b) (l_let b) (l_ok a && l_ok b)
                    end) body k
         | (x, v) :: r =>
             let a := lexf v e inner k in
             let new := fresh x (l_let a) in
             let b := lb r ((x, new) :: e) (x :: inner) (S (l_let a)) in
             L (l_cells a ++ target_cells new ++ l_cells b) (l_let b) (l_ok a && l_ok b)
         end) bs e inner k
  | FFn ps body =>
      let own := ps ++ flat_map (assigned []) body in
      (fix lexs2 (fs : list form) (k : nat) {struct fs} : lres :=
         match fs with
         | [] => L [] k true
         | g :: r => let a := lexf g (mask own e) [] k in let b := lexs2 r (l_let a) in
                     L (l_cells a ++ l_cells b) (l_let b) (l_ok a && l_ok b)
         end) body k
  | FDefn g ps body =>
      let own := ps ++ flat_map (assigned []) body in
      let r := (fix lexs2 (fs : list form) (k : nat) {struct fs} : lres :=
         match fs with
         | [] => L [] k true
         | g :: r => let a := lexf g (mask own e) [] k in let b := lexs2 r (l_let a) in
                     L (l_cells a ++ l_cells b) (l_let b) (l_ok a && l_ok b)
         end) body k in
      L (l_cells r) (l_let r) (l_ok r && negb (smem g inner))
  | FClass _ _ | FDecl _ _ => L [] k false      (* outside the specification *)
  | FCall g args =>
      let a := lexf g e inner k in let b := lexs args (l_let a) in
      L (l_cells a ++ l_cells b) (l_let b) (l_ok a && l_ok b)
  end.

Fixpoint lex_list (fs : list form) (e : env) (inner : list name) (k : nat) : lres :=
  match fs with
  | [] => L [] k true
  | g :: r => let a := lexf g e inner k in let b := lex_list r e inner (l_let a) in
              L (l_cells a ++ l_cells b) (l_let b) (l_ok a && l_ok b)
  end.

(* module level: no let binding visible, assignments are the module's *)
Definition lex_module (fs : list form) : lres := lex_list fs [] [] 1.
End Lex.
