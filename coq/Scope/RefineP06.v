(* C06 refinement proof, part 6: machine states: good, fin_names, EAccess / EAssignSame / assignment targets. *)
From HyV Require Import Base.Text Scope.SetDecl Scope.OuterVars Scope.Machine Scope.MachineFacts Scope.Walk Scope.Lexical Scope.Refine.
From HyV Require Import Scope.RefineP01 Scope.RefineP02 Scope.RefineP03 Scope.RefineP04 Scope.RefineP05.
Local Open Scope nat_scope.

Section St.
Variable user : name -> bool.
Notation srel := (srel user).
Notation step := (step (fun l : list name => l) OSorted).
Notation run := (run (fun l : list name => l) OSorted).

Fixpoint ctx_vals (ctx : list frame) : Prop :=
  match ctx with
  | [] => True
  | FrLet _ bs :: r => (forall k v, In (k, v) bs -> user v = false) /\ ctx_vals r
  | FrFn _ _ _ :: r => ctx_vals r
  end.

Fixpoint lr_lookup (ctx : list frame) (x : name) : option name :=
  match ctx with
  | FrLet _ bs :: r => match lookup x bs with Some m => Some m | None => lr_lookup r x end
  | _ => None
  end.

Lemma lookup_In x bs m : lookup x bs = Some m -> exists k, In (k, m) bs.
Proof.
  induction bs as [|[k v] r IH]; [discriminate|]. cbn [lookup]. destruct (text_eqb x k).
  - intros E. inversion E; subst. exists k. left. reflexivity.
  - intros E. destruct (IH E) as [k' Hk]. exists k'. right. exact Hk.
Qed.

Lemma acc_snd ctx : forall stk r x, srel ctx stk ->
  snd (acc ctx stk r x) = match lr_lookup ctx x with Some m => m | None => x end.
Proof.
  induction ctx as [|[sid bs|sid own lo] ctx IH]; intros stk r x H.
  - destruct stk as [|g [|g2 t]]; [destruct H| |destruct H]. reflexivity.
  - destruct stk as [|s stk]; [destruct H|]. destruct H as [K [I [Sn [Hbs H]]]]. cbn [acc lr_lookup].
    destruct (lookup x bs) as [m|]; [reflexivity|]. specialize (IH stk r x H).
    destruct (acc ctx stk r x) as [t m]. exact IH.
  - destruct stk as [|s stk]; [destruct H|]. reflexivity.
Qed.

Lemma lr_none_free ctx x : lr_lookup ctx x = None -> letrun_free ctx x.
Proof.
  induction ctx as [|[sid bs|sid own lo] ctx IH]; cbn [lr_lookup letrun_free]; auto.
  destruct (lookup x bs); [discriminate|]. intros H. split; [reflexivity | apply IH; exact H].
Qed.

Lemma lr_some_up ctx x m : lr_lookup ctx x = Some m -> up ctx x = m.
Proof.
  induction ctx as [|[sid bs|sid own lo] ctx IH]; cbn [lr_lookup up]; try discriminate.
  destruct (lookup x bs); [intros E; inversion E; reflexivity | exact IH].
Qed.

Lemma lr_some_val ctx x m : ctx_vals ctx -> lr_lookup ctx x = Some m -> user m = false.
Proof.
  induction ctx as [|[sid bs|sid own lo] ctx IH]; cbn [lr_lookup ctx_vals]; try discriminate.
  intros [Hv Hr]. destruct (lookup x bs) as [m'|] eqn:E.
  - intros E2. inversion E2; subst. destruct (lookup_In _ _ _ E) as [k Hk]. apply (Hv k m Hk).
  - apply IH. exact Hr.
Qed.

Lemma nonuser_free ctx m : ctx_user user ctx -> user m = false -> letrun_free ctx m.
Proof.
  induction ctx as [|[sid bs|sid own lo] ctx IH]; cbn [ctx_user letrun_free]; auto.
  intros [Hk Hr] Hm. split; [apply (lookup_nonuser user); assumption | apply IH; assumption].
Qed.

Lemma own_allows_nonuser ctx m : user m = false -> own_allows user ctx m.
Proof. intros H. unfold own_allows. destruct (nown ctx); [right; exact H | exact I]. Qed.

Record good (ctx : list frame) (st : state) (w : wstate) : Prop := Good {
  g_err : st_err st = None;
  g_rel : srel ctx (st_stack st);
  g_seen : seen_below (st_stack st) (length (st_cells st));
  g_lo : lo_ok ctx (length (st_cells st));
  g_cells : cells_ok (st_cells st);
  g_ids : forall i, In i (map s_id (st_stack st ++ st_susp st)) -> i < w_sid w;
  g_nodup : NoDup (map s_id (st_stack st ++ st_susp st));
  g_user : ctx_user user ctx;
  g_vals : ctx_vals ctx
}.

Definition fin_names (ctx : list frame) (st : state) : list name :=
  map (evt ctx (st_stack st) (st_cells st)) (seq 0 (length (st_cells st))).

Lemma cells_ok_app c x : cells_ok c -> cells_ok (c ++ [[x]]).
Proof. intros H. apply Forall_app. split; [exact H | constructor; [reflexivity | constructor]]. Qed.

Lemma lo_ok_mono ctx l l' : lo_ok ctx l -> l <= l' -> lo_ok ctx l'.
Proof. intros H Hl sid own lo Hin. specialize (H sid own lo Hin). lia. Qed.

Lemma map_seq_ext {A} (f g : nat -> A) n : (forall i, i < n -> f i = g i) -> map f (seq 0 n) = map g (seq 0 n).
Proof. intros H. apply map_ext_in. intros i Hi. apply in_seq in Hi. apply H. lia. Qed.

Lemma acc_ids ctx : forall stk r n, srel ctx stk -> map s_id (fst (acc ctx stk r n)) = map s_id stk.
Proof.
  induction ctx as [|[sid bs|sid own lo] ctx IH]; intros stk r n H.
  - destruct stk as [|g [|g2 t]]; [destruct H| |destruct H]. reflexivity.
  - destruct stk as [|s stk]; [destruct H|]. destruct H as [K [I [Sn [Hbs H]]]]. cbn [acc].
    destruct (lookup n bs); [reflexivity|]. specialize (IH stk r n H). destruct (acc ctx stk r n) as [t m].
    cbn [fst map] in *. rewrite IH. reflexivity.
  - destruct stk as [|s stk]; [destruct H|]. reflexivity.
Qed.

Lemma asg_ids ctx : forall stk r n, srel ctx stk -> map s_id (fst (asg ctx stk r n)) = map s_id stk.
Proof.
  induction ctx as [|[sid bs|sid own lo] ctx IH]; intros stk r n H.
  - destruct stk as [|g [|g2 t]]; [destruct H| |destruct H]. reflexivity.
  - destruct stk as [|s stk]; [destruct H|]. destruct H as [K [I [Sn [Hbs H]]]]. cbn [asg].
    destruct (lookup n bs); [reflexivity|]. specialize (IH stk r n H). destruct (asg ctx stk r n) as [t m].
    cbn [fst map] in *. rewrite IH. reflexivity.
  - destruct stk as [|s stk]; [destruct H|]. reflexivity.
Qed.

(* ---- EAccess ---- *)
Lemma step_access ctx st w x : good ctx st w ->
  let st' := step st (EAccess x) in
  good ctx st' w
  /\ fin_names ctx st' = fin_names ctx st ++ [up ctx x]
  /\ st_susp st' = st_susp st
  /\ ndef (st_stack st') = ndef (st_stack st)
  /\ length (st_cells st') = S (length (st_cells st))
  /\ name_of (st_cells st') (NR (length (st_cells st)) 0) = match lr_lookup ctx x with Some m => m | None => x end
  /\ map s_id (st_stack st') = map s_id (st_stack st)
  /\ smono (st_stack st) (st_stack st').
Proof.
  intros G. destruct G as [Ge Gr Gs Gl Gc Gi Gn Gu Gv]. unfold step. rewrite Ge.
  set (c := st_cells st) in *. set (l := length c).
  rewrite (access_acc user ctx (st_stack st) (c ++ [[x]]) (NR l 0) Gr (valid_last c x)).
  rewrite name_of_app_new. rewrite set_name_last.
  destruct (acc_srel user ctx (st_stack st) l x Gr Gs Gl) as [A [B C]].
  pose proof (acc_snd ctx (st_stack st) (NR l 0) x Gr) as Hs.
  unfold upd. cbn [st_err st_stack st_cells st_susp].
  assert (Hlen : length (c ++ [[snd (acc ctx (st_stack st) (NR l 0) x)]]) = S l) by (rewrite app_length; cbn; lia).
  split; [|split; [|split; [reflexivity | split; [exact C | split; [exact Hlen | split; [|split]]]]]].
  - constructor; cbn [st_err st_stack st_cells st_susp]; auto.
    + rewrite Hlen. exact B.
    + rewrite Hlen. eapply lo_ok_mono; [exact Gl | lia].
    + apply cells_ok_app. exact Gc.
    + rewrite map_app, (acc_ids ctx _ _ _ Gr), <- map_app. exact Gi.
    + rewrite map_app, (acc_ids ctx _ _ _ Gr), <- map_app. exact Gn.
  - unfold fin_names. cbn [st_stack st_cells]. rewrite Hlen. rewrite seq_S. rewrite map_app. cbn [map plus]. f_equal.
    + apply map_seq_ext. intros i Hi. apply (acc_evt_old user); [exact Gr | unfold l, c; lia |]. apply name_of_app_old. exact Hi.
    + f_equal. apply (acc_evt_new user); [exact Gr | exact Gs|]. apply name_of_app_new.
  - rewrite name_of_app_new. exact Hs.
  - apply acc_ids. exact Gr.
  - apply (acc_smono user). exact Gr.
Qed.

(* ---- EAssignSame ---- *)
Lemma step_assign_same ctx st w n : good ctx st w -> 1 <= length (st_cells st) ->
  name_of (st_cells st) (NR (length (st_cells st) - 1) 0) = n -> letrun_free ctx n -> own_allows user ctx n ->
  let st' := step st EAssignSame in
  good ctx st' w
  /\ fin_names ctx st' = fin_names ctx st ++ [up ctx n]
  /\ st_susp st' = st_susp st
  /\ smem n (ndef (st_stack st')) = true
  /\ smono (st_stack st) (st_stack st')
  /\ length (st_cells st') = S (length (st_cells st))
  /\ map s_id (st_stack st') = map s_id (st_stack st).
Proof.
  intros G Hlen1 Hn Hf Ho. destruct G as [Ge Gr Gs Gl Gc Gi Gn Gu Gv]. unfold step. rewrite Ge. rewrite Hn.
  set (c := st_cells st) in *. set (l := length c).
  rewrite (assign_asg user ctx (st_stack st) (c ++ [[n]]) (NR l 0) Gr (valid_last c n)).
  rewrite name_of_app_new. rewrite set_name_last.
  destruct (asg_srel user ctx (st_stack st) l n Gr Hf Gs Gl Ho) as [A [B [C [D E]]]].
  unfold upd. cbn [st_err st_stack st_cells st_susp]. rewrite C.
  assert (Hlen : length (c ++ [[n]]) = S l) by (rewrite app_length; cbn; lia).
  split; [|split; [|split; [reflexivity | split; [exact D | split; [apply (asg_smono user); exact Gr | split; [exact Hlen|]]]]]].
  - constructor; cbn [st_err st_stack st_cells st_susp]; auto.
    + rewrite Hlen. exact B.
    + rewrite Hlen. eapply lo_ok_mono; [exact Gl | lia].
    + apply cells_ok_app. exact Gc.
    + rewrite map_app, (asg_ids ctx _ _ _ Gr), <- map_app. exact Gi.
    + rewrite map_app, (asg_ids ctx _ _ _ Gr), <- map_app. exact Gn.
  - unfold fin_names. cbn [st_stack st_cells]. rewrite Hlen. rewrite seq_S. rewrite map_app. cbn [map plus]. f_equal.
    + apply map_seq_ext. intros i Hi. apply (asg_evt_old user); [exact Gr | exact Hf | unfold l, c; lia |].
      apply name_of_app_old. exact Hi.
    + f_equal. apply (asg_evt_new user); [exact Gr | exact Hf |]. apply name_of_app_new.
  - apply asg_ids. exact Gr.
Qed.

(* ---- (setv x ..)'s target: scope.access(Name x) then scope.assign(Name <resolved id>) ---- *)
Lemma run_target ctx st w x : good ctx st w ->
  (lr_lookup ctx x = None -> own_allows user ctx x) ->
  let st' := run [EAccess x; EAssignSame] st in
  good ctx st' w
  /\ fin_names ctx st' = fin_names ctx st ++ [up ctx x; up ctx x]
  /\ st_susp st' = st_susp st
  /\ (lr_lookup ctx x = None -> smem x (ndef (st_stack st')) = true)
  /\ smono (st_stack st) (st_stack st')
  /\ map s_id (st_stack st') = map s_id (st_stack st).
Proof.
  intros G Ho. cbn [Machine.run fold_left].
  destruct (step_access ctx st w x G) as [G1 [F1 [S1 [N1 [L1 [Nm [I1 Mo1]]]]]]].
  set (st1 := step st (EAccess x)) in *.
  assert (Hl : length (st_cells st1) - 1 = length (st_cells st)) by lia.
  destruct (lr_lookup ctx x) as [m|] eqn:E.
  - (* renamed by a let of the let-run: m is a let variable *)
    pose proof (lr_some_val ctx x m (g_vals _ _ _ G) E) as Hm.
    pose proof (lr_some_up ctx x m E) as Hup.
    destruct (step_assign_same ctx st1 w m G1) as [G2 [F2 [S2 [D2 [M2 [L2 I2]]]]]];
      [lia | rewrite Hl; exact Nm | apply nonuser_free; [exact (g_user _ _ _ G) | exact Hm] | apply own_allows_nonuser; exact Hm |].
    split; [exact G2|]. split.
    + rewrite F2, F1, <- app_assoc. cbn [app]. rewrite Hup. rewrite (up_nonuser user ctx m (g_user _ _ _ G) Hm). reflexivity.
    + split; [congruence|]. split; [discriminate|]. split; [|congruence].
      eapply smono_trans; [exact Mo1 | exact M2].
  - destruct (step_assign_same ctx st1 w x G1) as [G2 [F2 [S2 [D2 [M2 [L2 I2]]]]]];
      [lia | rewrite Hl; exact Nm | apply lr_none_free; exact E | apply Ho; reflexivity |].
    split; [exact G2|]. split.
    + rewrite F2, F1, <- app_assoc. reflexivity.
    + split; [congruence|]. split; [intros _; exact D2|]. split; [|congruence].
      eapply smono_trans; [exact Mo1 | exact M2].
Qed.

End St.
