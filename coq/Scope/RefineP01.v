(* C06 refinement proof, part 1: induction principle for forms. *)
From HyV Require Import Base.Text Scope.SetDecl Scope.OuterVars Scope.Machine Scope.MachineFacts Scope.Walk Scope.Lexical Scope.Refine.
Local Open Scope nat_scope.

(* ---------------- induction principle for forms ---------------- *)
Section FormInd.
Variable P : form -> Prop.
Hypothesis HLit : P FLit.
Hypothesis HRef : forall x, P (FRef x).
Hypothesis HSetv : forall x e, P e -> P (FSetv x e).
Hypothesis HDo : forall es, Forall P es -> P (FDo es).
Hypothesis HLet : forall bs body, Forall (fun b => P (snd b)) bs -> Forall P body -> P (FLet bs body).
Hypothesis HFn : forall ps body, Forall P body -> P (FFn ps body).
Hypothesis HDefn : forall g ps body, Forall P body -> P (FDefn g ps body).
Hypothesis HClass : forall c body, Forall P body -> P (FClass c body).
Hypothesis HDecl : forall r ns, P (FDecl r ns).
Hypothesis HCall : forall g args, P g -> Forall P args -> P (FCall g args).

Fixpoint form_ind2 (f : form) : P f :=
  let list_ind := (fix li (fs : list form) : Forall P fs :=
                     match fs with [] => Forall_nil _ | g :: r => Forall_cons _ (form_ind2 g) (li r) end) in
  match f with
  | FLit => HLit
  | FRef x => HRef x
  | FSetv x e => HSetv x e (form_ind2 e)
  | FDo es => HDo es (list_ind es)
  | FLet bs body =>
      HLet bs body
        ((fix bi (bs : list (name * form)) : Forall (fun b => P (snd b)) bs :=
            match bs with [] => Forall_nil _ | (x, e) :: r => Forall_cons (x, e) (form_ind2 e) (bi r) end) bs)
        (list_ind body)
  | FFn ps body => HFn ps body (list_ind body)
  | FDefn g ps body => HDefn g ps body (list_ind body)
  | FClass c body => HClass c body (list_ind body)
  | FDecl r ns => HDecl r ns
  | FCall g args => HCall g args (form_ind2 g) (list_ind args)
  end.
End FormInd.
