(* C07: facts about the scope machine's handling of (global ...) / (nonlocal ...). *)
From HyV Require Import Base.Text Scope.Sorting Scope.SetDecl Scope.OuterVars Scope.Machine.
Local Open Scope nat_scope.

(* ---- cells ---- *)
Definition valid_ref (c : cells) (r : noderef) : Prop :=
  nr_label r < length c /\ nr_index r < length (cell_names c (nr_label r)).

Lemma nth_set_nth_same {A} (d : A) i v l : i < length l -> nth i (set_nth i v l) d = v.
Proof.
  revert i; induction l as [|x r IH]; intros i H; [inversion H|].
  destruct i; [reflexivity|]. cbn. apply IH. cbn in H. apply Nat.succ_lt_mono. exact H.
Qed.

Lemma name_of_set_name c r n : valid_ref c r -> name_of (set_name c r n) r = n.
Proof.
  intros [H1 H2]. unfold name_of, set_name, set_cell, cell_names.
  rewrite nth_set_nth_same by exact H1. apply nth_set_nth_same. exact H2.
Qed.

(* ---- dict ---- *)
Lemma lookup_dict_set x y v b : lookup x (dict_set y v b) = if text_eqb x y then Some v else lookup x b.
Proof.
  induction b as [|[k w] r IH]; cbn [dict_set lookup].
  - destruct (text_eqb x y); reflexivity.
  - destruct (text_eqb y k) eqn:E; cbn [lookup].
    + apply text_eqb_eq in E. subst k. destruct (text_eqb x y); reflexivity.
    + destruct (text_eqb x k) eqn:E2; [|exact IH].
      destruct (text_eqb x y) eqn:E3; [|reflexivity].
      apply text_eqb_eq in E2, E3. subst. rewrite (proj2 (text_eqb_eq k k) eq_refl) in E. discriminate.
Qed.

Lemma lookup_fold_dict_set x names : forall b,
  (In x names \/ lookup x b = Some x) -> lookup x (fold_left (fun b y => dict_set y y b) names b) = Some x.
Proof.
  induction names as [|y r IH]; intros b H; cbn [fold_left].
  - destruct H as [[]|H]; exact H.
  - apply IH. destruct H as [[->|H]|H].
    + right. rewrite lookup_dict_set, (proj2 (text_eqb_eq x x) eq_refl). reflexivity.
    + left. exact H.
    + right. rewrite lookup_dict_set. destruct (text_eqb x y) eqn:E; [apply text_eqb_eq in E; subst; reflexivity | exact H].
Qed.

(* ---- global_always_module: after (global ... x ...), x is never renamed in this Python scope.
   Whatever the scope stack, a node named x that is accessed or assigned right after the
   declaration keeps the name x: enclosing lets of this Python scope map x to itself, and the
   function scope has x in `defined`, so its __exit__ does not pass the node up either. ---- *)
Lemma let_define_nonlocal_global_top stk : forall c l self stk' c',
  let_define_nonlocal stk c l RGlobal self = inl (stk', c') ->
  c' = c /\
  match stk' with
  | [] => False
  | s :: _ =>
    match s_kind s with
    | KLet => forall x, In x (cell_names c l) -> lookup x (s_bindings s) = Some x
    | KGlobal => True
    | _ => forall x, In x (cell_names c l) -> smem x (s_defined s) = true
    end
  end.
Proof.
  induction stk as [|s rest IH]; intros c l self stk' c' H; cbn [let_define_nonlocal] in H; [discriminate|].
  destruct (s_kind s) eqn:K.
  - inversion H; subst. split; [reflexivity|]. cbn [s_kind s_defined s_bindings s_nonlocal s_seen with_defined with_bindings with_nonlocal with_seen]. rewrite K. exact I.
  - destruct (let_define_nonlocal rest c l RGlobal false) as [[rest' c'']|e] eqn:E; [|discriminate].
    inversion H; subst. apply IH in E. destruct E as [-> _]. split; [reflexivity|].
    cbn [s_kind s_defined s_bindings s_nonlocal s_seen with_defined with_bindings with_nonlocal with_seen]. rewrite K. intros x Hx. apply lookup_fold_dict_set. left. exact Hx.
  - unfold fn_define_nonlocal in H.
    destruct (find _ _) in H; [discriminate|]. inversion H; subst. split; [reflexivity|].
    cbn [s_kind s_defined s_bindings s_nonlocal s_seen with_defined with_bindings with_nonlocal with_seen]. rewrite K. intros x Hx. rewrite smem_supdate. apply orb_true_iff. right. apply smem_In. exact Hx.
  - unfold fn_define_nonlocal in H.
    destruct (find _ _) in H; [discriminate|]. inversion H; subst. split; [reflexivity|].
    cbn [s_kind s_defined s_bindings s_nonlocal s_seen with_defined with_bindings with_nonlocal with_seen]. rewrite K. intros x Hx. rewrite smem_supdate. apply orb_true_iff. right. apply smem_In. exact Hx.
  - unfold fn_define_nonlocal in H.
    destruct (find _ _) in H; [discriminate|]. inversion H; subst. split; [reflexivity|].
    cbn [s_kind s_defined s_bindings s_nonlocal s_seen with_defined with_bindings with_nonlocal with_seen]. rewrite K. intros x Hx. rewrite smem_supdate. apply orb_true_iff. right. apply smem_In. exact Hx.
Qed.

Theorem global_decl_unrenames stk c l stk' c' x :
  define_nonlocal stk c l RGlobal = inl (stk', c') -> In x (cell_names c l) ->
  forall c2 r, valid_ref c2 r -> name_of c2 r = x ->
    name_of (snd (access stk' c2 r)) r = x /\ name_of (snd (assign stk' c2 r)) r = x.
Proof.
  intros H Hx c2 r Hv Hn. apply let_define_nonlocal_global_top in H. destruct H as [_ H].
  destruct stk' as [|s rest]; [destruct H|].
  destruct (s_kind s) eqn:K; cbn [access assign]; rewrite K.
  - split; exact Hn.
  - rewrite Hn, (H x Hx). cbn [snd]. split; apply name_of_set_name; exact Hv.
  - split; exact Hn.
  - split; exact Hn.
  - split; [destruct (smem (name_of c2 r) (s_iterators s)); exact Hn | exact Hn].
Qed.

(* ... and the function scope will not hand such a node to its parent when it exits *)
Theorem global_decl_not_propagated s rest c l stk' c' x :
  match s_kind s with KFn | KClass | KGen => True | _ => False end ->
  define_nonlocal (s :: rest) c l RGlobal = inl (stk', c') -> In x (cell_names c l) ->
  exists s', stk' = s' :: rest /\ smem x (s_defined s') = true /\ smem x (s_nonlocal s') = smem x (s_nonlocal s).
Proof.
  intros K H Hx. unfold define_nonlocal in H. cbn [let_define_nonlocal] in H.
  destruct (s_kind s) eqn:E; try destruct K; unfold fn_define_nonlocal in H;
    destruct (find _ _) in H; try discriminate; inversion H; subst;
    (eexists; split; [reflexivity|]; split; [cbn [s_kind s_defined s_bindings s_nonlocal s_seen with_defined with_bindings with_nonlocal with_seen]; rewrite smem_supdate; apply orb_true_iff; right; apply smem_In; exact Hx | reflexivity]).
Qed.

(* ---- decl_after_use_is_error: the `seen` scan ---- *)
Lemma find_some_exists {A} (f : A -> bool) l x : In x l -> f x = true -> exists y, find f l = Some y /\ f y = true.
Proof.
  induction l as [|a r IH]; intros Hin Hf; [destruct Hin|]. cbn [find].
  destruct (f a) eqn:E; [exists a; split; [reflexivity | exact E]|].
  destruct Hin as [->|Hin]; [congruence | apply IH; assumption].
Qed.

Lemma fn_define_nonlocal_seen_error s rest c l root r :
  In r (s_seen s) -> In (name_of c r) (cell_names c l) ->
  exists x, In x (cell_names c l) /\ fn_define_nonlocal s rest c l root = inr (ErrDeclAfterUse x root).
Proof.
  intros Hr Hn.
  destruct (find_some_exists (fun r0 => smem (name_of c r0) (cell_names c l)) (s_seen s) r Hr) as [y [Fy My]];
    [apply smem_In; exact Hn|].
  exists (name_of c y). split; [apply smem_In; exact My|].
  unfold fn_define_nonlocal. destruct root; cbn [s_seen with_defined with_nonlocal]; rewrite Fy; reflexivity.
Qed.

Theorem decl_after_use_is_error s rest c l root r :
  match s_kind s with KFn | KClass | KGen => True | _ => False end ->
  In r (s_seen s) -> In (name_of c r) (cell_names c l) ->
  exists x, In x (cell_names c l) /\ define_nonlocal (s :: rest) c l root = inr (ErrDeclAfterUse x root).
Proof.
  intros K Hr Hn. unfold define_nonlocal. cbn [let_define_nonlocal].
  destruct (s_kind s) eqn:E; try (destruct K; fail); apply (fn_define_nonlocal_seen_error s rest c l root r); assumption.
Qed.

(* event level: in a function or class body, using x and then declaring it is rejected *)
Theorem use_then_declare_rejected perm ord st s rest x root names :
  st_err st = None -> st_stack st = s :: rest ->
  match s_kind s with KFn | KClass => True | _ => False end -> In x names ->
  exists y, st_err (run perm ord [EAccess x; EDecl root names] st) = Some (ErrDeclAfterUse y root).
Proof.
  intros He Hs K Hx. cbn [run fold_left]. unfold step at 2. rewrite He. rewrite Hs.
  set (l0 := length (st_cells st)).
  assert (A : access (s :: rest) (st_cells st ++ [[x]]) (NR l0 0)
              = (with_seen s (s_seen s ++ [NR l0 0]) :: rest, st_cells st ++ [[x]])).
  { cbn [access]. destruct (s_kind s); try destruct K; reflexivity. }
  rewrite A. unfold step, upd. cbn [st_err st_stack st_cells]. rewrite He.
  set (c1 := (st_cells st ++ [[x]]) ++ [names]).
  set (s1 := with_seen s (s_seen s ++ [NR l0 0])).
  assert (Hname : name_of c1 (NR l0 0) = x).
  { unfold name_of, cell_names, c1. cbn [nr_label nr_index]. rewrite <- app_assoc. unfold l0. rewrite app_nth2 by lia.
    rewrite Nat.sub_diag. reflexivity. }
  assert (Hcell : cell_names c1 (length (st_cells st ++ [[x]])) = names).
  { unfold cell_names, c1. rewrite app_nth2 by lia. rewrite Nat.sub_diag. reflexivity. }
  destruct (decl_after_use_is_error s1 rest c1 (length (st_cells st ++ [[x]])) root (NR l0 0)) as [y [_ Hy]].
  - unfold s1. cbn. destruct (s_kind s); try destruct K; exact I.
  - unfold s1. cbn. apply in_or_app. right. left. reflexivity.
  - rewrite Hname, Hcell. exact Hx.
  - exists y. fold c1. fold s1. rewrite Hy. destruct root; reflexivity.
Qed.

Example use_then_declare_example :
  st_err (run (fun l => l) OSorted [EEnter KFn 1 []; EAccess [120%N]; EDecl RNonlocal [[120%N]]] init_state)
  = Some (ErrDeclAfterUse [120%N] RNonlocal).
Proof. vm_compute. reflexivity. Qed.

(* ---- elision of names bound by an outer let of the same Python scope.
   ScopeLet.define_nonlocal removes from the statement every name an outer let of the same function
   binds (the name already means that let variable) and nothing else.  The loop runs over a copy of
   the list (since the fix of the list-mutation defect), so no name is skipped. ---- *)
Fixpoint count (x : name) (l : list name) : nat :=
  match l with [] => 0 | y :: r => (if text_eqb x y then 1 else 0) + count x r end.

Lemma count_In x l : count x l > 0 <-> In x l.
Proof.
  induction l as [|y r IH]; cbn [count In]; [split; [lia | intros []]|].
  destruct (text_eqb x y) eqn:E.
  - apply text_eqb_eq in E. subst. split; [intros _; left; reflexivity | lia].
  - split.
    + intros H. right. apply IH. lia.
    + intros [->|H]; [rewrite (proj2 (text_eqb_eq x x) eq_refl) in E; discriminate | apply IH in H; lia].
Qed.

Lemma count_remove_first_same x l : count x (remove_first x l) = count x l - 1.
Proof.
  induction l as [|y r IH]; [reflexivity|]. cbn [remove_first count]. destruct (text_eqb x y) eqn:E; [lia|].
  cbn [count]. rewrite E, IH. reflexivity.
Qed.

Lemma count_remove_first_other x y l : text_eqb x y = false -> count x (remove_first y l) = count x l.
Proof.
  intros H. induction l as [|z r IH]; [reflexivity|]. cbn [remove_first count]. destruct (text_eqb y z) eqn:E.
  - apply text_eqb_eq in E. subst z. rewrite H. reflexivity.
  - cbn [count]. rewrite IH. reflexivity.
Qed.

Lemma elide_fold_count (P : name -> bool) (x : name) : forall (todo acc : list name),
  count x (fold_left (fun acc y => if P y then remove_first y acc else acc) todo acc)
  = if P x then count x acc - count x todo else count x acc.
Proof.
  induction todo as [|y r IH]; intros acc; cbn [fold_left count]; [destruct (P x); lia|].
  rewrite IH. destruct (P y) eqn:Py.
  - destruct (text_eqb x y) eqn:E.
    + apply text_eqb_eq in E. subst y. rewrite Py, count_remove_first_same. lia.
    + rewrite (count_remove_first_other x y acc E). destruct (P x); lia.
  - destruct (text_eqb x y) eqn:E; [apply text_eqb_eq in E; subst y; rewrite Py|]; destruct (P x); try lia; reflexivity.
Qed.

(* every name the let binds is gone, with all its occurrences; every other name stays, as often as it was written *)
Theorem elide_spec (P : name -> bool) (names : list name) (x : name) : count x (elide P names) = if P x then 0 else count x names.
Proof. unfold elide. rewrite elide_fold_count. destruct (P x); lia. Qed.

Corollary let_elision (P : name -> bool) (names : list name) (x : name) : In x (elide P names) <-> In x names /\ P x = false.
Proof.
  rewrite <- !count_In, elide_spec. destruct (P x).
  - split; [lia | intros [_ H]; discriminate].
  - split; [intros H; split; [exact H | reflexivity] | intros [H _]; exact H].
Qed.

(* this is what ScopeLet.define_nonlocal hands on to the enclosing scopes *)
Lemma let_define_nonlocal_elides s rest c l :
  s_kind s = KLet ->
  let_define_nonlocal (s :: rest) c l RNonlocal false =
    match let_define_nonlocal rest
            (set_cell c l (elide (fun x => match lookup x (s_bindings s) with Some _ => true | None => false end)
                                 (cell_names c l))) l RNonlocal false with
    | inl (rest', c') => inl (s :: rest', c')
    | inr e => inr e
    end.
Proof. intros K. cbn [let_define_nonlocal]. rewrite K. reflexivity. Qed.

Definition el_a : name := [97%N]. Definition el_b : name := [98%N].
Definition el_outer := with_bindings (new_scope 2 KLet) [(el_a, [97%N; 49%N]); (el_b, [98%N; 50%N])].
Definition el_inner := new_scope 3 KLet.
Definition el_fn := new_scope 1 KFn.

(* the former witness of the defect: (let [a 1 b 2] (let [c 3] (nonlocal a b) ...)) -- both names are elided *)
Example let_elision_former_witness :
  match define_nonlocal (el_inner :: el_outer :: [el_fn; new_scope 0 KGlobal]) [[el_a; el_b]] 0 RNonlocal with
  | inl (_, c') => cell_names c' 0 = []
  | inr _ => False
  end.
Proof. vm_compute. reflexivity. Qed.

(* ---- C13: the machine consults the set-iteration oracle only in ScopeGen.finalize, and through sorted() ---- *)
Lemma step_perm_independent perm1 perm2 : perm_ok perm1 -> perm_ok perm2 ->
  forall st e, step perm1 OSorted st e = step perm2 OSorted st e.
Proof.
  intros H1 H2 st e. unfold step. destruct (st_err st); [reflexivity|].
  destruct e; try reflexivity.
  unfold finalize. destruct (st_stack st) as [|s rest]; [reflexivity|]. destruct (s_kind s); try reflexivity.
  match goal with |- context [fold_left ?f (s_assignments s) ?a] => destruct (fold_left f (s_assignments s) a) as [[rest' c'] res] end.
  unfold names_of_set. rewrite (sorted_of_any_two_orders_agree perm1 perm2 H1 H2). reflexivity.
Qed.

Theorem run_perm_independent perm1 perm2 : perm_ok perm1 -> perm_ok perm2 ->
  forall evs st, run perm1 OSorted evs st = run perm2 OSorted evs st.
Proof.
  intros H1 H2 evs. induction evs as [|e r IH]; intros st; [reflexivity|].
  cbn [run fold_left]. rewrite (step_perm_independent perm1 perm2 H1 H2). apply IH.
Qed.

Theorem resolve_perm_independent perm1 perm2 : perm_ok perm1 -> perm_ok perm2 ->
  forall st, resolve_outervars perm1 OSorted st = resolve_outervars perm2 OSorted st.
Proof.
  intros H1 H2 st. unfold resolve_outervars. apply map_ext. intros ov. f_equal.
  apply visit_outervar_sorted_perm_independent; assumption.
Qed.

(* everything the scope machinery contributes to the compiled module: final names of all nodes, the
   finalize results, the error, and the resolved nonlocal/global statements *)
Definition scope_output (perm : list name -> list name) (ord_fin ord_ov : order_kind) (evs : list event) :=
  let st := run perm ord_fin evs init_state in
  (st_cells st, st_fin st, st_err st, resolve_outervars perm ord_ov st).

Theorem scope_output_perm_independent perm1 perm2 : perm_ok perm1 -> perm_ok perm2 ->
  forall evs, scope_output perm1 OSorted OSorted evs = scope_output perm2 OSorted OSorted evs.
Proof.
  intros H1 H2 evs. unfold scope_output. rewrite (run_perm_independent perm1 perm2 H1 H2).
  rewrite (resolve_perm_independent perm1 perm2 H1 H2). reflexivity.
Qed.
