(* C06 refinement proof, part 19: let_refines_lexical. *)
From HyV Require Import Base.Text Scope.SetDecl Scope.OuterVars Scope.Machine Scope.MachineFacts Scope.Walk Scope.Lexical Scope.Refine.
From Coq Require Import Permutation.
From HyV Require Import Scope.RefineP01 Scope.RefineP02 Scope.RefineP03 Scope.RefineP04 Scope.RefineP05 Scope.RefineP06 Scope.RefineP07 Scope.RefineP08 Scope.RefineP09 Scope.RefineP10 Scope.RefineP11 Scope.RefineP12 Scope.RefineP13 Scope.RefineP14 Scope.RefineP15 Scope.RefineP16 Scope.RefineP17 Scope.RefineP18.
Local Open Scope nat_scope.

Section Top.
Variable fresh : name -> nat -> name.

Definition single (cell : list name) : Prop := length cell = 1.

Lemma lex_list_single : forall fs e inner k,
  Forall (fun f => forall e inner k, Forall single (l_cells (lexf fresh f e inner k))) fs ->
  Forall single (l_cells (lex_list fresh fs e inner k)).
Proof.
  induction fs as [|g r IH]; intros e inner k H; cbn [lex_list l_cells]; [constructor|].
  inversion H; subst. apply Forall_app. split; [auto | apply IH; assumption].
Qed.

Lemma lex_single : forall f e inner k, Forall single (l_cells (lexf fresh f e inner k)).
Proof.
  apply (form_ind2 (fun f => forall e inner k, Forall single (l_cells (lexf fresh f e inner k)))).
  - intros e inner k. constructor.
  - intros x e inner k. cbn [lexf l_cells]. constructor; [reflexivity | constructor].
  - intros x v IH e inner k. cbn [lexf l_cells]. apply Forall_app. split; [apply IH|].
    unfold target_cells. constructor; [reflexivity | constructor; [reflexivity | constructor]].
  - intros es IH e inner k. rewrite lexf_do_eq. apply lex_list_single. exact IH.
  - intros bs body IHb IHbody e inner k. rewrite lexf_let_eq. revert e inner k.
    induction IHb as [|[x v] r Hv Hr IHr]; intros e inner k; cbn [lex_binds l_cells].
    + apply lex_list_single. exact IHbody.
    + apply Forall_app. split; [apply Hv|]. apply Forall_app. split; [|apply IHr].
      unfold target_cells. constructor; [reflexivity | constructor; [reflexivity | constructor]].
  - intros ps body IH e inner k. rewrite lexf_fn_eq. apply lex_list_single. exact IH.
  - intros g ps body IH e inner k. rewrite lexf_defn_eq. cbn zeta. cbn [l_cells]. apply lex_list_single. exact IH.
  - intros c body IH e inner k. constructor.
  - intros r ns e inner k. constructor.
  - intros g args IHg IHa e inner k. rewrite lexf_call_eq. cbn zeta. cbn [l_cells]. apply Forall_app.
    split; [apply IHg | apply lex_list_single; exact IHa].
Qed.

Lemma singles_eq (a b : list (list name)) : Forall single a -> Forall single b ->
  map (hd []) a = map (hd []) b -> a = b.
Proof.
  intros Ha. revert b. induction Ha as [|x r Hx Hr IH]; intros b Hb E; destruct b as [|y s]; try discriminate; [reflexivity|].
  inversion Hb; subst. cbn [map] in E. inversion E. f_equal; [|apply IH; assumption].
  unfold single in *. destruct x as [|x1 [|? ?]]; try discriminate. destruct y as [|y1 [|? ?]]; try discriminate.
  cbn [hd] in *. congruence.
Qed.

Variable user : name -> bool.
Hypothesis fresh_nonuser : forall x k, user (fresh x k) = false.
Notation run := (run (fun l : list name => l) OSorted).

Lemma good_init : good user [] init_state (W 1 1).
Proof.
  constructor; cbn; auto.
  - intros s r [<-|[]] Hr. destruct Hr.
  - intros sid own lo [].
  - constructor.
  - intros i [<-|[]]. lia.
  - constructor; [intros [] | constructor].
Qed.

Lemma fin_names_nil st : fin_names [] st = map (fun l => name_of (st_cells st) (NR l 0)) (seq 0 (length (st_cells st))).
Proof. reflexivity. Qed.

Lemma cells_as_names (c : cells) : cells_ok c ->
  map (hd []) c = map (fun l => name_of c (NR l 0)) (seq 0 (length c)).
Proof.
  intros H. apply nth_ext with (d := []) (d' := []).
  - rewrite !map_length, seq_length. reflexivity.
  - intros n Hn. rewrite map_length in Hn.
    transitivity (hd [] (nth n c [])); [apply (map_nth (hd []) c [] n)|].
    transitivity (name_of c (NR n 0)).
    + unfold name_of, cell_names. cbn [nr_label nr_index].
      pose proof (cells_ok_nth c n H Hn) as L. destruct (nth n c []) as [|x [|? ?]]; try discriminate. reflexivity.
    + symmetry. set (g := fun l => name_of c (NR l 0)).
      rewrite (nth_indep (map g (seq 0 (length c))) [] (g 0)) by (rewrite map_length, seq_length; exact Hn).
      rewrite (map_nth g (seq 0 (length c)) 0 n). rewrite seq_nth by exact Hn. reflexivity.
Qed.

(* let_refines_lexical: for every module within the specification whose let variables are new names,
   every identifier node ends up with the name the lexical resolver prescribes *)
Theorem let_refines_lexical fs :
  (forall x, In x (flat_map names_of fs) -> user x = true) ->
  l_ok (lex_module fresh fs) = true -> refines fresh fs.
Proof.
  intros Hu Hok. unfold refines, machine_cells, module_events, lex_module in *.
  pose proof (Plist_of_Forall fresh user fs) as PL.
  assert (HF : Forall (Pform fresh user) fs) by (apply Forall_forall; intros f _; apply (all_forms fresh user fresh_nonuser)).
  specialize (PL HF [] init_state (W 1 1) good_init Hu (fun x _ => I)).
  cbn [env_of inner_of w_let] in PL. specialize (PL Hok).
  destruct (events_of_list fresh fs (W 1 1)) as [evs w'] eqn:Ee. cbn [fst snd] in *.
  destruct PL as [G [K [Sd [F _]]]].
  rewrite run_app. set (st' := run evs init_state) in *.
  (* ScopeGlobal.__exit__ does not touch the cells *)
  assert (Hc : st_cells (run [EExit] st') = st_cells st').
  { cbn [Machine.run fold_left]. unfold step. rewrite (g_err _ _ _ _ G). unfold exit_scope.
    pose proof (g_rel _ _ _ _ G) as R. destruct (st_stack st') as [|g [|g2 t]]; [destruct R| |destruct R].
    destruct R as [Kg _]. rewrite Kg. destruct (ssubset (s_gnonlocal g) (s_defined g)); reflexivity. }
  rewrite Hc.
  apply singles_eq.
  - exact (g_cells _ _ _ _ G).
  - clear. generalize 1 at 1. generalize (@nil (name * name)) at 1. generalize (@nil name).
    induction fs as [|f r IH]; intros inner e k; cbn [lex_list l_cells]; [constructor|].
    apply Forall_app. split; [apply lex_single | apply IH].
  - rewrite (cells_as_names _ (g_cells _ _ _ _ G)). rewrite <- fin_names_nil. rewrite F. reflexivity.
Qed.

End Top.
