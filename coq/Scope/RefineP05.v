(* C06 refinement proof, part 5: scope.assign against the context. *)
From HyV Require Import Base.Text Scope.SetDecl Scope.OuterVars Scope.Machine Scope.MachineFacts Scope.Walk Scope.Lexical Scope.Refine.
From HyV Require Import Scope.RefineP01 Scope.RefineP02 Scope.RefineP03 Scope.RefineP04.
Local Open Scope nat_scope.

Section Asg.
Variable user : name -> bool.
Notation srel := (srel user).

Definition own_allows (ctx : list frame) (n : name) : Prop :=
  match nown ctx with Some own => smem n own = true \/ user n = false | None => True end.

Lemma asg_srel ctx : forall stk l n, srel ctx stk -> letrun_free ctx n -> seen_below stk l -> lo_ok ctx l ->
  own_allows ctx n ->
  let stk' := fst (asg ctx stk (NR l 0) n) in
  srel ctx stk' /\ seen_below stk' (S l) /\ snd (asg ctx stk (NR l 0) n) = n
  /\ smem n (ndef stk') = true /\ (forall y, smem y (ndef stk) = true -> smem y (ndef stk') = true).
Proof.
  induction ctx as [|[sid bs|sid own lo] ctx IH]; intros stk l n H Hf Hb Hlo Ho.
  - destruct stk as [|g [|g2 t]]; [destruct H| |destruct H]. destruct H as [K Sn]. cbn [asg fst snd ndef].
    cbn [s_kind with_defined s_defined]. rewrite K. repeat split.
    + exact K.
    + exact Sn.
    + intros s r [<-|[]] Hr. cbn [s_seen with_defined] in Hr. rewrite Sn in Hr. destruct Hr.
    + rewrite smem_sadd, text_eqb_refl. reflexivity.
    + intros y Hy. rewrite smem_sadd, Hy. apply orb_true_r.
  - destruct stk as [|s stk]; [destruct H|]. destruct H as [K [I [Sn [Hbs H]]]]. destruct Hf as [Hl Hf].
    cbn [asg]. rewrite Hl.
    destruct (IH stk l n H Hf (seen_below_tl _ _ _ Hb) (lo_ok_tl _ _ _ Hlo) Ho) as [A [B [C [D E]]]].
    destruct (asg ctx stk (NR l 0) n) as [t m]. cbn [fst snd ndef] in *. rewrite K.
    repeat split; auto.
    intros s' r [<-|Hs] Hr; [rewrite Sn in Hr; destruct Hr | apply (B s' r Hs Hr)].
  - destruct stk as [|s stk]; [destruct H|]. destruct H as [K [I [Nl [D [Sn [Nd [Sb [Lk H]]]]]]]].
    cbn [asg fst snd ndef]. cbn [s_kind with_defined with_seen s_defined]. rewrite K.
    unfold own_allows in Ho. cbn [nown] in Ho. repeat split.
    + exact K.
    + exact I.
    + exact Nl.
    + intros y Hy. cbn [s_defined with_defined] in Hy. rewrite smem_sadd in Hy. apply orb_true_iff in Hy.
      destruct Hy as [Hy|Hy]; [apply text_eqb_eq in Hy; subst y; exact Ho | apply D; exact Hy].
    + cbn [s_seen with_defined with_seen] in H0. apply in_app_or in H0.
      destruct H0 as [H0|[<-|[]]]; [apply (Sn r H0) | reflexivity].
    + cbn [s_seen with_defined with_seen] in H0. apply in_app_or in H0.
      destruct H0 as [H0|[<-|[]]]; [apply (Sn r H0) | cbn; eapply Hlo; left; reflexivity].
    + cbn [s_seen with_defined with_seen]. rewrite map_app. cbn [map nr_label]. apply NoDup_app_last; [exact Nd|].
      intros x Hx. apply in_map_iff in Hx. destruct Hx as [r [<- Hr]]. apply (Hb s r (or_introl eq_refl) Hr).
    + exact Sb.
    + exact Lk.
    + exact H.
    + intros s' r [<-|Hs] Hr.
      * cbn [s_seen with_defined with_seen] in Hr. apply in_app_or in Hr. destruct Hr as [Hr|[<-|[]]]; [|cbn; lia].
        specialize (Hb s r (or_introl eq_refl) Hr). lia.
      * specialize (Hb s' r (or_intror Hs) Hr). lia.
    + rewrite smem_sadd, text_eqb_refl. reflexivity.
    + intros y Hy. rewrite smem_sadd, Hy. apply orb_true_r.
Qed.

Lemma asg_smono ctx : forall stk r n, srel ctx stk -> smono stk (fst (asg ctx stk r n)).
Proof.
  induction ctx as [|[sid bs|sid own lo] ctx IH]; intros stk r n H.
  - destruct stk as [|g [|g2 t]]; [destruct H| |destruct H]. cbn [asg fst]. constructor; [|constructor].
    split; [reflexivity|]. intros y Hy. cbn [s_defined with_defined]. rewrite smem_sadd, Hy. apply orb_true_r.
  - destruct stk as [|s stk]; [destruct H|]. destruct H as [K [I [Sn [Hbs H]]]]. cbn [asg].
    destruct (lookup n bs); [apply smono_refl|]. specialize (IH stk r n H). destruct (asg ctx stk r n) as [t m].
    cbn [fst] in *. constructor; [split; auto | exact IH].
  - destruct stk as [|s stk]; [destruct H|]. cbn [asg fst]. constructor; [|apply smono_refl].
    split; [reflexivity|]. intros y Hy. cbn [s_defined with_defined with_seen]. rewrite smem_sadd, Hy. apply orb_true_r.
Qed.

Lemma asg_evt_new ctx : forall stk l n c', srel ctx stk -> letrun_free ctx n ->
  name_of c' (NR l 0) = n ->
  evt ctx (fst (asg ctx stk (NR l 0) n)) c' l = up ctx n.
Proof.
  induction ctx as [|[sid bs|sid own lo] ctx IH]; intros stk l n c' H Hf Hn.
  - destruct stk as [|g [|g2 t]]; [destruct H| |destruct H]. cbn [asg fst evt up]. exact Hn.
  - destruct stk as [|s stk]; [destruct H|]. destruct H as [K [I [Sn [Hbs H]]]]. destruct Hf as [Hl Hf].
    cbn [asg up]. rewrite Hl. specialize (IH stk l n c' H Hf Hn).
    destruct (asg ctx stk (NR l 0) n) as [t m]. cbn [fst evt] in *. exact IH.
  - destruct stk as [|s stk]; [destruct H|]. cbn [asg fst evt up].
    unfold in_seen. cbn [s_seen with_defined with_seen]. rewrite existsb_app. cbn [existsb nr_label].
    rewrite Nat.eqb_refl, orb_true_r. cbn [orb]. rewrite Hn. reflexivity.
Qed.

Lemma asg_evt_old ctx : forall stk l n c c' l', srel ctx stk -> letrun_free ctx n -> l' <> l ->
  name_of c' (NR l' 0) = name_of c (NR l' 0) ->
  evt ctx (fst (asg ctx stk (NR l 0) n)) c' l' = evt ctx stk c l'.
Proof.
  induction ctx as [|[sid bs|sid own lo] ctx IH]; intros stk l n c c' l' H Hf Hne Hn.
  - destruct stk as [|g [|g2 t]]; [destruct H| |destruct H]. cbn [asg fst evt]. exact Hn.
  - destruct stk as [|s stk]; [destruct H|]. destruct H as [K [I [Sn [Hbs H]]]]. destruct Hf as [Hl Hf].
    cbn [asg]. rewrite Hl. specialize (IH stk l n c c' l' H Hf Hne Hn).
    destruct (asg ctx stk (NR l 0) n) as [t m]. cbn [fst evt] in *. exact IH.
  - destruct stk as [|s stk]; [destruct H|]. cbn [asg fst evt].
    unfold in_seen. cbn [s_seen with_defined with_seen]. rewrite existsb_app. cbn [existsb nr_label].
    assert (E : Nat.eqb l l' = false) by (apply Nat.eqb_neq; lia). rewrite E, !orb_false_r, Hn.
    fold (in_seen l' s). destruct (in_seen l' s); [reflexivity | apply evt_cells_ext; exact Hn].
Qed.

End Asg.
