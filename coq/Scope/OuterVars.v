(* Model of hy/scoping.py ResolveOuterVars.visit_OuterVar, line by line.

     scope = node._scope; defined = set(); undefined = list(node.names)
     while undefined and scope.parent:
         scope = scope.parent
         has = set()
         if isinstance(scope, ScopeFn):     has = scope.defined          (ScopeGen is a ScopeFn)
         elif isinstance(scope, ScopeLet):  has = set(scope.bindings.keys())
         elif isinstance(scope, ScopeGlobal):
             res = []
             if not scope.defined.issuperset(undefined): break
             if undefined: res.append(Global(names=list(undefined)))
             if defined:   res.append(Nonlocal(names=list(defined)))      <-- a set is iterated here
             return res
         defined.update(has.intersection(undefined))
         undefined = [name for name in undefined if name not in has]
     return [Nonlocal(names=node.names)] if node.names else []

   The chain of ancestors of node._scope is a list, nearest first.  Sets are
   [fset]s (membership only); where the code iterates one, the order comes
   from the oracle [perm].  [ord] says whether the source sorts the set before
   building the Nonlocal statement (regenerated: Gen/SetUses.v). *)
From HyV Require Import Base.Text Scope.Sorting Scope.SetDecl.
From Coq Require Import Permutation.

Inductive pscope :=
| PFn (defined : fset)          (* ScopeFn / ScopeGen: function, class or comprehension scope *)
| PLet (keys : list text)       (* ScopeLet: the bound (source) names *)
| PGlobal (defined : fset).

Inductive ostmt := OGlobal (names : list text) | ONonlocal (names : list text).

Section Walk.
Variable perm : list text -> list text.
Variable ord : order_kind.

Definition fallthrough (names : list text) : list ostmt :=
  match names with [] => [] | _ => [ONonlocal names] end.

Definition step_sets (has : fset) (defined : fset) (undefined : list text) : fset * list text :=
  (supdate defined (filter (fun x => smem x has) undefined),
   filter (fun x => negb (smem x has)) undefined).

Fixpoint walk (chain : list pscope) (defined : fset) (undefined names : list text) : list ostmt :=
  match undefined with
  | [] => fallthrough names
  | _ :: _ =>
    match chain with
    | [] => fallthrough names
    | PGlobal gdef :: _ =>
        if ssubset undefined gdef
        then OGlobal undefined :: match defined with [] => [] | _ => [ONonlocal (names_of_set perm ord defined)] end
        else fallthrough names
    | PFn d :: rest => let '(df, un) := step_sets d defined undefined in walk rest df un names
    | PLet k :: rest => let '(df, un) := step_sets k defined undefined in walk rest df un names
    end
  end.

Definition visit_outervar (chain : list pscope) (names : list text) : list ostmt := walk chain [] names names.
End Walk.

(* ------------------------------------------------------------------ C13 *)

(* With sorted(defined) the statement does not depend on the iteration order of the set. *)
Theorem walk_sorted_perm_independent perm1 perm2 : perm_ok perm1 -> perm_ok perm2 ->
  forall chain defined undefined names,
    walk perm1 OSorted chain defined undefined names = walk perm2 OSorted chain defined undefined names.
Proof.
  intros H1 H2 chain. induction chain as [|sc rest IH]; intros defined undefined names.
  - destruct undefined; reflexivity.
  - destruct undefined as [|u us]; [reflexivity|]. destruct sc as [d|k|g]; cbn [walk].
    + destruct (step_sets d defined (u :: us)) as [df un]. apply IH.
    + destruct (step_sets k defined (u :: us)) as [df un]. apply IH.
    + destruct (ssubset (u :: us) g); [|reflexivity]. destruct defined; [reflexivity|].
      unfold names_of_set. rewrite (sorted_of_any_two_orders_agree perm1 perm2 H1 H2). reflexivity.
Qed.

Corollary visit_outervar_sorted_perm_independent perm1 perm2 : perm_ok perm1 -> perm_ok perm2 ->
  forall chain names, visit_outervar perm1 OSorted chain names = visit_outervar perm2 OSorted chain names.
Proof. intros H1 H2 chain names. apply walk_sorted_perm_independent; assumption. Qed.

(* With list(defined) it does: two names bound in an enclosing function and one module-level name. *)
Definition nm_a : text := [97]. Definition nm_b : text := [98]. Definition nm_g : text := [103].
Definition witness_chain : list pscope := [PFn [nm_a; nm_b]; PGlobal [nm_g]].
Definition witness_names : list text := [nm_a; nm_b; nm_g].
Definition perm_id (l : list text) : list text := l.
Definition perm_rev (l : list text) : list text := rev l.

Lemma perm_id_ok : perm_ok perm_id. Proof. intro l. apply Permutation_refl. Qed.
Lemma perm_rev_ok : perm_ok perm_rev. Proof. intro l. apply Permutation_sym, Permutation_rev. Qed.

Theorem visit_outervar_list_perm_dependent :
  exists perm1 perm2 chain names, perm_ok perm1 /\ perm_ok perm2 /\
    visit_outervar perm1 OList chain names <> visit_outervar perm2 OList chain names.
Proof.
  exists perm_id, perm_rev, witness_chain, witness_names.
  split; [exact perm_id_ok|]. split; [exact perm_rev_ok|]. vm_compute. discriminate.
Qed.

(* the two statements, for whatever the current source does *)
Theorem visit_outervar_perm_independent_iff_sorted ord :
  (ord = OSorted -> forall perm1 perm2, perm_ok perm1 -> perm_ok perm2 -> forall chain names,
      visit_outervar perm1 ord chain names = visit_outervar perm2 ord chain names)
  /\ (ord = OList -> exists perm1 perm2 chain names, perm_ok perm1 /\ perm_ok perm2 /\
      visit_outervar perm1 ord chain names <> visit_outervar perm2 ord chain names).
Proof.
  split; intros ->; [intros; apply visit_outervar_sorted_perm_independent; assumption
                    | exact visit_outervar_list_perm_dependent].
Qed.
