(* Model of hy/scoping.py ResolveOuterVars.visit_OuterVar, line by line.

     scope = node._scope; defined = set(); undefined = list(node.names)
     while undefined and scope.parent:
         scope = scope.parent
         has = set()
         if isinstance(scope, ScopeFn):     has = scope.defined          (ScopeGen is a ScopeFn)
         elif isinstance(scope, ScopeLet):  has = set(scope.bindings.keys())
         elif isinstance(scope, ScopeGlobal):
             res = []
             if not scope.defined.issuperset(undefined): break
             if undefined: res.append(Global(names=list(undefined)))
             if defined:   res.append(Nonlocal(names=list(defined)))      <-- a set is iterated here
             return res
         defined.update(has.intersection(undefined))
         undefined = [name for name in undefined if name not in has]
     return [Nonlocal(names=node.names)] if node.names else []

   The chain of ancestors of node._scope is a list, nearest first.  Sets are
   [fset]s (membership only); where the code iterates one, the order comes
   from the oracle [perm].  [ord] says whether the source sorts the set before
   building the Nonlocal statement (regenerated: Gen/SetUses.v). *)
From HyV Require Import Base.Text Scope.Sorting Scope.SetDecl.
From Coq Require Import Permutation.

Inductive pscope :=
| PFn (func : bool) (defined : fset)   (* ScopeFn / ScopeGen; func = false for a class body (the walk does not look at it) *)
| PLet (keys : list text)       (* ScopeLet: the bound (source) names *)
| PGlobal (defined : fset).

Inductive ostmt := OGlobal (names : list text) | ONonlocal (names : list text).

Section Walk.
Variable perm : list text -> list text.
Variable ord : order_kind.

Definition fallthrough (names : list text) : list ostmt :=
  match names with [] => [] | _ => [ONonlocal names] end.

Definition step_sets (has : fset) (defined : fset) (undefined : list text) : fset * list text :=
  (supdate defined (filter (fun x => smem x has) undefined),
   filter (fun x => negb (smem x has)) undefined).

Fixpoint walk (chain : list pscope) (defined : fset) (undefined names : list text) : list ostmt :=
  match undefined with
  | [] => fallthrough names
  | _ :: _ =>
    match chain with
    | [] => fallthrough names
    | PGlobal gdef :: _ =>
        if ssubset undefined gdef
        then OGlobal undefined :: match defined with [] => [] | _ => [ONonlocal (names_of_set perm ord defined)] end
        else fallthrough names
    | PFn _ d :: rest => let '(df, un) := step_sets d defined undefined in walk rest df un names
    | PLet k :: rest => let '(df, un) := step_sets k defined undefined in walk rest df un names
    end
  end.

Definition visit_outervar (chain : list pscope) (names : list text) : list ostmt := walk chain [] names names.
End Walk.

(* ------------------------------------------------------------------ C13 *)

(* With sorted(defined) the statement does not depend on the iteration order of the set. *)
Theorem walk_sorted_perm_independent perm1 perm2 : perm_ok perm1 -> perm_ok perm2 ->
  forall chain defined undefined names,
    walk perm1 OSorted chain defined undefined names = walk perm2 OSorted chain defined undefined names.
Proof.
  intros H1 H2 chain. induction chain as [|sc rest IH]; intros defined undefined names.
  - destruct undefined; reflexivity.
  - destruct undefined as [|u us]; [reflexivity|]. destruct sc as [fb d|k|g]; cbn [walk].
    + destruct (step_sets d defined (u :: us)) as [df un]. apply IH.
    + destruct (step_sets k defined (u :: us)) as [df un]. apply IH.
    + destruct (ssubset (u :: us) g); [|reflexivity]. destruct defined; [reflexivity|].
      unfold names_of_set. rewrite (sorted_of_any_two_orders_agree perm1 perm2 H1 H2). reflexivity.
Qed.

Corollary visit_outervar_sorted_perm_independent perm1 perm2 : perm_ok perm1 -> perm_ok perm2 ->
  forall chain names, visit_outervar perm1 OSorted chain names = visit_outervar perm2 OSorted chain names.
Proof. intros H1 H2 chain names. apply walk_sorted_perm_independent; assumption. Qed.

(* With list(defined) it does: two names bound in an enclosing function and one module-level name. *)
Definition nm_a : text := [97]. Definition nm_b : text := [98]. Definition nm_g : text := [103].
Definition witness_chain : list pscope := [PFn true [nm_a; nm_b]; PGlobal [nm_g]].
Definition witness_names : list text := [nm_a; nm_b; nm_g].
Definition perm_id (l : list text) : list text := l.
Definition perm_rev (l : list text) : list text := rev l.

Lemma perm_id_ok : perm_ok perm_id. Proof. intro l. apply Permutation_refl. Qed.
Lemma perm_rev_ok : perm_ok perm_rev. Proof. intro l. apply Permutation_sym, Permutation_rev. Qed.

Theorem visit_outervar_list_perm_dependent :
  exists perm1 perm2 chain names, perm_ok perm1 /\ perm_ok perm2 /\
    visit_outervar perm1 OList chain names <> visit_outervar perm2 OList chain names.
Proof.
  exists perm_id, perm_rev, witness_chain, witness_names.
  split; [exact perm_id_ok|]. split; [exact perm_rev_ok|]. vm_compute. discriminate.
Qed.

(* the two statements, for whatever the current source does *)
Theorem visit_outervar_perm_independent_iff_sorted ord :
  (ord = OSorted -> forall perm1 perm2, perm_ok perm1 -> perm_ok perm2 -> forall chain names,
      visit_outervar perm1 ord chain names = visit_outervar perm2 ord chain names)
  /\ (ord = OList -> exists perm1 perm2 chain names, perm_ok perm1 /\ perm_ok perm2 /\
      visit_outervar perm1 ord chain names <> visit_outervar perm2 ord chain names).
Proof.
  split; intros ->; [intros; apply visit_outervar_sorted_perm_independent; assumption
                    | exact visit_outervar_list_perm_dependent].
Qed.

(* ------------------------------------------------------------------ C07: what the walk computes *)

Definition has_of (sc : pscope) : fset := match sc with PFn _ d => d | PLet k => k | PGlobal d => d end.
Definition is_pglobal (sc : pscope) : bool := match sc with PGlobal _ => true | _ => false end.
(* some scope of [inner] binds x *)
Definition inner_has (inner : list pscope) (x : text) : bool := existsb (fun sc => smem x (has_of sc)) inner.

Fixpoint defined_after (inner : list pscope) (defined : fset) (undefined : list text) : fset :=
  match inner with
  | [] => defined
  | sc :: r => let '(df, un) := step_sets (has_of sc) defined undefined in defined_after r df un
  end.
Fixpoint undefined_after (inner : list pscope) (undefined : list text) : list text :=
  match inner with
  | [] => undefined
  | sc :: r => undefined_after r (filter (fun x => negb (smem x (has_of sc))) undefined)
  end.

Lemma walk_nil_undefined perm ord chain defined names : walk perm ord chain defined [] names = fallthrough names.
Proof. destruct chain; reflexivity. Qed.

Lemma walk_inner perm ord inner : forallb (fun sc => negb (is_pglobal sc)) inner = true ->
  forall rest defined undefined names,
    walk perm ord (inner ++ rest) defined undefined names
    = walk perm ord rest (defined_after inner defined undefined) (undefined_after inner undefined) names.
Proof.
  induction inner as [|sc r IH]; intros Hng rest defined undefined names; [reflexivity|].
  cbn [forallb] in Hng. apply andb_true_iff in Hng. destruct Hng as [Hsc Hr].
  destruct undefined as [|u us].
  - cbn [app]. rewrite walk_nil_undefined.
    assert (E : undefined_after (sc :: r) [] = []).
    { clear. generalize (sc :: r). intro l. induction l; cbn; auto. }
    rewrite E. rewrite walk_nil_undefined. reflexivity.
  - destruct sc as [fb d|k|g]; [| |discriminate Hsc]; cbn [app walk defined_after undefined_after has_of step_sets];
      rewrite (IH Hr); reflexivity.
Qed.

Lemma filter_filter {A} (f g : A -> bool) l : filter f (filter g l) = filter (fun x => g x && f x) l.
Proof.
  induction l as [|x r IH]; [reflexivity|]. cbn [filter]. destruct (g x); cbn [andb filter]; [|exact IH].
  destruct (f x); rewrite IH; reflexivity.
Qed.

Lemma undefined_after_filter inner : forall undefined,
  undefined_after inner undefined = filter (fun x => negb (inner_has inner x)) undefined.
Proof.
  induction inner as [|sc r IH]; intros undefined; cbn [undefined_after].
  - induction undefined as [|a l IHl]; [reflexivity|]. cbn [filter inner_has existsb negb]. f_equal. exact IHl.
  - rewrite IH, filter_filter. apply filter_ext. intros x. cbn [inner_has existsb]. fold (inner_has r x).
    destruct (smem x (has_of sc)), (inner_has r x); reflexivity.
Qed.

Lemma smem_sadd x y s : smem x (sadd y s) = text_eqb x y || smem x s.
Proof.
  unfold sadd. destruct (smem y s) eqn:E.
  - destruct (text_eqb x y) eqn:E2; [|reflexivity]. apply text_eqb_eq in E2. subst. rewrite E. reflexivity.
  - unfold smem. rewrite existsb_app. cbn. rewrite orb_false_r. apply orb_comm.
Qed.

Lemma smem_supdate x l : forall s, smem x (supdate s l) = smem x s || smem x l.
Proof.
  induction l as [|y r IH]; intros s; cbn [supdate fold_left].
  - rewrite orb_false_r. reflexivity.
  - change (fold_left (fun acc z => sadd z acc) r (sadd y s)) with (supdate (sadd y s) r).
    rewrite IH, smem_sadd. cbn [smem existsb]. fold (smem x r).
    destruct (text_eqb x y), (smem x s), (smem x r); reflexivity.
Qed.

Lemma smem_filter x f l : (forall a b, text_eqb a b = true -> f a = f b) -> smem x (filter f l) = smem x l && f x.
Proof.
  intros Hf. induction l as [|y r IH]; [reflexivity|]. cbn [filter].
  destruct (f y) eqn:E; cbn [smem existsb]; fold (smem x r); fold (smem x (filter f r)); rewrite ?IH.
  - destruct (text_eqb x y) eqn:E2; [|reflexivity]. rewrite (Hf _ _ E2), E. reflexivity.
  - destruct (text_eqb x y) eqn:E2; [|reflexivity]. rewrite (Hf _ _ E2), E. cbn. rewrite andb_false_r. reflexivity.
Qed.

Lemma text_eqb_smem_compat s a b : text_eqb a b = true -> smem a s = smem b s.
Proof. intros E. apply text_eqb_eq in E. subst. reflexivity. Qed.

Lemma inner_has_compat inner a b : text_eqb a b = true -> inner_has inner a = inner_has inner b.
Proof. intros E. apply text_eqb_eq in E. subst. reflexivity. Qed.

(* the set `defined` after walking the inner scopes: the declared names some inner scope binds *)
Lemma defined_after_spec inner : forall defined undefined x,
  smem x (defined_after inner defined undefined) = smem x defined || (smem x undefined && inner_has inner x).
Proof.
  induction inner as [|sc r IH]; intros defined undefined x; cbn [defined_after inner_has existsb].
  - rewrite andb_false_r, orb_false_r. reflexivity.
  - cbn [step_sets]. rewrite IH, smem_supdate.
    rewrite !smem_filter by (intros a b E; rewrite (text_eqb_smem_compat _ _ _ E); reflexivity).
    fold (inner_has r x).
    destruct (smem x defined), (smem x undefined), (smem x (has_of sc)), (inner_has r x); reflexivity.
Qed.

(* C07 outer_resolution: for a (nonlocal names) whose scope has the ancestors inner ++ [module]:
   the names no inner scope binds go, in declaration order, into a Global statement (provided the
   module defines them all -- otherwise a plain Nonlocal is emitted and Python reports the error);
   the names some inner function/class/let scope binds go into the Nonlocal statement. *)
Theorem outer_resolution perm ord inner g names :
  forallb (fun sc => negb (is_pglobal sc)) inner = true ->
  let gl := filter (fun x => negb (inner_has inner x)) names in
  let nl := defined_after inner [] names in
  visit_outervar perm ord (inner ++ [PGlobal g]) names =
    match gl with
    | [] => fallthrough names
    | _ :: _ => if ssubset gl g
                then OGlobal gl :: match nl with [] => [] | _ :: _ => [ONonlocal (names_of_set perm ord nl)] end
                else fallthrough names
    end
  /\ (forall x, smem x nl = smem x names && inner_has inner x).
Proof.
  intros Hng gl nl. split.
  - unfold visit_outervar. rewrite (walk_inner perm ord inner Hng). rewrite undefined_after_filter.
    fold gl. fold nl. destruct gl; reflexivity.
  - intros x. unfold nl. rewrite defined_after_spec. reflexivity.
Qed.

Example outer_resolution_example :
  visit_outervar perm_id OSorted [PLet [nm_b]; PFn true [nm_a]; PGlobal [nm_g]] [nm_g; nm_a; nm_b]
  = [OGlobal [nm_g]; ONonlocal [nm_a; nm_b]].
Proof. vm_compute. reflexivity. Qed.

(* a name bound only at module level never ends up in a Nonlocal statement together with a Global one *)
Corollary module_names_become_global perm ord inner g names x :
  forallb (fun sc => negb (is_pglobal sc)) inner = true ->
  ssubset (filter (fun y => negb (inner_has inner y)) names) g = true ->
  In x names -> inner_has inner x = false ->
  exists gl rest, visit_outervar perm ord (inner ++ [PGlobal g]) names = OGlobal gl :: rest /\ In x gl.
Proof.
  intros Hng Hsub Hin Hno. destruct (outer_resolution perm ord inner g names Hng) as [E _].
  assert (Hx : In x (filter (fun y => negb (inner_has inner y)) names)).
  { apply filter_In. split; [exact Hin | rewrite Hno; reflexivity]. }
  destruct (filter (fun y => negb (inner_has inner y)) names) as [|h t] eqn:F; [destruct Hx|].
  rewrite Hsub in E. eexists. eexists. split; [exact E | exact Hx].
Qed.

(* Python binds `nonlocal x` in the nearest enclosing *function* scope; class bodies do not count.
   The walk treats a class body like a function, so a name that is a class attribute and otherwise
   bound only at module level is declared `nonlocal` (Python: no binding for nonlocal) instead of
   `global`.  Full statement and its refutation: *)
Definition function_binds (chain : list pscope) (x : text) : bool :=
  existsb (fun sc => match sc with PFn true d => smem x d | PLet k => smem x k | _ => false end) chain.

Definition nonlocal_names_have_function_binding_full : Prop :=
  forall perm ord chain names l x, In (ONonlocal l) (visit_outervar perm ord chain names) -> In x l ->
    (exists g, In (PGlobal g) chain /\ ssubset names (fold_right (fun sc acc => has_of sc ++ acc) [] chain) = true) ->
    function_binds chain x = true.

Theorem nonlocal_names_have_function_binding_refuted :
  exists perm ord chain names l x, In (ONonlocal l) (visit_outervar perm ord chain names) /\ In x l /\
    (exists g, In (PGlobal g) chain /\ ssubset names (fold_right (fun sc acc => has_of sc ++ acc) [] chain) = true) /\
    function_binds chain x = false.
Proof.
  exists perm_id, OSorted, [PFn false [nm_a]; PGlobal [nm_a]], [nm_a], [nm_a], nm_a.
  split; [left; reflexivity|]. split; [left; reflexivity|].
  split; [exists [nm_a]; split; [right; left; reflexivity | reflexivity] | reflexivity].
Qed.
