(* C06: the scope machine against the lexical specification.

   [refines fresh fs]: compiling the module [fs] (Walk.module_events) and running the scope machine
   gives every identifier node exactly the name the lexical resolver (Lexical.lex_module) prescribes. *)
From HyV Require Import Base.Text Scope.SetDecl Scope.OuterVars Scope.Machine Scope.Walk Scope.Lexical.
Local Open Scope nat_scope.

Definition machine_cells (fresh : name -> nat -> name) (fs : list form) : cells :=
  st_cells (run (fun l => l) OSorted (module_events fresh fs) init_state).

Definition refines (fresh : name -> nat -> name) (fs : list form) : Prop :=
  machine_cells fresh fs = l_cells (lex_module fresh fs).

(* every name the program mentions *)
Fixpoint names_of (f : form) {struct f} : list name :=
  match f with
  | FLit => []
  | FRef x => [x]
  | FSetv x e => x :: names_of e
  | FDo es => flat_map names_of es
  | FLet bs body =>
      (fix nb (bs : list (name * form)) : list name :=
         match bs with [] => [] | (x, e) :: r => x :: names_of e ++ nb r end) bs ++ flat_map names_of body
  | FFn ps body => ps ++ flat_map names_of body
  | FDefn g ps body => g :: ps ++ flat_map names_of body
  | FClass c body => c :: flat_map names_of body
  | FDecl _ ns => ns
  | FCall g args => names_of g ++ flat_map names_of args
  end.

(* the let variables are new: distinct from each other and from every name of the program (C12) *)
Definition fresh_ok (fresh : name -> nat -> name) (fs : list form) : Prop :=
  (forall x k y j, fresh x k = fresh y j -> k = j) /\
  (forall x k y, In y (flat_map names_of fs) -> fresh x k <> y).

(* the documentation's example:
   (let [x 5 y 6] (print x y) (let [x 7] (print x y)) (print x y)) *)
Definition nx : name := [120%N]. Definition ny : name := [121%N]. Definition nprint : name := [112%N].
Definition doc_example : list form :=
  [FLet [(nx, FLit); (ny, FLit)]
        [FCall (FRef nprint) [FRef nx; FRef ny];
         FLet [(nx, FLit)] [FCall (FRef nprint) [FRef nx; FRef ny]];
         FCall (FRef nprint) [FRef nx; FRef ny]]].

Example doc_example_refines : refines hy_let_name doc_example.
Proof. vm_compute. reflexivity. Qed.

Example doc_example_names :
  l_cells (lex_module hy_let_name doc_example)
  = [[hy_let_name nx 1]; [hy_let_name nx 1]; [hy_let_name ny 2]; [hy_let_name ny 2];
     [nprint]; [hy_let_name nx 1]; [hy_let_name ny 2];
     [hy_let_name nx 3]; [hy_let_name nx 3]; [nprint]; [hy_let_name nx 3]; [hy_let_name ny 2];
     [nprint]; [hy_let_name nx 1]; [hy_let_name ny 2]].
Proof. vm_compute. reflexivity. Qed.

(* closures: (let [x 1] (fn [] x (setv y x)) (fn [x] x) (fn [] (setv x 2) x)) *)
Definition closure_example : list form :=
  [FLet [(nx, FLit)]
        [FFn [] [FRef nx; FSetv ny (FRef nx)];
         FFn [nx] [FRef nx];
         FFn [] [FSetv nx FLit; FRef nx]]].
Example closure_example_refines : refines hy_let_name closure_example.
Proof. vm_compute. reflexivity. Qed.
Example closure_example_names :
  l_cells (lex_module hy_let_name closure_example)
  = [[hy_let_name nx 1]; [hy_let_name nx 1];
     [hy_let_name nx 1]; [hy_let_name nx 1]; [ny]; [ny];
     [nx];
     [nx]; [nx]; [nx]].
Proof. vm_compute. reflexivity. Qed.
