(* C04, tie T3: the loop structure the model says compile_comprehension emits, flattened to numbers
   so that the harness can compare it with the real AST (props/comp_model.py). *)
From Coq Require Import List NArith Bool.
Import ListNotations.
From HyV Require Import Scope.Comprehension.
Open Scope N_scope.

Definition cl := clause N N.
Definition fin_code (f : final N) : N := match f with FVal _ => 0 | FStar _ => 1 | FKV _ _ => 2 | FDStar _ => 3 end.

(* For x: 1 x <body> 0 [9 <else> 0] ; If: 2 <body> 0 ; Assign x: 3 x ; Expr: 4 ; Yield: 5 kind ; break-if: 6 ; continue-if: 7 *)
Fixpoint flat_stmt (t : stmt N N) {struct t} : list N :=
  let flat_list := (fix flat_list (ts : list (stmt N N)) : list N :=
                      match ts with [] => [] | t :: r => flat_stmt t ++ flat_list r end) in
  match t with
  | SFor x _ body orelse =>
      [1; x] ++ flat_list body ++ [0] ++ match orelse with [] => [] | _ => [9] ++ flat_list orelse ++ [0] end
  | SIf _ body => [2] ++ flat_list body ++ [0]
  | SAssign x _ => [3; x]
  | SExpr _ => [4]
  | SYield f => [5; fin_code f]
  | SBreakIf _ => [6]
  | SContIf _ => [7]
  end.
Definition flat_stmts (ts : list (stmt N N)) : list N := flat_map flat_stmt ts.

(* generator: 1 x kind n_ifs ; kind 0 = `in e`, 1 = `in (e,)` *)
Definition flat_gens (gs : list (gen N N)) : list N :=
  flat_map (fun g => [1; g_x g; match g_it g with ItExpr _ => 0 | ItOne _ => 1 end; N.of_nat (length (g_ifs g))]) gs.

(* what the model predicts for a lfor/sfor/dfor/gfor form:
   (uses the generator function?, structure; [77] = the code fails with IndexError) *)
Definition predict (cs : list cl) (parts_stmts final_stmts : bool) (f : final N) : bool * list N :=
  match cs with
  | [] => (false, [88])      (* no clauses: the canned empty collection *)
  | _ =>
    if uses_genfn N N cs parts_stmts final_stmts f then (true, flat_stmts (gen_body N N cs f))
    else (false, match to_gens N N cs [] with Some gs => flat_gens gs | None => [77] end)
  end.

Definition predict_for (cs : list cl) (has_else : bool) : list N :=
  match cs with
  | [] => [88]
  | _ => flat_stmts (gen_for N N cs [SExpr 0] (if has_else then [SExpr 0] else []))
  end.
