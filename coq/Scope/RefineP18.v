(* C06 refinement proof, part 18: let; all forms. *)
From HyV Require Import Base.Text Scope.SetDecl Scope.OuterVars Scope.Machine Scope.MachineFacts Scope.Walk Scope.Lexical Scope.Refine.
From Coq Require Import Permutation.
From HyV Require Import Scope.RefineP01 Scope.RefineP02 Scope.RefineP03 Scope.RefineP04 Scope.RefineP05 Scope.RefineP06 Scope.RefineP07 Scope.RefineP08 Scope.RefineP09 Scope.RefineP10 Scope.RefineP11 Scope.RefineP12 Scope.RefineP13 Scope.RefineP14 Scope.RefineP15 Scope.RefineP16 Scope.RefineP17.
Local Open Scope nat_scope.

Section Final.
Variable fresh : name -> nat -> name.
Variable user : name -> bool.
Hypothesis fresh_nonuser : forall x k, user (fresh x k) = false.

Notation good := (good user).
Notation step := (step (fun l : list name => l) OSorted).
Notation run := (run (fun l : list name => l) OSorted).
Notation Pform := (Pform fresh user).
Notation Plist := (Plist fresh user).

Lemma let_names bs body : names_user user (FLet bs body) ->
  (forall x e, In (x, e) bs -> user x = true /\ names_user user e) /\ names_user_l user body.
Proof.
  intros H. split.
  - intros x e Hin. assert (S : forall y, In y (x :: names_of e) -> In y (names_of (FLet bs body))).
    { intros y Hy. cbn [names_of]. apply in_or_app. left. clear H. induction bs as [|[x' e'] r IH]; [destruct Hin|].
      destruct Hin as [E|Hin].
      - inversion E; subst. destruct Hy as [<-|Hy]; [left; reflexivity | right; apply in_or_app; left; exact Hy].
      - right. apply in_or_app. right. apply IH. exact Hin. }
    split; [apply H, S; left; reflexivity | intros y Hy; apply H, S; right; exact Hy].
  - intros y Hy. apply H. cbn [names_of]. apply in_or_app. right. exact Hy.
Qed.

Lemma P_let bs body : Forall (fun b => Pform (snd b)) bs -> Forall Pform body -> Pform (FLet bs body).
Proof.
  intros Hbs Hbody ctx st w G Hu Hc Hok.
  rewrite lexf_let_eq in *. rewrite assigned_let_eq in *. rewrite events_of_let_eq. cbn zeta.
  destruct (let_names bs body Hu) as [Hn Hub].
  set (sid := w_sid w). set (w0 := W (S sid) (w_let w)).
  assert (G0 : good ctx st w0) by (eapply good_wmono; [exact G | unfold w0, sid; cbn [w_sid]; lia]).
  assert (P0 : let_parked st sid [] (st_susp st)).
  { left. split; [reflexivity|]. split; [|reflexivity]. intros X. pose proof (g_ids _ _ _ _ G sid X). unfold sid in *. lia. }
  pose proof (let_loop fresh user fresh_nonuser ctx sid body (Plist_of_Forall fresh user body Hbody) bs Hbs [] st w0 (st_susp st)
                G0 P0 (Nat.lt_succ_diag_r sid) (fun k v H => match H with end) (fun k v H => match H with end) Hn Hub) as L.
  cbn [map app w_let w0] in L. specialize (L Hc Hok).
  destruct (binds_of fresh sid bs w0) as [a w1] eqn:Ea. cbn [fst snd] in L.
  destruct (events_of_list fresh body w1) as [b w2] eqn:Eb. cbn [fst snd] in L |- *.
  destruct L as [[G6 [K6 [Sd6 [F6 [A6 [M6 I6]]]]]] [dead [s' D6]]].
  unfold post. split; [exact G6|]. split; [exact K6|]. split; [unfold w0, sid in Sd6; cbn [w_sid] in Sd6; lia|].
  split; [exact F6|]. split; [exact A6|]. split; [exact M6|]. split; [exists (s' :: dead); exact D6 | exact I6].
Qed.

Theorem all_forms : forall f, Pform f.
Proof.
  apply form_ind2.
  - apply P_lit.
  - apply P_ref.
  - apply P_setv.
  - apply P_do.
  - apply P_let.
  - apply P_fn.
  - apply P_defn.
  - intros c body _ ctx st w G Hu Hc Hok. discriminate Hok.
  - intros r ns ctx st w G Hu Hc Hok. discriminate Hok.
  - apply P_call.
Qed.

End Final.
