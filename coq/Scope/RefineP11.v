(* C06 refinement proof, part 11: entering and leaving a function scope. *)
From HyV Require Import Base.Text Scope.SetDecl Scope.OuterVars Scope.Machine Scope.MachineFacts Scope.Walk Scope.Lexical Scope.Refine.
From HyV Require Import Scope.RefineP01 Scope.RefineP02 Scope.RefineP03 Scope.RefineP04 Scope.RefineP05 Scope.RefineP06 Scope.RefineP07 Scope.RefineP08 Scope.RefineP09 Scope.RefineP10.
Local Open Scope nat_scope.

Section Fn.
Variable user : name -> bool.
Notation srel := (srel user).
Notation good := (good user).
Notation step := (step (fun l : list name => l) OSorted).
Notation run := (run (fun l : list name => l) OSorted).

Lemma fn_exit_eq s rest c : s_nonlocal s = [] ->
  fn_exit s rest c = (with_defined s (s_defined s),
                      fst (exit_fold (s_defined s) (s_seen s) (rest, c)),
                      snd (exit_fold (s_defined s) (s_seen s) (rest, c))).
Proof.
  intros Nl. unfold fn_exit. rewrite Nl, sremove_all_nil. cbn [s_defined with_defined s_seen].
  unfold exit_fold. destruct (fold_left _ (s_seen s) (rest, c)) as [a b]. reflexivity.
Qed.

Lemma pending_cons s stk l : In l (pending (s :: stk)) <-> In l (map nr_label (s_seen s)) \/ In l (pending stk).
Proof. unfold pending. cbn [flat_map]. rewrite in_app_iff. reflexivity. Qed.

Lemma seen_below_pending stk n : seen_below stk n <-> (forall l, In l (pending stk) -> l < n).
Proof.
  split.
  - intros H l Hl. apply pending_in in Hl. destruct Hl as [s [r [Hs [Hr E]]]]. subst l. apply (H s r Hs Hr).
  - intros H s r Hs Hr. apply H. apply pending_in. exists s, r. auto.
Qed.

(* ---- entering a function scope ---- *)
Lemma step_enter_fn ctx st w ps own : good ctx st w ->
  (forall n, In n ps -> smem n own = true) -> (forall n, In n own -> user n = true) ->
  let sid := w_sid w in let lo := length (st_cells st) in
  let st' := step st (EEnter KFn sid ps) in
  good (FrFn sid own lo :: ctx) st' (W (S sid) (w_let w))
  /\ fin_names (FrFn sid own lo :: ctx) st' = fin_names ctx st
  /\ st_susp st' = st_susp st
  /\ (forall n, In n ps -> smem n (ndef (st_stack st')) = true)
  /\ tl (st_stack st') = st_stack st
  /\ map s_id (st_stack st') = sid :: map s_id (st_stack st).
Proof.
  intros G Hps Hown sid lo. destruct G as [Ge Gr Gs Gl Gc Gi Gn Gu Gv]. unfold step. rewrite Ge. unfold enter, upd.
  cbn [st_err st_stack st_cells st_susp].
  set (s := with_defined (new_scope sid KFn) (supdate [] ps)).
  split; [|split; [|split; [reflexivity | split; [|split; reflexivity]]]].
  - constructor; cbn [st_err st_stack st_cells st_susp w_sid]; auto.
    + cbn [srel]. unfold s. cbn [s_kind s_id s_nonlocal s_defined s_seen with_defined new_scope].
      split; [reflexivity|]. split; [reflexivity|]. split; [reflexivity|]. split; [|split; [intros r []|split; [constructor|split; [exact Gs|split; [exact Gl | exact Gr]]]]].
      intros n Hn. left. rewrite smem_supdate in Hn. cbn [smem existsb orb] in Hn. apply Hps. apply smem_In. exact Hn.
    + intros s' r [<-|Hs] Hr; [unfold s in Hr; cbn in Hr; destruct Hr | apply (Gs s' r Hs Hr)].
    + intros sid' own' lo' [E|Hin]; [inversion E; subst; unfold lo; lia | apply (Gl sid' own' lo' Hin)].
    + intros i [<-|Hi]; [unfold s; cbn; lia | specialize (Gi i Hi); unfold sid; lia].
    + cbn [map app]. constructor; [|exact Gn]. unfold s. cbn [s_id with_defined new_scope]. intros X. specialize (Gi sid X). unfold sid in Gi. lia.
    + cbn [ctx_user]. split; assumption.
  - unfold fin_names. cbn [st_stack st_cells]. apply map_seq_ext. intros i Hi. cbn [evt].
    unfold s. unfold in_seen. cbn [s_seen with_defined new_scope existsb]. reflexivity.
  - intros n Hn. cbn [ndef]. unfold s. cbn [s_kind s_defined with_defined new_scope]. rewrite smem_supdate.
    apply orb_true_iff. right. apply smem_In. exact Hn.
Qed.

(* ---- leaving it: every pending node gets the name it had coming ---- *)
Lemma step_exit_fn ctx sid own lo st w : good (FrFn sid own lo :: ctx) st w ->
  (forall x, smem x own = true -> smem x (ndef (st_stack st)) = true) ->
  let st' := step st EExit in
  good ctx st' w
  /\ fin_names ctx st' = fin_names (FrFn sid own lo :: ctx) st
  /\ st_susp st' = st_susp st
  /\ ndef (st_stack st') = ndef (tl (st_stack st))
  /\ map s_id (st_stack st') = tl (map s_id (st_stack st))
  /\ smono (tl (st_stack st)) (st_stack st').
Proof.
  intros G Hcomp. destruct G as [Ge Gr Gs Gl Gc Gi Gn Gu Gv]. unfold step. rewrite Ge. unfold exit_scope.
  destruct (st_stack st) as [|s rest] eqn:Es; [destruct Gr|].
  destruct Gr as [K [I [Nl [D [Sn [Nd [Sb [Lk H]]]]]]]]. rewrite K. rewrite (fn_exit_eq s rest (st_cells st) Nl).
  cbn [ndef] in Hcomp. rewrite K in Hcomp. destruct Gu as [Gu1 Gu2].
  destruct (exit_fold_inv user ctx own (s_defined s) lo (length (st_cells st)) Gu2 D Hcomp Lk (s_seen s) rest (st_cells st) H eq_refl Gc Nd) as [A [B [C [E [F [G0 [I0 Mo]]]]]]].
  { intros r Hr. destruct (Sn r Hr) as [X Y]. split; [exact X|]. split; [exact Y|]. apply (Gs s r (or_introl eq_refl) Hr). }
  { intros r Hr X. apply pending_in in X. destruct X as [s' [r' [Hs' [Hr' E']]]]. specialize (Sb s' r' Hs' Hr').
    destruct (Sn r Hr) as [_ Y]. lia. }
  cbn [st_err st_stack st_cells st_susp].
  split; [|split; [|split; [reflexivity | split; [exact G0 | split; [cbn [map tl]; exact I0 | cbn [tl]; exact Mo]]]]].
  - constructor; cbn [st_err st_stack st_cells st_susp]; auto.
    + rewrite B. apply seen_below_pending. intros l Hl. destruct (F l Hl) as [X|X].
      * apply pending_in in X. destruct X as [s' [r' [Hs' [Hr' E']]]]. subst l. apply (Gs s' r' (or_intror Hs') Hr').
      * apply in_map_iff in X. destruct X as [r [E' Hr]]. subst l. apply (Gs s r (or_introl eq_refl) Hr).
    + rewrite B. eapply lo_ok_tl. exact Gl.
    + intros i Hi. apply Gi. rewrite map_app in *. rewrite I0 in Hi. cbn [map app]. right. exact Hi.
    + rewrite map_app in *. rewrite I0. cbn [map app] in Gn. apply NoDup_cons_iff in Gn. apply Gn.
  - unfold fin_names. cbn [st_stack st_cells]. rewrite B. rewrite Es. apply map_seq_ext. intros l Hl.
    destruct (E l Hl) as [E1 E2]. cbn [evt].
    destruct (in_seen l s) eqn:Ein.
    + apply E1. destruct (in_dec Nat.eq_dec l (map nr_label (s_seen s))) as [X|X]; [exact X|].
      apply in_seen_false_iff in X. congruence.
    + apply E2. apply in_seen_false_iff. exact Ein.
Qed.

End Fn.
