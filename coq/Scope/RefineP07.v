(* C06 refinement proof, part 7: helpers for the let protocol. *)
From HyV Require Import Base.Text Scope.SetDecl Scope.OuterVars Scope.Machine Scope.MachineFacts Scope.Walk Scope.Lexical Scope.Refine.
From HyV Require Import Scope.RefineP01 Scope.RefineP02 Scope.RefineP03 Scope.RefineP04 Scope.RefineP05 Scope.RefineP06.
Local Open Scope nat_scope.

Section Proto.
Variable user : name -> bool.
Notation srel := (srel user).
Notation good := (good user).
Notation step := (step (fun l : list name => l) OSorted).
Notation run := (run (fun l : list name => l) OSorted).

(* good and fin_names only look at four fields *)
Lemma good_core ctx st1 st2 w : st_err st1 = st_err st2 -> st_stack st1 = st_stack st2 ->
  st_cells st1 = st_cells st2 -> st_susp st1 = st_susp st2 -> good ctx st1 w -> good ctx st2 w.
Proof.
  intros E1 E2 E3 E4 [Ge Gr Gs Gl Gc Gi Gn Gu Gv]. constructor; rewrite <- ?E1, <- ?E2, <- ?E3, <- ?E4; assumption.
Qed.

Lemma fin_names_core ctx st1 st2 : st_stack st1 = st_stack st2 -> st_cells st1 = st_cells st2 ->
  fin_names ctx st1 = fin_names ctx st2.
Proof. intros E2 E3. unfold fin_names. rewrite E2, E3. reflexivity. Qed.

Lemma take_susp_none sid l : (forall i, In i (map s_id l) -> i <> sid) -> take_susp sid l = (None, l).
Proof.
  induction l as [|s r IH]; intros H; [reflexivity|]. cbn [take_susp].
  assert (E : Nat.eqb (s_id s) sid = false) by (apply Nat.eqb_neq; apply H; left; reflexivity). rewrite E.
  rewrite IH; [reflexivity|]. intros i Hi. apply H. right. exact Hi.
Qed.

Lemma let_add_in_none sid x new l : (forall i, In i (map s_id l) -> i <> sid) -> let_add_in sid x new l = (l, false).
Proof.
  induction l as [|s r IH]; intros H; [reflexivity|]. unfold let_add_in in *. cbn [fold_right].
  rewrite IH by (intros i Hi; apply H; right; exact Hi).
  assert (E : Nat.eqb (s_id s) sid = false) by (apply Nat.eqb_neq; apply H; left; reflexivity). rewrite E. reflexivity.
Qed.

Lemma let_add_in_head sid x new s l : s_id s = sid -> s_kind s = KLet ->
  (forall i, In i (map s_id l) -> i <> sid) ->
  let_add_in sid x new (s :: l) = (with_bindings s (dict_set x new (s_bindings s)) :: l, true).
Proof.
  intros I K H. unfold let_add_in. cbn [fold_right]. fold (let_add_in sid x new l).
  rewrite (let_add_in_none sid x new l H). rewrite I, Nat.eqb_refl, K. reflexivity.
Qed.

End Proto.
