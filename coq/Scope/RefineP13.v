(* C06 refinement proof, part 13: scope.define; fn and defn. *)
From HyV Require Import Base.Text Scope.SetDecl Scope.OuterVars Scope.Machine Scope.MachineFacts Scope.Walk Scope.Lexical Scope.Refine.
From HyV Require Import Scope.RefineP01 Scope.RefineP02 Scope.RefineP03 Scope.RefineP04 Scope.RefineP05 Scope.RefineP06 Scope.RefineP07 Scope.RefineP08 Scope.RefineP09 Scope.RefineP10 Scope.RefineP11 Scope.RefineP12.
Local Open Scope nat_scope.

Section Define.
Variable user : name -> bool.
Notation srel := (srel user).
Notation good := (good user).
Notation step := (step (fun l : list name => l) OSorted).

Lemma dict_pop_absent k d : lookup k d = None -> dict_pop k d = d.
Proof.
  induction d as [|[k' v] r IH]; [reflexivity|]. cbn [lookup dict_pop]. destruct (text_eqb k k'); [discriminate|].
  intros H. rewrite IH by exact H. reflexivity.
Qed.

Lemma define_spec ctx : forall stk g, srel ctx stk -> smem g (inner_of ctx) = false -> own_allows user ctx g ->
  srel ctx (define stk g)
  /\ (forall n, seen_below stk n -> seen_below (define stk g) n)
  /\ smem g (ndef (define stk g)) = true
  /\ smono stk (define stk g)
  /\ map s_id (define stk g) = map s_id stk
  /\ (forall c l, evt ctx (define stk g) c l = evt ctx stk c l).
Proof.
  induction ctx as [|[sid bs|sid own lo] ctx IH]; intros stk g H Hi Ho.
  - destruct stk as [|s [|s2 t]]; [destruct H| |destruct H]. destruct H as [K Sn]. cbn [define]. rewrite K.
    split; [split; [exact K | exact Sn]|]. split.
    { intros n Hb s' r [<-|[]] Hr. cbn [s_seen with_defined] in Hr. rewrite Sn in Hr. destruct Hr. }
    split; [cbn [ndef s_kind with_defined s_defined]; rewrite K, smem_sadd, text_eqb_refl; reflexivity|].
    split; [constructor; [|constructor]; split; [reflexivity|]; intros y Hy; cbn [s_defined with_defined]; rewrite smem_sadd, Hy; apply orb_true_r|].
    split; reflexivity.
  - destruct stk as [|s stk]; [destruct H|]. destruct H as [K [I [Sn [Hbs H]]]]. cbn [inner_of] in Hi.
    rewrite smem_app in Hi. apply orb_false_iff in Hi. destruct Hi as [Hi1 Hi2].
    assert (Hl : lookup g (s_bindings s) = None) by (rewrite Hbs; apply lookup_none_keys; exact Hi1).
    cbn [define]. rewrite K. rewrite (dict_pop_absent _ _ Hl).
    destruct (IH stk g H Hi2 Ho) as [A [B [C [D [E F]]]]].
    split; [cbn [RefineP03.srel s_kind s_id s_seen s_bindings with_bindings]; split; [exact K|]; split; [exact I|]; split; [exact Sn|]; split; [exact Hbs | exact A]|]. split.
    { intros n Hb s' r [<-|Hs] Hr; [cbn [s_seen with_bindings] in Hr; rewrite Sn in Hr; destruct Hr|].
      apply (B n (seen_below_tl _ _ _ Hb) s' r Hs Hr). }
    split; [cbn [ndef s_kind with_bindings]; rewrite K; exact C|].
    split; [constructor; [split; [reflexivity | auto] | exact D]|].
    split; [cbn [map s_id with_bindings]; rewrite E; reflexivity|].
    intros c l. cbn [evt]. apply F.
  - destruct stk as [|s stk]; [destruct H|]. destruct H as [K [I [Nl [D [Sn [Nd [Sb [Lk H]]]]]]]]. cbn [define]. rewrite K.
    unfold own_allows in Ho. cbn [nown] in Ho.
    split.
    { cbn [RefineP03.srel s_kind s_id s_nonlocal s_defined s_seen with_defined].
      split; [exact K|]. split; [exact I|]. split; [exact Nl|]. split; [|split; [exact Sn|split; [exact Nd|split; [exact Sb|split; [exact Lk | exact H]]]]].
      intros n Hn. rewrite smem_sadd in Hn. apply orb_true_iff in Hn. destruct Hn as [Hn|Hn]; [apply text_eqb_eq in Hn; subst n; exact Ho | apply D; exact Hn]. }
    split; [intros n Hb s' r [<-|Hs] Hr; [apply (Hb s r (or_introl eq_refl) Hr) | apply (Hb s' r (or_intror Hs) Hr)]|].
    split; [cbn [ndef s_kind with_defined s_defined]; rewrite K, smem_sadd, text_eqb_refl; reflexivity|].
    split; [constructor; [split; [reflexivity|]; intros y Hy; cbn [s_defined with_defined]; rewrite smem_sadd, Hy; apply orb_true_r | apply smono_refl]|].
    split; reflexivity.
Qed.

Lemma step_define ctx st w g : good ctx st w -> smem g (inner_of ctx) = false -> own_allows user ctx g ->
  let st' := step st (EDefine g) in
  good ctx st' w /\ fin_names ctx st' = fin_names ctx st /\ st_susp st' = st_susp st
  /\ smem g (ndef (st_stack st')) = true /\ smono (st_stack st) (st_stack st')
  /\ map s_id (st_stack st') = map s_id (st_stack st).
Proof.
  intros [Ge Gr Gs Gl Gc Gi Gn Gu Gv] Hi Ho. unfold step. rewrite Ge. unfold upd. cbn [st_err st_stack st_cells st_susp].
  destruct (define_spec ctx (st_stack st) g Gr Hi Ho) as [A [B [C [D [E F]]]]].
  split; [|split; [|split; [reflexivity | split; [exact C | split; [exact D | exact E]]]]].
  - constructor; cbn [st_err st_stack st_cells st_susp]; auto.
    + rewrite map_app, E, <- map_app. exact Gi.
    + rewrite map_app, E, <- map_app. exact Gn.
  - unfold fin_names. cbn [st_stack st_cells]. apply map_ext. intros l. apply F.
Qed.
End Define.

Section FnCases.
Variable fresh : name -> nat -> name.
Variable user : name -> bool.
Hypothesis fresh_nonuser : forall x k, user (fresh x k) = false.
Notation Pform := (Pform fresh user).
Notation run := (run (fun l : list name => l) OSorted).

Lemma P_fn ps body : Forall Pform body -> Pform (FFn ps body).
Proof.
  intros Hb ctx st w G Hu Hc Hok. rewrite lexf_fn_eq in *.
  assert (Hps : forall x, In x ps -> user x = true) by (intros x Hx; apply Hu; cbn [names_of]; apply in_or_app; left; exact Hx).
  assert (Hub : names_user_l user body) by (intros x Hx; apply Hu; cbn [names_of]; apply in_or_app; right; exact Hx).
  pose proof (fn_body fresh user ctx st w ps body Hb G Hps Hub Hok) as P.
  change (events_of fresh (FFn ps body) w)
    with (let '(b, w1) := events_of_list fresh body (W (S (w_sid w)) (w_let w)) in
          ([EEnter KFn (w_sid w) ps] ++ b ++ [EExit], w1)).
  destruct (events_of_list fresh body (W (S (w_sid w)) (w_let w))) as [b w1]. cbn [fst snd] in *. exact P.
Qed.

Lemma lexf_defn_eq g ps body e inner k :
  lexf fresh (FDefn g ps body) e inner k =
    (let r := lex_list fresh body (mask (ps ++ flat_map (assigned []) body) e) [] k in
     L (l_cells r) (l_let r) (l_ok r && negb (smem g inner))).
Proof. cbn zeta. rewrite <- (lexs_eq fresh (mask (ps ++ flat_map (assigned []) body) e) [] body k). reflexivity. Qed.

Lemma P_defn g ps body : Forall Pform body -> Pform (FDefn g ps body).
Proof.
  intros Hb ctx st w G Hu Hc Hok. rewrite lexf_defn_eq in *. cbn zeta in *. cbn [l_ok] in Hok.
  apply andb_true_iff in Hok. destruct Hok as [Ok1 Ok2]. apply negb_true_iff in Ok2.
  assert (Hps : forall x, In x ps -> user x = true) by (intros x Hx; apply Hu; cbn [names_of]; right; apply in_or_app; left; exact Hx).
  assert (Hub : names_user_l user body) by (intros x Hx; apply Hu; cbn [names_of]; right; apply in_or_app; right; exact Hx).
  assert (Hog : own_allows user ctx g) by (apply Hc; left; reflexivity).
  destruct (step_define user ctx st w g G Ok2 Hog) as [G1 [F1 [S1 [D1 [M1 I1]]]]].
  set (st1 := step (fun l : list name => l) OSorted st (EDefine g)) in *.
  pose proof (fn_body fresh user ctx st1 w ps body Hb G1 Hps Hub Ok1) as P.
  change (events_of fresh (FDefn g ps body) w)
    with (let '(b, w1) := events_of_list fresh body (W (S (w_sid w)) (w_let w)) in
          ([EDefine g; EEnter KFn (w_sid w) ps] ++ b ++ [EExit], w1)).
  destruct (events_of_list fresh body (W (S (w_sid w)) (w_let w))) as [b w1]. cbn [fst snd] in *.
  change ([EDefine g; EEnter KFn (w_sid w) ps] ++ b ++ [EExit]) with ([EDefine g] ++ ([EEnter KFn (w_sid w) ps] ++ b ++ [EExit])).
  rewrite run_app. change (run [EDefine g] st) with st1.
  destruct P as [G2 [K2 [Sd2 [F2 [A2 [M2 [[d2 D2] I2]]]]]]].
  unfold post. cbn [l_cells l_let assigned].
  split; [exact G2|]. split; [exact K2|]. split; [exact Sd2|].
  split; [etransitivity; [exact F2|]; f_equal; exact F1|].
  split; [intros x [<-|[]]; apply (ndef_smono _ _ M2); exact D1|].
  split; [eapply smono_trans; [exact M1 | exact M2]|].
  split; [exists d2; etransitivity; [exact D2|]; f_equal; exact S1|].
  etransitivity; [exact I2 | exact I1].
Qed.

End FnCases.
