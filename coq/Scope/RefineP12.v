(* C06 refinement proof, part 12: function bodies. *)
From HyV Require Import Base.Text Scope.SetDecl Scope.OuterVars Scope.Machine Scope.MachineFacts Scope.Walk Scope.Lexical Scope.Refine.
From HyV Require Import Scope.RefineP01 Scope.RefineP02 Scope.RefineP03 Scope.RefineP04 Scope.RefineP05 Scope.RefineP06 Scope.RefineP07 Scope.RefineP08 Scope.RefineP09 Scope.RefineP10 Scope.RefineP11.
Local Open Scope nat_scope.

(* names assigned in a form are names of the form *)
Lemma assigned_sub : forall f b x, In x (assigned b f) -> In x (names_of f).
Proof.
  apply (form_ind2 (fun f => forall b x, In x (assigned b f) -> In x (names_of f))).
  - intros b x [].
  - intros y b x [].
  - intros y e IH b x H. cbn [assigned names_of] in *. apply in_app_or in H. destruct H as [H|H].
    + right. apply (IH b). exact H.
    + destruct (smem y b); [destruct H|]. destruct H as [<-|[]]. left. reflexivity.
  - intros es IH b x H. cbn [assigned names_of] in *. apply in_flat_map in H. destruct H as [g [Hg Hx]].
    rewrite Forall_forall in IH. apply in_flat_map. exists g. split; [exact Hg | apply (IH g Hg b); exact Hx].
  - intros bs body IHb IHbody b x H. cbn [names_of].
    assert (Hbody : forall b', In x (flat_map (assigned b') body) -> In x (flat_map names_of body)).
    { intros b' Hx. apply in_flat_map in Hx. destruct Hx as [g [Hg Hx]]. rewrite Forall_forall in IHbody.
      apply in_flat_map. exists g. split; [exact Hg | apply (IHbody g Hg b'); exact Hx]. }
    cbn [assigned] in H. revert b H. induction IHb as [|[y e] r He Hr IHr]; intros b H.
    + apply in_or_app. right. apply (Hbody b). exact H.
    + cbn [snd] in He. apply in_app_or in H. destruct H as [H|H].
      * apply in_or_app. left. right. apply in_or_app. left. apply (He b). exact H.
      * specialize (IHr (y :: b) H). apply in_app_or in IHr. apply in_or_app. destruct IHr as [X|X]; [|right; exact X].
        left. right. apply in_or_app. right. exact X.
  - intros ps body IH b x [].
  - intros g ps body IH b x [<-|[]]. left. reflexivity.
  - intros c body IH b x [<-|[]]. left. reflexivity.
  - intros r ns b x [].
  - intros g args IHg IHa b x H. cbn [assigned names_of] in *. apply in_app_or in H. apply in_or_app. destruct H as [H|H].
    + left. apply (IHg b). exact H.
    + right. apply in_flat_map in H. destruct H as [a [Ha Hx]]. rewrite Forall_forall in IHa.
      apply in_flat_map. exists a. split; [exact Ha | apply (IHa a Ha b); exact Hx].
Qed.

Lemma smono_tl a b : smono a b -> smono (tl a) (tl b).
Proof. intros H. destruct H; [constructor | assumption]. Qed.

Section FnCase.
Variable fresh : name -> nat -> name.
Variable user : name -> bool.
Hypothesis fresh_nonuser : forall x k, user (fresh x k) = false.

Notation good := (good user).
Notation run := (run (fun l : list name => l) OSorted).
Notation Pform := (Pform fresh user).
Notation Plist := (Plist fresh user).

Lemma lexf_fn_eq ps body e inner k :
  lexf fresh (FFn ps body) e inner k = lex_list fresh body (mask (ps ++ flat_map (assigned []) body) e) [] k.
Proof. exact (lexs_eq fresh (mask (ps ++ flat_map (assigned []) body) e) [] body k). Qed.

Lemma fn_body ctx st w ps body : Forall Pform body -> good ctx st w ->
  (forall x, In x ps -> user x = true) -> names_user_l user body ->
  let own := ps ++ flat_map (assigned []) body in
  let lx := lex_list fresh body (mask own (env_of ctx)) [] (w_let w) in
  l_ok lx = true ->
  let evs := [EEnter KFn (w_sid w) ps] ++ fst (events_of_list fresh body (W (S (w_sid w)) (w_let w))) ++ [EExit] in
  let w' := snd (events_of_list fresh body (W (S (w_sid w)) (w_let w))) in
  post user ctx st (run evs st) w w' lx [].
Proof.
  intros Hb G Hps Hu own lx Hok evs w'.
  assert (Hown : forall n, In n own -> user n = true).
  { intros n Hn. unfold own in Hn. apply in_app_or in Hn. destruct Hn as [Hn|Hn]; [apply Hps; exact Hn|].
    apply Hu. apply in_flat_map in Hn. destruct Hn as [g [Hg Hx]]. apply in_flat_map. exists g.
    split; [exact Hg | apply (assigned_sub g []); exact Hx]. }
  assert (Hps' : forall n, In n ps -> smem n own = true).
  { intros n Hn. apply smem_In. unfold own. apply in_or_app. left. exact Hn. }
  destruct (step_enter_fn user ctx st w ps own G Hps' Hown) as [G1 [F1 [S1 [N1 [T1 I1]]]]].
  set (sid := w_sid w) in *. set (lo := length (st_cells st)) in *.
  set (st1 := step (fun l : list name => l) OSorted st (EEnter KFn sid ps)) in *.
  set (ctx' := FrFn sid own lo :: ctx).
  pose proof (Plist_of_Forall fresh user body Hb ctx' st1 (W (S sid) (w_let w)) G1 Hu) as PB.
  cbn [inner_of env_of w_let] in PB. unfold ctx' in PB. cbn [inner_of env_of] in PB. fold ctx' in PB.
  assert (Hcov : covers user ctx' (flat_map (assigned []) body)).
  { intros x Hx. unfold own_allows, ctx'. cbn [nown]. left. apply smem_In. unfold own. apply in_or_app. right. exact Hx. }
  specialize (PB Hcov Hok).
  destruct (events_of_list fresh body (W (S sid) (w_let w))) as [b w2] eqn:Eb. cbn [fst snd] in *.
  destruct PB as [G2 [K2 [Sd2 [F2 [A2 [M2 [[d2 D2] I2]]]]]]].
  unfold evs. cbn [app]. change (EEnter KFn sid ps :: b ++ [EExit]) with ([EEnter KFn sid ps] ++ b ++ [EExit]).
  rewrite !run_app. change (run [EEnter KFn sid ps] st) with st1.
  set (st2 := run b st1) in *.
  destruct (step_exit_fn user ctx sid own lo st2 w2 G2) as [G3 [F3 [S3 [N3 [I3 Mo3]]]]].
  { intros x Hx. apply smem_In in Hx. unfold own in Hx. apply in_app_or in Hx. destruct Hx as [Hx|Hx].
    - apply (ndef_smono _ _ M2). apply N1. exact Hx.
    - apply A2. exact Hx. }
  change (run [EExit] st2) with (step (fun l : list name => l) OSorted st2 EExit).
  set (st3 := step (fun l : list name => l) OSorted st2 EExit) in *.
  unfold post. cbn [l_cells l_let].
  split; [exact G3|]. split; [exact K2|]. split; [cbn [w_sid] in Sd2; unfold w'; lia|].
  split; [etransitivity; [exact F3|]; etransitivity; [exact F2|]; f_equal; exact F1|]. split; [intros x []|].
  split.
  { eapply smono_trans; [|exact Mo3]. pose proof (smono_tl _ _ M2) as X. rewrite T1 in X. exact X. }
  split; [exists d2; etransitivity; [exact S3|]; etransitivity; [exact D2|]; f_equal; exact S1|].
  etransitivity; [exact I3|]. rewrite I2, I1. reflexivity.
Qed.

End FnCase.
