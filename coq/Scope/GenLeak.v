(* C04 leak_spec, the part that lives in ScopeGen: which names compile_comprehension re-declares
   nonlocal/global in the generator function (= the names that leak into the enclosing scope).

   - ScopeGen.iterator(target) drops every assignment recorded so far whose name is an iteration
     (or :setv) variable, and from then on accesses to those names are not recorded;
   - ScopeGen.finalize returns the sorted set of the names of the remaining recorded assignments,
     when the enclosing scope is a function, a class or the module (no let in between renames them). *)
From HyV Require Import Base.Text Scope.Sorting Scope.SetDecl Scope.OuterVars Scope.Machine.
Local Open Scope nat_scope.

Section Leak.
Variable perm : list name -> list name.
Variable ord : order_kind.

(* after iterator(xs): no recorded assignment, no seen node of the scope is named like an iteration variable *)
Theorem iterator_drops_iteration_variables st s rest xs :
  st_err st = None -> st_stack st = s :: rest -> s_kind s = KGen ->
  match st_stack (iterator st xs) with
  | s' :: _ =>
      (forall r, In r (s_assignments s') -> smem (name_of (st_cells st) r) (supdate (s_iterators s) xs) = false)
      /\ (forall r, In r (s_seen s') -> smem (name_of (st_cells st) r) (supdate (s_iterators s) xs) = false)
      /\ s_iterators s' = supdate (s_iterators s) xs
  | [] => False
  end.
Proof.
  intros He Hs K. unfold iterator. rewrite Hs, K. unfold upd. cbn [st_stack].
  cbn [s_assignments s_seen s_iterators with_seen with_assignments with_iterators].
  split; [|split; [|reflexivity]]; intros r Hr; apply filter_In in Hr; destruct Hr as [_ Hr];
    apply negb_true_iff in Hr; exact Hr.
Qed.

(* an access from a ScopeGen whose variable is an iterator is not recorded at all *)
Theorem iterator_access_not_seen s rest c r :
  s_kind s = KGen -> smem (name_of c r) (s_iterators s) = true -> access (s :: rest) c r = (s :: rest, c).
Proof. intros K H. cbn [access]. rewrite K, H. reflexivity. Qed.

(* parent.access of a function / class / module scope never renames *)
Definition plain_parent (rest : list scope) : Prop :=
  match rest with
  | p :: _ => match s_kind p with KFn | KClass | KGlobal => True | _ => False end
  | [] => False
  end.

Lemma access_plain_parent rest c r : plain_parent rest ->
  snd (access rest c r) = c /\ plain_parent (fst (access rest c r)).
Proof.
  destruct rest as [|p t]; [intros []|]. cbn [plain_parent access]. intros H. destruct (s_kind p) eqn:K; destruct H;
    cbn [fst snd plain_parent s_kind with_seen]; rewrite ?K; split; auto.
Qed.

Definition fin_fold (nonl : list name) (asg : list noderef) (a : list scope * cells * fset) :=
  fold_left (fun acc r => let '(stk, cc, res) := acc in
                          if smem (name_of cc r) nonl then acc
                          else let '(stk', cc') := access stk cc r in (stk', cc', sadd (name_of cc' r) res))
            asg a.

Lemma finalize_fold_plain (nonl : list name) : forall (asg : list noderef) rest c res, plain_parent rest ->
  snd (fst (fin_fold nonl asg (rest, c, res))) = c
  /\ snd (fin_fold nonl asg (rest, c, res)) = supdate res (filter (fun n => negb (smem n nonl)) (map (name_of c) asg)).
Proof.
  induction asg as [|r t IH]; intros rest c res Hp; [split; reflexivity|].
  unfold fin_fold. cbn [fold_left map filter]. fold (fin_fold nonl t).
  destruct (smem (name_of c r) nonl) eqn:E; cbn [negb].
  - apply IH. exact Hp.
  - destruct (access_plain_parent rest c r Hp) as [Ec Hp']. destruct (access rest c r) as [stk' cc'] eqn:Ea.
    cbn [fst snd] in *. subst cc'. cbn [supdate fold_left]. apply (IH stk' c (sadd (name_of c r) res) Hp').
Qed.

(* what finalize() returns: the sorted (or, were the source to change, the oracle-ordered) set of the
   names of the recorded assignments that the comprehension itself did not declare nonlocal *)
Theorem finalize_returns_assignment_names st s rest :
  st_err st = None -> st_stack st = s :: rest -> s_kind s = KGen -> plain_parent rest ->
  exists out, st_fin (finalize perm ord st) = st_fin st ++ [out]
    /\ fo_names out = names_of_set perm ord
         (supdate [] (filter (fun n => negb (smem n (s_nonlocal s))) (map (name_of (st_cells st)) (s_assignments s))))
    /\ st_cells (finalize perm ord st) = st_cells st.
Proof.
  intros He Hs K Hp. unfold finalize. rewrite Hs, K.
  change (fold_left _ (s_assignments s) (rest, st_cells st, [])) with (fin_fold (s_nonlocal s) (s_assignments s) (rest, st_cells st, [])).
  match goal with |- context [fin_fold ?a ?b ?c] =>
    assert (F : snd (fst (fin_fold a b c)) = st_cells st
                /\ snd (fin_fold a b c) = supdate [] (filter (fun n => negb (smem n (s_nonlocal s))) (map (name_of (st_cells st)) (s_assignments s))))
      by (apply finalize_fold_plain; exact Hp);
    destruct (fin_fold a b c) as [[rest' c'] res]
  end.
  cbn [fst snd] in F. destruct F as [F1 F2]. eexists. cbn [st_fin st_cells]. split; [reflexivity|]. cbn [fo_names].
  rewrite F2. split; [reflexivity | exact F1].
Qed.

End Leak.
