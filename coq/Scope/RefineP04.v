(* C06 refinement proof, part 4: scope.access against the context. *)
From HyV Require Import Base.Text Scope.SetDecl Scope.OuterVars Scope.Machine Scope.MachineFacts Scope.Walk Scope.Lexical Scope.Refine.
From HyV Require Import Scope.RefineP01 Scope.RefineP02 Scope.RefineP03.
Local Open Scope nat_scope.

Section Acc.
Variable user : name -> bool.
Notation srel := (srel user).

Definition cells_ok (c : cells) : Prop := Forall (fun cell => length cell = 1) c.

Lemma name_of_app_old c d l : l < length c -> name_of (c ++ d) (NR l 0) = name_of c (NR l 0).
Proof. intros H. unfold name_of, cell_names. cbn [nr_label nr_index]. rewrite app_nth1 by exact H. reflexivity. Qed.

Lemma name_of_app_new c x : name_of (c ++ [[x]]) (NR (length c) 0) = x.
Proof. unfold name_of, cell_names. cbn [nr_label nr_index]. rewrite app_nth2 by lia. rewrite Nat.sub_diag. reflexivity. Qed.

Lemma set_nth_app_last {A} (l : list A) (x y : A) : set_nth (length l) y (l ++ [x]) = l ++ [y].
Proof. induction l as [|a r IH]; [reflexivity|]. cbn. f_equal. exact IH. Qed.

Lemma set_name_last c x m : set_name (c ++ [[x]]) (NR (length c) 0) m = c ++ [[m]].
Proof.
  unfold set_name, set_cell, cell_names. cbn [nr_label nr_index].
  rewrite app_nth2 by lia. rewrite Nat.sub_diag. cbn [nth set_nth]. apply set_nth_app_last.
Qed.

Lemma valid_last c x : valid_ref (c ++ [[x]]) (NR (length c) 0).
Proof.
  unfold valid_ref, cell_names. cbn [nr_label nr_index]. rewrite app_length. cbn [length]. split; [lia|].
  rewrite app_nth2 by lia. rewrite Nat.sub_diag. cbn. lia.
Qed.

Lemma in_seen_app l s r : in_seen l (with_seen s (s_seen s ++ [r])) = in_seen l s || Nat.eqb (nr_label r) l.
Proof. unfold in_seen. cbn [s_seen with_seen]. rewrite existsb_app. cbn [existsb]. rewrite orb_false_r. reflexivity. Qed.

Lemma in_seen_lt l s : (forall r, In r (s_seen s) -> nr_label r < l) -> in_seen l s = false.
Proof.
  intros H. unfold in_seen. destruct (existsb _ _) eqn:E; [|reflexivity].
  apply existsb_exists in E. destruct E as [r [Hr E]]. apply Nat.eqb_eq in E. specialize (H r Hr). lia.
Qed.

Lemma seen_below_tl s stk l : seen_below (s :: stk) l -> seen_below stk l.
Proof. intros H s' r Hs Hr. apply (H s' r); [right; exact Hs | exact Hr]. Qed.

Lemma seen_below_mono stk l l' : seen_below stk l -> l <= l' -> seen_below stk l'.
Proof. intros H Hl s r Hs Hr. specialize (H s r Hs Hr). lia. Qed.

Lemma evt_not_seen ctx : forall stk c l, seen_below stk l -> evt ctx stk c l = name_of c (NR l 0).
Proof.
  induction ctx as [|[sid bs|sid own lo] ctx IH]; intros stk c l H; destruct stk as [|s stk]; cbn [evt]; try reflexivity.
  - apply IH. eapply seen_below_tl; exact H.
  - rewrite in_seen_lt; [apply IH; eapply seen_below_tl; exact H|]. intros r Hr. apply (H s r); [left; reflexivity | exact Hr].
Qed.

Lemma evt_cells_ext ctx : forall stk c c' l, name_of c' (NR l 0) = name_of c (NR l 0) -> evt ctx stk c' l = evt ctx stk c l.
Proof.
  induction ctx as [|[sid bs|sid own lo] ctx IH]; intros stk c c' l H; destruct stk as [|s stk]; cbn [evt]; try exact H.
  - apply IH; exact H.
  - rewrite H. destruct (in_seen l s); [reflexivity | apply IH; exact H].
Qed.


Lemma lo_ok_tl f ctx l : lo_ok (f :: ctx) l -> lo_ok ctx l.
Proof. intros H sid own lo Hin. eapply H. right. exact Hin. Qed.

Lemma NoDup_app_last (ls : list nat) l : NoDup ls -> (forall x, In x ls -> x < l) -> NoDup (ls ++ [l]).
Proof.
  intros H. induction H as [|x r Hx Hr IH]; intros Hl; cbn; [constructor; [intros []|constructor]|].
  constructor.
  - intros Hin. apply in_app_or in Hin. destruct Hin as [Hin|[E|[]]]; [exact (Hx Hin)|].
    specialize (Hl x (or_introl eq_refl)). lia.
  - apply IH. intros y Hy. apply Hl. right. exact Hy.
Qed.

(* every scope keeps its kind and its defined set only grows *)
Definition smono (a b : list scope) : Prop :=
  Forall2 (fun s s' => s_kind s = s_kind s' /\ forall y, smem y (s_defined s) = true -> smem y (s_defined s') = true) a b.

Lemma smono_refl a : smono a a.
Proof. induction a; constructor; auto. Qed.

Lemma smono_trans a b c : smono a b -> smono b c -> smono a c.
Proof.
  intros H. revert c. induction H as [|x y a b [K M] Hab IH]; intros c Hc; inversion Hc as [|y' z b' c' [K2 M2] Hbc]; subst; constructor.
  - split; [congruence | intros w Hw; apply M2, M, Hw].
  - apply IH. exact Hbc.
Qed.

Lemma ndef_smono a b : smono a b -> forall y, smem y (ndef a) = true -> smem y (ndef b) = true.
Proof.
  induction 1 as [|x y a b [K M] Hab IH]; intros w Hw; [exact Hw|]. cbn [ndef] in *. rewrite <- K.
  destruct (s_kind x); try (apply M; exact Hw). apply IH. exact Hw.
Qed.

Lemma acc_smono ctx : forall stk r n, srel ctx stk -> smono stk (fst (acc ctx stk r n)).
Proof.
  induction ctx as [|[sid bs|sid own lo] ctx IH]; intros stk r n H.
  - destruct stk as [|g [|g2 t]]; [destruct H| |destruct H]. apply smono_refl.
  - destruct stk as [|s stk]; [destruct H|]. destruct H as [K [I [Sn [Hbs H]]]]. cbn [acc].
    destruct (lookup n bs); [apply smono_refl|]. specialize (IH stk r n H). destruct (acc ctx stk r n) as [t m].
    cbn [fst] in *. constructor; [split; auto | exact IH].
  - destruct stk as [|s stk]; [destruct H|]. cbn [acc fst]. constructor; [split; auto | apply smono_refl].
Qed.

(* ---- access ---- *)
Lemma acc_srel ctx : forall stk l n, srel ctx stk -> seen_below stk l -> lo_ok ctx l ->
  srel ctx (fst (acc ctx stk (NR l 0) n)) /\ seen_below (fst (acc ctx stk (NR l 0) n)) (S l)
  /\ ndef (fst (acc ctx stk (NR l 0) n)) = ndef stk.
Proof.
  induction ctx as [|[sid bs|sid own lo] ctx IH]; intros stk l n H Hb Hlo.
  - destruct stk as [|g [|g2 t]]; [destruct H| |destruct H]. cbn [acc fst]. split; [exact H|]. split; [|reflexivity].
    eapply seen_below_mono; [exact Hb | lia].
  - destruct stk as [|s stk]; [destruct H|]. destruct H as [K [I [Sn [Hbs H]]]]. cbn [acc].
    destruct (lookup n bs) as [m|].
    + cbn [fst]. split; [cbn [srel]; auto|]. split; [eapply seen_below_mono; [exact Hb | lia] | reflexivity].
    + destruct (IH stk l n H (seen_below_tl _ _ _ Hb) (lo_ok_tl _ _ _ Hlo)) as [A [B C]].
      destruct (acc ctx stk (NR l 0) n) as [t m]. cbn [fst] in *.
      split; [cbn [srel]; auto|]. split.
      * intros s' r [<-|Hs] Hr; [rewrite Sn in Hr; destruct Hr | apply (B s' r Hs Hr)].
      * cbn [ndef]. rewrite K. exact C.
  - destruct stk as [|s stk]; [destruct H|]. destruct H as [K [I [Nl [D [Sn [Nd [Sb [Lk H]]]]]]]]. cbn [acc fst]. split; [|split].
    + cbn [srel s_kind s_id s_defined s_seen s_nonlocal with_seen]. repeat split; auto.
      * apply in_app_or in H0. destruct H0 as [H0|[<-|[]]]; [apply (Sn r H0) | reflexivity].
      * apply in_app_or in H0. destruct H0 as [H0|[<-|[]]]; [apply (Sn r H0) | cbn; eapply Hlo; left; reflexivity].
      * rewrite map_app. cbn [map nr_label]. apply NoDup_app_last; [exact Nd|].
        intros x Hx. apply in_map_iff in Hx. destruct Hx as [r [<- Hr]]. apply (Hb s r (or_introl eq_refl) Hr).
    + intros s' r [<-|Hs] Hr.
      * cbn [s_seen with_seen] in Hr. apply in_app_or in Hr. destruct Hr as [Hr|[<-|[]]]; [|cbn; lia].
        specialize (Hb s r (or_introl eq_refl) Hr). lia.
      * specialize (Hb s' r (or_intror Hs) Hr). lia.
    + cbn [ndef s_kind with_seen s_defined]. rewrite K. reflexivity.
Qed.

Lemma acc_evt_new ctx : forall stk l n c', srel ctx stk -> seen_below stk l ->
  name_of c' (NR l 0) = snd (acc ctx stk (NR l 0) n) ->
  evt ctx (fst (acc ctx stk (NR l 0) n)) c' l = up ctx n.
Proof.
  induction ctx as [|[sid bs|sid own lo] ctx IH]; intros stk l n c' H Hb Hn.
  - destruct stk as [|g [|g2 t]]; [destruct H| |destruct H]. cbn [acc fst snd evt up] in *. exact Hn.
  - destruct stk as [|s stk]; [destruct H|]. destruct H as [K [I [Sn [Hbs H]]]]. cbn [acc up] in *.
    destruct (lookup n bs) as [m|].
    + cbn [fst snd evt] in *. rewrite evt_not_seen; [exact Hn | eapply seen_below_tl; exact Hb].
    + specialize (IH stk l n c' H (seen_below_tl _ _ _ Hb)).
      destruct (acc ctx stk (NR l 0) n) as [t m]. cbn [fst snd evt] in *. apply IH. exact Hn.
  - destruct stk as [|s stk]; [destruct H|]. cbn [acc fst snd evt up] in *.
    rewrite in_seen_app. cbn [nr_label]. rewrite Nat.eqb_refl, orb_true_r. rewrite Hn. reflexivity.
Qed.

Lemma acc_evt_old ctx : forall stk l n c c' l', srel ctx stk -> l' <> l ->
  name_of c' (NR l' 0) = name_of c (NR l' 0) ->
  evt ctx (fst (acc ctx stk (NR l 0) n)) c' l' = evt ctx stk c l'.
Proof.
  induction ctx as [|[sid bs|sid own lo] ctx IH]; intros stk l n c c' l' H Hne Hn.
  - destruct stk as [|g [|g2 t]]; [destruct H| |destruct H]. cbn [acc fst evt]. exact Hn.
  - destruct stk as [|s stk]; [destruct H|]. destruct H as [K [I [Sn [Hbs H]]]]. cbn [acc].
    destruct (lookup n bs) as [m|].
    + cbn [fst evt]. apply evt_cells_ext. exact Hn.
    + specialize (IH stk l n c c' l' H Hne Hn). destruct (acc ctx stk (NR l 0) n) as [t m]. cbn [fst evt] in *. exact IH.
  - destruct stk as [|s stk]; [destruct H|]. cbn [acc fst evt]. rewrite in_seen_app. cbn [nr_label].
    assert (E : Nat.eqb l l' = false) by (apply Nat.eqb_neq; lia). rewrite E, orb_false_r, Hn.
    destruct (in_seen l' s); [reflexivity | apply evt_cells_ext; exact Hn].
Qed.

End Acc.
