(* C06 refinement proof, part 9: literal, symbol, setv, do, call. *)
From HyV Require Import Base.Text Scope.SetDecl Scope.OuterVars Scope.Machine Scope.MachineFacts Scope.Walk Scope.Lexical Scope.Refine.
From HyV Require Import Scope.RefineP01 Scope.RefineP02 Scope.RefineP03 Scope.RefineP04 Scope.RefineP05 Scope.RefineP06 Scope.RefineP07 Scope.RefineP08.
Local Open Scope nat_scope.

Section Cases.
Variable fresh : name -> nat -> name.
Variable user : name -> bool.
Hypothesis fresh_nonuser : forall x k, user (fresh x k) = false.

Notation good := (good user).
Notation run := (run (fun l : list name => l) OSorted).
Notation Pform := (Pform fresh user).
Notation Plist := (Plist fresh user).
Notation post := (post user).

Lemma lookup_none_keys x bs : lookup x bs = None <-> smem x (map fst bs) = false.
Proof.
  induction bs as [|[k v] r IH]; cbn [lookup map fst smem existsb]; [split; reflexivity|].
  fold (smem x (map fst r)). destruct (text_eqb x k); cbn [orb]; [split; discriminate | exact IH].
Qed.

Lemma smem_app x a b : smem x (a ++ b) = smem x a || smem x b.
Proof. unfold smem. apply existsb_app. Qed.

Lemma lr_inner ctx x : lr_lookup ctx x = None <-> smem x (inner_of ctx) = false.
Proof.
  induction ctx as [|[sid bs|sid own lo] ctx IH]; cbn [lr_lookup inner_of]; try (split; reflexivity).
  rewrite smem_app. destruct (lookup x bs) eqn:E.
  - split; [discriminate|]. intros H. apply orb_false_iff in H. destruct H as [H _].
    apply lookup_none_keys in H. congruence.
  - apply lookup_none_keys in E. rewrite E. cbn [orb]. exact IH.
Qed.

Lemma lexs_eq e inner : forall fs k,
  (fix lexs (fs : list form) (k : nat) {struct fs} : lres :=
     match fs with
     | [] => L [] k true
     | g :: r => let a := lexf fresh g e inner k in let b := lexs r (l_let a) in
                 L (l_cells a ++ l_cells b) (l_let b) (l_ok a && l_ok b)
     end) fs k = lex_list fresh fs e inner k.
Proof. induction fs as [|g r IH]; intros k; [reflexivity|]. cbn [lex_list]. rewrite <- IH. reflexivity. Qed.

Lemma lexf_do_eq es e inner k : lexf fresh (FDo es) e inner k = lex_list fresh es e inner k.
Proof. exact (lexs_eq e inner es k). Qed.

Lemma lexf_call_eq g args e inner k :
  lexf fresh (FCall g args) e inner k =
    (let a := lexf fresh g e inner k in
     let b := lex_list fresh args e inner (l_let a) in
     L (l_cells a ++ l_cells b) (l_let b) (l_ok a && l_ok b)).
Proof. cbn zeta. rewrite <- (lexs_eq e inner args). reflexivity. Qed.

Lemma P_lit : Pform FLit.
Proof.
  intros ctx st w G Hu Hc Hok. cbn [events_of fst snd lexf assigned]. cbn [Machine.run fold_left].
  apply post_refl; [exact G | reflexivity].
Qed.

Lemma P_ref x : Pform (FRef x).
Proof.
  intros ctx st w G Hu Hc Hok. cbn [events_of fst snd lexf assigned]. cbn [Machine.run fold_left].
  destruct (step_access user ctx st w x G) as [G1 [F1 [S1 [N1 [L1 [Nm [I1 Mo1]]]]]]].
  unfold RefineP08.post. cbn [l_let l_cells map hd].
  split; [exact G1|]. split; [reflexivity|]. split; [lia|].
  split; [rewrite F1, up_env; reflexivity|]. split; [intros y []|].
  split; [exact Mo1|]. split; [exists []; exact S1 | exact I1].
Qed.

Lemma P_setv x e : Pform e -> Pform (FSetv x e).
Proof.
  intros IH ctx st w G Hu Hc Hok.
  assert (Hux : user x = true) by (apply Hu; left; reflexivity).
  assert (Hue : names_user user e) by (intros y Hy; apply Hu; right; exact Hy).
  cbn [assigned] in Hc. destruct (covers_app user _ _ _ Hc) as [Hc1 Hc2].
  cbn [lexf l_ok] in Hok.
  specialize (IH ctx st w G Hue Hc1 Hok).
  cbn [events_of lexf assigned]. destruct (events_of fresh e w) as [a w1] eqn:Ea. cbn [fst snd] in *.
  rewrite run_app. unfold target_events. destruct IH as [G1 [K1 [S1 [F1 [A1 [M1 [[d1 D1] I1]]]]]]].
  destruct (run_target user ctx (run a st) w1 x G1) as [G2 [F2 [S2 [D2 [M2 I2]]]]].
  { intros E. apply Hc2. apply lr_inner in E. rewrite E. left. reflexivity. }
  unfold RefineP08.post. cbn [l_let l_cells].
  split; [exact G2|]. split; [exact K1|]. split; [exact S1|].
  split; [rewrite F2, F1, map_app, <- app_assoc; cbn [map hd target_cells app]; rewrite !up_env; reflexivity|].
  split.
  { intros y Hy. apply in_app_or in Hy. destruct Hy as [Hy|Hy]; [apply (ndef_smono _ _ M2), A1, Hy|].
    destruct (smem x (inner_of ctx)) eqn:E; [destruct Hy|]. destruct Hy as [<-|[]].
    apply D2. apply lr_inner. exact E. }
  split; [eapply smono_trans; [exact M1 | exact M2]|]. split; [exists d1; rewrite S2; exact D1 | congruence].
Qed.

Lemma P_do es : Forall Pform es -> Pform (FDo es).
Proof.
  intros H ctx st w G Hu Hc Hok. rewrite lexf_do_eq in *. apply (Plist_of_Forall fresh user es H ctx st w G Hu Hc Hok).
Qed.

Lemma P_call g args : Pform g -> Forall Pform args -> Pform (FCall g args).
Proof.
  intros Hg Ha ctx st w G Hu Hc Hok.
  assert (Hug : names_user user g) by (intros y Hy; apply Hu; cbn [names_of]; apply in_or_app; left; exact Hy).
  assert (Hua : names_user_l user args) by (intros y Hy; apply Hu; cbn [names_of]; apply in_or_app; right; exact Hy).
  cbn [assigned] in Hc. destruct (covers_app user _ _ _ Hc) as [Hc1 Hc2].
  rewrite lexf_call_eq in *. cbn zeta in *. cbn [l_ok] in Hok. apply andb_true_iff in Hok. destruct Hok as [Ok1 Ok2].
  specialize (Hg ctx st w G Hug Hc1 Ok1).
  change (events_of fresh (FCall g args) w)
    with (let '(a, w1) := events_of fresh g w in let '(b, w2) := events_of_list fresh args w1 in (a ++ b, w2)).
  destruct (events_of fresh g w) as [a w1] eqn:Ea. cbn [fst snd] in Hg.
  pose proof Hg as [G1 [K1 _]]. rewrite <- K1 in Ok2 |- *.
  pose proof (Plist_of_Forall fresh user args Ha ctx (run a st) w1 G1 Hua Hc2 Ok2) as Hb.
  destruct (events_of_list fresh args w1) as [b w2] eqn:Eb. cbn [fst snd] in *.
  rewrite run_app. cbn [assigned]. eapply post_seq; [exact Hg | exact Hb | symmetry; exact K1].
Qed.

End Cases.
