(* The calls the compiler makes on the scope objects while it compiles a form: a model of the
   scope-relevant part of compile_symbol, compile_assign (setv/setx), compile_let,
   compile_function_lambda / compile_function_def, compile_class_expression,
   compile_global_or_nonlocal and compile_expression (calls), as a function from forms to
   scope events.  Tied to the real compiler by comparing [events_of] with the recorded event
   trace of the same program (props/c06.py).

   Scope ids are given out in the order scopes are first entered; ScopeLet.add's new names are
   [fresh x k] for the k-th let binding of the module (the real counter is shared with other
   temporaries: the harness renumbers). *)
From HyV Require Import Base.Text Scope.SetDecl Scope.OuterVars Scope.Machine.
Local Open Scope nat_scope.

Inductive form :=
| FLit                                          (* a literal: no scope event *)
| FRef (x : name)                               (* a symbol *)
| FSetv (x : name) (e : form)                   (* (setv x e) / (setx x e) *)
| FDo (es : list form)                          (* (do ...) and any form that just compiles its parts in order *)
| FLet (bs : list (name * form)) (body : list form)
| FFn (params : list name) (body : list form)
| FDefn (f : name) (params : list name) (body : list form)
| FClass (c : name) (body : list form)
| FDecl (root : decl_root) (names : list name)
| FCall (f : form) (args : list form).

Record wstate := W { w_sid : nat; w_let : nat }.

Section Walk.
Variable fresh : name -> nat -> name.

(* compile_assign: _storeize(target, compile(target)) -- the symbol is compiled (scope.access), then a
   new Name with the resulting id is handed to scope.assign *)
Definition target_events (x : name) : list event := [EAccess x; EAssignSame].

Fixpoint events_of (f : form) (w : wstate) {struct f} : list event * wstate :=
  let evs := (fix evs (fs : list form) (w : wstate) {struct fs} : list event * wstate :=
                match fs with
                | [] => ([], w)
                | g :: r => let '(a, w1) := events_of g w in let '(b, w2) := evs r w1 in (a ++ b, w2)
                end) in
  match f with
  | FLit => ([], w)
  | FRef x => ([EAccess x], w)
  | FSetv x e => let '(a, w1) := events_of e w in (a ++ target_events x, w1)
  | FDo es => evs es w
  | FLet bs body =>
      let sid := w_sid w in
      let binds := (fix binds (bs : list (name * form)) (w : wstate) {struct bs} : list event * wstate :=
                      match bs with
                      | [] => ([], w)
                      | (x, e) :: r =>
                          let '(a, w1) := events_of e w in
                          let new := fresh x (w_let w1) in
                          let '(b, w2) := binds r (W (w_sid w1) (S (w_let w1))) in
                          ([EEnter KLet sid []] ++ a ++ [EExit; ELetAdd sid x new] ++ target_events new ++ b, w2)
                      end) in
      let '(a, w1) := binds bs (W (S sid) (w_let w)) in
      let '(b, w2) := evs body w1 in
      (a ++ [EEnter KLet sid []] ++ b ++ [EExit], w2)
  | FFn ps body =>
      let '(b, w1) := evs body (W (S (w_sid w)) (w_let w)) in
      ([EEnter KFn (w_sid w) ps] ++ b ++ [EExit], w1)
  | FDefn g ps body =>
      let '(b, w1) := evs body (W (S (w_sid w)) (w_let w)) in
      ([EDefine g; EEnter KFn (w_sid w) ps] ++ b ++ [EExit], w1)
  | FClass c body =>
      let '(b, w1) := evs body (W (S (w_sid w)) (w_let w)) in
      ([EDefine c; EEnter KClass (w_sid w) []] ++ b ++ [EExit], w1)
  | FDecl root names => ([EDecl root names], w)
  | FCall g args =>
      let '(a, w1) := events_of g w in let '(b, w2) := evs args w1 in (a ++ b, w2)
  end.

Fixpoint events_of_list (fs : list form) (w : wstate) : list event * wstate :=
  match fs with
  | [] => ([], w)
  | g :: r => let '(a, w1) := events_of g w in let '(b, w2) := events_of_list r w1 in (a ++ b, w2)
  end.

(* a module: the top-level forms, then ScopeGlobal.__exit__ *)
Definition module_events (fs : list form) : list event := fst (events_of_list fs (W 1 1)) ++ [EExit].
End Walk.

(* "_hy_let_<x>_<k>" *)
Fixpoint dec_digits (fuel n : nat) (acc : text) : text :=
  match fuel with
  | O => acc
  | S f => let d := N.of_nat (n mod 10) in
           if n <? 10 then (48 + d)%N :: acc else dec_digits f (n / 10) ((48 + d)%N :: acc)
  end.
Definition dec (n : nat) : text := dec_digits (S n) n [].
Definition hy_let_name (x : name) (k : nat) : name :=
  ([95; 104; 121; 95; 108; 101; 116; 95]%N ++ x ++ [95%N] ++ dec k).
