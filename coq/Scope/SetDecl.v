(* C13, tie T1: vocabulary for the generated table Gen/SetUses.v (every place
   where compiler.py, scoping.py, result_macros.py or macros.py builds or uses
   a Python set), the model of a set whose iteration order is an oracle, and
   the table of iterations the model declares.

   A use whose result cannot depend on iteration order (membership, set
   algebra, in-place update, truth value, len, sorted) is accepted by kind;
   the lemmas below say why.  A use that iterates (list(), for, comprehension,
   unpacking, passing the set to other code, returning it) must be listed in
   [declared_iterations], each entry naming the model component that takes the
   iteration order from the oracle [perm].  A new iteration over a set
   therefore breaks the generated obligation [set_uses_declared]. *)
From HyV Require Import Base.Text Scope.Sorting.
From Coq Require Import String Permutation.

Inductive use_kind :=
| UBind                     (* stored in a variable / attribute: its uses are listed separately *)
| UMember                   (* x in s, x not in s, s == t *)
| UAlgebra (m : string)     (* s.intersection(..), s.issuperset(..), s | t, set(s) ... *)
| UMutate (m : string)      (* s.add, s.update, s.difference_update, ... *)
| UTruth                    (* if s / not s / bool(s) *)
| ULen
| USorted                   (* sorted(s) *)
| UIter (how : string).     (* order-revealing: list(s), for .. in s, *s, f(s), return s, s.pop() *)

Record set_use := SetUse { su_file : string; su_func : string; su_expr : string; su_kind : use_kind }.

Definition kind_eqb (a b : use_kind) : bool :=
  match a, b with
  | UBind, UBind | UMember, UMember | UTruth, UTruth | ULen, ULen | USorted, USorted => true
  | UAlgebra x, UAlgebra y | UMutate x, UMutate y | UIter x, UIter y => String.eqb x y
  | _, _ => false
  end.

Definition set_use_eqb (a b : set_use) : bool :=
  String.eqb (su_file a) (su_file b) && String.eqb (su_func a) (su_func b)
  && String.eqb (su_expr a) (su_expr b) && kind_eqb (su_kind a) (su_kind b).

(* The iterations over a set that the model knows about.
   visit_OuterVar's Nonlocal(names=list(defined)) is modelled by
   OuterVars.walk, which takes the order from [perm] (ord = OList). *)
Definition declared_iterations : list set_use :=
  [ SetUse "hy/scoping.py" "ResolveOuterVars.visit_OuterVar" "defined" (UIter "list") ].

Definition declared (u : set_use) : bool :=
  match su_kind u with
  | UIter _ => existsb (set_use_eqb u) declared_iterations
  | _ => true
  end.

(* How visit_OuterVar turns the set `defined` into the names of the Nonlocal
   statement; regenerated from the source (Gen/SetUses.v: outervar_nonlocal_order). *)
Inductive order_kind := OList | OSorted.

(* list(s) or sorted(s) for a set s whose iteration order is [perm] *)
Definition names_of_set (perm : list text -> list text) (ord : order_kind) (s : list text) : list text :=
  match ord with OList => perm s | OSorted => sort_names (perm s) end.

(* ---- a Python set of names: membership only; iteration order from an oracle ---- *)
Definition fset := list text.
Definition smem (x : text) (s : fset) : bool := existsb (text_eqb x) s.
Definition sadd (x : text) (s : fset) : fset := if smem x s then s else s ++ [x].
Definition supdate (s : fset) (l : list text) : fset := fold_left (fun acc x => sadd x acc) l s.
Definition ssubset (l : list text) (s : fset) : bool := forallb (fun x => smem x s) l.

Definition perm_ok (perm : list text -> list text) : Prop := forall l, Permutation (perm l) l.

Lemma smem_In x s : smem x s = true <-> In x s.
Proof.
  unfold smem. rewrite existsb_exists. split.
  - intros [y [Hy E]]. apply text_eqb_eq in E. subst. exact Hy.
  - intros H. exists x. split; [exact H | apply text_eqb_eq; reflexivity].
Qed.

Section OrderIrrelevant.
Variable perm : list text -> list text.
Hypothesis perm_is_perm : perm_ok perm.

(* UMember / UAlgebra / UMutate: all defined through membership *)
Lemma member_order_irrelevant x s : smem x (perm s) = smem x s.
Proof.
  destruct (smem x s) eqn:E.
  - apply smem_In. apply smem_In in E. eapply Permutation_in; [apply Permutation_sym, perm_is_perm | exact E].
  - destruct (smem x (perm s)) eqn:E2; [|reflexivity].
    apply smem_In in E2. apply (Permutation_in _ (perm_is_perm s)) in E2. apply smem_In in E2. congruence.
Qed.

(* UTruth / ULen *)
Lemma len_order_irrelevant s : List.length (perm s) = List.length s.
Proof. apply Permutation_length, perm_is_perm. Qed.

Lemma truth_order_irrelevant s : (perm s = []) <-> (s = []).
Proof.
  split; intros H.
  - pose proof (len_order_irrelevant s) as L. rewrite H in L. destruct s; [reflexivity | discriminate L].
  - subst s. pose proof (len_order_irrelevant []) as L. destruct (perm []); [reflexivity | discriminate L].
Qed.

(* USorted *)
Lemma sorted_order_irrelevant s : sort_names (perm s) = sort_names s.
Proof. apply sort_names_canonical, perm_is_perm. Qed.
End OrderIrrelevant.

(* the lemma C13 names: sorting a permutation is canonical *)
Theorem sorted_of_any_two_orders_agree perm1 perm2 :
  perm_ok perm1 -> perm_ok perm2 -> forall s, sort_names (perm1 s) = sort_names (perm2 s).
Proof. intros H1 H2 s. rewrite (sorted_order_irrelevant perm1 H1), (sorted_order_irrelevant perm2 H2). reflexivity. Qed.
