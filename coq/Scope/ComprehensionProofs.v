(* C04: both compilation strategies mean the reference nested loop, for every clause list. *)
From Coq Require Import List Bool.
Import ListNotations.
From HyV Require Import Scope.Comprehension.

Section Proofs.
Variables var val expr st : Type.
Variable ev : expr -> st -> val * st.
Variable assign : var -> val -> st -> st.
Variable truthy : val -> bool.
Variable elems : val -> list val.
Variable pairv : val -> val -> val.
Variable items : val -> list val.

Notation clause := (clause var expr).
Notation final := (final expr).
Notation gen := (gen var expr).
Notation stmt := (stmt var expr).
Notation ref := (ref var val expr st ev assign truthy elems pairv items).
Notation ref_final := (ref_final val expr st ev elems pairv items).
Notation loop := (loop var val st assign).
Notation nloop := (nloop var val st assign).
Notation exec := (exec var val expr st ev assign truthy elems pairv items).
Notation exec_stmt := (exec_stmt var val expr st ev assign truthy elems pairv items).
Notation native_k := (native_k var val expr st ev assign truthy elems).
Notation native := (native var val expr st ev assign truthy elems pairv items).
Notation eval_ifs := (eval_ifs val expr st ev truthy).
Notation eval_it := (eval_it val expr st ev elems).
Notation gen_body := (@gen_body var expr).
Notation gen_for := (@gen_for var expr).
Notation to_gens := (@to_gens var expr).

Definition drop3 (r : list val * st * oc) : list val * st := (fst (fst r), snd (fst r)).

(* ------------------------------------------------------------ the generator function *)

Lemma loop_ext (b1 b2 : st -> list val * st * oc) x : (forall s, b1 s = b2 s) ->
  forall vs s, loop b1 x vs s = loop b2 x vs s.
Proof.
  intros H vs. induction vs as [|v r IH]; intros s; [reflexivity|]. cbn [Comprehension.loop].
  rewrite H. destruct (b2 (assign x v s)) as [[o s1] c]. destruct c; try reflexivity; rewrite IH; reflexivity.
Qed.

Lemma exec_single (t : stmt) s : exec [t] s = exec_stmt t s.
Proof.
  cbn [Comprehension.exec]. destruct (exec_stmt t s) as [[o s1] c]. destruct c; rewrite ?app_nil_r; reflexivity.
Qed.

Theorem genfn_eq_ref (fin : final) : forall (cs : list clause) s, exec (gen_body cs fin) s = ref cs fin s.
Proof.
  induction cs as [|c r IH]; intros s.
  - cbn [Comprehension.gen_body]. rewrite exec_single. reflexivity.
  - destruct c as [x it|c|x e|e|c|c]; cbn [Comprehension.gen_body Comprehension.ref].
    + rewrite exec_single, exec_stmt_for. destruct (ev it s) as [v s1].
      rewrite (loop_ext _ _ x IH). destruct (loop (ref r fin) x (elems v) s1) as [[o s2] broke].
      destruct broke; [reflexivity|]. cbn. rewrite app_nil_r. reflexivity.
    + rewrite exec_single, exec_stmt_if. destruct (ev c s) as [b s1]. destruct (truthy b); [apply IH | reflexivity].
    + cbn [Comprehension.exec Comprehension.exec_stmt]. destruct (ev e s) as [v s1]. rewrite IH.
      destruct (ref r fin (assign x v s1)) as [[o2 s2] c2]. reflexivity.
    + cbn [Comprehension.exec Comprehension.exec_stmt]. destruct (ev e s) as [v s1]. rewrite IH.
      destruct (ref r fin s1) as [[o2 s2] c2]. reflexivity.
    + cbn [Comprehension.exec Comprehension.exec_stmt]. destruct (ev c s) as [b s1]. destruct (truthy b); [reflexivity|].
      rewrite IH. destruct (ref r fin s1) as [[o2 s2] c2]. reflexivity.
    + cbn [Comprehension.exec Comprehension.exec_stmt]. destruct (ev c s) as [b s1]. destruct (truthy b); [reflexivity|].
      rewrite IH. destruct (ref r fin s1) as [[o2 s2] c2]. reflexivity.
Qed.

(* ------------------------------------------------------------ the for statement and its else *)

(* the else block belongs to the outermost iteration clause: it runs exactly when that loop was not
   left by break; the inner loops carry no else *)
Theorem for_else_iff_no_break x it (r : list clause) (body orelse : list stmt) s :
  exec (gen_for (CFor x it :: r) body orelse) s =
    let '(v, s1) := ev it s in
    let '(o, s2, broke) := loop (exec (gen_for r body [])) x (elems v) s1 in
    if broke then (o, s2, ONormal)
    else let '(o2, s3, c2) := exec orelse s2 in (o ++ o2, s3, c2).
Proof.
  cbn [Comprehension.gen_for]. rewrite exec_single, exec_stmt_for. reflexivity.
Qed.

(* a break two loops down does not reach the outermost loop: an iteration clause always ends normally *)
Lemma exec_for_normal x it (body orelse : list stmt) s :
  orelse = [] -> snd (exec [SFor x it body orelse] s) = ONormal.
Proof.
  intros ->. rewrite exec_single, exec_stmt_for. destruct (ev it s) as [v s1].
  destruct (loop (exec body) x (elems v) s1) as [[o s2] broke]. destruct broke; reflexivity.
Qed.

(* ------------------------------------------------------------ the native comprehension *)

Lemma nloop_ext (b1 b2 : st -> list val * st) x : (forall s, b1 s = b2 s) ->
  forall vs s, nloop b1 x vs s = nloop b2 x vs s.
Proof.
  intros H vs. induction vs as [|v r IH]; intros s; [reflexivity|]. cbn [Comprehension.nloop].
  rewrite H. destruct (b2 (assign x v s)) as [o s1]. rewrite IH. reflexivity.
Qed.

Lemma native_k_ext (gs : list gen) : forall k1 k2, (forall s, k1 s = k2 s) -> forall s, native_k gs k1 s = native_k gs k2 s.
Proof.
  induction gs as [|g r IH]; intros k1 k2 H s; [apply H|]. cbn [Comprehension.native_k].
  destruct (eval_it (g_it g) s) as [vs s1]. apply nloop_ext. intros s'.
  destruct (eval_ifs (g_ifs g) s') as [ok s2]. destruct ok; [apply IH; exact H | reflexivity].
Qed.

Lemma native_k_app (a : list gen) : forall b k s, native_k (a ++ b) k s = native_k a (native_k b k) s.
Proof.
  induction a as [|g r IH]; intros b k s; [reflexivity|]. cbn [app Comprehension.native_k].
  destruct (eval_it (g_it g) s) as [vs s1]. apply nloop_ext. intros s'.
  destruct (eval_ifs (g_ifs g) s') as [ok s2]. destruct ok; [apply IH | reflexivity].
Qed.

Lemma eval_ifs_app ifs c s :
  eval_ifs (ifs ++ [c]) s =
    let '(ok, s2) := eval_ifs ifs s in
    if ok then (let '(b, s3) := ev c s2 in (truthy b, s3)) else (false, s2).
Proof.
  revert s. induction ifs as [|d r IH]; intros s; cbn [app Comprehension.eval_ifs].
  - destruct (ev c s) as [b s1]. destruct (truthy b); reflexivity.
  - destruct (ev d s) as [b s1]. destruct (truthy b); [apply IH | reflexivity].
Qed.

(* clause lists the native strategy is used for contain no :do *)
Definition plain (c : clause) : bool := match c with CFor _ _ | CIf _ | CSetv _ _ => true | _ => false end.

Lemma to_gens_plain : forall (cs : list clause) acc gs, to_gens cs acc = Some gs -> forallb plain cs = true.
Proof.
  induction cs as [|c r IH]; intros acc gs H; [reflexivity|].
  destruct c as [x it|c|x e|e|c|c]; cbn [Comprehension.to_gens] in H; try discriminate; cbn [forallb plain andb].
  - eapply IH; exact H.
  - destruct acc as [|g a]; [discriminate | eapply IH; exact H].
  - eapply IH; exact H.
Qed.

Lemma ref_plain_normal (fin : final) : forall (cs : list clause), forallb plain cs = true -> forall s, snd (ref cs fin s) = ONormal.
Proof.
  induction cs as [|c r IH]; intros H s.
  - cbn [Comprehension.ref]. destruct (ref_final fin s). reflexivity.
  - cbn [forallb] in H. apply andb_true_iff in H. destruct H as [Hc Hr].
    destruct c as [x it|c|x e|e|c|c]; try discriminate Hc; cbn [Comprehension.ref].
    + destruct (ev it s) as [v s1]. destruct (loop (ref r fin) x (elems v) s1) as [[o s2] b]. reflexivity.
    + destruct (ev c s) as [b s1]. destruct (truthy b); [apply IH; exact Hr | reflexivity].
    + destruct (ev e s) as [v s1]. apply IH; exact Hr.
Qed.

Lemma loop_nloop (body : st -> list val * st * oc) x : (forall s, snd (body s) = ONormal) ->
  forall vs s, loop body x vs s = (let '(o, s') := nloop (fun s => drop3 (body s)) x vs s in (o, s', false)).
Proof.
  intros H vs. induction vs as [|v r IH]; intros s; [reflexivity|]. cbn [Comprehension.loop Comprehension.nloop].
  pose proof (H (assign x v s)) as Hc. destruct (body (assign x v s)) as [[o s1] c]. cbn [snd] in Hc. subst c.
  change (drop3 (o, s1, ONormal)) with (o, s1). rewrite IH.
  destruct (nloop (fun s0 => drop3 (body s0)) x r s1) as [o2 s2]. reflexivity.
Qed.

Lemma to_gens_sem (fin : final) : forall (cs : list clause) acc gs, to_gens cs acc = Some gs ->
  forall s, native_k gs (ref_final fin) s = native_k (rev acc) (fun s => drop3 (ref cs fin s)) s.
Proof.
  induction cs as [|c r IH]; intros acc gs H s.
  - cbn [Comprehension.to_gens] in H. inversion H; subst. apply native_k_ext. intros s'.
    cbn [Comprehension.ref]. unfold drop3. destruct (ref_final fin s'). reflexivity.
  - destruct c as [x it|c|x e|e|c|c]; cbn [Comprehension.to_gens] in H; try discriminate.
    + pose proof (to_gens_plain _ _ _ H) as Hp.
      rewrite (IH _ _ H). cbn [rev]. rewrite native_k_app. apply native_k_ext. intros s'.
      cbn [Comprehension.native_k Comprehension.eval_it g_it g_x g_ifs Comprehension.eval_ifs Comprehension.ref].
      destruct (ev it s') as [v s1].
      rewrite (loop_nloop (ref r fin) x (ref_plain_normal fin r Hp)).
      unfold drop3 at 2.
      destruct (nloop (fun s0 => drop3 (ref r fin s0)) x (elems v) s1) as [o s2]. reflexivity.
    + destruct acc as [|g a]; [discriminate|].
      rewrite (IH _ _ H). cbn [rev]. rewrite !native_k_app. apply native_k_ext. intros s'.
      cbn [Comprehension.native_k g_it g_x g_ifs]. destruct (eval_it (g_it g) s') as [vs s1].
      apply nloop_ext. intros s2. rewrite eval_ifs_app.
      destruct (eval_ifs (g_ifs g) s2) as [ok s3]. destruct ok; [|reflexivity].
      cbn [Comprehension.ref]. destruct (ev c s3) as [b s4]. destruct (truthy b); reflexivity.
    + rewrite (IH _ _ H). cbn [rev]. rewrite native_k_app. apply native_k_ext. intros s'.
      cbn [Comprehension.native_k Comprehension.eval_it g_it g_x g_ifs Comprehension.eval_ifs Comprehension.ref
           Comprehension.nloop].
      destruct (ev e s') as [v s1]. cbn [Comprehension.nloop]. unfold drop3.
      destruct (ref r fin (assign x v s1)) as [[o s2] c2].
      cbn [fst snd]. rewrite app_nil_r. reflexivity.
Qed.

(* native_eq_ref: whenever the code can build the generators, the comprehension yields exactly the
   reference's elements, in order, with the same effects on the state *)
Theorem native_eq_ref (fin : final) (cs : list clause) gs : to_gens cs [] = Some gs ->
  forall s, native gs fin s = drop3 (ref cs fin s).
Proof. intros H s. unfold Comprehension.native. rewrite (to_gens_sem fin cs [] gs H). reflexivity. Qed.

Theorem strategies_agree (fin : final) (cs : list clause) gs : to_gens cs [] = Some gs ->
  forall s, native gs fin s = drop3 (exec (gen_body cs fin) s).
Proof. intros H s. rewrite genfn_eq_ref. apply native_eq_ref. exact H. Qed.

(* When can the code not build the generators although it chose the native strategy (no :do)?
   Exactly when the clause list starts with :if -- generators[-1] on the empty list. *)
Lemma to_gens_nonempty_acc : forall (cs : list clause) g a, forallb plain cs = true -> to_gens cs (g :: a) <> None.
Proof.
  induction cs as [|c r IH]; intros g a H; [discriminate|].
  cbn [forallb] in H. apply andb_true_iff in H. destruct H as [Hc Hr].
  destruct c as [x it|c|x e|e|c|c]; try discriminate Hc; cbn [Comprehension.to_gens]; apply IH; exact Hr.
Qed.

Theorem native_undefined_iff_leading_if (cs : list clause) : forallb plain cs = true ->
  (to_gens cs [] = None <-> exists c r, cs = CIf c :: r).
Proof.
  intros H. split.
  - destruct cs as [|c r]; [discriminate|]. cbn [forallb] in H. apply andb_true_iff in H. destruct H as [Hc Hr].
    destruct c as [x it|c|x e|e|c|c]; try discriminate Hc; cbn [Comprehension.to_gens]; intros E.
    + exfalso. eapply to_gens_nonempty_acc; eassumption.
    + eexists. eexists. reflexivity.
    + exfalso. eapply to_gens_nonempty_acc; eassumption.
  - intros [c [r ->]]. reflexivity.
Qed.

End Proofs.
