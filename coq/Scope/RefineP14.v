(* C06 refinement proof, part 14: let: event and resolver unfoldings. *)
From HyV Require Import Base.Text Scope.SetDecl Scope.OuterVars Scope.Machine Scope.MachineFacts Scope.Walk Scope.Lexical Scope.Refine.
From Coq Require Import Permutation.
From HyV Require Import Scope.RefineP01 Scope.RefineP02 Scope.RefineP03 Scope.RefineP04 Scope.RefineP05 Scope.RefineP06 Scope.RefineP07 Scope.RefineP08 Scope.RefineP09 Scope.RefineP10 Scope.RefineP11 Scope.RefineP12 Scope.RefineP13.
Local Open Scope nat_scope.

Section LetDefs.
Variable fresh : name -> nat -> name.

Section B.
Variable sid : nat.
Fixpoint binds_of (bs : list (name * form)) (w : wstate) {struct bs} : list event * wstate :=
  match bs with
  | [] => ([], w)
  | (x, e) :: r =>
      let '(a, w1) := events_of fresh e w in
      let new := fresh x (w_let w1) in
      let '(b, w2) := binds_of r (W (w_sid w1) (S (w_let w1))) in
      ([EEnter KLet sid []] ++ a ++ [EExit; ELetAdd sid x new] ++ target_events new ++ b, w2)
  end.
End B.

Lemma events_of_let_eq bs body w :
  events_of fresh (FLet bs body) w =
    (let sid := w_sid w in
     let '(a, w1) := binds_of sid bs (W (S sid) (w_let w)) in
     let '(b, w2) := events_of_list fresh body w1 in
     (a ++ [EEnter KLet sid []] ++ b ++ [EExit], w2)).
Proof. reflexivity. Qed.

Section L.
Variable body : list form.
Fixpoint lex_binds (bs : list (name * form)) (e : env) (inner : list name) (k : nat) {struct bs} : lres :=
  match bs with
  | [] => lex_list fresh body e inner k
  | (x, v) :: r =>
      let a := lexf fresh v e inner k in
      let new := fresh x (l_let a) in
      let b := lex_binds r ((x, new) :: e) (x :: inner) (S (l_let a)) in
      L (l_cells a ++ target_cells new ++ l_cells b) (l_let b) (l_ok a && l_ok b)
  end.
End L.

Lemma lexf_let_eq body : forall bs e inner k,
  lexf fresh (FLet bs body) e inner k = lex_binds body bs e inner k.
Proof.
  induction bs as [|[x v] r IH]; intros e inner k.
  - exact (lexs_eq fresh e inner body k).
  - change (lexf fresh (FLet ((x, v) :: r) body) e inner k)
      with (let a := lexf fresh v e inner k in
            let new := fresh x (l_let a) in
            let b := lexf fresh (FLet r body) ((x, new) :: e) (x :: inner) (S (l_let a)) in
            L (l_cells a ++ target_cells new ++ l_cells b) (l_let b) (l_ok a && l_ok b)).
    cbn zeta. rewrite IH. reflexivity.
Qed.

(* names assigned by the rest of a let, given the names bound so far *)
Fixpoint let_assigned (bs : list (name * form)) (body : list form) (bound : list name) : list name :=
  match bs with
  | [] => flat_map (assigned bound) body
  | (x, e) :: r => assigned bound e ++ let_assigned r body (x :: bound)
  end.

Lemma assigned_let_eq bs body bound : assigned bound (FLet bs body) = let_assigned bs body bound.
Proof. revert bound. induction bs as [|[x e] r IH]; intros bound; [reflexivity|]. cbn [let_assigned]. rewrite <- IH. reflexivity. Qed.

End LetDefs.
