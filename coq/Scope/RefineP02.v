(* C06 refinement proof, part 2: contexts: frames, up, env_of. *)
From HyV Require Import Base.Text Scope.SetDecl Scope.OuterVars Scope.Machine Scope.MachineFacts Scope.Walk Scope.Lexical Scope.Refine.
From HyV Require Import Scope.RefineP01.
Local Open Scope nat_scope.

(* ---------------- contexts ---------------- *)
Inductive frame :=
| FrLet (sid : nat) (bs : env)                 (* a let scope with its bindings so far, latest first *)
| FrFn (sid : nat) (own : list name) (lo : nat).  (* a function scope, its eventual own names, first label created inside *)

Fixpoint up (ctx : list frame) (n : name) : name :=
  match ctx with
  | [] => n
  | FrLet _ bs :: r => match lookup n bs with Some m => m | None => up r n end
  | FrFn _ own _ :: r => if smem n own then n else up r n
  end.

Fixpoint env_of (ctx : list frame) : env :=
  match ctx with
  | [] => []
  | FrLet _ bs :: r => bs ++ env_of r
  | FrFn _ own _ :: r => mask own (env_of r)
  end.

Fixpoint inner_of (ctx : list frame) : list name :=
  match ctx with
  | FrLet _ bs :: r => map fst bs ++ inner_of r
  | _ => []
  end.

Lemma text_eqb_refl x : text_eqb x x = true.
Proof. apply text_eqb_eq. reflexivity. Qed.

Lemma lookup_app n a b : lookup n (a ++ b) = match lookup n a with Some m => Some m | None => lookup n b end.
Proof.
  induction a as [|[k v] r IH]; [reflexivity|]. cbn [app lookup]. destruct (text_eqb n k); [reflexivity | exact IH].
Qed.

Lemma lookup_mask n own e : lookup n (mask own e) = if smem n own then None else lookup n e.
Proof.
  unfold mask. induction e as [|[k v] r IH]; cbn [filter lookup fst].
  - destruct (smem n own); reflexivity.
  - destruct (smem k own) eqn:K; cbn [negb lookup].
    + rewrite IH. destruct (text_eqb n k) eqn:E; [|reflexivity].
      apply text_eqb_eq in E. subst k. rewrite K. reflexivity.
    + destruct (text_eqb n k) eqn:E; [|exact IH].
      apply text_eqb_eq in E. subst k. rewrite K. reflexivity.
Qed.

Lemma up_env ctx n : up ctx n = resolve (env_of ctx) n.
Proof.
  unfold resolve. induction ctx as [|[sid bs|sid own lo] r IH]; cbn [up env_of lookup]; [reflexivity| |].
  - rewrite lookup_app. destruct (lookup n bs); [reflexivity | exact IH].
  - rewrite lookup_mask. destruct (smem n own); [reflexivity | exact IH].
Qed.

(* names of the program vs the new let variables *)
Section Names.
Variable user : name -> bool.

Fixpoint ctx_user (ctx : list frame) : Prop :=
  match ctx with
  | [] => True
  | FrLet _ bs :: r => (forall k v, In (k, v) bs -> user k = true) /\ ctx_user r
  | FrFn _ own _ :: r => (forall n, In n own -> user n = true) /\ ctx_user r
  end.

Lemma lookup_nonuser n bs : (forall k v, In (k, v) bs -> user k = true) -> user n = false -> lookup n bs = None.
Proof.
  intros H Hn. induction bs as [|[k v] r IH]; [reflexivity|]. cbn [lookup].
  destruct (text_eqb n k) eqn:E.
  - apply text_eqb_eq in E. subst k. rewrite (H n v (or_introl eq_refl)) in Hn. discriminate.
  - apply IH. intros k' v' Hin. apply (H k' v'). right. exact Hin.
Qed.

Lemma smem_nonuser n own : (forall m, In m own -> user m = true) -> user n = false -> smem n own = false.
Proof.
  intros H Hn. destruct (smem n own) eqn:E; [|reflexivity]. apply smem_In in E. rewrite (H n E) in Hn. discriminate.
Qed.

Lemma up_nonuser ctx n : ctx_user ctx -> user n = false -> up ctx n = n.
Proof.
  induction ctx as [|[sid bs|sid own lo] r IH]; intros H Hn; cbn [up]; [reflexivity| |]; destruct H as [H1 H2].
  - rewrite (lookup_nonuser n bs H1 Hn). apply IH; assumption.
  - rewrite (smem_nonuser n own H1 Hn). apply IH; assumption.
Qed.
End Names.
