(* C06 refinement proof, part 16: let: body. *)
From HyV Require Import Base.Text Scope.SetDecl Scope.OuterVars Scope.Machine Scope.MachineFacts Scope.Walk Scope.Lexical Scope.Refine.
From Coq Require Import Permutation.
From HyV Require Import Scope.RefineP01 Scope.RefineP02 Scope.RefineP03 Scope.RefineP04 Scope.RefineP05 Scope.RefineP06 Scope.RefineP07 Scope.RefineP08 Scope.RefineP09 Scope.RefineP10 Scope.RefineP11 Scope.RefineP12 Scope.RefineP13 Scope.RefineP14 Scope.RefineP15.
Local Open Scope nat_scope.

Section LetCase.
Variable fresh : name -> nat -> name.
Variable user : name -> bool.
Hypothesis fresh_nonuser : forall x k, user (fresh x k) = false.

Notation good := (good user).
Notation step := (step (fun l : list name => l) OSorted).
Notation run := (run (fun l : list name => l) OSorted).
Notation Pform := (Pform fresh user).
Notation Plist := (Plist fresh user).

(* post without the clause about suspended scopes *)
Definition postc (ctx : list frame) (st st' : state) (w w' : wstate) (lx : lres) (asg : list name) : Prop :=
  good ctx st' w' /\ w_let w' = l_let lx /\ w_sid w <= w_sid w'
  /\ fin_names ctx st' = fin_names ctx st ++ map (hd []) (l_cells lx)
  /\ (forall x, In x asg -> smem x (ndef (st_stack st')) = true)
  /\ smono (st_stack st) (st_stack st')
  /\ map s_id (st_stack st') = map s_id (st_stack st).

Lemma own_allows_let sid cur ctx x : own_allows user (FrLet sid cur :: ctx) x <-> own_allows user ctx x.
Proof. unfold own_allows. cbn [nown]. reflexivity. Qed.

Lemma let_body ctx sid body cur st w rest : Plist body ->
  good ctx st w -> let_parked st sid cur rest -> sid < w_sid w ->
  (forall k v, In (k, v) cur -> user k = true) -> (forall k v, In (k, v) cur -> user v = false) ->
  names_user_l user body ->
  covers user ctx (flat_map (assigned (map fst cur ++ inner_of ctx)) body) ->
  l_ok (lex_list fresh body (cur ++ env_of ctx) (map fst cur ++ inner_of ctx) (w_let w)) = true ->
  let evs := [EEnter KLet sid []] ++ fst (events_of_list fresh body w) ++ [EExit] in
  postc ctx st (run evs st) w (snd (events_of_list fresh body w))
        (lex_list fresh body (cur ++ env_of ctx) (map fst cur ++ inner_of ctx) (w_let w))
        (flat_map (assigned (map fst cur ++ inner_of ctx)) body)
  /\ exists dead s', st_susp (run evs st) = s' :: dead ++ rest.
Proof.
  intros PB G P Hs Hk Hv Hu Hc Hok evs.
  destruct (step_enter_let user ctx st w sid cur rest G P Hs Hk Hv) as [G1 [F1 [S1 [T1 I1]]]].
  set (st1 := step st (EEnter KLet sid [])) in *. set (ctx1 := FrLet sid cur :: ctx) in *.
  assert (Hc1 : covers user ctx1 (flat_map (assigned (inner_of ctx1)) body)).
  { intros x Hx. apply own_allows_let. apply Hc. exact Hx. }
  pose proof (PB ctx1 st1 w G1 Hu Hc1 Hok) as PB1.
  destruct (events_of_list fresh body w) as [b w2] eqn:Eb. cbn [fst snd] in *.
  destruct PB1 as [G2 [K2 [Sd2 [F2 [A2 [M2 [[d2 D2] I2]]]]]]].
  unfold evs. rewrite !run_app. change (run [EEnter KLet sid []] st) with st1. set (st2 := run b st1) in *.
  change (run [EExit] st2) with (step st2 EExit).
  destruct (step_exit_let user ctx sid cur st2 w2 G2) as [s [E3 [S3 [Is [Ks [Sns [Hbs [G3 F3]]]]]]]].
  set (st3 := step st2 EExit) in *.
  split.
  - unfold postc. split; [exact G3|]. split; [exact K2|]. split; [exact Sd2|].
    split; [etransitivity; [exact F3|]; etransitivity; [exact F2|]; f_equal; exact F1|].
    split.
    { intros x Hx. specialize (A2 x Hx). rewrite E3 in A2. cbn [ndef] in A2. rewrite Ks in A2. exact A2. }
    split.
    { pose proof (smono_tl _ _ M2) as X. rewrite T1 in X. rewrite E3 in X. cbn [tl] in X. exact X. }
    assert (X : map s_id (st_stack st2) = sid :: map s_id (st_stack st)) by (etransitivity; [exact I2 | exact I1]).
    rewrite E3 in X. cbn [map] in X. inversion X. reflexivity.
  - exists d2, s. etransitivity; [exact S3|]. f_equal. etransitivity; [exact D2|]. f_equal. exact S1.
Qed.

End LetCase.
