(* The names ScopeGen.finalize returns (hy/scoping.py):

     res = set()
     for node in self.assignments:
         if node.name not in self.nonlocal_vars:
             self.parent.access(node); res.add(node.name)
     return sorted(res)

   and which compile_comprehension puts, in that order, into the generator
   function's `nonlocal`/`global` statement and into the dummy assignment
   `if False: (a, b, ...) = None`.  [ord] is regenerated from the source
   (Gen/SetUses.v: finalize_order). *)
From HyV Require Import Base.Text Scope.Sorting Scope.SetDecl.
From Coq Require Import Permutation.

Definition finalize_names (perm : list text -> list text) (ord : order_kind)
           (assignments nonlocal_vars : list text) : list text :=
  names_of_set perm ord (supdate [] (filter (fun x => negb (smem x nonlocal_vars)) assignments)).

Theorem finalize_sorted_perm_independent perm1 perm2 : perm_ok perm1 -> perm_ok perm2 ->
  forall assignments nonlocal_vars,
    finalize_names perm1 OSorted assignments nonlocal_vars = finalize_names perm2 OSorted assignments nonlocal_vars.
Proof. intros H1 H2 a n. unfold finalize_names, names_of_set. apply sorted_of_any_two_orders_agree; assumption. Qed.

Theorem finalize_list_perm_dependent :
  exists perm1 perm2 assignments nonlocal_vars, perm_ok perm1 /\ perm_ok perm2 /\
    finalize_names perm1 OList assignments nonlocal_vars <> finalize_names perm2 OList assignments nonlocal_vars.
Proof.
  exists (fun l => l), (@rev text), [[97]; [98]], [].
  split; [intro l; apply Permutation_refl|]. split; [intro l; apply Permutation_sym, Permutation_rev|].
  vm_compute. discriminate.
Qed.
