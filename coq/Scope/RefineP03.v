(* C06 refinement proof, part 3: the relation between contexts and scope stacks; eventual names. *)
From HyV Require Import Base.Text Scope.SetDecl Scope.OuterVars Scope.Machine Scope.MachineFacts Scope.Walk Scope.Lexical Scope.Refine.
From HyV Require Import Scope.RefineP01 Scope.RefineP02.
Local Open Scope nat_scope.

Section Rel.
Variable user : name -> bool.

Definition seen_below (stk : list scope) (lo : nat) : Prop :=
  forall s r, In s stk -> In r (s_seen s) -> nr_label r < lo.

Definition lo_ok (ctx : list frame) (l : nat) : Prop := forall sid own lo, In (FrFn sid own lo) ctx -> lo <= l.

Fixpoint srel (ctx : list frame) (stk : list scope) : Prop :=
  match ctx, stk with
  | [], [g] => s_kind g = KGlobal /\ s_seen g = []
  | FrLet sid bs :: ctx', s :: stk' =>
      s_kind s = KLet /\ s_id s = sid /\ s_seen s = [] /\ (forall y, lookup y (s_bindings s) = lookup y bs) /\ srel ctx' stk'
  | FrFn sid own lo :: ctx', s :: stk' =>
      s_kind s = KFn /\ s_id s = sid /\ s_nonlocal s = []
      /\ (forall n, smem n (s_defined s) = true -> smem n own = true \/ user n = false)
      /\ (forall r, In r (s_seen s) -> nr_index r = 0 /\ lo <= nr_label r)
      /\ NoDup (map nr_label (s_seen s))
      /\ seen_below stk' lo
      /\ lo_ok ctx' lo
      /\ srel ctx' stk'
  | _, _ => False
  end.

Definition in_seen (l : nat) (s : scope) : bool := existsb (fun r => Nat.eqb (nr_label r) l) (s_seen s).

Fixpoint evt (ctx : list frame) (stk : list scope) (c : cells) (l : nat) : name :=
  match ctx, stk with
  | FrFn _ own _ :: ctx', s :: stk' =>
      if in_seen l s then (let n := name_of c (NR l 0) in if smem n own then n else up ctx' n)
      else evt ctx' stk' c l
  | FrLet _ _ :: ctx', _ :: stk' => evt ctx' stk' c l
  | _, _ => name_of c (NR l 0)
  end.

(* what scope.access / scope.assign do to a node named n, as a function of the context *)
Fixpoint acc (ctx : list frame) (stk : list scope) (r : noderef) (n : name) : list scope * name :=
  match ctx, stk with
  | FrLet _ bs :: ctx', s :: stk' =>
      match lookup n bs with
      | Some m => (stk, m)
      | None => let '(t, m) := acc ctx' stk' r n in (s :: t, m)
      end
  | FrFn _ _ _ :: _, s :: stk' => (with_seen s (s_seen s ++ [r]) :: stk', n)
  | _, _ => (stk, n)
  end.

Fixpoint asg (ctx : list frame) (stk : list scope) (r : noderef) (n : name) : list scope * name :=
  match ctx, stk with
  | FrLet _ bs :: ctx', s :: stk' =>
      match lookup n bs with
      | Some m => (stk, m)
      | None => let '(t, m) := asg ctx' stk' r n in (s :: t, m)
      end
  | FrFn _ _ _ :: _, s :: stk' =>
      (with_defined (with_seen s (s_seen s ++ [r])) (sadd n (s_defined s)) :: stk', n)
  | [], [g] => ([with_defined g (sadd n (s_defined g))], n)
  | _, _ => (stk, n)
  end.

Lemma set_nth_same {A} (d : A) i l : i < length l -> set_nth i (nth i l d) l = l.
Proof.
  revert i. induction l as [|x r IH]; intros i H; [inversion H|]. destruct i; [reflexivity|].
  cbn. f_equal. apply IH. cbn in H. lia.
Qed.

Lemma set_name_same c r : valid_ref c r -> set_name c r (name_of c r) = c.
Proof.
  intros [H1 H2]. unfold set_name, name_of, set_cell, cell_names.
  assert (E : set_nth (nr_index r) (nth (nr_index r) (nth (nr_label r) c []) []) (nth (nr_label r) c [])
              = nth (nr_label r) c []) by (apply set_nth_same; exact H2).
  rewrite E. apply set_nth_same. exact H1.
Qed.

Lemma access_acc ctx : forall stk c r, srel ctx stk -> valid_ref c r ->
  access stk c r = (fst (acc ctx stk r (name_of c r)), set_name c r (snd (acc ctx stk r (name_of c r)))).
Proof.
  induction ctx as [|[sid bs|sid own lo] ctx IH]; intros stk c r H Hv.
  - destruct stk as [|g [|g2 t]]; [destruct H| |destruct H]. destruct H as [K _]. cbn [acc access fst snd]. rewrite K.
    rewrite set_name_same by exact Hv. reflexivity.
  - destruct stk as [|s stk]; [destruct H|]. destruct H as [K [_ [_ [Hb H]]]]. cbn [acc access]. rewrite K, Hb.
    destruct (lookup (name_of c r) bs) as [m|]; [reflexivity|].
    rewrite (IH stk c r H Hv). destruct (acc ctx stk r (name_of c r)) as [t m]. reflexivity.
  - destruct stk as [|s stk]; [destruct H|]. destruct H as [K _]. cbn [acc access fst snd]. rewrite K.
    rewrite set_name_same by exact Hv. reflexivity.
Qed.

Lemma assign_asg ctx : forall stk c r, srel ctx stk -> valid_ref c r ->
  assign stk c r = (fst (asg ctx stk r (name_of c r)), set_name c r (snd (asg ctx stk r (name_of c r)))).
Proof.
  induction ctx as [|[sid bs|sid own lo] ctx IH]; intros stk c r H Hv.
  - destruct stk as [|g [|g2 t]]; [destruct H| |destruct H]. destruct H as [K _]. cbn [asg assign fst snd]. rewrite K.
    rewrite set_name_same by exact Hv. reflexivity.
  - destruct stk as [|s stk]; [destruct H|]. destruct H as [K [_ [_ [Hb H]]]]. cbn [asg assign]. rewrite K, Hb.
    destruct (lookup (name_of c r) bs) as [m|]; [reflexivity|].
    rewrite (IH stk c r H Hv). destruct (asg ctx stk r (name_of c r)) as [t m]. reflexivity.
  - destruct stk as [|s stk]; [destruct H|]. destruct H as [K _]. cbn [asg assign fst snd]. rewrite K.
    rewrite set_name_same by exact Hv. reflexivity.
Qed.

(* no let above the nearest function (or the module) binds n *)
Fixpoint letrun_free (ctx : list frame) (n : name) : Prop :=
  match ctx with
  | FrLet _ bs :: r => lookup n bs = None /\ letrun_free r n
  | _ => True
  end.

(* the `defined` set of the nearest function (or of the module) *)
Fixpoint ndef (stk : list scope) : fset :=
  match stk with
  | [] => []
  | s :: r => match s_kind s with KLet => ndef r | _ => s_defined s end
  end.

(* own names of the nearest function; None at module level *)
Fixpoint nown (ctx : list frame) : option (list name) :=
  match ctx with
  | [] => None
  | FrLet _ _ :: r => nown r
  | FrFn _ own _ :: _ => Some own
  end.

End Rel.
