(* Big-step semantics of the Python target fragment.  Fuel is consumed by
   loop iterations only; everything else recurses on syntax.  Effect points
   (PLog) may raise according to a fault oracle; handler selection uses an
   abstract subclass test. *)
From HyV Require Import Compiler.Syntax.

Inductive eres := EV (v : val) | EX (e : exn).
Inductive sres := SN | SX (e : exn) | SB | SC | ST.   (* normal, raise, break, continue, out of fuel *)

Section Sem.
Variable fault : nat -> option exn.
Variable issub : exn -> exn -> bool.

Definition handles (h : htypes) (e : exn) : bool :=
  match h with
  | HAll => true
  | HOne c => issub e c
  | HMany cs => existsb (issub e) cs
  end.

Fixpoint peval (e : pexpr) (s : store) (t : trace) : eres * store * trace :=
  match e with
  | PConst v => (EV v, s, t)
  | PName x => (EV (s x), s, t)
  | PCls c => (EV (VExn c), s, t)
  | PNot e =>
      match peval e s t with
      | (EV v, s1, t1) => (EV (VBool (negb (truthy v))), s1, t1)
      | r => r
      end
  | PLog k e =>
      match peval e s t with
      | (EV v, s1, t1) => match fault k with
                          | Some x => (EX x, s1, t1 ++ [k])
                          | None => (EV v, s1, t1 ++ [k])
                          end
      | r => r
      end
  | PIfExp c a b =>
      match peval c s t with
      | (EV v, s1, t1) => if truthy v then peval a s1 t1 else peval b s1 t1
      | r => r
      end
  | PNamed x e =>
      match peval e s t with
      | (EV v, s1, t1) => (EV v, upd s1 x v, t1)
      | r => r
      end
  | PBoolOp isand es =>
      (fix go (es : list pexpr) (s : store) (t : trace) : eres * store * trace :=
         match es with
         | [] => (EV VNone, s, t)        (* never produced by the compiler *)
         | [e] => peval e s t
         | e :: rest =>
             match peval e s t with
             | (EV v, s1, t1) => if Bool.eqb (truthy v) isand then go rest s1 t1 else (EV v, s1, t1)
             | r => r
             end
         end) es s t
  end.

Fixpoint find_handler {A} (hs : list (htypes * A)) (e : exn) : option A :=
  match hs with
  | [] => None
  | (h, b) :: r => if handles h e then Some b else find_handler r e
  end.

(* one statement; `rec` re-enters a loop for its next iteration *)
Fixpoint pexec1 (rec : pstmt -> store -> trace -> sres * store * trace)
    (st : pstmt) (s : store) (t : trace) {struct st} : sres * store * trace :=
    let run := fix run (l : list pstmt) (s : store) (t : trace) {struct l} : sres * store * trace :=
      match l with
      | [] => (SN, s, t)
      | x :: r => match pexec1 rec x s t with
                  | (SN, s1, t1) => run r s1 t1
                  | other => other
                  end
      end in
    match st with
    | SAssign x e =>
        match peval e s t with
        | (EV v, s1, t1) => (SN, upd s1 x v, t1)
        | (EX x', s1, t1) => (SX x', s1, t1)
        end
    | SExpr e =>
        match peval e s t with
        | (EV _, s1, t1) => (SN, s1, t1)
        | (EX x', s1, t1) => (SX x', s1, t1)
        end
    | SIf c a b =>
        match peval c s t with
        | (EV v, s1, t1) => if truthy v then run a s1 t1 else run b s1 t1
        | (EX x', s1, t1) => (SX x', s1, t1)
        end
    | SWhile c body orelse =>
        match peval c s t with
        | (EX x', s1, t1) => (SX x', s1, t1)
        | (EV v, s1, t1) =>
            if truthy v then
              match run body s1 t1 with
              | (SN, s2, t2) | (SC, s2, t2) => rec (SWhile c body orelse) s2 t2
              | (SB, s2, t2) => (SN, s2, t2)
              | other => other
              end
            else run orelse s1 t1
        end
    | SBreak => (SB, s, t)
    | SContinue => (SC, s, t)
    | SPass => (SN, s, t)
    | SRaise e =>
        match peval e s t with
        | (EV v, s1, t1) => (SX (raise_of v), s1, t1)
        | (EX x', s1, t1) => (SX x', s1, t1)
        end
    | STry body handlers orelse final =>
        let runh := fix runh (hs : list (htypes * list pstmt)) (e : exn) (s : store) (t : trace)
                        {struct hs} : sres * store * trace :=
          match hs with
          | [] => (SX e, s, t)
          | (h, b) :: r => if handles h e then run b s t else runh r e s t
          end in
        let r1 :=
          match run body s t with
          | (SX e, s1, t1) => runh handlers e s1 t1
          | (SN, s1, t1) => run orelse s1 t1
          | other => other
          end in
        match r1 with
        | (ST, s2, t2) => (ST, s2, t2)
        | (o, s2, t2) =>
            match run final s2 t2 with
            | (SN, s3, t3) => (o, s3, t3)
            | other => other
            end
        end
    end.

(* fuel bounds the number of loop re-entries *)
Fixpoint pexec (fuel : nat) : pstmt -> store -> trace -> sres * store * trace :=
  pexec1 (match fuel with O => fun _ s t => (ST, s, t) | S f => pexec f end).

Fixpoint prun (fuel : nat) (l : list pstmt) (s : store) (t : trace) : sres * store * trace :=
  match l with
  | [] => (SN, s, t)
  | x :: r => match pexec fuel x s t with
              | (SN, s1, t1) => prun fuel r s1 t1
              | other => other
              end
  end.

End Sem.
