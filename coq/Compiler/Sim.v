(* The simulation relation between the reference semantics and compiled
   results, and the target-side equations in continuation (bindV) form. *)
From HyV Require Import Compiler.Syntax Compiler.PySem Compiler.HySem Compiler.Compile
  Compiler.PyFacts Compiler.HyFacts.

Definition of_e (x : eres) : hres := match x with EV v => HV v | EX e => HX e end.
Definition of_s (o : sres) : hres :=
  match o with SN => HV VNone | SX e => HX e | SB => HB | SC => HC | ST => HT end.
Definition ofE (x : eres * store * trace) : H := let '(o, s, t) := x in (of_e o, s, t).
Definition ofS (x : sres * store * trace) : H := let '(o, s, t) := x in (of_s o, s, t).

Definition eqU (s s' : store) : Prop := forall n, s (U n) = s' (U n).
Lemma eqU_refl s : eqU s s. Proof. intro; reflexivity. Qed.
Lemma eqU_trans a b c : eqU a b -> eqU b c -> eqU a c.
Proof. intros A B n. rewrite A. apply B. Qed.
Lemma eqU_upd s s' n v : eqU s s' -> eqU (upd s (U n) v) (upd s' (U n) v).
Proof. intros Hs m. unfold upd. destruct (ident_eqb (U m) (U n)); auto. Qed.
Lemma eqU_updT s s' n v : eqU s s' -> eqU s (upd s' (T n) v).
Proof. intros Hs m. unfold upd. cbn [ident_eqb]. apply Hs. Qed.

(* strict agreement: same outcome, same trace, same user variables *)
Definition rel0 (a b : H) : Prop :=
  fst (fst a) = fst (fst b) /\ snd a = snd b /\ eqU (snd (fst a)) (snd (fst b)).
(* forward simulation: unless the reference run exhausts its fuel, the runs agree *)
Definition rel (a b : H) : Prop := fst (fst a) = HT \/ rel0 a b.

Lemma rel_mk o s s' t : eqU s s' -> rel (o, s, t) (o, s', t).
Proof. intros E. right. repeat split; auto. Qed.

Lemma rel_bindV a b k k' :
  rel a b -> (forall v s s' t, eqU s s' -> rel (k v s t) (k' v s' t)) -> rel (bindV a k) (bindV b k').
Proof.
  destruct a as [[oa sa] ta], b as [[ob sb] tb]. intros [A | [A [B C]]] HK.
  - cbn [fst] in A. subst oa. left. reflexivity.
  - cbn [fst snd] in A, B, C. subst ob tb.
    unfold bindV. destruct oa; [apply HK; exact C | ..]; right; repeat split; auto.
Qed.

(* fuel levels: the reference runs with fuel [ln], the compiled code with strictly more *)
Record lvl := { ln : nat; lk : nat }.
Definition tfuel (l : lvl) : nat := ln l + S (lk l).

Section Sim.
Variable fault : nat -> option exn.
Variable issub : exn -> exn -> bool.
Notation peval := (peval fault).
Notation pexec1 := (pexec1 fault issub).
Notation prun1 := (prun1 fault issub).

(* run a block, then continue with the store and trace it leaves *)
Definition thenS (x : sres * store * trace) (k : store -> trace -> H) : H :=
  match x with (SN, s1, t1) => k s1 t1 | y => ofS y end.

(* run the statements of a result, then evaluate its expression context *)
Definition run (rec : rec_t) (r : result) (s : store) (t : trace) : H :=
  thenS (prun1 rec (rs r) s t) (fun s1 t1 => ofE (peval (force r) s1 t1)).

(* a block followed by an expression, as one computation *)
Definition runb (rec : rec_t) (l : list pstmt) (e : pexpr) (s : store) (t : trace) : H :=
  thenS (prun1 rec l s t) (fun s1 t1 => ofE (peval e s1 t1)).

Lemma run_runb rec r s t : run rec r s t = runb rec (rs r) (force r) s t.
Proof. reflexivity. Qed.

Lemma thenS_app rec l1 l2 k s t :
  thenS (prun1 rec (l1 ++ l2) s t) k = thenS (prun1 rec l1 s t) (fun s1 t1 => thenS (prun1 rec l2 s1 t1) k).
Proof.
  rewrite prun1_app. unfold bindS, thenS. destruct (prun1 rec l1 s t) as [[[] ?] ?]; reflexivity.
Qed.

(* a statement that starts by evaluating the expression context of r *)
Lemma then_assign rec r x rest k s t :
  thenS (prun1 rec (rs r ++ SAssign x (force r) :: rest) s t) k =
  bindV (run rec r s t) (fun v s1 t1 => thenS (prun1 rec rest (upd s1 x v) t1) k).
Proof.
  rewrite thenS_app. unfold run, thenS at 1 3. destruct (prun1 rec (rs r) s t) as [[[] s1] t1]; try reflexivity.
  rewrite prun1_cons, pexec1_assign. unfold bindE, bindS, ofE.
  destruct (peval (force r) s1 t1) as [[[v|x'] s2] t2]; reflexivity.
Qed.

Lemma then_expr rec r rest k s t :
  thenS (prun1 rec (rs r ++ SExpr (force r) :: rest) s t) k =
  bindV (run rec r s t) (fun _ s1 t1 => thenS (prun1 rec rest s1 t1) k).
Proof.
  rewrite thenS_app. unfold run, thenS at 1 3. destruct (prun1 rec (rs r) s t) as [[[] s1] t1]; try reflexivity.
  rewrite prun1_cons, pexec1_expr. unfold bindE, bindS, ofE.
  destruct (peval (force r) s1 t1) as [[[v|x'] s2] t2]; reflexivity.
Qed.

Lemma then_raise rec r rest k s t :
  thenS (prun1 rec (rs r ++ SRaise (force r) :: rest) s t) k =
  bindV (run rec r s t) (fun v s1 t1 => (HX (raise_of v), s1, t1)).
Proof.
  rewrite thenS_app. unfold run, thenS at 1 3. destruct (prun1 rec (rs r) s t) as [[[] s1] t1]; try reflexivity.
  rewrite prun1_cons, pexec1_raise. unfold bindE, bindS, ofE.
  destruct (peval (force r) s1 t1) as [[[v|x'] s2] t2]; reflexivity.
Qed.

Lemma then_if rec r a b rest k s t :
  thenS (prun1 rec (rs r ++ SIf (force r) a b :: rest) s t) k =
  bindV (run rec r s t) (fun v s1 t1 =>
    thenS (if truthy v then prun1 rec a s1 t1 else prun1 rec b s1 t1) (fun s2 t2 => thenS (prun1 rec rest s2 t2) k)).
Proof.
  rewrite thenS_app. unfold run, thenS at 1 3. destruct (prun1 rec (rs r) s t) as [[[] s1] t1]; try reflexivity.
  rewrite prun1_cons, pexec1_if. unfold bindE, bindS, ofE.
  destruct (peval (force r) s1 t1) as [[[v|x'] s2] t2]; [|reflexivity]. cbn [bindV of_e].
  destruct (if truthy v then prun1 rec a s2 t2 else prun1 rec b s2 t2) as [[[] ?] ?]; reflexivity.
Qed.

(* expression contexts built from the expression context of r *)
Lemma run_not rec r tmps s t :
  run rec (R (rs r) (Some (PNot (force r))) tmps) s t =
  bindV (run rec r s t) (fun v s1 t1 => (HV (VBool (negb (truthy v))), s1, t1)).
Proof.
  unfold run, thenS. cbn [rs force re]. destruct (prun1 rec (rs r) s t) as [[[] s1] t1]; try reflexivity.
  cbn [PySem.peval]. unfold ofE. destruct (peval (force r) s1 t1) as [[[v|x'] s2] t2]; reflexivity.
Qed.

Lemma run_log rec r k tmps s t :
  run rec (R (rs r) (Some (PLog k (force r))) tmps) s t = bindV (run rec r s t) (log_k fault k).
Proof.
  unfold run, thenS. cbn [rs force re]. destruct (prun1 rec (rs r) s t) as [[[] s1] t1]; try reflexivity.
  cbn [PySem.peval]. unfold ofE, log_k. destruct (peval (force r) s1 t1) as [[[v|x'] s2] t2]; [|reflexivity].
  cbn [bindV of_e]. destruct (fault k); reflexivity.
Qed.

Lemma run_named rec r x tmps s t :
  run rec (R (rs r) (Some (PNamed x (force r))) tmps) s t =
  bindV (run rec r s t) (fun v s1 t1 => (HV v, upd s1 x v, t1)).
Proof.
  unfold run, thenS. cbn [rs force re]. destruct (prun1 rec (rs r) s t) as [[[] s1] t1]; try reflexivity.
  cbn [PySem.peval]. unfold ofE. destruct (peval (force r) s1 t1) as [[[v|x'] s2] t2]; reflexivity.
Qed.

Lemma run_ifexp rec rc ea eb tmps s t :
  run rec (R (rs rc) (Some (PIfExp (force rc) ea eb)) tmps) s t =
  bindV (run rec rc s t) (fun v s1 t1 => if truthy v then ofE (peval ea s1 t1) else ofE (peval eb s1 t1)).
Proof.
  unfold run, thenS. cbn [rs force re]. destruct (prun1 rec (rs rc) s t) as [[[] s1] t1]; try reflexivity.
  cbn [PySem.peval]. unfold ofE at 1 2. destruct (peval (force rc) s1 t1) as [[[v|x'] s2] t2]; [|reflexivity].
  cbn [bindV of_e]. destruct (truthy v); reflexivity.
Qed.

(* a result with no statements runs as its expression *)
Lemma run_pure rec r s t : rs r = [] -> run rec r s t = ofE (peval (force r) s t).
Proof. intros E. unfold run. rewrite E. reflexivity. Qed.

End Sim.
