(* Model of the statement-lifting compiler: Result algebra (hy/compiler.py
   class Result, _compile_branch) and the handlers compile_do,
   compile_logical_or_and_and_operator, compile_unary_operator (not),
   compile_if, compile_def_expression/compile_assign (setv, setx, including
   Result.rename), compile_while_expression, compile_break_or_continue,
   compile_raise_expression, compile_try_expression, and compile_expression for
   the call (log k e).  The counter is HyASTCompiler.anon_var_count; T n is the
   name get_anon_var() returns when the counter becomes n. *)
From HyV Require Import Compiler.Syntax.

(* temp_variables, at name level: the temporary and whether the Load occurrence in the
   expression context is among the renamable objects (it is for every modelled form) *)
Record result := R { rs : list pstmt; re : option pexpr; rt : list (ident * bool) }.

Definition rempty : result := R [] None [].
Definition radd (a b : result) : result := R (rs a ++ rs b) (re b) (rt b).
Definition of_stmt (st : pstmt) : result := R [st] None [].
Definition of_expr (e : pexpr) : result := R [] (Some e) [].
Definition force (r : result) : pexpr := match re r with Some e => e | None => PConst VNone end.

(* Result.expr_as_stmt: a bare Name after statements is dropped *)
Definition expr_as_stmt (r : result) : result :=
  match re r with
  | Some (PName x) => match rs r with [] => of_stmt (SExpr (PName x)) | _ => rempty end
  | Some (PCls c) => match rs r with [] => of_stmt (SExpr (PCls c)) | _ => rempty end
  | Some e => of_stmt (SExpr e)
  | None => rempty
  end.

(* ---- Result.rename at name level ---- *)
Definition ren (ts : list ident) (new : ident) (x : ident) : ident :=
  if existsb (ident_eqb x) ts then new else x.

Fixpoint substE (f : ident -> ident) (e : pexpr) : pexpr :=
  match e with
  | PConst v => PConst v
  | PName x => PName (f x)
  | PCls c => PCls c
  | PBoolOp b es => PBoolOp b (map (substE f) es)
  | PNot e => PNot (substE f e)
  | PLog k e => PLog k (substE f e)
  | PIfExp c a b => PIfExp (substE f c) (substE f a) (substE f b)
  | PNamed x e => PNamed (f x) (substE f e)
  end.

Fixpoint substS (f : ident -> ident) (st : pstmt) : pstmt :=
  let sl := map (substS f) in
  match st with
  | SAssign x e => SAssign (f x) (substE f e)
  | SExpr e => SExpr (substE f e)
  | SIf c a b => SIf (substE f c) (map (substS f) a) (map (substS f) b)
  | SWhile c a b => SWhile (substE f c) (map (substS f) a) (map (substS f) b)
  | SBreak => SBreak | SContinue => SContinue | SPass => SPass
  | SRaise e => SRaise (substE f e)
  | STry a hs o fi => STry (map (substS f) a) (map (fun hb => (fst hb, map (substS f) (snd hb))) hs)
                           (map (substS f) o) (map (substS f) fi)
  end.

Definition rename (r : result) (new : ident) : result :=
  let all := map fst (rt r) in
  let inexpr := map fst (filter snd (rt r)) in
  R (map (substS (ren all new)) (rs r))
    (match re r with Some e => Some (substE (ren inexpr new) e) | None => None end)
    [].

(* compile_assign takes the renaming shortcut only when the value has temporaries and IS one of them
   (`any(result.expr is v for v in result.temp_variables)`) or there is no value at all; a larger expression
   that merely mentions a temporary -- the BoolOp of (and (if ...) x) -- is assigned the ordinary way *)
Definition plain_assign (r : result) : bool :=
  match rt r with
  | [] => true
  | _ => match re r with
         | None => false
         | Some (PName x) => negb (existsb (ident_eqb x) (map fst (filter snd (rt r))))
         | Some _ => true
         end
  end.

(* ---- and / or ---- *)
Definition mkbool (isand : bool) (first : pexpr) (rest : list pexpr) : pexpr :=
  match rest with [] => first | _ => PBoolOp isand (first :: rest) end.
Definition cond_of (isand : bool) (x : ident) : pexpr :=
  if isand then PName x else PNot (PName x).

(* the pending value (first, rest) is stored in var, then the remaining operands are processed *)
Fixpoint build (isand : bool) (var : ident) (first : pexpr) (rest : list pexpr) (ops : list result)
  : list pstmt :=
  match ops with
  | [] => [SAssign var (mkbool isand first rest)]
  | r :: ops' =>
      match rs r with
      | [] => build isand var first (rest ++ [force r]) ops'
      | _ => [SAssign var (mkbool isand first rest);
              SIf (cond_of isand var) (rs r ++ build isand var (force r) [] ops') []]
      end
  end.

Definition bool_result (isand : bool) (r0 : result) (ops : list result) (var : option ident) : result :=
  match ops with
  | [] => r0
  | _ =>
    match var with
    | None => R (rs r0) (Some (mkbool isand (force r0) (map force ops))) (rt r0)
    | Some v => R (rs r0 ++ build isand v (force r0) [] ops) (Some (PName v)) (rt r0 ++ [(v, true)])
    end
  end.

Definition or_pass (l : list pstmt) : list pstmt := match l with [] => [SPass] | _ => l end.

(* compiler state: anon_var_count, and a ghost flag recording that Result.rename was applied
   somewhere (the flag is not part of the compiler; the simulation theorem is stated for runs
   in which it stays false, see Props/C01.v) *)
Definition cst := (nat * bool)%type.
Definition bump (st : cst) : cst := (S (fst st), snd st).
Definition tmp (st : cst) : ident := T (fst st).     (* the name issued when the counter became fst st *)
Definition mark (st : cst) : cst := (fst st, true).

Fixpoint compile (e : hexpr) (c : cst) {struct e} : result * cst :=
  (* HyASTCompiler._compile_branch *)
  let branch := fix branch (es : list hexpr) (acc : result) (last : option result) (c : cst) {struct es}
      : result * cst :=
    match es with
    | [] => (acc, c)
    | x :: r =>
        let acc1 := match last with Some l => radd acc (expr_as_stmt l) | None => acc end in
        let '(rx, c1) := compile x c in
        branch r (radd acc1 rx) (Some rx) c1
    end in
  match e with
  | HConst (VExn x) => (of_expr (PCls x), c)      (* exception classes are referred to by name *)
  | HConst v => (of_expr (PConst v), c)
  | HVar n => (of_expr (PName (U n)), c)
  | HLog k e =>
      let '(r, c1) := compile e c in (R (rs r) (Some (PLog k (force r))) [], c1)
  | HDo es => branch es rempty None c
  | HSetv n e =>
      let '(r, c1) := compile e c in
      if plain_assign r
      then (R (rs r ++ [SAssign (U n) (force r)]) None [], c1)
      else (R (rs (rename r (U n))) None [], mark c1)
  | HSetx n e =>
      let '(r, c1) := compile e c in
      if plain_assign r
      then (R (rs r) (Some (PNamed (U n) (force r))) [], c1)
      else (rename r (U n), mark c1)
  | HNot e =>
      let '(r, c1) := compile e c in (R (rs r) (Some (PNot (force r))) [], c1)
  | HBool isand es =>
      match es with
      | [] => (of_expr (PConst (if isand then VBool true else VNone)), c)
      | e0 :: es' =>
          let '(r0, c0) := compile e0 c in
          let '(ops, var, c') :=
            (fix cops (es : list hexpr) (c : cst) (var : option ident) {struct es}
                 : list result * option ident * cst :=
               match es with
               | [] => ([], var, c)
               | x :: r =>
                   let '(rx, c1) := compile x c in
                   let '(var1, c2) := match var, rs rx with
                                      | None, _ :: _ => (Some (tmp (bump c1)), bump c1)
                                      | _, _ => (var, c1)
                                      end in
                   let '(xs, var2, c3) := cops r c2 var1 in
                   (rx :: xs, var2, c3)
               end) es' c0 None in
          (bool_result isand r0 ops var, c')
      end
  | HIf cnd a b =>
      let '(rc, c1) := compile cnd c in
      let '(ra, c2) := compile a c1 in
      let '(rb, c3) := compile b c2 in
      match rs ra, rs rb with
      | [], [] => (R (rs rc) (Some (PIfExp (force rc) (force ra) (force rb))) [], c3)
      | _, _ =>
          let v := tmp (bump c3) in
          (R (rs rc ++ [SIf (force rc) (rs ra ++ [SAssign v (force ra)]) (rs rb ++ [SAssign v (force rb)])])
             (Some (PName v)) [(v, true)], bump c3)
      end
  | HWhile cnd body orelse =>
      let '(rc, c1) := compile cnd c in
      let '(rb0, c2) := branch body rempty None c1 in
      let body_stmts := or_pass (rs (radd rb0 (expr_as_stmt rb0))) in
      let '(rc', body', c3) :=
        match rs rc with
        | [] => (rc, body_stmts, c2)
        | _ => let v := tmp (bump c2) in
               (R [SAssign v (PConst (VBool true))] (Some (PName v)) [],
                rs rc ++ [SAssign v (PNot (PNot (force rc))); SIf (PName v) body_stmts []],
                bump c2)
        end in
      let '(orel, c4) :=
        match orelse with
        | None => ([], c3)
        | Some o => let '(ro, c4) := branch o rempty None c3 in (rs (radd ro (expr_as_stmt ro)), c4)
        end in
      (R (rs rc' ++ [SWhile (force rc') body' orel]) None [], c4)
  | HBreak => (of_stmt SBreak, c)
  | HContinue => (of_stmt SContinue, c)
  | HRaise e =>
      let '(r, c1) := compile e c in (R (rs r ++ [SRaise (force r)]) None [], c1)
  | HTry body handlers orelse final =>
      (* else without handlers: its forms are appended to the body *)
      let '(rb, c1) :=
        match handlers, orelse with
        | [], Some o =>
            (* compile body then o as one branch *)
            (fix two (es : list hexpr) (acc : result) (last : option result) (c : cst) {struct es} :=
               match es with
               | [] => branch o acc last c
               | x :: r =>
                   let acc1 := match last with Some l => radd acc (expr_as_stmt l) | None => acc end in
                   let '(rx, c1) := compile x c in
                   two r (radd acc1 rx) (Some rx) c1
               end) body rempty None c
        | _, _ => branch body rempty None c
        end in
      match handlers, final with
      | [], None | [], Some [] => (rb, c1)      (* `if not (catchers or finalbody)`: an empty (finally) counts as absent *)
      | _, _ =>
          let rv := tmp (bump c1) in
          let '(hs, c2) :=
            (fix chs (hs : list (htypes * list hexpr)) (c : cst) {struct hs} : list (htypes * list pstmt) * cst :=
               match hs with
               | [] => ([], c)
               | (ty, eb) :: r =>
                   let '(reb, c1) := branch eb rempty None c in
                   let '(rest, c2) := chs r c1 in
                   ((ty, rs reb ++ [SAssign rv (force reb)]) :: rest, c2)
               end) handlers (bump c1) in
          let '(orel, c3) :=
            match handlers, orelse with
            | _ :: _, Some o =>
                match o with
                | [] => ([], c2)                 (* `if not orelse`: an empty (else) counts as absent *)
                | _ => let '(ro, c3) := branch o rempty None c2 in (rs ro ++ [SAssign rv (force ro)], c3)
                end
            | _, _ => ([], c2)
            end in
          let '(fin, c4) :=
            match final with
            | None => ([], c3)
            | Some f => let '(rf, c4) := branch f rempty None c3 in (or_pass (rs (radd rf (expr_as_stmt rf))), c4)
            end in
          let body_stmts :=
            or_pass (match orel with
                     | [] => rs rb ++ [SAssign rv (force rb)]
                     | _ => rs (radd rb (expr_as_stmt rb))
                     end) in
          (R [STry body_stmts hs orel fin] (Some (PName rv)) [(rv, true)], c4)
      end
  end.

(* the compiled module body: _compile_branch of the top-level forms, with the last
   expression kept as an expression statement (hy_compile's final expr_as_stmt) *)
Definition compile_top (e : hexpr) : list pstmt * pexpr :=
  let '(r, _) := compile e (0, false) in (rs r, force r).
(* did Result.rename fire while compiling e? *)
Definition renames (e : hexpr) : bool := snd (snd (compile e (0, false))).
