(* Per-run obligations tying the compiler model to constants regenerated from the source. *)
From Coq Require Import String List.
From HyV Require Import Gen.CompilerTables.
Import ListNotations.
Open Scope string_scope.

(* compile_logical_or_and_and_operator: ops = {"and": (ast.And, True), "or": (ast.Or, None)} *)
Example boolop_table_as_modelled : boolop_table = [("and", ("And", "True")); ("or", ("Or", "None"))].
Proof. reflexivity. Qed.

(* HyASTCompiler.get_anon_var: f"_hy_{base}{name}_{self.anon_var_count}", base defaulting to "anon",
   the counter incremented before use: temporaries are _hy_anon_<n> with n = 1, 2, ... *)
Example anon_var_format_as_modelled :
  anon_var_format = ["_hy_"; "{base}"; "{name}"; "_"; "{self.anon_var_count}"] /\ anon_var_default_base = "anon"
  /\ anon_var_increments_first = true.
Proof. repeat split; reflexivity. Qed.
