(* Simulation proof, layer 2: try/except/else/finally at every raise point. *)
From HyV Require Import Compiler.Syntax Compiler.PySem Compiler.HySem Compiler.Compile
  Compiler.PyFacts Compiler.HyFacts Compiler.Sim Compiler.Named Compiler.Frame Compiler.Range Compiler.Correct1.

Lemma bindS_id r : bindS r (fun s t => (SN, s, t)) = r.
Proof. destruct r as [[[] ?] ?]; reflexivity. Qed.

Section Layer2.
Variable fault : nat -> option exn.
Variable issub : exn -> exn -> bool.
Notation peval := (peval fault).
Notation pexec1 := (pexec1 fault issub).
Notation pexec := (pexec fault issub).
Notation prun1 := (prun1 fault issub).
Notation prunh1 := (prunh1 fault issub).
Notation finish1 := (finish1 fault issub).
Notation heval1 := (heval1 fault issub).
Notation run := (run fault issub).
Notation hseq := (hseq fault issub).
Notation hrunh := (hrunh fault issub).
Notation hrec_at := (hrec_at fault issub).
Notation rec_at := (rec_at fault issub).
Notation rec_of := (rec_of fault issub).
Notation sim := (sim fault issub).
Notation simr := (simr fault issub).

(* ---- the write frame at every fuel ---- *)
Lemma rec_keeps p fuel : forall w, tS p w = true -> keeps p (rec_of fuel w).
Proof.
  induction fuel as [|f IH]; intros w Hw s t; [apply keepT_refl|].
  cbn [PyFacts.rec_of]. rewrite pexec_rec. apply pexec1_keeps; assumption.
Qed.
Lemma prun_keeps p l rec : (forall w, tS p w = true -> keeps p (rec w)) -> tL p l = true -> keeps p (prun1 rec l).
Proof.
  intros Hrec Hl. apply prun1_keeps. unfold tL in Hl. rewrite forallb_forall in Hl. apply Forall_forall.
  intros st Hin. apply pexec1_keeps; [exact Hrec | apply Hl; exact Hin].
Qed.

Lemma compile_range_branch es c r c' : cbranch es rempty None c = (r, c') -> fst c <= fst c' /\ tR (inr (fst c) (fst c')) r = true.
Proof.
  intros Hc. eapply cbranch_range; [|exact Hc | apply Nat.le_refl | apply tR_rempty | exact I].
  apply Forall_forall. intros e _. apply compile_range.
Qed.

(* ---- blocks ---- *)
Definition simb (es : list hexpr) (rb : result) : Prop :=
  forall l s s' t, eqU s s' -> rel (hseq (hrec_at l) es VNone s t) (run (rec_at l) rb s' t).

Lemma block_sim es : Forall sim es -> Forall (mono) es -> forall c rb c1,
  cbranch es rempty None c = (rb, c1) -> snd c1 = false -> simb es rb.
Proof.
  intros HS HM c rb c1 Hc Hf l s s' t Hs. rewrite <- heval1_do.
  apply (sim_do fault issub es HS HM c rb c1); [rewrite compile_do; exact Hc | exact Hf | exact Hs].
Qed.

Lemma ctwo_app o es : forall acc last c, ctwo o es acc last c = cbranch (es ++ o) acc last c.
Proof.
  induction es as [|x es IH]; intros acc last c; [reflexivity|]. rewrite ctwo_cons. cbn [app cbranch].
  destruct (compile x c) as [rx c1]. apply IH.
Qed.

Lemma prun1_or_pass rec l s t : prun1 rec (or_pass l) s t = prun1 rec l s t.
Proof. destruct l; reflexivity. Qed.

(* ---- relating a reference outcome with a statement-level outcome ---- *)
Definition relQ (Q : val -> store -> Prop) (a : H) (b : sres * store * trace) : Prop :=
  fst (fst a) = HT \/
  (snd a = snd b /\ eqU (snd (fst a)) (snd (fst b)) /\
   match fst (fst a), fst (fst b) with
   | HV v, SN => Q v (snd (fst b))
   | HX x, SX y => x = y
   | HB, SB | HC, SC => True
   | _, _ => False
   end).

Lemma block_assign rec rb n (A : H) s' t :
  rel A (run rec rb s' t) ->
  relQ (fun v s => s (T n) = v) A (prun1 rec (rs rb ++ [SAssign (T n) (force rb)]) s' t).
Proof.
  intros [HT | [E1 [E2 E3]]]; [left; exact HT|]. destruct A as [[oa sa] ta]. cbn [fst snd] in *.
  unfold Sim.run, thenS in *. rewrite prun1_app. unfold bindS.
  destruct (prun1 rec (rs rb) s' t) as [[o s1] t1]. destruct o; cbn [ofS of_s fst snd] in *; subst.
  - rewrite prun1_cons, pexec1_assign. unfold bindE, bindS. unfold ofE in *.
    destruct (peval (force rb) s1 t1) as [[[v|x] s2] t2]; cbn [fst snd of_e] in *; subst; right; cbn [PyFacts.prun1 fst snd].
    + split; [reflexivity|]. split; [apply eqU_updT; exact E3|]. unfold upd. rewrite ident_eqb_refl. reflexivity.
    + repeat split; auto.
  - right. cbn [fst snd]. repeat split; auto.
  - right. cbn [fst snd]. repeat split; auto.
  - right. cbn [fst snd]. repeat split; auto.
  - left. reflexivity.
Qed.

Lemma block_eas rec rb (A : H) s' t :
  rel A (run rec rb s' t) ->
  relQ (fun _ _ => True) A (prun1 rec (rs rb ++ rs (expr_as_stmt rb)) s' t).
Proof.
  intros [HT | [E1 [E2 E3]]]; [left; exact HT|]. destruct A as [[oa sa] ta]. cbn [fst snd] in *.
  unfold Sim.run, thenS in *. rewrite prun1_app. unfold bindS.
  destruct (prun1 rec (rs rb) s' t) as [[o s1] t1]. destruct o; cbn [ofS of_s fst snd] in *; subst;
    try (right; cbn [fst snd]; repeat split; auto; fail); [|left; reflexivity].
  destruct (eas_cases fault rb) as [E | [E Hp]]; rewrite E.
  - rewrite prun1_cons, pexec1_expr. unfold bindE, bindS, ofE in *.
    destruct (peval (force rb) s1 t1) as [[[v|x] s2] t2]; cbn [fst snd of_e] in *; subst; right; cbn [PyFacts.prun1 fst snd]; repeat split; auto.
  - destruct (Hp s1 t1) as [v Hv]. unfold ofE in *. rewrite Hv in *. cbn [fst snd of_e] in *. subst.
    right. cbn [PyFacts.prun1 fst snd]. repeat split; auto.
Qed.

(* ---- handlers ---- *)
Lemma handlers_rel n hs : Forall (fun hb => Forall sim (snd hb)) hs -> Forall (fun hb => Forall (mono) (snd hb)) hs ->
  forall c out c', cchs (T n) hs c = (out, c') -> snd c' = false ->
  snd c = false /\
  forall l x s s' t, eqU s s' ->
    relQ (fun v st => st (T n) = v) (hrunh (hrec_at l) hs x s t) (prunh1 (rec_at l) out x s' t).
Proof.
  intros HS. induction HS as [|[ty eb] hs S1 S2 IH]; intros HM c out c' Hc Hf.
  - rewrite cchs_nil in Hc. inversion Hc; subst. split; [exact Hf|]. intros l x s s' t Hs.
    right. cbn. repeat split; auto.
  - inversion HM as [|? ? M1 M2]; subst. cbn [snd] in S1, M1.
    rewrite cchs_cons in Hc. destruct (cbranch eb rempty None c) as [reb c1] eqn:Eb.
    destruct (cchs (T n) hs c1) as [rest c2] eqn:Er. inversion Hc; subst.
    destruct (IH M2 _ _ _ Er Hf) as [Hf1 Hrest].
    assert (Hb : simb eb reb) by (eapply block_sim; eassumption).
    split. { destruct (snd c) eqn:F; [|reflexivity]. rewrite (cbranch_mono eb M1 _ _ _ _ _ Eb F) in Hf1. discriminate. }
    intros l x s s' t Hs. cbn [HyFacts.hrunh PyFacts.prunh1]. destruct (handles issub ty x).
    + apply block_assign. apply Hb. exact Hs.
    + apply Hrest. exact Hs.
Qed.

(* ---- the stage before finally ---- *)
Definition stage1T (rec : rec_t) (B : list pstmt) (hs' : list (htypes * list pstmt)) (orel : list pstmt)
    (s : store) (t : trace) : sres * store * trace :=
  match prun1 rec B s t with
  | (SX e, s1, t1) => prunh1 rec hs' e s1 t1
  | (SN, s1, t1) => prun1 rec orel s1 t1
  | other => other
  end.

Lemma stage_rel (Qb Qn : val -> store -> Prop) hrec rec body hs o B hs' orel s s' t :
  relQ Qb (hseq hrec body VNone s t) (prun1 rec B s' t) ->
  (forall x s1 s1' t1, eqU s1 s1' -> relQ Qn (hrunh hrec hs x s1 t1) (prunh1 rec hs' x s1' t1)) ->
  (forall v s1 s1' t1, eqU s1 s1' -> Qb v s1' -> relQ Qn (helse fault issub hrec o v s1 t1) (prun1 rec orel s1' t1)) ->
  relQ Qn (hstage1 fault issub hrec body hs o s t) (stage1T rec B hs' orel s' t).
Proof.
  intros Hb Hh He. unfold hstage1, stage1T.
  destruct (hseq hrec body VNone s t) as [[oa sa] ta]. destruct (prun1 rec B s' t) as [[ob sb] tb].
  destruct Hb as [HT | [E1 [E2 E3]]]; cbn [fst snd] in *.
  - subst oa. left. reflexivity.
  - subst tb. destruct oa, ob; try contradiction.
    + apply He; assumption.
    + subst. apply Hh. exact E2.
    + right. cbn [fst snd]. repeat split; auto.
    + right. cbn [fst snd]. repeat split; auto.
Qed.

Lemma finish_rel l n final fin (a : H) (b : sres * store * trace) :
  relQ (fun v st => st (T n) = v) a b ->
  match final with
  | None => fin = []
  | Some f => exists rf, fin = or_pass (rs rf ++ rs (expr_as_stmt rf)) /\ simb f rf
  end ->
  (forall s t, (snd (fst (prun1 (rec_at l) fin s t))) (T n) = s (T n)) ->
  rel (hfinish fault issub (hrec_at l) final a)
      (thenS (finish1 (rec_at l) fin b) (fun s1 t1 => ofE (peval (PName (T n)) s1 t1))).
Proof.
  intros Hab Hfin Hkeep. destruct a as [[oa sa] ta], b as [[ob sb] tb].
  destruct Hab as [HT | [E1 [E2 E3]]]; cbn [fst snd] in *.
  - subst oa. left. reflexivity.
  - subst tb.
    assert (Hcase : forall (P : Prop),
      ((forall vv, oa = HV vv -> ob = SN -> sb (T n) = vv) ->
       (oa <> HT) -> of_s ob = match oa with HV _ => HV VNone | x => x end -> P) -> P).
    { intros P HP. destruct oa, ob; try contradiction; apply HP; try discriminate; try reflexivity;
        try (intros vv Hv Hn; congruence); subst; reflexivity. }
    apply Hcase. intros Hval HnT Hob.
    destruct final as [f|].
    + destruct Hfin as [rf [-> Hrf]].
      pose proof (block_eas (rec_at l) rf _ sb ta (Hrf l sa sb ta E2)) as R.
      specialize (Hkeep sb ta). rewrite prun1_or_pass in Hkeep.
      unfold hfinish, PyFacts.finish1. rewrite prun1_or_pass.
      destruct (hseq (hrec_at l) f VNone sa ta) as [[og sg] tg].
      destruct (prun1 (rec_at l) (rs rf ++ rs (expr_as_stmt rf)) sb ta) as [[oh sh] th].
      cbn [fst snd] in *.
      destruct R as [HT | [F1 [F2 F3]]]; cbn [fst snd] in *.
      * subst og. destruct oa; left; reflexivity.
      * subst th. destruct og, oh; try contradiction.
        -- destruct oa, ob; try contradiction; try discriminate; cbn [thenS ofS of_s ofE PySem.peval of_e]; right; unfold rel0; cbn [fst snd];
             repeat split; auto. rewrite Hkeep, E3. reflexivity.
        -- subst. destruct oa, ob; try contradiction; try discriminate; right; cbn; repeat split; auto.
        -- destruct oa, ob; try contradiction; try discriminate; right; cbn; repeat split; auto.
        -- destruct oa, ob; try contradiction; try discriminate; right; cbn; repeat split; auto.
    + subst fin. unfold hfinish, PyFacts.finish1. cbn [PyFacts.prun1].
      destruct oa, ob; try contradiction; try discriminate; cbn [thenS ofS of_s ofE PySem.peval of_e]; right; unfold rel0; cbn [fst snd];
        repeat split; auto. rewrite E3. reflexivity.
Qed.

Lemma hstage1_merge hrec body o0 s t :
  hstage1 fault issub hrec body [] (Some o0) s t = hstage1 fault issub hrec (body ++ o0) [] None s t.
Proof.
  unfold hstage1. rewrite hseq_app. destruct (hseq hrec body VNone s t) as [[[v| | | |] s1] t1]; cbn [bindV]; try reflexivity.
  unfold helse. destruct o0 as [|y o1]; [reflexivity|].
  rewrite (hseq_last fault issub hrec (y :: o1) v VNone) by discriminate.
  destruct (hseq hrec (y :: o1) VNone s1 t1) as [[[] ?] ?]; reflexivity.
Qed.

Lemma hstage1_plain hrec body s t : hstage1 fault issub hrec body [] None s t = hseq hrec body VNone s t.
Proof. unfold hstage1. destruct (hseq hrec body VNone s t) as [[[] ?] ?]; reflexivity. Qed.

Lemma hfinish_trivial hrec final a : (final = None \/ final = Some []) -> hfinish fault issub hrec final a = a.
Proof. intros [-> | ->]; destruct a as [[[] ?] ?]; reflexivity. Qed.

Lemma then_single rec st k s t : thenS (prun1 rec [st] s t) k = thenS (pexec1 rec st s t) k.
Proof. rewrite prun1_cons. unfold bindS, thenS. destruct (pexec1 rec st s t) as [[[] ?] ?]; reflexivity. Qed.

Lemma mono_back_cbranch es acc last c r c' : Forall mono es -> cbranch es acc last c = (r, c') -> snd c' = false -> snd c = false.
Proof. intros HM Hc Hf. destruct (snd c) eqn:F; [|reflexivity]. rewrite (cbranch_mono es HM _ _ _ _ _ Hc F) in Hf. discriminate. Qed.

Lemma Forall_app_l {A} (P : A -> Prop) a b : Forall P a -> Forall P b -> Forall P (a ++ b).
Proof. intros Ha Hb. apply Forall_app. split; assumption. Qed.

Lemma sim_try body hs o f :
  Forall sim body -> Forall mono body ->
  Forall (fun hb => Forall sim (snd hb)) hs -> Forall (fun hb => Forall mono (snd hb)) hs ->
  Popt sim o -> Popt mono o -> Popt sim f -> Popt mono f ->
  sim (HTry body hs o f).
Proof.
  intros Sb Mb Sh Mh So Mo Sf Mf c r c' Hc Hfl l s s' t Hs.
  rewrite compile_try in Hc. rewrite heval1_try.
  (* the body, with the else forms appended when there are no handlers *)
  set (body' := match hs, o with [], Some o0 => body ++ o0 | _, _ => body end).
  set (o' := match hs with [] => None | _ => o end).
  assert (Hst : forall hrec s t, hstage1 fault issub hrec body hs o s t = hstage1 fault issub hrec body' hs o' s t).
  { intros. unfold body', o'. destruct hs; [destruct o; [apply hstage1_merge | reflexivity] | reflexivity]. }
  rewrite Hst.
  assert (Sb' : Forall sim body' /\ Forall mono body').
  { unfold body'. destruct hs; [destruct o as [o0|]|]; auto. cbn [Popt] in So, Mo. split; apply Forall_app_l; assumption. }
  destruct Sb' as [Sb' Mb'].
  destruct (match hs, o with
            | [], Some o0 => ctwo o0 body rempty None c
            | _, _ => cbranch body rempty None c
            end) as [rb c1] eqn:Eb.
  assert (Eb' : cbranch body' rempty None c = (rb, c1)).
  { unfold body'. destruct hs; [destruct o; [rewrite <- ctwo_app|]|]; exact Eb. }
  clear Eb.
  destruct (compile_range_branch body' c rb c1 Eb') as [L1 R1].
  (* trivial try: no handlers, no finally *)
  assert (Htriv : hs = [] -> (f = None \/ f = Some []) -> (rb, c1) = (r, c') ->
                  rel (hfinish fault issub (hrec_at l) f (hstage1 fault issub (hrec_at l) body' hs o' s t)) (run (rec_at l) r s' t)).
  { intros -> Hf' E. inversion E; subst. rewrite hfinish_trivial by exact Hf'. unfold o'. rewrite hstage1_plain.
    apply (block_sim body' Sb' Mb' c r c' Eb' Hfl). exact Hs. }
  assert (Hmain :
      (let rv := tmp (bump c1) in
       let '(hs0, c2) := cchs rv hs (bump c1) in
       let '(orel, c3) :=
         match hs, o with
         | _ :: _, Some o0 =>
             match o0 with
             | [] => ([], c2)
             | _ => let '(ro, c3) := cbranch o0 rempty None c2 in (rs ro ++ [SAssign rv (force ro)], c3)
             end
         | _, _ => ([], c2)
         end in
       let '(fin, c4) :=
         match f with
         | None => ([], c3)
         | Some f0 => let '(rf, c4) := cbranch f0 rempty None c3 in (or_pass (rs (radd rf (expr_as_stmt rf))), c4)
         end in
       let body_stmts :=
         or_pass (match orel with
                  | [] => rs rb ++ [SAssign rv (force rb)]
                  | _ => rs (radd rb (expr_as_stmt rb))
                  end) in
       (R [STry body_stmts hs0 orel fin] (Some (PName rv)) [(rv, true)], c4)) = (r, c') ->
      rel (hfinish fault issub (hrec_at l) f (hstage1 fault issub (hrec_at l) body' hs o' s t)) (run (rec_at l) r s' t)).
  { clear Hc Htriv. cbv zeta. unfold tmp, bump. cbn [fst snd]. intros Hc.
    set (n := S (fst c1)) in *.
    destruct (cchs (T n) hs (n, snd c1)) as [hs0 c2] eqn:Eh.
    destruct (match hs, o with
              | _ :: _, Some o0 =>
                  match o0 with
                  | [] => ([], c2)
                  | _ => let '(ro, c3) := cbranch o0 rempty None c2 in (rs ro ++ [SAssign (T n) (force ro)], c3)
                  end
              | _, _ => ([], c2)
              end) as [orel c3] eqn:Eo.
    destruct (match f with
              | None => ([], c3)
              | Some f0 => let '(rf, c4) := cbranch f0 rempty None c3 in (or_pass (rs (radd rf (expr_as_stmt rf))), c4)
              end) as [fin c4] eqn:Ef.
    inversion Hc; subst r c4. clear Hc.
    (* finally *)
    assert (HF : snd c3 = false /\ fst c3 <= fst c' /\ tL (inr (fst c3) (fst c')) fin = true /\
                 match f with None => fin = [] | Some f0 => exists rf, fin = or_pass (rs rf ++ rs (expr_as_stmt rf)) /\ simb f0 rf end).
    { destruct f as [f0|]; [|inversion Ef; subst; repeat split; auto].
      destruct (cbranch f0 rempty None c3) as [rf c4'] eqn:Erf. inversion Ef; subst. cbn [Popt] in Sf, Mf.
      destruct (compile_range_branch f0 c3 rf c' Erf) as [L4 R4].
      split; [exact (mono_back_cbranch f0 rempty None c3 rf c' Mf Erf Hfl)|]. split; [exact L4|]. split.
      - assert (Q : tR (inr (fst c3) (fst c')) (radd rf (expr_as_stmt rf)) = true) by (apply tR_radd; [|apply tR_eas]; exact R4).
        apply tR_parts in Q. apply tL_or_pass. apply Q.
      - exists rf. split; [reflexivity|]. eapply block_sim; eassumption. }
    destruct HF as [Hf3 [L4 [TF HFin]]].
    (* else *)
    assert (HO : snd c2 = false /\ fst c2 <= fst c3 /\
                 (forall v s1 s1' t1, eqU s1 s1' -> (orel = [] -> s1' (T n) = v) ->
                    relQ (fun v st => st (T n) = v) (helse fault issub (hrec_at l) o' v s1 t1) (prun1 (rec_at l) orel s1' t1))).
    { unfold o'. destruct hs as [|h hs1].
      - inversion Eo; subst. repeat split; auto. intros v s1 s1' t1 E Hv. right. cbn. repeat split; auto.
      - destruct o as [[|y o1]|].
        + inversion Eo; subst. repeat split; auto. intros v s1 s1' t1 E Hv. right. cbn. repeat split; auto.
        + destruct (cbranch (y :: o1) rempty None c2) as [ro c3'] eqn:Ero. inversion Eo; subst. cbn [Popt] in So, Mo.
          destruct (compile_range_branch _ _ _ _ Ero) as [L3 _].
          split; [exact (mono_back_cbranch (y :: o1) rempty None c2 ro c3 Mo Ero Hf3)|]. split; [exact L3|].
          intros v s1 s1' t1 E _. unfold helse. apply block_assign.
          apply (block_sim (y :: o1) So Mo c2 ro c3 Ero Hf3). exact E.
        + inversion Eo; subst. repeat split; auto. intros v s1 s1' t1 E Hv. right. cbn. repeat split; auto. }
    destruct HO as [Hf2 [L3 HElse]].
    (* handlers *)
    destruct (handlers_rel n hs Sh Mh _ _ _ Eh Hf2) as [Hf1' Hhand]. cbn [snd] in Hf1'.
    destruct (cchs_range n hs (Forall_impl _ (fun hb Hb => Forall_impl _ (fun e _ => compile_range e) Hb) Sh) (fst c1) _ _ _ Eh) as [L2 _];
      [cbn [fst]; lia | cbn [fst]; apply inr_top; lia|]. cbn [fst] in L2.
    pose proof (block_sim body' Sb' Mb' c rb c1 Eb' Hf1') as Hbody.
    (* the finally block leaves the result variable alone *)
    assert (Hkeep : forall s0 t0, (snd (fst (prun1 (rec_at l) fin s0 t0))) (T n) = s0 (T n)).
    { intros s0 t0. apply (prun_keeps (inr (fst c3) (fst c')) fin (rec_at l)); [intros w Hw; apply rec_keeps; exact Hw | exact TF|].
      unfold inr. apply andb_false_iff. left. apply Nat.ltb_ge. unfold n. lia. }
    unfold Sim.run. cbn [rs force re]. rewrite then_single, pexec1_try.
    apply (finish_rel l n f fin); [|exact HFin | exact Hkeep].
    fold (stage1T (rec_at l) (or_pass match orel with
                                      | [] => rs rb ++ [SAssign (T n) (force rb)]
                                      | _ :: _ => rs (radd rb (expr_as_stmt rb))
                                      end) hs0 orel s' t).
    destruct orel as [|st0 orel0] eqn:Eorel.
    - apply (stage_rel (fun v st => st (T n) = v) (fun v st => st (T n) = v)).
      + rewrite prun1_or_pass. apply block_assign. apply Hbody. exact Hs.
      + intros x s1 s1' t1 E. apply Hhand. exact E.
      + intros v s1 s1' t1 E Hv. apply HElse; [exact E | intros _; exact Hv].
    - rewrite <- Eorel in *. apply (stage_rel (fun _ _ => True) (fun v st => st (T n) = v)).
      + rewrite prun1_or_pass. unfold radd. cbn [rs]. apply block_eas. apply Hbody. exact Hs.
      + intros x s1 s1' t1 E. apply Hhand. exact E.
      + intros v s1 s1' t1 E _. apply HElse; [exact E | intros Hn; rewrite Eorel in Hn; discriminate]. }
  destruct hs as [|h hs1].
  - destruct f as [[|x f0]|]; [apply Htriv; auto | apply Hmain; exact Hc | apply Htriv; auto].
  - apply Hmain. exact Hc.
Qed.

End Layer2.
