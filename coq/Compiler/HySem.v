(* Reference semantics of the Hy source fragment, written from docs/api.rst
   and docs/semantics.rst (not from the compiler). *)
From HyV Require Import Compiler.Syntax Compiler.PySem.

Inductive hres := HV (v : val) | HX (e : exn) | HB | HC | HT.

Section Sem.
Variable fault : nat -> option exn.
Variable issub : exn -> exn -> bool.

Fixpoint heval1 (rec : hexpr -> store -> trace -> hres * store * trace)
    (e : hexpr) (s : store) (t : trace) {struct e} : hres * store * trace :=
    let go := heval1 rec in
    (* (do ...): forms in order, value of the last; `last` is the value so far *)
    let seq := fix seq (es : list hexpr) (last : val) (s : store) (t : trace) {struct es} :=
      match es with
      | [] => (HV last, s, t)
      | x :: r => match go x s t with
                  | (HV v, s1, t1) => seq r v s1 t1
                  | other => other
                  end
      end in
    match e with
    | HConst v => (HV v, s, t)
    | HVar n => (HV (s (U n)), s, t)
    | HLog k e =>
        match go e s t with
        | (HV v, s1, t1) => match fault k with
                            | Some x => (HX x, s1, t1 ++ [k])
                            | None => (HV v, s1, t1 ++ [k])
                            end
        | other => other
        end
    | HDo es => seq es VNone s t
    | HSetv n e =>
        match go e s t with
        | (HV v, s1, t1) => (HV VNone, upd s1 (U n) v, t1)
        | other => other
        end
    | HSetx n e =>
        match go e s t with
        | (HV v, s1, t1) => (HV v, upd s1 (U n) v, t1)
        | other => other
        end
    | HNot e =>
        match go e s t with
        | (HV v, s1, t1) => (HV (VBool (negb (truthy v))), s1, t1)
        | other => other
        end
    | HIf c a b =>
        match go c s t with
        | (HV v, s1, t1) => if truthy v then go a s1 t1 else go b s1 t1
        | other => other
        end
    | HBool isand es =>
        match es with
        | [] => (HV (if isand then VBool true else VNone), s, t)
        | e0 :: r0 =>
            match go e0 s t with
            | (HV v0, s0, t0) =>
                (fix ops (es : list hexpr) (acc : val) (s : store) (t : trace) {struct es} :=
                   match es with
                   | [] => (HV acc, s, t)
                   | x :: r => if Bool.eqb (truthy acc) isand
                               then match go x s t with
                                    | (HV v, s1, t1) => ops r v s1 t1
                                    | other => other
                                    end
                               else (HV acc, s, t)
                   end) r0 v0 s0 t0
            | other => other
            end
        end
    | HWhile c body orelse =>
        match go c s t with
        | (HV v, s1, t1) =>
            if truthy v then
              match seq body VNone s1 t1 with
              | (HV _, s2, t2) | (HC, s2, t2) => rec (HWhile c body orelse) s2 t2
              | (HB, s2, t2) => (HV VNone, s2, t2)
              | other => other
              end
            else
              (* leaving the loop costs one unit of fuel too: the else forms run at the next level *)
              rec (HDo ((match orelse with Some o => o | None => [] end) ++ [HConst VNone])) s1 t1
        (* the condition is evaluated inside the loop: break / continue in it act on this loop *)
        | (HB, s1, t1) => (HV VNone, s1, t1)
        | (HC, s1, t1) => rec (HWhile c body orelse) s1 t1
        | other => other
        end
    | HBreak => (HB, s, t)
    | HContinue => (HC, s, t)
    | HRaise e =>
        match go e s t with
        | (HV v, s1, t1) => (HX (raise_of v), s1, t1)
        | other => other
        end
    | HTry body handlers orelse final =>
        let runh := fix runh (hs : list (htypes * list hexpr)) (x : exn) (s : store) (t : trace) {struct hs} :=
          match hs with
          | [] => (HX x, s, t)
          | (h, b) :: r => if handles issub h x then seq b VNone s t else runh r x s t
          end in
        let r1 :=
          match seq body VNone s t with
          | (HX x, s1, t1) => runh handlers x s1 t1
          | (HV v, s1, t1) =>
              match orelse with
              | None | Some [] => (HV v, s1, t1)        (* no else form evaluated: the body's value stands *)
              | Some o => seq o VNone s1 t1
              end
          | other => other
          end in
        match r1 with
        | (HT, s2, t2) => (HT, s2, t2)
        | (o, s2, t2) =>
            match final with
            | None => (o, s2, t2)
            | Some f => match seq f VNone s2 t2 with
                        | (HV _, s3, t3) => (o, s3, t3)
                        | other => other
                        end
            end
        end
    end.

(* fuel bounds the number of loop re-entries and loop exits along any chain *)
Fixpoint heval (fuel : nat) : hexpr -> store -> trace -> hres * store * trace :=
  heval1 (match fuel with O => fun _ s t => (HT, s, t) | S f => heval f end).

End Sem.
