(* Entry points evaluated by the correspondence harness. *)
From Coq Require Import String.
From HyV Require Import Compiler.Syntax Compiler.PySem Compiler.HySem Compiler.Compile Compiler.Show.
Open Scope string_scope.

Definition fault_of (l : list (nat * exn)) (k : nat) : option exn :=
  match find (fun p => Nat.eqb (fst p) k) l with Some p => Some (snd p) | None => None end.
(* reflexive-transitive subclass pairs are supplied closed by the harness *)
Definition issub_of (l : list (exn * exn)) (e c : exn) : bool :=
  Nat.eqb e c || existsb (fun p => Nat.eqb (fst p) e && Nat.eqb (snd p) c) l.
Definition store_of (vals : list val) : store :=
  fun x => match x with U n => nth n vals VNone | T _ => VNone end.

Definition model_compile (e : hexpr) : string :=
  let '(stmts, ex) := compile_top e in show_block stmts ++ " ; " ++ show_e ex.

Definition model_run (fl : list (nat * exn)) (sub : list (exn * exn)) (fuel : nat) (vals : list val) (e : hexpr) : string :=
  let '(stmts, ex) := compile_top e in
  let nv := length vals in
  match prun (fault_of fl) (issub_of sub) fuel stmts (store_of vals) [] with
  | (SN, s1, t1) =>
      let '(r, s2, t2) := peval (fault_of fl) ex s1 t1 in
      show_eres r ++ " | " ++ show_trace t2 ++ " | " ++ show_store nv s2
  | (o, s1, t1) => show_sres o ++ " | " ++ show_trace t1 ++ " | " ++ show_store nv s1
  end.

Definition ref_run (fl : list (nat * exn)) (sub : list (exn * exn)) (fuel : nat) (vals : list val) (e : hexpr) : string :=
  let nv := length vals in
  let '(r, s1, t1) := heval (fault_of fl) (issub_of sub) fuel e (store_of vals) [] in
  show_hres r ++ " | " ++ show_trace t1 ++ " | " ++ show_store nv s1.

Definition model_renames (e : hexpr) : string := if renames e then "true" else "false".
