(* Every user name mentioned by a compiled result is a name of the program
   (the compiler invents no non-reserved names), for C12. *)
From HyV Require Import Compiler.Syntax Compiler.PySem Compiler.Compile Compiler.Named Compiler.Frame Compiler.Range.

Lemma ctwo_app' o es : forall acc last c, ctwo o es acc last c = cbranch (es ++ o) acc last c.
Proof.
  induction es as [|x es IH]; intros acc last c; [reflexivity|]. rewrite ctwo_cons. cbn [app cbranch].
  destruct (compile x c) as [rx c1]. apply IH.
Qed.

Section U.
Variable q : nat -> bool.     (* the program's own variable names *)

Definition uI (x : ident) : bool := match x with U n => q n | T _ => true end.

Fixpoint uE (e : pexpr) : bool :=
  match e with
  | PConst _ | PCls _ => true
  | PName x => uI x
  | PBoolOp _ es => forallb uE es
  | PNot e | PLog _ e => uE e
  | PIfExp c a b => uE c && uE a && uE b
  | PNamed x e => uI x && uE e
  end.
Fixpoint uS (st : pstmt) : bool :=
  match st with
  | SAssign x e => uI x && uE e
  | SExpr e | SRaise e => uE e
  | SIf c a b | SWhile c a b => uE c && forallb uS a && forallb uS b
  | SBreak | SContinue | SPass => true
  | STry a hs o f => forallb uS a && forallb (fun hb => forallb uS (snd hb)) hs && forallb uS o && forallb uS f
  end.
Definition uL (l : list pstmt) : bool := forallb uS l.
Definition uR (r : result) : bool := uL (rs r) && uE (force r) && forallb (fun xb => uI (fst xb)) (rt r).

(* the variables a program mentions *)
Fixpoint uses (e : hexpr) : bool :=
  let all := fix all (l : list hexpr) : bool := match l with [] => true | x :: r => uses x && all r end in
  let opt := fun o => match o with Some l => all l | None => true end in
  match e with
  | HConst _ | HBreak | HContinue => true
  | HVar n => q n
  | HLog _ e | HNot e | HRaise e => uses e
  | HSetv n e | HSetx n e => q n && uses e
  | HDo es | HBool _ es => all es
  | HIf c a b => uses c && uses a && uses b
  | HWhile c body o => uses c && all body && opt o
  | HTry body hs o f =>
      all body && (fix allh (l : list (htypes * list hexpr)) : bool :=
                     match l with [] => true | hb :: r => all (snd hb) && allh r end) hs && opt o && opt f
  end.
Lemma uses_all es :
  (fix all (l : list hexpr) : bool := match l with [] => true | x :: r => uses x && all r end) es = forallb uses es.
Proof. induction es as [|x r IH]; [reflexivity|]. cbn [forallb]. rewrite <- IH. reflexivity. Qed.
Lemma uses_allh hs :
  (fix allh (l : list (htypes * list hexpr)) : bool :=
     match l with [] => true | hb :: r => (fix all (l : list hexpr) : bool := match l with [] => true | x :: r => uses x && all r end) (snd hb) && allh r end) hs
  = forallb (fun hb => forallb uses (snd hb)) hs.
Proof. induction hs as [|hb r IH]; [reflexivity|]. cbn [forallb]. rewrite <- IH, uses_all. reflexivity. Qed.
Definition uses_opt (o : option (list hexpr)) : bool := match o with Some l => forallb uses l | None => true end.

Lemma uR_parts r : uR r = true <-> uL (rs r) = true /\ uE (force r) = true /\ forallb (fun xb => uI (fst xb)) (rt r) = true.
Proof. unfold uR. rewrite !andb_true_iff. tauto. Qed.
Lemma uR_mk stmts e tmps : uL stmts = true -> match e with Some x => uE x = true | None => True end ->
  forallb (fun xb => uI (fst xb)) tmps = true -> uR (R stmts e tmps) = true.
Proof. intros A B C. apply uR_parts. cbn [rs rt]. repeat split; auto. unfold force. cbn [re]. destruct e; auto. Qed.
Lemma uL_app a b : uL (a ++ b) = uL a && uL b.
Proof. unfold uL. apply forallb_app. Qed.
Lemma uL_one st : uL [st] = uS st. Proof. unfold uL. cbn. apply andb_true_r. Qed.
Lemma uL_or_pass l : uL l = true -> uL (or_pass l) = true. Proof. destruct l; auto. Qed.
Lemma uS_if c a b : uS (SIf c a b) = uE c && uL a && uL b. Proof. reflexivity. Qed.
Lemma uS_while c a b : uS (SWhile c a b) = uE c && uL a && uL b. Proof. reflexivity. Qed.
Lemma uS_assign x e : uS (SAssign x e) = uI x && uE e. Proof. reflexivity. Qed.
Lemma uS_try a hs o f : uS (STry a hs o f) = uL a && forallb (fun hb => uL (snd hb)) hs && uL o && uL f. Proof. reflexivity. Qed.

Lemma uR_radd a b : uR a = true -> uR b = true -> uR (radd a b) = true.
Proof.
  intros Ha Hb. apply uR_parts in Ha. apply uR_parts in Hb. destruct Ha as [A1 _]. destruct Hb as [B1 [B2 B3]].
  apply uR_parts. unfold radd. cbn [rs rt]. rewrite uL_app, A1, B1. repeat split; auto.
Qed.
Lemma uR_eas r : uR r = true -> uR (expr_as_stmt r) = true.
Proof.
  intros H. apply uR_parts in H. destruct H as [_ [H2 _]]. unfold expr_as_stmt, force in *.
  destruct (re r) as [e|]; [|reflexivity].
  assert (G : uR (of_stmt (SExpr e)) = true) by (apply uR_mk; [cbn; rewrite H2; reflexivity | exact I | reflexivity]).
  destruct e; try exact G; destruct (rs r); try exact G; reflexivity.
Qed.

Lemma uE_subst f e : (forall x, uI x = true -> uI (f x) = true) -> uE e = true -> uE (substE f e) = true.
Proof.
  intros Hf. induction e using pexpr_ind'; cbn [uE substE]; auto.
  - intros Ht. rewrite forallb_forall in *. intros y Hy. apply in_map_iff in Hy. destruct Hy as [x [<- Hx]].
    rewrite Forall_forall in H. apply H; auto.
  - intros Ht. apply andb_true_iff in Ht. destruct Ht as [Ht T3]. apply andb_true_iff in Ht. destruct Ht as [T1 T2].
    rewrite IHe1, IHe2, IHe3; auto.
  - intros Ht. apply andb_true_iff in Ht. destruct Ht as [T1 T2]. rewrite Hf, IHe; auto.
Qed.
Lemma uS_subst f st : (forall x, uI x = true -> uI (f x) = true) -> uS st = true -> uS (substS f st) = true.
Proof.
  intros Hf. induction st using pstmt_ind'; cbn [uS substS]; auto using uE_subst.
  - intros Ht. apply andb_true_iff in Ht. destruct Ht as [T1 T2]. rewrite Hf, uE_subst; auto.
  - intros Ht. apply andb_true_iff in Ht. destruct Ht as [Ht T3]. apply andb_true_iff in Ht. destruct Ht as [T1 T2].
    rewrite uE_subst, (forallb_map_in _ _ _ H T2), (forallb_map_in _ _ _ H0 T3); auto.
  - intros Ht. apply andb_true_iff in Ht. destruct Ht as [Ht T3]. apply andb_true_iff in Ht. destruct Ht as [T1 T2].
    rewrite uE_subst, (forallb_map_in _ _ _ H T2), (forallb_map_in _ _ _ H0 T3); auto.
  - intros Ht. apply andb_true_iff in Ht. destruct Ht as [Ht T4]. apply andb_true_iff in Ht. destruct Ht as [Ht T3].
    apply andb_true_iff in Ht. destruct Ht as [T1 T2].
    rewrite (forallb_map_in _ _ _ H T1), (forallb_map_in _ _ _ H1 T3), (forallb_map_in _ _ _ H2 T4).
    assert (E : forallb (fun hb => forallb uS (snd hb)) (map (fun hb => (fst hb, map (substS f) (snd hb))) hs) = true).
    { clear -H0 T2. induction H0 as [|hb r Hb _ IH]; [reflexivity|]. cbn [forallb map snd] in *.
      apply andb_true_iff in T2. destruct T2 as [A B]. rewrite (forallb_map_in _ _ _ Hb A), IH; auto. }
    rewrite E. reflexivity.
Qed.
Lemma uR_rename r n : q n = true -> uR r = true -> uR (rename r (U n)) = true.
Proof.
  intros Hn H. apply uR_parts in H. destruct H as [H1 [H2 _]]. unfold rename.
  assert (Hren : forall ts x, uI x = true -> uI (ren ts (U n) x) = true).
  { intros ts x Hx. unfold ren. destruct (existsb (ident_eqb x) ts); [exact Hn | exact Hx]. }
  apply uR_mk; [| |reflexivity].
  - unfold uL in *. apply forallb_map_in; [|exact H1]. apply Forall_forall. intros st _. apply uS_subst. apply Hren.
  - unfold force in H2. destruct (re r); [|exact I]. apply uE_subst; [apply Hren | exact H2].
Qed.

Lemma uE_mkbool b first rest : uE (mkbool b first rest) = uE first && forallb uE rest.
Proof. unfold mkbool. destruct rest; cbn [uE forallb]; [rewrite andb_true_r|]; reflexivity. Qed.
Lemma uL_build b n : forall ops first rest,
  forallb uR ops = true -> uE first = true -> forallb uE rest = true -> uL (build b (T n) first rest ops) = true.
Proof.
  induction ops as [|r ops IH]; intros first rest Ho Hf Hr; cbn [build].
  - rewrite uL_one, uS_assign, uE_mkbool, Hf, Hr. reflexivity.
  - cbn [forallb] in Ho. apply andb_true_iff in Ho. destruct Ho as [Hr1 Ho]. apply uR_parts in Hr1. destruct Hr1 as [R1 [R2 _]].
    destruct (rs r) eqn:Er.
    + apply IH; auto. rewrite forallb_app, Hr. cbn [forallb]. rewrite R2. reflexivity.
    + rewrite <- Er in R1 |- *.
      change [SAssign (T n) (mkbool b first rest); SIf (cond_of b (T n)) (rs r ++ build b (T n) (force r) [] ops) []]
        with ([SAssign (T n) (mkbool b first rest)] ++ [SIf (cond_of b (T n)) (rs r ++ build b (T n) (force r) [] ops) []]).
      rewrite uL_app, !uL_one, uS_assign, uS_if, uE_mkbool, Hf, Hr, uL_app, R1, IH; auto.
      unfold cond_of. destruct b; reflexivity.
Qed.

Lemma cbranch_u es : Forall (fun e => forall c r c', compile e c = (r, c') -> uR r = true) es ->
  forall acc last c r c', cbranch es acc last c = (r, c') -> uR acc = true ->
  match last with Some l => uR l = true | None => True end -> uR r = true.
Proof.
  induction 1 as [|x es Hx _ IH]; intros acc last c r c' Hc Ha Hl; cbn [cbranch] in Hc.
  - inversion Hc; subst; exact Ha.
  - destruct (compile x c) as [rx c1] eqn:Ex. pose proof (Hx _ _ _ Ex) as R1.
    eapply IH; [exact Hc | | exact R1]. apply uR_radd; [|exact R1].
    destruct last as [l|]; [apply uR_radd; [exact Ha | apply uR_eas; exact Hl] | exact Ha].
Qed.
Lemma ccops_u es : Forall (fun e => forall c r c', compile e c = (r, c') -> uR r = true) es ->
  forall c var ops var' c', ccops es c var = (ops, var', c') -> forallb uR ops = true.
Proof.
  induction 1 as [|x es Hx _ IH]; intros c var ops var' c' Hc; cbn [ccops] in Hc.
  - inversion Hc; reflexivity.
  - destruct (compile x c) as [rx c1] eqn:Ex.
    destruct (match var, rs rx with None, _ :: _ => (Some (tmp (bump c1)), bump c1) | _, _ => (var, c1) end) as [var1 c2].
    destruct (ccops es c2 var1) as [[xs var2] c3] eqn:Er. inversion Hc; subst. cbn [forallb].
    rewrite (Hx _ _ _ Ex), (IH _ _ _ _ _ Er). reflexivity.
Qed.
Lemma ccops_varT es : forall c var ops var' c', ccops es c var = (ops, var', c') ->
  match var with Some (U _) => False | _ => True end -> match var' with Some (U _) => False | _ => True end.
Proof.
  induction es as [|x es IH]; intros c var ops var' c' Hc Hv; cbn [ccops] in Hc.
  - inversion Hc; subst; exact Hv.
  - destruct (compile x c) as [rx c1].
    destruct (match var, rs rx with None, _ :: _ => (Some (tmp (bump c1)), bump c1) | _, _ => (var, c1) end) as [var1 c2] eqn:Ev.
    destruct (ccops es c2 var1) as [[xs var2] c3] eqn:Er. inversion Hc; subst.
    eapply IH; [exact Er|]. destruct var as [v|]; [inversion Ev; subst; exact Hv|].
    destruct (rs rx); inversion Ev; subst; exact I.
Qed.

Definition unames (e : hexpr) : Prop := forall c r c', compile e c = (r, c') -> uR r = true.

Lemma Forall_uses (P : hexpr -> Prop) es : Forall (fun e => uses e = true -> P e) es -> forallb uses es = true -> Forall P es.
Proof.
  induction 1 as [|x l Hx _ IH]; intros Hu; [constructor|]. cbn [forallb] in Hu. apply andb_true_iff in Hu. destruct Hu.
  constructor; auto.
Qed.

Lemma opt_u (o : option (list hexpr)) c3 (orel : list pstmt) c4 :
  match o with Some l => Forall unames l | None => True end ->
  match o with
  | None => ([], c3)
  | Some o0 => let '(ro, c4) := cbranch o0 rempty None c3 in (rs (radd ro (expr_as_stmt ro)), c4)
  end = (orel, c4) -> uL orel = true.
Proof.
  intros Ho E. destruct o as [o0|]; [|inversion E; reflexivity].
  destruct (cbranch o0 rempty None c3) as [ro c4'] eqn:Ero. inversion E; subst.
  pose proof (cbranch_u o0 Ho _ _ _ _ _ Ero eq_refl I) as R.
  assert (Q : uR (radd ro (expr_as_stmt ro)) = true) by (apply uR_radd; [|apply uR_eas]; exact R).
  apply uR_parts in Q. apply Q.
Qed.

Lemma opt_u_pass (o : option (list hexpr)) c3 (orel : list pstmt) c4 :
  match o with Some l => Forall unames l | None => True end ->
  match o with
  | None => ([], c3)
  | Some o0 => let '(ro, c4) := cbranch o0 rempty None c3 in (or_pass (rs (radd ro (expr_as_stmt ro))), c4)
  end = (orel, c4) -> uL orel = true.
Proof.
  intros Ho E. destruct o as [o0|]; [|inversion E; reflexivity].
  destruct (cbranch o0 rempty None c3) as [ro c4'] eqn:Ero. inversion E; subst.
  pose proof (cbranch_u o0 Ho _ _ _ _ _ Ero eq_refl I) as R.
  assert (Q : uR (radd ro (expr_as_stmt ro)) = true) by (apply uR_radd; [|apply uR_eas]; exact R).
  apply uR_parts in Q. apply uL_or_pass. apply Q.
Qed.

Theorem compile_unames : forall e, uses e = true -> unames e.
Proof.
  induction e using hexpr_ind'; intros Hu c r c' Hc; cbn [uses] in Hu.
  - destruct v; cbn [compile] in Hc; inversion Hc; reflexivity.
  - cbn [compile] in Hc; inversion Hc; subst. apply uR_mk; [reflexivity | cbn; exact Hu | reflexivity].
  - cbn [compile] in Hc. destruct (compile e c) as [r1 c1] eqn:E. inversion Hc; subst.
    pose proof (IHe Hu _ _ _ E) as R1. apply uR_parts in R1. destruct R1 as [A [B _]]. apply uR_mk; auto.
  - rewrite uses_all in Hu. rewrite compile_do in Hc.
    eapply cbranch_u; [exact (Forall_uses _ _ H Hu) | exact Hc | reflexivity | exact I].
  - apply andb_true_iff in Hu. destruct Hu as [Hn Hu]. cbn [compile] in Hc. destruct (compile e c) as [r1 c1] eqn:E.
    pose proof (IHe Hu _ _ _ E) as R1. destruct (plain_assign r1); inversion Hc; subst.
    + apply uR_parts in R1. destruct R1 as [A [B _]]. apply uR_mk; [|exact I | reflexivity].
      rewrite uL_app, A, uL_one, uS_assign. cbn [uI]. rewrite Hn, B. reflexivity.
    + apply (uR_rename _ n Hn) in R1. apply uR_parts in R1. destruct R1 as [A _]. apply uR_mk; [exact A | exact I | reflexivity].
  - apply andb_true_iff in Hu. destruct Hu as [Hn Hu]. cbn [compile] in Hc. destruct (compile e c) as [r1 c1] eqn:E.
    pose proof (IHe Hu _ _ _ E) as R1. destruct (plain_assign r1); inversion Hc; subst.
    + apply uR_parts in R1. destruct R1 as [A [B _]]. apply uR_mk; [exact A | cbn [uE uI]; rewrite Hn, B; reflexivity | reflexivity].
    + apply uR_rename; assumption.
  - rewrite uses_all in Hu. pose proof (Forall_uses _ _ H Hu) as HA.
    destruct es as [|e0 es]; [cbn [compile] in Hc; inversion Hc; subst; destruct b; reflexivity|].
    inversion HA as [|? ? H0 Hes]; subst. rewrite compile_bool_cons in Hc.
    destruct (compile e0 c) as [r0 c0] eqn:E0. destruct (ccops es c0 None) as [[ops var] c1] eqn:Eo. inversion Hc; subst.
    pose proof (H0 _ _ _ E0) as R0. pose proof (ccops_u es Hes _ _ _ _ _ Eo) as Ro.
    pose proof (ccops_varT es _ _ _ _ _ Eo I) as Hv.
    unfold bool_result. destruct ops as [|o ops']; [exact R0|].
    apply uR_parts in R0. destruct R0 as [A [B C]]. destruct var as [[m|m]|]; [contradiction | |].
    + apply uR_mk; [rewrite uL_app, A; apply uL_build; auto | reflexivity | rewrite forallb_app, C; reflexivity].
    + apply uR_mk; auto. rewrite uE_mkbool, B. cbn [andb].
      rewrite forallb_forall. intros y Hy. apply in_map_iff in Hy. destruct Hy as [x [<- Hx]].
      rewrite forallb_forall in Ro. specialize (Ro x Hx). apply uR_parts in Ro. apply Ro.
  - cbn [compile] in Hc. destruct (compile e c) as [r1 c1] eqn:E. inversion Hc; subst.
    pose proof (IHe Hu _ _ _ E) as R1. apply uR_parts in R1. destruct R1 as [A [B _]]. apply uR_mk; auto.
  - apply andb_true_iff in Hu. destruct Hu as [Hu U3]. apply andb_true_iff in Hu. destruct Hu as [U1 U2].
    cbn [compile] in Hc. destruct (compile e1 c) as [rc c1] eqn:Ec. destruct (compile e2 c1) as [ra c2] eqn:Ea.
    destruct (compile e3 c2) as [rb c3] eqn:Eb.
    pose proof (IHe1 U1 _ _ _ Ec) as R1. pose proof (IHe2 U2 _ _ _ Ea) as R2. pose proof (IHe3 U3 _ _ _ Eb) as R3.
    apply uR_parts in R1. apply uR_parts in R2. apply uR_parts in R3.
    destruct R1 as [A1 [B1 _]]. destruct R2 as [A2 [B2 _]]. destruct R3 as [A3 [B3 _]].
    assert (Hstmt : uR (R (rs rc ++ [SIf (force rc) (rs ra ++ [SAssign (tmp (bump c3)) (force ra)]) (rs rb ++ [SAssign (tmp (bump c3)) (force rb)])])
            (Some (PName (tmp (bump c3)))) [(tmp (bump c3), true)]) = true).
    { apply uR_mk; [|reflexivity | reflexivity].
      rewrite uL_app, A1, uL_one, uS_if, B1, !uL_app, A2, A3, !uL_one, !uS_assign. cbn [uI tmp]. rewrite B2, B3. reflexivity. }
    destruct (rs ra) eqn:Era; [destruct (rs rb) eqn:Erb|]; inversion Hc; subst; try exact Hstmt.
    apply uR_mk; auto. cbn [uE]. rewrite B1, B2, B3. reflexivity.
  - (* while *)
    apply andb_true_iff in Hu. destruct Hu as [Hu U3]. apply andb_true_iff in Hu. destruct Hu as [U1 U2].
    rewrite uses_all in U2.
    assert (Ho : match o with Some l => Forall unames l | None => True end).
    { destruct o as [l|]; [|exact I]. cbn [Popt] in H0. rewrite uses_all in U3. exact (Forall_uses _ _ H0 U3). }
    rewrite compile_while in Hc. destruct (compile e c) as [rc c1] eqn:Ec. pose proof (IHe U1 _ _ _ Ec) as R1.
    destruct (cbranch body rempty None c1) as [rb0 c2] eqn:Eb.
    pose proof (cbranch_u body (Forall_uses _ _ H U2) _ _ _ _ _ Eb eq_refl I) as R2.
    cbv zeta in Hc. set (bs := or_pass (rs (radd rb0 (expr_as_stmt rb0)))) in *.
    assert (Hbs : uL bs = true).
    { apply uL_or_pass. assert (Q : uR (radd rb0 (expr_as_stmt rb0)) = true) by (apply uR_radd; [|apply uR_eas]; exact R2).
      apply uR_parts in Q. apply Q. }
    apply uR_parts in R1. destruct R1 as [A1 [B1 _]].
    destruct (rs rc) eqn:Erc.
    + destruct (match o with
                | None => ([], c2)
                | Some o0 => let '(ro, c4) := cbranch o0 rempty None c2 in (rs (radd ro (expr_as_stmt ro)), c4)
                end) as [orel c4] eqn:Eo. inversion Hc; subst.
      pose proof (opt_u o _ _ _ Ho Eo) as O. apply uR_mk; [|exact I | reflexivity].
      rewrite Erc. cbn [app]. rewrite uL_one, uS_while, B1, Hbs, O. reflexivity.
    + destruct (match o with
                | None => ([], bump c2)
                | Some o0 => let '(ro, c4) := cbranch o0 rempty None (bump c2) in (rs (radd ro (expr_as_stmt ro)), c4)
                end) as [orel c4] eqn:Eo. inversion Hc; subst.
      pose proof (opt_u o _ _ _ Ho Eo) as O. apply uR_mk; [|exact I | reflexivity]. cbn [rs force re].
      unfold uL at 1. cbn [app forallb]. rewrite uS_assign, uS_while, andb_true_r. cbn [uI tmp uE]. rewrite O.
      rewrite ?app_comm_cons, <- Erc. rewrite <- Erc in A1.
      change [SAssign (tmp (bump c2)) (PNot (PNot (force rc))); SIf (PName (tmp (bump c2))) bs []]
        with ([SAssign (tmp (bump c2)) (PNot (PNot (force rc)))] ++ [SIf (PName (tmp (bump c2))) bs []]).
      rewrite !uL_app, A1, !uL_one, uS_assign, uS_if. cbn [uI uE]. rewrite B1, Hbs. reflexivity.
  - cbn [compile] in Hc; inversion Hc; reflexivity.
  - cbn [compile] in Hc; inversion Hc; reflexivity.
  - cbn [compile] in Hc. destruct (compile e c) as [r1 c1] eqn:E. inversion Hc; subst.
    pose proof (IHe Hu _ _ _ E) as R1. apply uR_parts in R1. destruct R1 as [A [B _]]. apply uR_mk; auto.
    rewrite uL_app, A, uL_one. exact B.
  - (* try *)
    apply andb_true_iff in Hu. destruct Hu as [Hu U4]. apply andb_true_iff in Hu. destruct Hu as [Hu U3].
    apply andb_true_iff in Hu. destruct Hu as [U1 U2]. rewrite uses_all in U1. rewrite uses_allh in U2.
    pose proof (Forall_uses _ _ H U1) as Hb.
    assert (Ho : match o with Some l => Forall unames l | None => True end).
    { destruct o as [l|]; [|exact I]. cbn [Popt] in H1. rewrite uses_all in U3. exact (Forall_uses _ _ H1 U3). }
    assert (Hf : match f with Some l => Forall unames l | None => True end).
    { destruct f as [l|]; [|exact I]. cbn [Popt] in H2. rewrite uses_all in U4. exact (Forall_uses _ _ H2 U4). }
    assert (Hh : Forall (fun hb => Forall unames (snd hb)) hs).
    { clear -H0 U2. induction H0 as [|hb l Hx _ IH]; [constructor|]. cbn [forallb] in U2. apply andb_true_iff in U2.
      destruct U2 as [A B]. constructor; [exact (Forall_uses _ _ Hx A) | apply IH; exact B]. }
    rewrite compile_try in Hc.
    destruct (match hs, o with
              | [], Some o0 => ctwo o0 body rempty None c
              | _, _ => cbranch body rempty None c
              end) as [rb c1] eqn:Eb.
    assert (Rb : uR rb = true).
    { destruct hs; [destruct o as [o0|]|].
      - rewrite ctwo_app' in Eb. eapply cbranch_u; [|exact Eb | reflexivity | exact I]. apply Forall_app. split; assumption.
      - eapply cbranch_u; [exact Hb | exact Eb | reflexivity | exact I].
      - eapply cbranch_u; [exact Hb | exact Eb | reflexivity | exact I]. }
    assert (Hmain :
      (let rv := tmp (bump c1) in
       let '(hs0, c2) := cchs rv hs (bump c1) in
       let '(orel, c3) :=
         match hs, o with
         | _ :: _, Some o0 =>
             match o0 with
             | [] => ([], c2)
             | _ => let '(ro, c3) := cbranch o0 rempty None c2 in (rs ro ++ [SAssign rv (force ro)], c3)
             end
         | _, _ => ([], c2)
         end in
       let '(fin, c4) :=
         match f with
         | None => ([], c3)
         | Some f0 => let '(rf, c4) := cbranch f0 rempty None c3 in (or_pass (rs (radd rf (expr_as_stmt rf))), c4)
         end in
       let body_stmts :=
         or_pass (match orel with
                  | [] => rs rb ++ [SAssign rv (force rb)]
                  | _ => rs (radd rb (expr_as_stmt rb))
                  end) in
       (R [STry body_stmts hs0 orel fin] (Some (PName rv)) [(rv, true)], c4)) = (r, c') -> uR r = true).
    { clear Hc. cbv zeta. intros Hc.
      destruct (cchs (tmp (bump c1)) hs (bump c1)) as [hs0 c2] eqn:Eh.
      assert (H2' : forallb (fun hb => uL (snd hb)) hs0 = true).
      { clear -Hh Eh. revert hs0 c2 Eh. generalize (bump c1) at 2. induction Hh as [|[ty eb] hs Hx _ IH]; intros c0 hs0 c2 Eh.
        - rewrite cchs_nil in Eh. inversion Eh; reflexivity.
        - rewrite cchs_cons in Eh. destruct (cbranch eb rempty None c0) as [reb c1'] eqn:Eb.
          destruct (cchs (tmp (bump c1)) hs c1') as [rest c2'] eqn:Er. inversion Eh; subst. cbn [forallb snd].
          rewrite (IH _ _ _ Er), andb_true_r.
          pose proof (cbranch_u eb Hx _ _ _ _ _ Eb eq_refl I) as R. apply uR_parts in R. destruct R as [A [B _]].
          rewrite uL_app, A, uL_one, uS_assign, B. reflexivity. }
      destruct (match hs, o with
                | _ :: _, Some o0 =>
                    match o0 with
                    | [] => ([], c2)
                    | _ => let '(ro, c3) := cbranch o0 rempty None c2 in (rs ro ++ [SAssign (tmp (bump c1)) (force ro)], c3)
                    end
                | _, _ => ([], c2)
                end) as [orel c3] eqn:Eo.
      assert (O3 : uL orel = true).
      { destruct hs; [inversion Eo; reflexivity|]. destruct o as [[|y o1]|]; try (inversion Eo; reflexivity).
        destruct (cbranch (y :: o1) rempty None c2) as [ro c3'] eqn:Ero. inversion Eo; subst.
        pose proof (cbranch_u (y :: o1) Ho _ _ _ _ _ Ero eq_refl I) as R. apply uR_parts in R. destruct R as [A [B _]].
        rewrite uL_app, A, uL_one, uS_assign, B. reflexivity. }
      destruct (match f with
                | None => ([], c3)
                | Some f0 => let '(rf, c4) := cbranch f0 rempty None c3 in (or_pass (rs (radd rf (expr_as_stmt rf))), c4)
                end) as [fin c4] eqn:Ef.
      pose proof (opt_u_pass f _ _ _ Hf Ef) as F4. inversion Hc; subst.
      apply uR_mk; [|reflexivity | reflexivity]. rewrite uL_one, uS_try, H2', O3, F4.
      match goal with |- context [uL (or_pass ?X)] => assert (B1 : uL (or_pass X) = true) end.
      { apply uL_or_pass. destruct orel.
        - apply uR_parts in Rb. destruct Rb as [A [B _]]. rewrite uL_app, A, uL_one, uS_assign, B. reflexivity.
        - assert (Q : uR (radd rb (expr_as_stmt rb)) = true) by (apply uR_radd; [|apply uR_eas]; exact Rb).
          apply uR_parts in Q. apply Q. }
      rewrite B1. reflexivity. }
    destruct hs as [|h hs1].
    + destruct f as [[|x f0]|]; try (inversion Hc; subst; exact Rb); apply Hmain; exact Hc.
    + apply Hmain. exact Hc.
Qed.
End U.
