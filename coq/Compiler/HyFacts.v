(* Unfolding equations for the reference semantics, in continuation (bindV) form. *)
From HyV Require Import Compiler.Syntax Compiler.PySem Compiler.HySem.

Definition H := (hres * store * trace)%type.
Definition bindV (a : H) (k : val -> store -> trace -> H) : H :=
  match a with (HV v, s, t) => k v s t | other => other end.

Section Facts.
Variable fault : nat -> option exn.
Variable issub : exn -> exn -> bool.
Notation heval1 := (heval1 fault issub).
Notation heval := (heval fault issub).

Definition hrec_t := hexpr -> store -> trace -> H.
Definition hrec_of (fuel : nat) : hrec_t :=
  match fuel with O => fun _ s t => (HT, s, t) | S f => heval f end.
Lemma heval_rec fuel : heval fuel = heval1 (hrec_of fuel).
Proof. destruct fuel; reflexivity. Qed.

(* (do ...) *)
Fixpoint hseq (rec : hrec_t) (es : list hexpr) (last : val) (s : store) (t : trace) : H :=
  match es with
  | [] => (HV last, s, t)
  | x :: r => bindV (heval1 rec x s t) (fun v s1 t1 => hseq rec r v s1 t1)
  end.

Lemma seq_is_hseq rec es : forall last s t,
  (fix seq (es : list hexpr) (last : val) (s : store) (t : trace) {struct es} :=
      match es with
      | [] => (HV last, s, t)
      | x :: r => match heval1 rec x s t with
                  | (HV v, s1, t1) => seq r v s1 t1
                  | other => other
                  end
      end) es last s t = hseq rec es last s t.
Proof.
  induction es as [|x r IH]; intros last s t; [reflexivity|]. cbn [hseq]. unfold bindV.
  destruct (heval1 rec x s t) as [[[] ?] ?]; try reflexivity. apply IH.
Qed.

Definition log_k (k : nat) (v : val) (s : store) (t : trace) : H :=
  match fault k with Some x => (HX x, s, t ++ [k]) | None => (HV v, s, t ++ [k]) end.

Lemma heval1_const rec v s t : heval1 rec (HConst v) s t = (HV v, s, t).
Proof. reflexivity. Qed.
Lemma heval1_var rec n s t : heval1 rec (HVar n) s t = (HV (s (U n)), s, t).
Proof. reflexivity. Qed.
Lemma heval1_log rec k e s t : heval1 rec (HLog k e) s t = bindV (heval1 rec e s t) (log_k k).
Proof. cbn [HySem.heval1]. unfold bindV, log_k. destruct (heval1 rec e s t) as [[[] ?] ?]; reflexivity. Qed.
Lemma heval1_do rec es s t : heval1 rec (HDo es) s t = hseq rec es VNone s t.
Proof. cbn [HySem.heval1]. apply seq_is_hseq. Qed.
Lemma heval1_setv rec n e s t :
  heval1 rec (HSetv n e) s t = bindV (heval1 rec e s t) (fun v s1 t1 => (HV VNone, upd s1 (U n) v, t1)).
Proof. cbn [HySem.heval1]. unfold bindV. destruct (heval1 rec e s t) as [[[] ?] ?]; reflexivity. Qed.
Lemma heval1_setx rec n e s t :
  heval1 rec (HSetx n e) s t = bindV (heval1 rec e s t) (fun v s1 t1 => (HV v, upd s1 (U n) v, t1)).
Proof. cbn [HySem.heval1]. unfold bindV. destruct (heval1 rec e s t) as [[[] ?] ?]; reflexivity. Qed.
Lemma heval1_not rec e s t :
  heval1 rec (HNot e) s t = bindV (heval1 rec e s t) (fun v s1 t1 => (HV (VBool (negb (truthy v))), s1, t1)).
Proof. cbn [HySem.heval1]. unfold bindV. destruct (heval1 rec e s t) as [[[] ?] ?]; reflexivity. Qed.
Lemma heval1_if rec c a b s t :
  heval1 rec (HIf c a b) s t =
  bindV (heval1 rec c s t) (fun v s1 t1 => if truthy v then heval1 rec a s1 t1 else heval1 rec b s1 t1).
Proof. cbn [HySem.heval1]. unfold bindV. destruct (heval1 rec c s t) as [[[] ?] ?]; reflexivity. Qed.
Lemma heval1_raise rec e s t :
  heval1 rec (HRaise e) s t = bindV (heval1 rec e s t) (fun v s1 t1 => (HX (raise_of v), s1, t1)).
Proof. cbn [HySem.heval1]. unfold bindV. destruct (heval1 rec e s t) as [[[] ?] ?]; reflexivity. Qed.

(* and / or: the operands after the first *)
Fixpoint hops (rec : hrec_t) (isand : bool) (es : list hexpr) (acc : val) (s : store) (t : trace) : H :=
  match es with
  | [] => (HV acc, s, t)
  | x :: r => if Bool.eqb (truthy acc) isand
              then bindV (heval1 rec x s t) (fun v s1 t1 => hops rec isand r v s1 t1)
              else (HV acc, s, t)
  end.
Lemma heval1_bool_nil rec isand s t :
  heval1 rec (HBool isand []) s t = (HV (if isand then VBool true else VNone), s, t).
Proof. reflexivity. Qed.
Lemma heval1_bool_cons rec isand e0 r0 s t :
  heval1 rec (HBool isand (e0 :: r0)) s t = bindV (heval1 rec e0 s t) (fun v s1 t1 => hops rec isand r0 v s1 t1).
Proof.
  cbn [HySem.heval1]. unfold bindV. destruct (heval1 rec e0 s t) as [[[v0| | | |] s0] t0]; try reflexivity.
  revert v0 s0 t0. induction r0 as [|x r IH]; intros v0 s0 t0; [reflexivity|]. cbn [hops].
  destruct (Bool.eqb (truthy v0) isand); [|reflexivity]. unfold bindV.
  destruct (heval1 rec x s0 t0) as [[[] ?] ?]; try reflexivity. apply IH.
Qed.

End Facts.
