(* Unfolding equations for the reference semantics, in continuation (bindV) form. *)
From HyV Require Import Compiler.Syntax Compiler.PySem Compiler.HySem.

Definition H := (hres * store * trace)%type.
Definition bindV (a : H) (k : val -> store -> trace -> H) : H :=
  match a with (HV v, s, t) => k v s t | other => other end.

Section Facts.
Variable fault : nat -> option exn.
Variable issub : exn -> exn -> bool.
Notation heval1 := (heval1 fault issub).
Notation heval := (heval fault issub).

Definition hrec_t := hexpr -> store -> trace -> H.
Definition hrec_of (fuel : nat) : hrec_t :=
  match fuel with O => fun _ s t => (HT, s, t) | S f => heval f end.
Lemma heval_rec fuel : heval fuel = heval1 (hrec_of fuel).
Proof. destruct fuel; reflexivity. Qed.

(* (do ...) *)
Fixpoint hseq (rec : hrec_t) (es : list hexpr) (last : val) (s : store) (t : trace) : H :=
  match es with
  | [] => (HV last, s, t)
  | x :: r => bindV (heval1 rec x s t) (fun v s1 t1 => hseq rec r v s1 t1)
  end.

Lemma seq_is_hseq rec es : forall last s t,
  (fix seq (es : list hexpr) (last : val) (s : store) (t : trace) {struct es} :=
      match es with
      | [] => (HV last, s, t)
      | x :: r => match heval1 rec x s t with
                  | (HV v, s1, t1) => seq r v s1 t1
                  | other => other
                  end
      end) es last s t = hseq rec es last s t.
Proof.
  induction es as [|x r IH]; intros last s t; [reflexivity|]. cbn [hseq]. unfold bindV.
  destruct (heval1 rec x s t) as [[[] ?] ?]; try reflexivity. apply IH.
Qed.

Definition log_k (k : nat) (v : val) (s : store) (t : trace) : H :=
  match fault k with Some x => (HX x, s, t ++ [k]) | None => (HV v, s, t ++ [k]) end.

Lemma heval1_const rec v s t : heval1 rec (HConst v) s t = (HV v, s, t).
Proof. reflexivity. Qed.
Lemma heval1_var rec n s t : heval1 rec (HVar n) s t = (HV (s (U n)), s, t).
Proof. reflexivity. Qed.
Lemma heval1_log rec k e s t : heval1 rec (HLog k e) s t = bindV (heval1 rec e s t) (log_k k).
Proof. cbn [HySem.heval1]. unfold bindV, log_k. destruct (heval1 rec e s t) as [[[] ?] ?]; reflexivity. Qed.
Lemma heval1_do rec es s t : heval1 rec (HDo es) s t = hseq rec es VNone s t.
Proof. cbn [HySem.heval1]. apply seq_is_hseq. Qed.
Lemma heval1_setv rec n e s t :
  heval1 rec (HSetv n e) s t = bindV (heval1 rec e s t) (fun v s1 t1 => (HV VNone, upd s1 (U n) v, t1)).
Proof. cbn [HySem.heval1]. unfold bindV. destruct (heval1 rec e s t) as [[[] ?] ?]; reflexivity. Qed.
Lemma heval1_setx rec n e s t :
  heval1 rec (HSetx n e) s t = bindV (heval1 rec e s t) (fun v s1 t1 => (HV v, upd s1 (U n) v, t1)).
Proof. cbn [HySem.heval1]. unfold bindV. destruct (heval1 rec e s t) as [[[] ?] ?]; reflexivity. Qed.
Lemma heval1_not rec e s t :
  heval1 rec (HNot e) s t = bindV (heval1 rec e s t) (fun v s1 t1 => (HV (VBool (negb (truthy v))), s1, t1)).
Proof. cbn [HySem.heval1]. unfold bindV. destruct (heval1 rec e s t) as [[[] ?] ?]; reflexivity. Qed.
Lemma heval1_if rec c a b s t :
  heval1 rec (HIf c a b) s t =
  bindV (heval1 rec c s t) (fun v s1 t1 => if truthy v then heval1 rec a s1 t1 else heval1 rec b s1 t1).
Proof. cbn [HySem.heval1]. unfold bindV. destruct (heval1 rec c s t) as [[[] ?] ?]; reflexivity. Qed.
Lemma heval1_raise rec e s t :
  heval1 rec (HRaise e) s t = bindV (heval1 rec e s t) (fun v s1 t1 => (HX (raise_of v), s1, t1)).
Proof. cbn [HySem.heval1]. unfold bindV. destruct (heval1 rec e s t) as [[[] ?] ?]; reflexivity. Qed.

(* and / or: the operands after the first *)
Fixpoint hops (rec : hrec_t) (isand : bool) (es : list hexpr) (acc : val) (s : store) (t : trace) : H :=
  match es with
  | [] => (HV acc, s, t)
  | x :: r => if Bool.eqb (truthy acc) isand
              then bindV (heval1 rec x s t) (fun v s1 t1 => hops rec isand r v s1 t1)
              else (HV acc, s, t)
  end.
Lemma heval1_bool_nil rec isand s t :
  heval1 rec (HBool isand []) s t = (HV (if isand then VBool true else VNone), s, t).
Proof. reflexivity. Qed.
Lemma heval1_bool_cons rec isand e0 r0 s t :
  heval1 rec (HBool isand (e0 :: r0)) s t = bindV (heval1 rec e0 s t) (fun v s1 t1 => hops rec isand r0 v s1 t1).
Proof.
  cbn [HySem.heval1]. unfold bindV. destruct (heval1 rec e0 s t) as [[[v0| | | |] s0] t0]; try reflexivity.
  revert v0 s0 t0. induction r0 as [|x r IH]; intros v0 s0 t0; [reflexivity|]. cbn [hops].
  destruct (Bool.eqb (truthy v0) isand); [|reflexivity]. unfold bindV.
  destruct (heval1 rec x s0 t0) as [[[] ?] ?]; try reflexivity. apply IH.
Qed.


(* ---- try ---- *)
Fixpoint hrunh (rec : hrec_t) (hs : list (htypes * list hexpr)) (x : exn) (s : store) (t : trace) : H :=
  match hs with
  | [] => (HX x, s, t)
  | (h, b) :: r => if handles issub h x then hseq rec b VNone s t else hrunh rec r x s t
  end.
Definition hfinish (rec : hrec_t) (final : option (list hexpr)) (r1 : H) : H :=
  match r1 with
  | (HT, s2, t2) => (HT, s2, t2)
  | (o, s2, t2) =>
      match final with
      | None => (o, s2, t2)
      | Some f => match hseq rec f VNone s2 t2 with
                  | (HV _, s3, t3) => (o, s3, t3)
                  | other => other
                  end
      end
  end.
Definition helse (rec : hrec_t) (orelse : option (list hexpr)) (v : val) (s : store) (t : trace) : H :=
  match orelse with
  | None | Some [] => (HV v, s, t)
  | Some o => hseq rec o VNone s t
  end.
Definition hstage1 (rec : hrec_t) body hs orelse (s : store) (t : trace) : H :=
  match hseq rec body VNone s t with
  | (HX x, s1, t1) => hrunh rec hs x s1 t1
  | (HV v, s1, t1) => helse rec orelse v s1 t1
  | other => other
  end.

Lemma heval1_try rec body hs orelse final s t :
  heval1 rec (HTry body hs orelse final) s t = hfinish rec final (hstage1 rec body hs orelse s t).
Proof.
  cbn [HySem.heval1]. cbv zeta. unfold hstage1. rewrite seq_is_hseq.
  assert (Hh : forall hs x s t,
    (fix runh (hs : list (htypes * list hexpr)) (x : exn) (s : store) (t : trace) {struct hs} :=
       match hs with
       | [] => (HX x, s, t)
       | (h, b) :: r =>
           if handles issub h x
           then (fix seq (es : list hexpr) (last : val) (s : store) (t : trace) {struct es} :=
                   match es with
                   | [] => (HV last, s, t)
                   | x :: r => match heval1 rec x s t with
                               | (HV v, s1, t1) => seq r v s1 t1
                               | other => other
                               end
                   end) b VNone s t
           else runh r x s t
       end) hs x s t = hrunh rec hs x s t).
  { clear. induction hs as [|[h b] r IH]; intros x s t; [reflexivity|]. cbn [hrunh].
    destruct (handles issub h x); [apply seq_is_hseq | apply IH]. }
  assert (Fin : forall r1 : H,
    match r1 with
    | (HT, s2, t2) => (HT, s2, t2)
    | (o, s2, t2) =>
        match final with
        | None => (o, s2, t2)
        | Some f =>
            match (fix seq (es : list hexpr) (last : val) (s : store) (t : trace) {struct es} :=
                     match es with
                     | [] => (HV last, s, t)
                     | x :: r => match heval1 rec x s t with
                                 | (HV v, s1, t1) => seq r v s1 t1
                                 | other => other
                                 end
                     end) f VNone s2 t2 with
            | (HV _, s3, t3) => (o, s3, t3)
            | other => other
            end
        end
    end = hfinish rec final r1).
  { intros [[o s2] t2]. unfold hfinish. destruct o; try reflexivity; destruct final; try reflexivity; rewrite seq_is_hseq; reflexivity. }
  rewrite Fin. f_equal.
  destruct (hseq rec body VNone s t) as [[[v|x| | |] s1] t1]; try reflexivity.
  - unfold helse. destruct orelse as [[|y o]|]; try reflexivity. exact (seq_is_hseq rec (y :: o) VNone s1 t1).
  - apply Hh.
Qed.

(* ---- while ---- *)
Definition hwnext (rec : hrec_t) (w : hexpr) (r : H) : H :=
  match r with
  | (HV _, s2, t2) | (HC, s2, t2) => rec w s2 t2
  | (HB, s2, t2) => (HV VNone, s2, t2)
  | other => other
  end.
Definition else_forms (orelse : option (list hexpr)) : list hexpr :=
  (match orelse with Some o => o | None => [] end) ++ [HConst VNone].
Definition hwcond (rec : hrec_t) (w : hexpr) (r : H) (k : val -> store -> trace -> H) : H :=
  match r with
  | (HV v, s1, t1) => k v s1 t1
  | (HB, s1, t1) => (HV VNone, s1, t1)
  | (HC, s1, t1) => rec w s1 t1
  | other => other
  end.
Lemma heval1_while rec c body orelse s t :
  heval1 rec (HWhile c body orelse) s t =
  hwcond rec (HWhile c body orelse) (heval1 rec c s t) (fun v s1 t1 =>
    if truthy v then hwnext rec (HWhile c body orelse) (hseq rec body VNone s1 t1)
    else rec (HDo (else_forms orelse)) s1 t1).
Proof.
  cbn [HySem.heval1]. cbv zeta. unfold hwcond. destruct (heval1 rec c s t) as [[[v| | | |] s1] t1]; try reflexivity.
  destruct (truthy v); [|reflexivity].
  rewrite seq_is_hseq. unfold hwnext. destruct (hseq rec body VNone s1 t1) as [[[] ?] ?]; reflexivity.
Qed.
Lemma heval1_break rec s t : heval1 rec HBreak s t = (HB, s, t). Proof. reflexivity. Qed.
Lemma heval1_continue rec s t : heval1 rec HContinue s t = (HC, s, t). Proof. reflexivity. Qed.

Lemma hseq_app rec a b : forall last s t,
  hseq rec (a ++ b) last s t = bindV (hseq rec a last s t) (fun v s1 t1 => hseq rec b v s1 t1).
Proof.
  induction a as [|x a IH]; intros last s t; [reflexivity|]. cbn [app hseq].
  destruct (heval1 rec x s t) as [[[] ?] ?]; cbn [bindV]; try reflexivity. apply IH.
Qed.
Lemma hseq_last rec es v v' s t : es <> [] -> hseq rec es v s t = hseq rec es v' s t.
Proof. destruct es; [congruence|]. reflexivity. Qed.

End Facts.
