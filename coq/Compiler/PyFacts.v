(* Unfolding equations and structural lemmas for the target semantics. *)
From HyV Require Import Compiler.Syntax Compiler.PySem.

Section Facts.
Variable fault : nat -> option exn.
Variable issub : exn -> exn -> bool.
Notation peval := (peval fault).
Notation pexec1 := (pexec1 fault issub).
Notation pexec := (pexec fault issub).
Notation prun := (prun fault issub).

Definition rec_t := pstmt -> store -> trace -> sres * store * trace.
Definition rec_of (fuel : nat) : rec_t :=
  match fuel with O => fun _ s t => (ST, s, t) | S f => pexec f end.

Lemma pexec_rec fuel : pexec fuel = pexec1 (rec_of fuel).
Proof. destruct fuel; reflexivity. Qed.

(* sequencing of an outcome with a continuation *)
Definition bindS (r : sres * store * trace) (k : store -> trace -> sres * store * trace) :=
  match r with (SN, s1, t1) => k s1 t1 | other => other end.
Definition bindE {A} (r : eres * store * trace) (k : val -> store -> trace -> A) (x : exn -> store -> trace -> A) : A :=
  match r with (EV v, s1, t1) => k v s1 t1 | (EX e, s1, t1) => x e s1 t1 end.

Fixpoint prun1 (rec : rec_t) (l : list pstmt) (s : store) (t : trace) : sres * store * trace :=
  match l with
  | [] => (SN, s, t)
  | x :: r => match pexec1 rec x s t with
              | (SN, s1, t1) => prun1 rec r s1 t1
              | other => other
              end
  end.

Lemma prun_rec fuel l s t : prun fuel l s t = prun1 (rec_of fuel) l s t.
Proof.
  revert s t. induction l as [|x l IH]; intros s t; [reflexivity|]. cbn [PySem.prun prun1].
  rewrite pexec_rec. destruct (pexec1 (rec_of fuel) x s t) as [[[] ?] ?]; try reflexivity. apply IH.
Qed.

Lemma run_is_prun1 rec l : forall s t,
  (fix run (l : list pstmt) (s : store) (t : trace) {struct l} : sres * store * trace :=
     match l with
     | [] => (SN, s, t)
     | x :: r => match pexec1 rec x s t with
                 | (SN, s1, t1) => run r s1 t1
                 | other => other
                 end
     end) l s t = prun1 rec l s t.
Proof. induction l as [|x l IH]; intros s t; [reflexivity|]. cbn [prun1]. destruct (pexec1 rec x s t) as [[[] ?] ?]; try reflexivity. apply IH. Qed.

Fixpoint prunh1 (rec : rec_t) (hs : list (htypes * list pstmt)) (e : exn) (s : store) (t : trace) : sres * store * trace :=
  match hs with
  | [] => (SX e, s, t)
  | (h, b) :: r => if handles issub h e then prun1 rec b s t else prunh1 rec r e s t
  end.

Lemma runh_is_prunh1 rec hs : forall e s t,
    (fix runh (hs : list (htypes * list pstmt)) (e : exn) (s : store) (t : trace) {struct hs} : sres * store * trace :=
       match hs with
       | [] => (SX e, s, t)
       | (h, b) :: r => if handles issub h e
                        then (fix run (l : list pstmt) (s : store) (t : trace) {struct l} : sres * store * trace :=
                                match l with
                                | [] => (SN, s, t)
                                | x :: r0 => match pexec1 rec x s t with
                                             | (SN, s1, t1) => run r0 s1 t1
                                             | other => other
                                             end
                                end) b s t
                        else runh r e s t
       end) hs e s t = prunh1 rec hs e s t.
Proof.
  induction hs as [|[h b] r IH]; intros e s t; [reflexivity|]. cbn [prunh1].
  destruct (handles issub h e); [apply run_is_prun1 | apply IH].
Qed.

Definition finish1 (rec : rec_t) (final : list pstmt) (r1 : sres * store * trace) : sres * store * trace :=
  match r1 with
  | (ST, s2, t2) => (ST, s2, t2)
  | (o, s2, t2) => match prun1 rec final s2 t2 with
                   | (SN, s3, t3) => (o, s3, t3)
                   | other => other
                   end
  end.

Lemma prun1_cons rec x l s t : prun1 rec (x :: l) s t = bindS (pexec1 rec x s t) (prun1 rec l).
Proof. cbn [prun1]. unfold bindS. destruct (pexec1 rec x s t) as [[[] ?] ?]; reflexivity. Qed.

Lemma prun1_app rec l1 l2 s t : prun1 rec (l1 ++ l2) s t = bindS (prun1 rec l1 s t) (prun1 rec l2).
Proof.
  revert s t. induction l1 as [|x l IH]; intros s t; [reflexivity|]. cbn [app prun1].
  destruct (pexec1 rec x s t) as [[[] s1] t1]; cbn [bindS]; try reflexivity. apply IH.
Qed.

Lemma pexec1_assign rec x e s t :
  pexec1 rec (SAssign x e) s t = bindE (peval e s t) (fun v s1 t1 => (SN, upd s1 x v, t1)) (fun x' s1 t1 => (SX x', s1, t1)).
Proof. cbn [PySem.pexec1]. unfold bindE. destruct (peval e s t) as [[[] ?] ?]; reflexivity. Qed.

Lemma pexec1_expr rec e s t :
  pexec1 rec (SExpr e) s t = bindE (peval e s t) (fun _ s1 t1 => (SN, s1, t1)) (fun x' s1 t1 => (SX x', s1, t1)).
Proof. cbn [PySem.pexec1]. unfold bindE. destruct (peval e s t) as [[[] ?] ?]; reflexivity. Qed.

Lemma pexec1_raise rec e s t :
  pexec1 rec (SRaise e) s t = bindE (peval e s t) (fun v s1 t1 => (SX (raise_of v), s1, t1)) (fun x' s1 t1 => (SX x', s1, t1)).
Proof. cbn [PySem.pexec1]. unfold bindE. destruct (peval e s t) as [[[] ?] ?]; reflexivity. Qed.

Lemma pexec1_if rec c a b s t :
  pexec1 rec (SIf c a b) s t =
  bindE (peval c s t) (fun v s1 t1 => if truthy v then prun1 rec a s1 t1 else prun1 rec b s1 t1)
        (fun x' s1 t1 => (SX x', s1, t1)).
Proof.
  cbn [PySem.pexec1]. unfold bindE. destruct (peval c s t) as [[[v|x] s1] t1]; [|reflexivity].
  destruct (truthy v); apply run_is_prun1.
Qed.

Definition while_next (rec : rec_t) (w : pstmt) (r : sres * store * trace) : sres * store * trace :=
  match r with
  | (SN, s2, t2) | (SC, s2, t2) => rec w s2 t2
  | (SB, s2, t2) => (SN, s2, t2)
  | other => other
  end.

Lemma pexec1_while rec c a b s t :
  pexec1 rec (SWhile c a b) s t =
  bindE (peval c s t)
    (fun v s1 t1 => if truthy v then while_next rec (SWhile c a b) (prun1 rec a s1 t1) else prun1 rec b s1 t1)
    (fun x' s1 t1 => (SX x', s1, t1)).
Proof.
  cbn [PySem.pexec1]. unfold bindE. destruct (peval c s t) as [[[v|x] s1] t1]; [|reflexivity].
  destruct (truthy v); rewrite run_is_prun1; [|reflexivity].
  unfold while_next. destruct (prun1 rec a s1 t1) as [[[] ?] ?]; reflexivity.
Qed.

Lemma pexec1_try rec body hs orelse final s t :
  pexec1 rec (STry body hs orelse final) s t =
  finish1 rec final
    (match prun1 rec body s t with
     | (SX e, s1, t1) => prunh1 rec hs e s1 t1
     | (SN, s1, t1) => prun1 rec orelse s1 t1
     | other => other
     end).
Proof.
  cbn [PySem.pexec1]. cbv zeta. rewrite !run_is_prun1.
  destruct (prun1 rec body s t) as [[[] s1] t1]; unfold finish1; rewrite ?run_is_prun1, ?runh_is_prunh1; try reflexivity.
  - destruct (prun1 rec orelse s1 t1) as [[[] s2] t2]; rewrite ?run_is_prun1; reflexivity.
  - destruct (prunh1 rec hs e s1 t1) as [[[] s2] t2]; rewrite ?run_is_prun1; reflexivity.
Qed.

Lemma pexec1_simple rec s t :
  pexec1 rec SBreak s t = (SB, s, t) /\ pexec1 rec SContinue s t = (SC, s, t) /\ pexec1 rec SPass s t = (SN, s, t).
Proof. repeat split. Qed.

(* BoolOp as a named function *)
Fixpoint pbool_go (isand : bool) (es : list pexpr) (s : store) (t : trace) : eres * store * trace :=
  match es with
  | [] => (EV VNone, s, t)
  | [e] => peval e s t
  | e :: rest =>
      match peval e s t with
      | (EV v, s1, t1) => if Bool.eqb (truthy v) isand then pbool_go isand rest s1 t1 else (EV v, s1, t1)
      | r => r
      end
  end.
Lemma peval_bool isand es s t : peval (PBoolOp isand es) s t = pbool_go isand es s t.
Proof.
  cbn [PySem.peval]. revert s t. induction es as [|e r IH]; intros s t; [reflexivity|].
  destruct r as [|e' r']; [reflexivity|]. cbn [pbool_go].
  destruct (peval e s t) as [[[v|x] s1] t1]; [|reflexivity]. destruct (Bool.eqb (truthy v) isand); [apply IH | reflexivity].
Qed.

Lemma pbool_cons isand e rest s t (Hne : rest <> []) :
  pbool_go isand (e :: rest) s t =
  bindE (peval e s t) (fun v s1 t1 => if Bool.eqb (truthy v) isand then pbool_go isand rest s1 t1 else (EV v, s1, t1))
        (fun x s1 t1 => (EX x, s1, t1)).
Proof. destruct rest; [congruence|]. cbn [pbool_go]. unfold bindE. destruct (peval e s t) as [[[] ?] ?]; reflexivity. Qed.

End Facts.
