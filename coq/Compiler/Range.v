(* Every temporary mentioned by a compiled result was issued during that
   compilation: its index lies in (fst c, fst c']. *)
From HyV Require Import Compiler.Syntax Compiler.PySem Compiler.Compile Compiler.Named Compiler.Frame.

Definition inr (lo hi n : nat) : bool := (lo <? n) && (n <=? hi).
Lemma inr_mono lo hi lo' hi' n : lo' <= lo -> hi <= hi' -> inr lo hi n = true -> inr lo' hi' n = true.
Proof.
  unfold inr. intros A B H. apply andb_true_iff in H. destruct H as [H1 H2].
  apply Nat.ltb_lt in H1. apply Nat.leb_le in H2. apply andb_true_iff. split; [apply Nat.ltb_lt | apply Nat.leb_le]; lia.
Qed.

Definition tR (p : nat -> bool) (r : result) : bool :=
  tL p (rs r) && tE p (force r) && forallb (fun xb => tI p (fst xb)) (rt r).

Section Mono.
Variables p q : nat -> bool.
Hypothesis Hpq : forall n, p n = true -> q n = true.
Lemma tI_mono x : tI p x = true -> tI q x = true.
Proof. destruct x; cbn; auto. Qed.
Lemma forallb_mono {A} (f g : A -> bool) l : Forall (fun x => f x = true -> g x = true) l -> forallb f l = true -> forallb g l = true.
Proof. induction 1 as [|x l Hx _ IH]; cbn; [auto|]. intros H. apply andb_true_iff in H. destruct H. rewrite Hx, IH; auto. Qed.
Lemma tE_mono e : tE p e = true -> tE q e = true.
Proof.
  induction e using pexpr_ind'; cbn [tE]; auto using tI_mono.
  - apply forallb_mono. exact H.
  - intros Ht. apply andb_true_iff in Ht. destruct Ht as [Ht T3]. apply andb_true_iff in Ht. destruct Ht as [T1 T2].
    rewrite IHe1, IHe2, IHe3; auto.
  - intros Ht. apply andb_true_iff in Ht. destruct Ht as [T1 T2]. rewrite (tI_mono _ T1), IHe; auto.
Qed.
Lemma tS_mono st : tS p st = true -> tS q st = true.
Proof.
  induction st using pstmt_ind'; cbn [tS]; auto using tE_mono.
  - intros Ht. apply andb_true_iff in Ht. destruct Ht as [T1 T2]. rewrite (tI_mono _ T1), (tE_mono _ T2). reflexivity.
  - intros Ht. apply andb_true_iff in Ht. destruct Ht as [Ht T3]. apply andb_true_iff in Ht. destruct Ht as [T1 T2].
    rewrite (tE_mono _ T1), (forallb_mono _ _ _ H T2), (forallb_mono _ _ _ H0 T3). reflexivity.
  - intros Ht. apply andb_true_iff in Ht. destruct Ht as [Ht T3]. apply andb_true_iff in Ht. destruct Ht as [T1 T2].
    rewrite (tE_mono _ T1), (forallb_mono _ _ _ H T2), (forallb_mono _ _ _ H0 T3). reflexivity.
  - intros Ht. apply andb_true_iff in Ht. destruct Ht as [Ht T4]. apply andb_true_iff in Ht. destruct Ht as [Ht T3].
    apply andb_true_iff in Ht. destruct Ht as [T1 T2].
    rewrite (forallb_mono _ _ _ H T1), (forallb_mono _ _ _ H1 T3), (forallb_mono _ _ _ H2 T4).
    assert (E : forallb (fun hb => forallb (tS q) (snd hb)) hs = true).
    { revert T2. apply forallb_mono. clear -H0. induction H0 as [|hb r Hb _ IH]; constructor; auto.
      apply forallb_mono. exact Hb. }
    rewrite E. reflexivity.
Qed.
Lemma tL_mono l : tL p l = true -> tL q l = true.
Proof. unfold tL. apply forallb_mono. apply Forall_forall. intros x _. apply tS_mono. Qed.
Lemma tR_mono r : tR p r = true -> tR q r = true.
Proof.
  unfold tR. intros H. apply andb_true_iff in H. destruct H as [H T3]. apply andb_true_iff in H. destruct H as [T1 T2].
  rewrite (tL_mono _ T1), (tE_mono _ T2). cbn [andb]. revert T3. apply forallb_mono. apply Forall_forall.
  intros x _. apply tI_mono.
Qed.
End Mono.

Lemma tR_inr lo hi lo' hi' r : lo' <= lo -> hi <= hi' -> tR (inr lo hi) r = true -> tR (inr lo' hi') r = true.
Proof. intros A B. apply tR_mono. intros n. apply inr_mono; assumption. Qed.
Lemma tL_inr lo hi lo' hi' l : lo' <= lo -> hi <= hi' -> tL (inr lo hi) l = true -> tL (inr lo' hi') l = true.
Proof. intros A B. apply tL_mono. intros n. apply inr_mono; assumption. Qed.

Section Pieces.
Variable p : nat -> bool.

Lemma tR_parts r : tR p r = true <-> tL p (rs r) = true /\ tE p (force r) = true /\ forallb (fun xb => tI p (fst xb)) (rt r) = true.
Proof. unfold tR. rewrite !andb_true_iff. tauto. Qed.
Lemma tR_mk stmts e tmps : tL p stmts = true -> match e with Some x => tE p x = true | None => True end ->
  forallb (fun xb => tI p (fst xb)) tmps = true -> tR p (R stmts e tmps) = true.
Proof. intros A B C. apply tR_parts. cbn [rs rt]. repeat split; auto. unfold force. cbn [re]. destruct e; auto. Qed.
Lemma tL_app a b : tL p (a ++ b) = tL p a && tL p b.
Proof. unfold tL. apply forallb_app. Qed.
Lemma tR_rempty : tR p rempty = true. Proof. reflexivity. Qed.

Lemma tR_radd a b : tR p a = true -> tR p b = true -> tR p (radd a b) = true.
Proof.
  intros Ha Hb. apply tR_parts in Ha. apply tR_parts in Hb. destruct Ha as [A1 _]. destruct Hb as [B1 [B2 B3]].
  apply tR_parts. unfold radd. cbn [rs rt]. rewrite tL_app, A1, B1. repeat split; auto.
Qed.
Lemma tR_eas r : tR p r = true -> tR p (expr_as_stmt r) = true.
Proof.
  intros H. apply tR_parts in H. destruct H as [_ [H2 _]]. unfold expr_as_stmt, force in *.
  destruct (re r) as [e|]; [|reflexivity].
  assert (G : tR p (of_stmt (SExpr e)) = true) by (apply tR_mk; [cbn; rewrite H2; reflexivity | exact I | reflexivity]).
  destruct e; try exact G; destruct (rs r); try exact G; reflexivity.
Qed.

(* renaming to a user name can only remove temporaries *)
Lemma tE_subst f e : (forall x, tI p x = true -> tI p (f x) = true) -> tE p e = true -> tE p (substE f e) = true.
Proof.
  intros Hf. induction e using pexpr_ind'; cbn [tE substE]; auto.
  - intros Ht. rewrite forallb_forall in *. intros y Hy. apply in_map_iff in Hy. destruct Hy as [x [<- Hx]].
    rewrite Forall_forall in H. apply H; auto.
  - intros Ht. apply andb_true_iff in Ht. destruct Ht as [Ht T3]. apply andb_true_iff in Ht. destruct Ht as [T1 T2].
    rewrite IHe1, IHe2, IHe3; auto.
  - intros Ht. apply andb_true_iff in Ht. destruct Ht as [T1 T2]. rewrite Hf, IHe; auto.
Qed.
Lemma forallb_map_in {A} (g : A -> A) (t : A -> bool) l : Forall (fun x => t x = true -> t (g x) = true) l ->
  forallb t l = true -> forallb t (map g l) = true.
Proof. induction 1 as [|x l Hx _ IH]; cbn; [auto|]. intros H. apply andb_true_iff in H. destruct H. rewrite Hx, IH; auto. Qed.
Lemma tS_subst f st : (forall x, tI p x = true -> tI p (f x) = true) -> tS p st = true -> tS p (substS f st) = true.
Proof.
  intros Hf. induction st using pstmt_ind'; cbn [tS substS]; auto using tE_subst.
  - intros Ht. apply andb_true_iff in Ht. destruct Ht as [T1 T2]. rewrite Hf, tE_subst; auto.
  - intros Ht. apply andb_true_iff in Ht. destruct Ht as [Ht T3]. apply andb_true_iff in Ht. destruct Ht as [T1 T2].
    rewrite tE_subst, (forallb_map_in _ _ _ H T2), (forallb_map_in _ _ _ H0 T3); auto.
  - intros Ht. apply andb_true_iff in Ht. destruct Ht as [Ht T3]. apply andb_true_iff in Ht. destruct Ht as [T1 T2].
    rewrite tE_subst, (forallb_map_in _ _ _ H T2), (forallb_map_in _ _ _ H0 T3); auto.
  - intros Ht. apply andb_true_iff in Ht. destruct Ht as [Ht T4]. apply andb_true_iff in Ht. destruct Ht as [Ht T3].
    apply andb_true_iff in Ht. destruct Ht as [T1 T2].
    rewrite (forallb_map_in _ _ _ H T1), (forallb_map_in _ _ _ H1 T3), (forallb_map_in _ _ _ H2 T4).
    assert (E : forallb (fun hb => forallb (tS p) (snd hb)) (map (fun hb => (fst hb, map (substS f) (snd hb))) hs) = true).
    { clear -H0 T2. induction H0 as [|hb r Hb _ IH]; [reflexivity|]. cbn [forallb map snd] in *.
      apply andb_true_iff in T2. destruct T2 as [A B]. rewrite (forallb_map_in _ _ _ Hb A), IH; auto. }
    rewrite E. reflexivity.
Qed.
Lemma ren_ok ts n x : tI p x = true -> tI p (ren ts (U n) x) = true.
Proof. unfold ren. destruct (existsb (ident_eqb x) ts); auto. Qed.
Lemma tR_rename r n : tR p r = true -> tR p (rename r (U n)) = true.
Proof.
  intros H. apply tR_parts in H. destruct H as [H1 [H2 _]]. unfold rename. apply tR_mk; [| |reflexivity].
  - unfold tL in *. apply forallb_map_in; [|exact H1]. apply Forall_forall. intros st _. apply tS_subst. intros x. apply ren_ok.
  - unfold force in H2. destruct (re r); [|exact I]. apply tE_subst; [|exact H2]. intros x. apply ren_ok.
Qed.

Lemma tE_mkbool b first rest : tE p (mkbool b first rest) = tE p first && forallb (tE p) rest.
Proof. unfold mkbool. destruct rest; cbn [tE forallb]; [rewrite andb_true_r|]; reflexivity. Qed.

Lemma tL_build b n : p n = true -> forall ops first rest,
  forallb (tR p) ops = true -> tE p first = true -> forallb (tE p) rest = true ->
  tL p (build b (T n) first rest ops) = true.
Proof.
  intros Hn. induction ops as [|r ops IH]; intros first rest Ho Hf Hr; cbn [build].
  - unfold tL. cbn [forallb tS tI]. rewrite Hn, tE_mkbool, Hf, Hr. reflexivity.
  - cbn [forallb] in Ho. apply andb_true_iff in Ho. destruct Ho as [Hr1 Ho]. apply tR_parts in Hr1. destruct Hr1 as [R1 [R2 _]].
    destruct (rs r) eqn:Er.
    + apply IH; auto. rewrite forallb_app, Hr. cbn [forallb]. rewrite R2. reflexivity.
    + rewrite <- Er in R1 |- *. unfold tL. cbn [forallb tS tI]. rewrite Hn, tE_mkbool, Hf, Hr. cbn [andb].
      assert (C : tE p (cond_of b (T n)) = true) by (unfold cond_of; destruct b; cbn [tE tI]; exact Hn).
      rewrite C. cbn [andb]. fold (tL p (rs r ++ build b (T n) (force r) [] ops)). rewrite tL_app, R1. cbn [andb].
      rewrite IH; auto.
Qed.
End Pieces.

Definition range (e : hexpr) : Prop :=
  forall c r c', compile e c = (r, c') -> fst c <= fst c' /\ tR (inr (fst c) (fst c')) r = true.

Lemma cbranch_range es : Forall range es -> forall lo acc last c r c',
  cbranch es acc last c = (r, c') -> lo <= fst c ->
  tR (inr lo (fst c)) acc = true -> match last with Some l => tR (inr lo (fst c)) l = true | None => True end ->
  fst c <= fst c' /\ tR (inr lo (fst c')) r = true.
Proof.
  induction 1 as [|x es Hx _ IH]; intros lo acc last c r c' Hc Hlo Ha Hl; cbn [cbranch] in Hc.
  - inversion Hc; subst. split; [lia | exact Ha].
  - destruct (compile x c) as [rx c1] eqn:Ex. destruct (Hx _ _ _ Ex) as [L1 R1].
    assert (Ha1 : tR (inr lo (fst c1)) (match last with Some l => radd acc (expr_as_stmt l) | None => acc end) = true).
    { destruct last as [l|]; [apply tR_radd; [|apply tR_eas]|]; (apply (tR_inr lo (fst c)); [lia | lia | assumption]). }
    destruct (IH lo _ _ _ _ _ Hc) as [L2 R2]; [lia | | | split; [lia | exact R2]].
    + apply tR_radd; [exact Ha1 | eapply tR_inr; [| |exact R1]; lia].
    + eapply tR_inr; [| |exact R1]; lia.
Qed.

Lemma ccops_range es : Forall range es -> forall lo c var ops var' c',
  ccops es c var = (ops, var', c') -> lo <= fst c ->
  match var with Some (T n) => inr lo (fst c) n = true | Some (U _) => False | None => True end ->
  fst c <= fst c' /\ forallb (tR (inr lo (fst c'))) ops = true /\
  match var' with Some (T n) => inr lo (fst c') n = true | Some (U _) => False | None => True end.
Proof.
  induction 1 as [|x es Hx _ IH]; intros lo c var ops var' c' Hc Hlo Hv; cbn [ccops] in Hc.
  - inversion Hc; subst. repeat split; auto.
  - destruct (compile x c) as [rx c1] eqn:Ex. destruct (Hx _ _ _ Ex) as [L1 R1].
    destruct (match var, rs rx with None, _ :: _ => (Some (tmp (bump c1)), bump c1) | _, _ => (var, c1) end) as [var1 c2] eqn:Ev.
    destruct (ccops es c2 var1) as [[xs var2] c3] eqn:Er. inversion Hc; subst.
    assert (H2 : fst c1 <= fst c2 /\ match var1 with Some (T n) => inr lo (fst c2) n = true | Some (U _) => False | None => True end).
    { destruct var as [v|].
      - inversion Ev; subst. split; [lia|]. destruct v; [exact Hv|]. eapply inr_mono; [| |exact Hv]; lia.
      - destruct (rs rx); inversion Ev; subst; [split; [lia | exact I]|]. unfold tmp, bump in *; cbn [fst] in *. split; [lia|].
        unfold inr. apply andb_true_iff. split; [apply Nat.ltb_lt | apply Nat.leb_le]; lia. }
    destruct H2 as [L2 Hv1]. destruct (IH lo _ _ _ _ _ Er) as [L3 [R3 V3]]; [lia | exact Hv1|].
    repeat split; [lia | | exact V3]. cbn [forallb]. rewrite R3, andb_true_r. eapply tR_inr; [| |exact R1]; lia.
Qed.

Lemma ctwo_range o es : Forall range o -> Forall range es -> forall lo acc last c r c',
  ctwo o es acc last c = (r, c') -> lo <= fst c ->
  tR (inr lo (fst c)) acc = true -> match last with Some l => tR (inr lo (fst c)) l = true | None => True end ->
  fst c <= fst c' /\ tR (inr lo (fst c')) r = true.
Proof.
  intros Ho. induction 1 as [|x es Hx _ IH]; intros lo acc last c r c' Hc Hlo Ha Hl.
  - rewrite ctwo_nil in Hc. eapply cbranch_range; eassumption.
  - rewrite ctwo_cons in Hc. cbv zeta in Hc. destruct (compile x c) as [rx c1] eqn:Ex. destruct (Hx _ _ _ Ex) as [L1 R1].
    assert (Ha1 : tR (inr lo (fst c1)) (match last with Some l => radd acc (expr_as_stmt l) | None => acc end) = true).
    { destruct last as [l|]; [apply tR_radd; [|apply tR_eas]|]; (apply (tR_inr lo (fst c)); [lia | lia | assumption]). }
    destruct (IH lo _ _ _ _ _ Hc) as [L2 R2]; [lia | | | split; [lia | exact R2]].
    + apply tR_radd; [exact Ha1 | eapply tR_inr; [| |exact R1]; lia].
    + eapply tR_inr; [| |exact R1]; lia.
Qed.

Lemma cchs_range n hs : Forall (fun hb => Forall range (snd hb)) hs -> forall lo c out c',
  cchs (T n) hs c = (out, c') -> lo <= fst c -> inr lo (fst c) n = true ->
  fst c <= fst c' /\ forallb (fun hb => tL (inr lo (fst c')) (snd hb)) out = true.
Proof.
  induction 1 as [|[ty eb] hs Hb _ IH]; intros lo c out c' Hc Hlo Hn.
  - rewrite cchs_nil in Hc. inversion Hc; subst. split; [lia | reflexivity].
  - rewrite cchs_cons in Hc. destruct (cbranch eb rempty None c) as [reb c1] eqn:Eb.
    destruct (cchs (T n) hs c1) as [rest c2] eqn:Er. inversion Hc; subst.
    destruct (cbranch_range eb Hb lo _ _ _ _ _ Eb Hlo (tR_rempty _) I) as [L1 R1].
    destruct (IH lo _ _ _ Er) as [L2 R2]; [lia | eapply inr_mono; [| |exact Hn]; lia|].
    split; [lia|]. cbn [forallb snd]. rewrite R2, andb_true_r.
    apply tR_parts in R1. destruct R1 as [A [B _]]. rewrite tL_app.
    rewrite (tL_inr _ _ lo (fst c') _ (Nat.le_refl _) L2 A). cbn [andb]. unfold tL. cbn [forallb tS tI].
    rewrite (inr_mono _ _ lo (fst c') n (Nat.le_refl _) (Nat.le_trans _ _ _ L1 L2) Hn).
    rewrite (tE_mono _ _ (fun m => inr_mono _ _ lo (fst c') m (Nat.le_refl _) L2) _ B). reflexivity.
Qed.

Ltac parts H := apply tR_parts in H; destruct H as [?A [?B ?C]].
Lemma inr_top lo hi : lo < hi -> inr lo hi hi = true.
Proof. intros H. unfold inr. apply andb_true_iff. split; [apply Nat.ltb_lt | apply Nat.leb_le]; lia. Qed.
Lemma tL_one p st : tL p [st] = tS p st.
Proof. unfold tL. cbn. apply andb_true_r. Qed.
Lemma tS_if p c a b : tS p (SIf c a b) = tE p c && tL p a && tL p b. Proof. reflexivity. Qed.
Lemma tS_while p c a b : tS p (SWhile c a b) = tE p c && tL p a && tL p b. Proof. reflexivity. Qed.
Lemma tS_assign p x e : tS p (SAssign x e) = tI p x && tE p e. Proof. reflexivity. Qed.
Lemma tS_try p a hs o f : tS p (STry a hs o f) = tL p a && forallb (fun hb => tL p (snd hb)) hs && tL p o && tL p f.
Proof. reflexivity. Qed.
Lemma tL_or_pass p l : tL p l = true -> tL p (or_pass l) = true.
Proof. destruct l; auto. Qed.
Lemma Popt_range o : Popt range o -> forall lo c r c', cbranch (match o with Some l => l | None => [] end) rempty None c = (r, c') ->
  lo <= fst c -> fst c <= fst c' /\ tR (inr lo (fst c')) r = true.
Proof.
  intros Ho lo c r c' Hc Hlo. destruct o as [l|].
  - eapply cbranch_range; [exact Ho | exact Hc | exact Hlo | apply tR_rempty | exact I].
  - cbn in Hc. inversion Hc; subst. split; [lia | reflexivity].
Qed.

Theorem compile_range : forall e, range e.
Proof.
  induction e using hexpr_ind'; intros c r c' Hc.
  - destruct v; cbn [compile] in Hc; inversion Hc; subst; split; try lia; reflexivity.
  - cbn [compile] in Hc; inversion Hc; subst; split; try lia; reflexivity.
  - cbn [compile] in Hc. destruct (compile e c) as [r1 c1] eqn:E. inversion Hc; subst.
    destruct (IHe _ _ _ E) as [L R1]. split; [exact L|]. parts R1. apply tR_mk; auto.
  - rewrite compile_do in Hc. eapply cbranch_range; [exact H | exact Hc | lia | apply tR_rempty | exact I].
  - cbn [compile] in Hc. destruct (compile e c) as [r1 c1] eqn:E. destruct (IHe _ _ _ E) as [L R1].
    destruct (plain_assign r1); inversion Hc; subst.
    + split; [exact L|]. parts R1. apply tR_mk; [|exact I | reflexivity]. rewrite tL_app, A, tL_one. cbn [tS tI]. exact B.
    + cbn [mark fst]. split; [exact L|]. apply (tR_rename _ _ n) in R1. parts R1. apply tR_mk; [exact A | exact I | reflexivity].
  - cbn [compile] in Hc. destruct (compile e c) as [r1 c1] eqn:E. destruct (IHe _ _ _ E) as [L R1].
    destruct (plain_assign r1); inversion Hc; subst.
    + split; [exact L|]. parts R1. apply tR_mk; [exact A | cbn [tE tI]; exact B | reflexivity].
    + cbn [mark fst]. split; [exact L|]. apply tR_rename. exact R1.
  - destruct es as [|e0 es]; [cbn [compile] in Hc; inversion Hc; subst; split; [lia | destruct b; reflexivity]|].
    inversion H as [|? ? H0 Hes]; subst. rewrite compile_bool_cons in Hc.
    destruct (compile e0 c) as [r0 c0] eqn:E0. destruct (ccops es c0 None) as [[ops var] c1] eqn:Eo. inversion Hc; subst.
    destruct (H0 _ _ _ E0) as [L0 R0].
    destruct (ccops_range es Hes (fst c) _ _ _ _ _ Eo L0 I) as [L1 [Ro Hv]].
    split; [lia|]. assert (R0' : tR (inr (fst c) (fst c')) r0 = true) by (eapply tR_inr; [| |exact R0]; lia).
    unfold bool_result. destruct ops as [|o ops']; [exact R0'|].
    parts R0'. destruct var as [[m|m]|]; [contradiction | |].
    + apply tR_mk.
      * rewrite tL_app, A. apply tL_build; auto.
      * cbn [tE tI]. exact Hv.
      * rewrite forallb_app, C. cbn [forallb fst tI]. rewrite Hv. reflexivity.
    + apply tR_mk; auto. rewrite tE_mkbool, B. cbn [andb].
      rewrite forallb_forall. intros y Hy. apply in_map_iff in Hy. destruct Hy as [x [<- Hx]].
      rewrite forallb_forall in Ro. specialize (Ro x Hx). parts Ro. assumption.
  - cbn [compile] in Hc. destruct (compile e c) as [r1 c1] eqn:E. inversion Hc; subst.
    destruct (IHe _ _ _ E) as [L R1]. split; [exact L|]. parts R1. apply tR_mk; auto.
  - cbn [compile] in Hc. destruct (compile e1 c) as [rc c1] eqn:Ec. destruct (compile e2 c1) as [ra c2] eqn:Ea.
    destruct (compile e3 c2) as [rb c3] eqn:Eb.
    destruct (IHe1 _ _ _ Ec) as [L1 R1]. destruct (IHe2 _ _ _ Ea) as [L2 R2]. destruct (IHe3 _ _ _ Eb) as [L3 R3].
    assert (G : forall hi, fst c3 <= hi -> tR (inr (fst c) hi) rc = true /\ tR (inr (fst c) hi) ra = true /\ tR (inr (fst c) hi) rb = true).
    { intros hi Hh. repeat split; (eapply tR_inr; [| |eassumption]; lia). }
    assert (Hstmt : fst c <= fst (bump c3) /\
      tR (inr (fst c) (fst (bump c3)))
         (R (rs rc ++ [SIf (force rc) (rs ra ++ [SAssign (tmp (bump c3)) (force ra)]) (rs rb ++ [SAssign (tmp (bump c3)) (force rb)])])
            (Some (PName (tmp (bump c3)))) [(tmp (bump c3), true)]) = true).
    { unfold tmp, bump in *; cbn [fst] in *. split; [lia|]. destruct (G (S (fst c3)) (Nat.le_succ_diag_r _)) as [G1 [G2 G3]].
      parts G1. parts G2. parts G3.
      assert (Hv : inr (fst c) (S (fst c3)) (S (fst c3)) = true) by (apply inr_top; lia).
      apply tR_mk.
      - rewrite tL_app, A, tL_one, tS_if, B, !tL_app, A0, A1, !tL_one, !tS_assign. cbn [tI]. rewrite Hv, B0, B1. reflexivity.
      - cbn [tE tI]. exact Hv.
      - cbn [forallb fst tI]. rewrite Hv. reflexivity. }
    destruct (rs ra) eqn:Era; [destruct (rs rb) eqn:Erb|]; inversion Hc; subst; try exact Hstmt.
    split; [lia|]. destruct (G (fst c') (Nat.le_refl _)) as [G1 [G2 G3]]. parts G1. parts G2. parts G3.
    apply tR_mk; auto. cbn [tE]. rewrite B, B0, B1. reflexivity.
  - (* while *)
    rewrite compile_while in Hc. destruct (compile e c) as [rc c1] eqn:Ec. destruct (IHe _ _ _ Ec) as [L1 R1].
    destruct (cbranch body rempty None c1) as [rb0 c2] eqn:Eb.
    destruct (cbranch_range body H (fst c) _ _ _ _ _ Eb L1 (tR_rempty _) I) as [L2 R2].
    cbv zeta in Hc.
    set (bs := or_pass (rs (radd rb0 (expr_as_stmt rb0)))) in *.
    assert (Hbs : forall hi, fst c2 <= hi -> tL (inr (fst c) hi) bs = true).
    { intros hi Hh. apply tL_or_pass. assert (Q : tR (inr (fst c) (fst c2)) (radd rb0 (expr_as_stmt rb0)) = true) by (apply tR_radd; [|apply tR_eas]; exact R2).
      parts Q. eapply tL_inr; [| |exact A]; lia. }
    destruct (match rs rc with
              | [] => (rc, bs, c2)
              | _ :: _ => (R [SAssign (tmp (bump c2)) (PConst (VBool true))] (Some (PName (tmp (bump c2)))) [],
                           rs rc ++ [SAssign (tmp (bump c2)) (PNot (PNot (force rc))); SIf (PName (tmp (bump c2))) bs []], bump c2)
              end) as [[rc' body'] c3] eqn:E3.
    assert (H3 : fst c2 <= fst c3 /\ tR (inr (fst c) (fst c3)) rc' = true /\ tL (inr (fst c) (fst c3)) body' = true).
    { destruct (rs rc) eqn:Erc; inversion E3; subst.
      - split; [lia|]. split; [eapply tR_inr; [| |exact R1]; lia | apply Hbs; lia].
      - unfold tmp, bump in *; cbn [fst] in *. assert (Hv : inr (fst c) (S (fst c2)) (S (fst c2)) = true) by (apply inr_top; lia).
        split; [lia|]. split.
        + apply tR_mk; [|cbn [tE tI]; exact Hv | reflexivity]. rewrite tL_one. cbn [tS tI tE]. rewrite Hv. reflexivity.
        + assert (R1' : tR (inr (fst c) (S (fst c2))) rc = true) by (eapply tR_inr; [| |exact R1]; lia). parts R1'.
          rewrite ?app_comm_cons, <- Erc. rewrite tL_app, A.
          change [SAssign (T (S (fst c2))) (PNot (PNot (force rc))); SIf (PName (T (S (fst c2)))) bs []]
            with ([SAssign (T (S (fst c2))) (PNot (PNot (force rc)))] ++ [SIf (PName (T (S (fst c2)))) bs []]).
          rewrite tL_app, !tL_one, tS_assign, tS_if. cbn [tI tE]. rewrite Hv, B, Hbs by lia. reflexivity. }
    destruct H3 as [L3 [R3 B3]].
    destruct (match o with
              | Some o0 => let '(ro, c4) := cbranch o0 rempty None c3 in (rs (radd ro (expr_as_stmt ro)), c4)
              | None => ([], c3)
              end) as [orel c4] eqn:E4.
    assert (H4 : fst c3 <= fst c4 /\ tL (inr (fst c) (fst c4)) orel = true).
    { destruct o as [o0|]; [|inversion E4; subst; split; [lia | reflexivity]].
      destruct (cbranch o0 rempty None c3) as [ro c4'] eqn:Eo. inversion E4; subst.
      destruct (cbranch_range o0 H0 (fst c) _ _ _ _ _ Eo) as [L4 R4]; [lia | apply tR_rempty | exact I|].
      split; [exact L4|]. assert (Q : tR (inr (fst c) (fst c4)) (radd ro (expr_as_stmt ro)) = true) by (apply tR_radd; [|apply tR_eas]; exact R4).
      parts Q. exact A. }
    destruct H4 as [L4 O4]. inversion Hc; subst. split; [lia|].
    assert (R3' : tR (inr (fst c) (fst c')) rc' = true) by (eapply tR_inr; [| |exact R3]; lia). parts R3'.
    apply tR_mk; [|exact I | reflexivity]. rewrite tL_app, A, tL_one, tS_while, B, O4.
    rewrite (tL_inr _ _ (fst c) (fst c') _ (Nat.le_refl _) L4 B3). reflexivity.
  - cbn [compile] in Hc; inversion Hc; subst; split; try lia; reflexivity.
  - cbn [compile] in Hc; inversion Hc; subst; split; try lia; reflexivity.
  - cbn [compile] in Hc. destruct (compile e c) as [r1 c1] eqn:E. inversion Hc; subst.
    destruct (IHe _ _ _ E) as [L R1]. split; [exact L|]. parts R1. apply tR_mk; auto. rewrite tL_app, A, tL_one. exact B.
  - (* try *)
    rewrite compile_try in Hc.
    destruct (match hs, o with
              | [], Some o0 => ctwo o0 body rempty None c
              | _, _ => cbranch body rempty None c
              end) as [rb c1] eqn:Eb.
    assert (Hb : fst c <= fst c1 /\ tR (inr (fst c) (fst c1)) rb = true).
    { destruct hs as [|h hs'].
      - destruct o as [o0|].
        + eapply ctwo_range; [exact H1 | exact H | exact Eb | lia | apply tR_rempty | exact I].
        + eapply cbranch_range; [exact H | exact Eb | lia | apply tR_rempty | exact I].
      - eapply cbranch_range; [exact H | exact Eb | lia | apply tR_rempty | exact I]. }
    destruct Hb as [L1 R1].
    assert (Hmain :
      (let rv := tmp (bump c1) in
       let '(hs0, c2) := cchs rv hs (bump c1) in
       let '(orel, c3) :=
         match hs, o with
         | _ :: _, Some o0 =>
             match o0 with
             | [] => ([], c2)
             | _ => let '(ro, c3) := cbranch o0 rempty None c2 in (rs ro ++ [SAssign rv (force ro)], c3)
             end
         | _, _ => ([], c2)
         end in
       let '(fin, c4) :=
         match f with
         | None => ([], c3)
         | Some f0 => let '(rf, c4) := cbranch f0 rempty None c3 in (or_pass (rs (radd rf (expr_as_stmt rf))), c4)
         end in
       let body_stmts :=
         or_pass (match orel with
                  | [] => rs rb ++ [SAssign rv (force rb)]
                  | _ => rs (radd rb (expr_as_stmt rb))
                  end) in
       (R [STry body_stmts hs0 orel fin] (Some (PName rv)) [(rv, true)], c4)) = (r, c') ->
      fst c <= fst c' /\ tR (inr (fst c) (fst c')) r = true).
    { clear Hc. cbv zeta. unfold tmp, bump in *; cbn [fst] in *. intros Hc.
      destruct (cchs (T (S (fst c1))) hs (S (fst c1), snd c1)) as [hs0 c2] eqn:Eh.
      assert (Hv1 : inr (fst c) (S (fst c1)) (S (fst c1)) = true) by (apply inr_top; lia).
      destruct (cchs_range _ hs H0 (fst c) _ _ _ Eh) as [L2 R2]; [cbn [fst]; lia | exact Hv1|]. cbn [fst] in L2.
      destruct (match hs, o with
                | _ :: _, Some o0 =>
                    match o0 with
                    | [] => ([], c2)
                    | _ => let '(ro, c3) := cbranch o0 rempty None c2 in (rs ro ++ [SAssign (T (S (fst c1))) (force ro)], c3)
                    end
                | _, _ => ([], c2)
                end) as [orel c3] eqn:Eo.
      assert (Ho : fst c2 <= fst c3 /\ tL (inr (fst c) (fst c3)) orel = true).
      { destruct hs as [|h hs']; [inversion Eo; subst; split; [lia | reflexivity]|].
        destruct o as [o0|]; [|inversion Eo; subst; split; [lia | reflexivity]].
        destruct o0 as [|x o1]; [inversion Eo; subst; split; [lia | reflexivity]|].
        destruct (cbranch (x :: o1) rempty None c2) as [ro c3'] eqn:Ero. inversion Eo; subst.
        destruct (cbranch_range (x :: o1) H1 (fst c) _ _ _ _ _ Ero) as [L3 R3]; [lia | apply tR_rempty | exact I|].
        split; [exact L3|]. parts R3. rewrite tL_app, A, tL_one. cbn [tS tI]. rewrite B.
        rewrite (inr_mono _ _ (fst c) (fst c3) _ (Nat.le_refl _) (Nat.le_trans _ _ _ L2 L3) Hv1). reflexivity. }
      destruct Ho as [L3 O3].
      destruct (match f with
                | None => ([], c3)
                | Some f0 => let '(rf, c4) := cbranch f0 rempty None c3 in (or_pass (rs (radd rf (expr_as_stmt rf))), c4)
                end) as [fin c4] eqn:Ef.
      assert (Hf : fst c3 <= fst c4 /\ tL (inr (fst c) (fst c4)) fin = true).
      { destruct f as [f0|]; [|inversion Ef; subst; split; [lia | reflexivity]].
        destruct (cbranch f0 rempty None c3) as [rf c4'] eqn:Erf. inversion Ef; subst.
        destruct (cbranch_range f0 H2 (fst c) _ _ _ _ _ Erf) as [L4 R4]; [lia | apply tR_rempty | exact I|].
        split; [exact L4|]. assert (Q : tR (inr (fst c) (fst c4)) (radd rf (expr_as_stmt rf)) = true) by (apply tR_radd; [|apply tR_eas]; exact R4).
        parts Q. apply tL_or_pass. exact A. }
      destruct Hf as [L4 F4]. inversion Hc; subst. split; [lia|].
      assert (Hv : inr (fst c) (fst c') (S (fst c1)) = true) by (eapply inr_mono; [| |exact Hv1]; lia).
      assert (Rb : tR (inr (fst c) (fst c')) rb = true) by (eapply tR_inr; [| |exact R1]; lia).
      apply tR_mk; [|cbn [tE tI]; exact Hv | cbn [forallb fst tI]; rewrite Hv; reflexivity].
      rewrite tL_one, tS_try.
      match goal with |- context [tL ?pp (or_pass ?X)] => assert (B1 : tL pp (or_pass X) = true) end.
      { apply tL_or_pass. destruct orel.
        - parts Rb. rewrite tL_app, A, tL_one. cbn [tS tI]. rewrite Hv, B. reflexivity.
        - assert (Q : tR (inr (fst c) (fst c')) (radd rb (expr_as_stmt rb)) = true) by (apply tR_radd; [|apply tR_eas]; exact Rb).
          parts Q. exact A. }
      rewrite B1. cbn [andb].
      assert (E2 : forallb (fun hb => tL (inr (fst c) (fst c')) (snd hb)) hs0 = true).
      { revert R2. apply forallb_mono. apply Forall_forall. intros hb _. apply tL_inr; lia. }
      rewrite E2. cbn [andb].
      rewrite (tL_inr _ _ (fst c) (fst c') _ (Nat.le_refl _) L4 O3). cbn [andb]. exact F4. }
    destruct hs as [|h hs'].
    + destruct f as [[|x f0]|]; try (inversion Hc; subst; split; [exact L1 | exact R1]); apply Hmain; exact Hc.
    + apply Hmain. exact Hc.
Qed.
