(* Simulation proof, layer 3: while / break / continue (both shapes of the
   compiled loop), and the theorem for every program of the source fragment. *)
From HyV Require Import Compiler.Syntax Compiler.PySem Compiler.HySem Compiler.Compile
  Compiler.PyFacts Compiler.HyFacts Compiler.Sim Compiler.Named Compiler.Frame Compiler.Range
  Compiler.Correct1 Compiler.Correct2.

Definition K0 : store -> trace -> H := fun s t => (HV VNone, s, t).

Section Layer3.
Variable fault : nat -> option exn.
Variable issub : exn -> exn -> bool.
Notation peval := (peval fault).
Notation pexec1 := (pexec1 fault issub).
Notation pexec := (pexec fault issub).
Notation prun1 := (prun1 fault issub).
Notation heval1 := (heval1 fault issub).
Notation heval := (heval fault issub).
Notation run := (run fault issub).
Notation hseq := (hseq fault issub).
Notation hrec_of := (hrec_of fault issub).
Notation hrec_at := (hrec_at fault issub).
Notation rec_at := (rec_at fault issub).
Notation rec_of := (rec_of fault issub).
Notation sim := (sim fault issub).
Notation simr := (simr fault issub).
Notation simb := (simb fault issub).
Notation relQ := (relQ).

Lemma run_none rec stmts tmps s t : run rec (R stmts None tmps) s t = thenS (prun1 rec stmts s t) K0.
Proof. reflexivity. Qed.

Lemma thenS_bindE (e : pexpr) K1 K s t :
  thenS (bindE (peval e s t) K1 (fun x s1 t1 => (SX x, s1, t1))) K =
  bindV (ofE (peval e s t)) (fun v s1 t1 => thenS (K1 v s1 t1) K).
Proof. unfold bindE, ofE. destruct (peval e s t) as [[[v|x] s1] t1]; reflexivity. Qed.

Lemma else_rel l o orel :
  match o with None => orel = [] | Some o0 => exists ro, orel = rs ro ++ rs (expr_as_stmt ro) /\ simb o0 ro end ->
  forall s s' t, eqU s s' ->
    rel (heval1 (hrec_at l) (HDo (else_forms o)) s t) (thenS (prun1 (rec_at l) orel s' t) K0).
Proof.
  intros Ho s s' t Hs. rewrite heval1_do. unfold else_forms. destruct o as [o0|].
  - destruct Ho as [ro [-> Hro]]. rewrite hseq_app.
    pose proof (block_eas fault issub (rec_at l) ro _ s' t (Hro l s s' t Hs)) as R.
    destruct (hseq (hrec_at l) o0 VNone s t) as [[oa sa] ta].
    destruct (prun1 (rec_at l) (rs ro ++ rs (expr_as_stmt ro)) s' t) as [[ob sb] tb].
    destruct R as [HT | [E1 [E2 E3]]]; cbn [fst snd] in *.
    + subst oa. left. reflexivity.
    + subst tb. destruct oa, ob; try contradiction; cbn; right; repeat split; auto. subst; reflexivity.
  - subst orel. cbn. apply rel_mk. exact Hs.
Qed.

Lemma body_rel l body rb0 : simb body rb0 -> forall s s' t, eqU s s' ->
  relQ (fun _ _ => True) (hseq (hrec_at l) body VNone s t)
       (prun1 (rec_at l) (or_pass (rs (radd rb0 (expr_as_stmt rb0)))) s' t).
Proof.
  intros Hb s s' t Hs. rewrite prun1_or_pass. unfold radd. cbn [rs]. apply block_eas. apply Hb. exact Hs.
Qed.

Lemma tfuel_shift f lk : S f + S lk = f + S (S lk).
Proof. lia. Qed.

(* ---- the loop whose condition needs no statements ---- *)
Lemma while_simple cnd body o rc bs orel :
  simr cnd rc -> rs rc = [] ->
  (forall l s s' t, eqU s s' -> relQ (fun _ _ => True) (hseq (hrec_at l) body VNone s t) (prun1 (rec_at l) bs s' t)) ->
  (forall l s s' t, eqU s s' -> rel (heval1 (hrec_at l) (HDo (else_forms o)) s t) (thenS (prun1 (rec_at l) orel s' t) K0)) ->
  forall n lk s s' t, eqU s s' ->
    rel (heval1 (hrec_of n) (HWhile cnd body o) s t)
        (thenS (pexec1 (rec_of (n + S lk)) (SWhile (force rc) bs orel) s' t) K0).
Proof.
  intros Hrc Hp Hbody Helse. induction n as [|f IH]; intros lk s s' t Hs.
  - rewrite heval1_while, pexec1_while, thenS_bindE.
    pose proof (Hrc {| ln := 0; lk := lk |} s s' t Hs) as Hc. rewrite (run_pure fault issub _ rc s' t Hp) in Hc.
    unfold Correct1.hrec_at in Hc. cbn [ln] in Hc.
    unfold hwcond. destruct (heval1 (hrec_of 0) cnd s t) as [[oa sa] ta].
    destruct (ofE (peval (force rc) s' t)) as [[ob sb] tb] eqn:Eo.
    destruct Hc as [HT | [E1 [E2 E3]]]; cbn [fst snd] in *; [subst oa; left; reflexivity|]. subst ob tb.
    destruct oa; cbn [bindV]; try (right; repeat split; auto; fail);
      try (exfalso; unfold ofE in Eo; destruct (peval (force rc) s' t) as [[[] ?] ?]; inversion Eo; fail).
    + destruct (truthy v).
      * pose proof (Hbody {| ln := 0; lk := lk |} sa sb ta E3) as Rb.
        destruct (hseq (hrec_at {| ln := 0; lk := lk |}) body VNone sa ta) as [[oc sc] tc] eqn:Eh. unfold Correct1.hrec_at in Eh. cbn [ln] in Eh. rewrite Eh.
        destruct (prun1 (rec_at {| ln := 0; lk := lk |}) bs sb ta) as [[od sd] td] eqn:Ep. unfold Correct1.rec_at, tfuel in Ep. cbn [ln Sim.lk] in Ep. rewrite Ep.
        destruct Rb as [HT | [F1 [F2 F3]]]; cbn [fst snd] in *; [subst oc; left; reflexivity|]. subst td.
        destruct oc, od; try contradiction; cbn [hwnext while_next thenS ofS of_s K0];
          try (left; reflexivity); try (right; repeat split; auto; fail). subst. right. repeat split; auto.
      * left. reflexivity.
  - rewrite heval1_while, pexec1_while, thenS_bindE.
    pose proof (Hrc {| ln := S f; lk := lk |} s s' t Hs) as Hc. rewrite (run_pure fault issub _ rc s' t Hp) in Hc.
    unfold hwcond. unfold Correct1.hrec_at in Hc. cbn [ln] in Hc.
    destruct (heval1 (hrec_of (S f)) cnd s t) as [[oa sa] ta].
    destruct (ofE (peval (force rc) s' t)) as [[ob sb] tb] eqn:Eo.
    destruct Hc as [HT | [E1 [E2 E3]]]; cbn [fst snd] in *; [subst oa; left; reflexivity|]. subst ob tb.
    assert (Hre : forall s2 s2' t2, eqU s2 s2' ->
              rel (hrec_of (S f) (HWhile cnd body o) s2 t2)
                  (thenS (rec_of (S f + S lk) (SWhile (force rc) bs orel) s2' t2) K0)).
    { intros s2 s2' t2 E. cbn [HyFacts.hrec_of PyFacts.rec_of plus]. rewrite heval_rec, pexec_rec. apply IH. exact E. }
    destruct oa; cbn [bindV]; try (right; repeat split; auto; fail);
      try (exfalso; unfold ofE in Eo; destruct (peval (force rc) s' t) as [[[] ?] ?]; inversion Eo; fail).
    + destruct (truthy v).
      * pose proof (Hbody {| ln := S f; lk := lk |} sa sb ta E3) as Rb.
        unfold Correct1.hrec_at, Correct1.rec_at, tfuel in Rb. cbn [ln Sim.lk] in Rb.
        destruct (hseq (hrec_of (S f)) body VNone sa ta) as [[oc sc] tc].
        destruct (prun1 (rec_of (S f + S lk)) bs sb ta) as [[od sd] td].
        destruct Rb as [HT | [F1 [F2 F3]]]; cbn [fst snd] in *; [subst oc; left; reflexivity|]. subst td.
        destruct oc, od; try contradiction; cbn [hwnext while_next thenS ofS of_s K0];
          try (apply Hre; exact F2); try (right; repeat split; auto; fail). subst. right. repeat split; auto.
      * cbn [HyFacts.hrec_of]. rewrite heval_rec.
        pose proof (Helse {| ln := f; lk := S lk |} sa sb ta E3) as He.
        unfold Correct1.hrec_at, Correct1.rec_at, tfuel in He. cbn [ln Sim.lk] in He. rewrite <- tfuel_shift in He. exact He.
Qed.

(* ---- the loop whose condition needs statements: anon = True; while anon: <cond stmts>; anon = not not <cond>; if anon: <body> ---- *)
Lemma cond_prefix rec rc n (A : H) s' t :
  rel A (run rec rc s' t) ->
  (forall s0 t0, (snd (fst (prun1 rec (rs rc) s0 t0))) (T n) = s0 (T n)) ->
  fst (fst A) = HT \/
  exists o sb, prun1 rec (rs rc ++ [SAssign (T n) (PNot (PNot (force rc)))]) s' t = (o, sb, snd A) /\
    eqU (snd (fst A)) sb /\
    match fst (fst A), o with
    | HV x, SN => sb (T n) = VBool (truthy x)
    | HX x, SX y => x = y
    | HB, SB => sb (T n) = s' (T n)
    | HC, SC => sb (T n) = s' (T n)
    | _, _ => False
    end.
Proof.
  intros [HT | [E1 [E2 E3]]] Hk; [left; exact HT|]. destruct A as [[oa sa] ta]. cbn [fst snd] in *.
  unfold Sim.run, thenS in *. rewrite prun1_app. unfold bindS. specialize (Hk s' t).
  destruct (prun1 rec (rs rc) s' t) as [[o s1] t1]. cbn [fst snd] in Hk.
  destruct o; cbn [ofS of_s fst snd] in *; subst.
  - rewrite prun1_cons, pexec1_assign. cbn [PySem.peval]. unfold bindE, bindS, ofE in *.
    destruct (peval (force rc) s1 t1) as [[[v|x] s2] t2]; cbn [fst snd of_e] in *; subst; right.
    + eexists SN, _. split; [reflexivity|]. split; [apply eqU_updT; exact E3|].
      unfold upd. rewrite ident_eqb_refl. cbn [truthy]. rewrite negb_involutive. reflexivity.
    + eexists (SX x), _. split; [reflexivity|]. split; [exact E3 | reflexivity].
  - right. eexists (SX e), _. split; [reflexivity|]. split; [exact E3 | reflexivity].
  - right. eexists SB, _. split; [reflexivity|]. split; [exact E3 | exact Hk].
  - right. eexists SC, _. split; [reflexivity|]. split; [exact E3 | exact Hk].
  - left. reflexivity.
Qed.

Lemma while_rewritten cnd body o rc m bs orel :
  simr cnd rc ->
  (forall l s0 t0, (snd (fst (prun1 (rec_at l) (rs rc) s0 t0))) (T m) = s0 (T m)) ->
  (forall l s0 t0, (snd (fst (prun1 (rec_at l) bs s0 t0))) (T m) = s0 (T m)) ->
  (forall l s s' t, eqU s s' -> relQ (fun _ _ => True) (hseq (hrec_at l) body VNone s t) (prun1 (rec_at l) bs s' t)) ->
  (forall l s s' t, eqU s s' -> rel (heval1 (hrec_at l) (HDo (else_forms o)) s t) (thenS (prun1 (rec_at l) orel s' t) K0)) ->
  forall n lk s s' t, eqU s s' -> truthy (s' (T m)) = true ->
    rel (heval1 (hrec_of n) (HWhile cnd body o) s t)
        (thenS (pexec1 (rec_of (n + S lk))
                  (SWhile (PName (T m)) (rs rc ++ [SAssign (T m) (PNot (PNot (force rc))); SIf (PName (T m)) bs []]) orel) s' t) K0).
Proof.
  intros Hrc Hkc Hkb Hbody Helse.
  set (W := SWhile (PName (T m)) (rs rc ++ [SAssign (T m) (PNot (PNot (force rc))); SIf (PName (T m)) bs []]) orel).
  induction n as [|f IH]; intros lk s s' t Hs Hv.
  - (* no fuel left in the reference: every path that needs a further level is excused *)
    rewrite heval1_while. unfold W. rewrite pexec1_while. cbn [PySem.peval bindE]. rewrite Hv.
    change (rs rc ++ [SAssign (T m) (PNot (PNot (force rc))); SIf (PName (T m)) bs []])
      with (rs rc ++ [SAssign (T m) (PNot (PNot (force rc)))] ++ [SIf (PName (T m)) bs []]).
    rewrite app_assoc, prun1_app.
    pose proof (Hrc {| ln := 0; lk := lk |} s s' t Hs) as Hc. unfold Correct1.hrec_at in Hc. cbn [ln] in Hc.
    destruct (cond_prefix (rec_at {| ln := 0; lk := lk |}) rc m _ s' t Hc (Hkc _)) as [HT | [ob [sb [Ep [E2 E3]]]]].
    + unfold hwcond. destruct (heval1 (hrec_of 0) cnd s t) as [[oa sa] ta]. cbn [fst] in HT. subst oa. left. reflexivity.
    + unfold Correct1.rec_at, tfuel in Ep. cbn [ln Sim.lk] in Ep. rewrite Ep. unfold hwcond.
      destruct (heval1 (hrec_of 0) cnd s t) as [[oa sa] ta]. cbn [fst snd] in *.
      destruct oa, ob; try contradiction; cbn [bindS while_next thenS ofS of_s K0];
        try (left; reflexivity); try (right; repeat split; auto; fail).
      * (* condition evaluated: v *)
        rewrite prun1_cons, pexec1_if. cbn [PySem.peval bindE]. rewrite E3. cbn [truthy].
        destruct (truthy v).
        -- pose proof (Hbody {| ln := 0; lk := lk |} sa sb ta E2) as Rb.
           unfold Correct1.hrec_at, Correct1.rec_at, tfuel in Rb. cbn [ln Sim.lk] in Rb.
           destruct (hseq (hrec_of 0) body VNone sa ta) as [[oc sc] tc].
           destruct (prun1 (rec_of (0 + S lk)) bs sb ta) as [[od sd] td].
           destruct Rb as [HT | [F1 [F2 F3]]]; cbn [fst snd] in *; [subst oc; left; reflexivity|]. subst td.
           destruct oc, od; try contradiction; cbn [bindS PyFacts.prun1 hwnext while_next thenS ofS of_s K0];
             try (left; reflexivity); try (right; repeat split; auto; fail). subst. right. repeat split; auto.
        -- left. reflexivity.
      * subst. right. repeat split; auto.
  - rewrite heval1_while. unfold W. rewrite pexec1_while. cbn [PySem.peval bindE]. rewrite Hv. fold W.
    assert (Hre : forall s2 s2' t2, eqU s2 s2' -> truthy (s2' (T m)) = true ->
              rel (hrec_of (S f) (HWhile cnd body o) s2 t2) (thenS (rec_of (S f + S lk) W s2' t2) K0)).
    { intros s2 s2' t2 E Hv2. cbn [HyFacts.hrec_of PyFacts.rec_of plus]. rewrite heval_rec, pexec_rec. apply IH; assumption. }
    change (rs rc ++ [SAssign (T m) (PNot (PNot (force rc))); SIf (PName (T m)) bs []])
      with (rs rc ++ [SAssign (T m) (PNot (PNot (force rc)))] ++ [SIf (PName (T m)) bs []]).
    rewrite app_assoc, prun1_app.
    pose proof (Hrc {| ln := S f; lk := lk |} s s' t Hs) as Hc. unfold Correct1.hrec_at in Hc. cbn [ln] in Hc.
    destruct (cond_prefix (rec_at {| ln := S f; lk := lk |}) rc m _ s' t Hc (Hkc _)) as [HT | [ob [sb [Ep [E2 E3]]]]].
    + unfold hwcond. destruct (heval1 (hrec_of (S f)) cnd s t) as [[oa sa] ta]. cbn [fst] in HT. subst oa. left. reflexivity.
    + unfold Correct1.rec_at, tfuel in Ep. cbn [ln Sim.lk] in Ep. rewrite Ep. unfold hwcond.
      destruct (heval1 (hrec_of (S f)) cnd s t) as [[oa sa] ta]. cbn [fst snd] in *.
      destruct oa, ob; try contradiction; cbn [bindS while_next thenS ofS of_s K0];
        try (right; repeat split; auto; fail).
      * rewrite prun1_cons, pexec1_if. cbn [PySem.peval bindE]. rewrite E3. cbn [truthy].
        destruct (truthy v) eqn:Tv.
        -- pose proof (Hbody {| ln := S f; lk := lk |} sa sb ta E2) as Rb.
           pose proof (Hkb {| ln := S f; lk := lk |} sb ta) as Kb.
           unfold Correct1.hrec_at, Correct1.rec_at, tfuel in Rb, Kb. cbn [ln Sim.lk] in Rb, Kb.
           destruct (hseq (hrec_of (S f)) body VNone sa ta) as [[oc sc] tc].
           destruct (prun1 (rec_of (S f + S lk)) bs sb ta) as [[od sd] td]. cbn [fst snd] in Kb.
           destruct Rb as [HT | [F1 [F2 F3]]]; cbn [fst snd] in *; [subst oc; left; reflexivity|]. subst td.
           destruct oc, od; try contradiction; cbn [bindS PyFacts.prun1 hwnext while_next thenS ofS of_s K0];
             try (apply Hre; [exact F2 | rewrite Kb, E3; reflexivity]); try (right; repeat split; auto; fail).
           subst. right. repeat split; auto.
        -- (* condition falsy: the compiled loop re-enters once, sees anon = False, and runs the else block *)
           cbn [bindS PyFacts.prun1 while_next thenS]. cbn [HyFacts.hrec_of PyFacts.rec_of plus].
           rewrite heval_rec, pexec_rec. unfold W at 1. rewrite pexec1_while. cbn [PySem.peval bindE]. rewrite E3. cbn [truthy].
           pose proof (Helse {| ln := f; lk := lk |} sa sb ta E2) as He.
           unfold Correct1.hrec_at, Correct1.rec_at, tfuel in He. cbn [ln Sim.lk] in He. exact He.
      * subst. right. repeat split; auto.
      * apply Hre; [exact E2 | rewrite E3; exact Hv].
Qed.


Lemma opt_shape o c3 orel c4 : Popt sim o -> Popt mono o ->
  match o with
  | None => ([], c3)
  | Some o0 => let '(ro, c4) := cbranch o0 rempty None c3 in (rs (radd ro (expr_as_stmt ro)), c4)
  end = (orel, c4) -> snd c4 = false ->
  snd c3 = false /\
  match o with None => orel = [] | Some o0 => exists ro, orel = rs ro ++ rs (expr_as_stmt ro) /\ simb o0 ro end.
Proof.
  intros So Mo E Hf. destruct o as [o0|]; [|inversion E; subst; split; auto].
  destruct (cbranch o0 rempty None c3) as [ro c4'] eqn:Ero. inversion E; subst. cbn [Popt] in So, Mo.
  split; [exact (mono_back_cbranch o0 rempty None c3 ro c4 Mo Ero Hf)|].
  exists ro. split; [reflexivity|]. exact (block_sim fault issub o0 So Mo c3 ro c4 Ero Hf).
Qed.

Lemma sim_while cnd body o :
  sim cnd -> mono cnd -> Forall sim body -> Forall mono body -> Popt sim o -> Popt mono o ->
  sim (HWhile cnd body o).
Proof.
  intros Sc Mc Sb Mb So Mo c r c' Hc Hfl l s s' t Hs. rewrite compile_while in Hc.
  destruct (compile cnd c) as [rc c1] eqn:Ec. destruct (cbranch body rempty None c1) as [rb0 c2] eqn:Eb.
  cbv zeta in Hc. set (bs := or_pass (rs (radd rb0 (expr_as_stmt rb0)))) in *.
  destruct (compile_range cnd _ _ _ Ec) as [L1 R1]. destruct (compile_range_branch _ _ _ _ Eb) as [L2 R2].
  assert (TB : tL (inr (fst c1) (fst c2)) bs = true).
  { apply tL_or_pass. assert (Q : tR (inr (fst c1) (fst c2)) (radd rb0 (expr_as_stmt rb0)) = true) by (apply tR_radd; [|apply tR_eas]; exact R2).
    apply tR_parts in Q. apply Q. }
  destruct (rs rc) as [|st0 rcs] eqn:Erc.
  - (* simple *)
    destruct (match o with
              | None => ([], c2)
              | Some o0 => let '(ro, c4) := cbranch o0 rempty None c2 in (rs (radd ro (expr_as_stmt ro)), c4)
              end) as [orel c4] eqn:Eo. inversion Hc; subst r c4. clear Hc.
    destruct (opt_shape o c2 orel c' So Mo Eo Hfl) as [Hf2 Ho].
    pose proof (mono_back_cbranch body rempty None c1 rb0 c2 Mb Eb Hf2) as Hf1.
    pose proof (block_sim fault issub body Sb Mb c1 rb0 c2 Eb Hf2) as Hbody.
    rewrite Erc. cbn [app]. rewrite run_none, then_single.
    destruct l as [n lk]. unfold Correct1.hrec_at. cbn [ln].
    change (rec_at {| ln := n; lk := lk |}) with (rec_of (n + S lk)).
    apply (while_simple cnd body o rc bs orel); auto.
    + apply (Sc _ _ _ Ec Hf1).
    + intros l0 s0 s0' t0 E0. apply body_rel; assumption.
    + intros l0. apply else_rel. exact Ho.
  - (* rewritten *)
    destruct (match o with
              | None => ([], bump c2)
              | Some o0 => let '(ro, c4) := cbranch o0 rempty None (bump c2) in (rs (radd ro (expr_as_stmt ro)), c4)
              end) as [orel c4] eqn:Eo. inversion Hc; subst r c4. clear Hc.
    destruct (opt_shape o (bump c2) orel c' So Mo Eo Hfl) as [Hf2 Ho]. cbn [bump snd] in Hf2.
    pose proof (mono_back_cbranch body rempty None c1 rb0 c2 Mb Eb Hf2) as Hf1.
    pose proof (block_sim fault issub body Sb Mb c1 rb0 c2 Eb Hf2) as Hbody.
    unfold tmp, bump. cbn [fst]. set (m := S (fst c2)). rewrite ?app_comm_cons, <- Erc.
    cbn [rs force re]. change ([SAssign (T m) (PConst (VBool true))] ++
       [SWhile (PName (T m)) (rs rc ++ [SAssign (T m) (PNot (PNot (force rc))); SIf (PName (T m)) bs []]) orel])
      with (SAssign (T m) (PConst (VBool true)) ::
       [SWhile (PName (T m)) (rs rc ++ [SAssign (T m) (PNot (PNot (force rc))); SIf (PName (T m)) bs []]) orel]).
    rewrite run_none. rewrite prun1_cons, pexec1_assign. cbn [PySem.peval bindE bindS].
    change (prun1 (rec_at l) [SWhile (PName (T m)) (rs rc ++ [SAssign (T m) (PNot (PNot (force rc))); SIf (PName (T m)) bs []]) orel]
              (upd s' (T m) (VBool true)) t)
      with (prun1 (rec_at l) [SWhile (PName (T m)) (rs rc ++ [SAssign (T m) (PNot (PNot (force rc))); SIf (PName (T m)) bs []]) orel]
              (upd s' (T m) (VBool true)) t).
    rewrite then_single.
    destruct l as [n lk]. unfold Correct1.hrec_at. cbn [ln].
    change (rec_at {| ln := n; lk := lk |}) with (rec_of (n + S lk)).
    apply (while_rewritten cnd body o rc m bs orel).
    + apply (Sc _ _ _ Ec Hf1).
    + intros l0 s0 t0. apply (prun_keeps fault issub (inr (fst c) (fst c1)) (rs rc) (rec_at l0)).
      * intros w Hw. apply rec_keeps. exact Hw.
      * apply tR_parts in R1. apply R1.
      * unfold inr. apply andb_false_iff. right. apply Nat.leb_gt. unfold m. lia.
    + intros l0 s0 t0. apply (prun_keeps fault issub (inr (fst c1) (fst c2)) bs (rec_at l0)).
      * intros w Hw. apply rec_keeps. exact Hw.
      * exact TB.
      * unfold inr. apply andb_false_iff. right. apply Nat.leb_gt. unfold m. lia.
    + intros l0 s0 s0' t0 E0. apply body_rel; assumption.
    + intros l0. apply else_rel. exact Ho.
    + apply eqU_updT. exact Hs.
    + unfold upd. rewrite ident_eqb_refl. reflexivity.
Qed.

Lemma sim_break : sim HBreak.
Proof. intros c r c' Hc _ l s s' t Hs. cbn [compile] in Hc. inversion Hc; subst. cbn. apply rel_mk. exact Hs. Qed.
Lemma sim_continue : sim HContinue.
Proof. intros c r c' Hc _ l s s' t Hs. cbn [compile] in Hc. inversion Hc; subst. cbn. apply rel_mk. exact Hs. Qed.

(* ---- the ghost flag is monotone through every form ---- *)
Lemma cchs_mono rv hs : Forall (fun hb => Forall mono (snd hb)) hs -> forall c out c',
  cchs rv hs c = (out, c') -> snd c = true -> snd c' = true.
Proof.
  induction 1 as [|[ty eb] hs Hb _ IH]; intros c out c' Hc Ht.
  - rewrite cchs_nil in Hc. inversion Hc; subst. exact Ht.
  - rewrite cchs_cons in Hc. destruct (cbranch eb rempty None c) as [reb c1] eqn:Eb.
    destruct (cchs rv hs c1) as [rest c2] eqn:Er. inversion Hc; subst.
    eapply IH; [exact Er|]. eapply cbranch_mono; [exact Hb | exact Eb | exact Ht].
Qed.

Lemma opt_mono o c3 (orel : list pstmt) c4 (k : result -> list pstmt) : Popt mono o ->
  match o with
  | None => ([], c3)
  | Some o0 => let '(ro, c4) := cbranch o0 rempty None c3 in (k ro, c4)
  end = (orel, c4) -> snd c3 = true -> snd c4 = true.
Proof.
  intros Mo E Ht. destruct o as [o0|]; [|inversion E; subst; exact Ht].
  destruct (cbranch o0 rempty None c3) as [ro c4'] eqn:Ero. inversion E; subst.
  eapply cbranch_mono; [exact Mo | exact Ero | exact Ht].
Qed.

Lemma mono_while cnd body o : mono cnd -> Forall mono body -> Popt mono o -> mono (HWhile cnd body o).
Proof.
  intros Mc Mb Mo c r c' Hc Ht. rewrite compile_while in Hc.
  destruct (compile cnd c) as [rc c1] eqn:Ec. destruct (cbranch body rempty None c1) as [rb0 c2] eqn:Eb.
  cbv zeta in Hc.
  assert (H2 : snd c2 = true) by (eapply cbranch_mono; [exact Mb | exact Eb | eapply Mc; eassumption]).
  destruct (rs rc).
  - destruct (match o with
              | None => ([], c2)
              | Some o0 => let '(ro, c4) := cbranch o0 rempty None c2 in (rs (radd ro (expr_as_stmt ro)), c4)
              end) as [orel c4] eqn:Eo. inversion Hc; subst.
    exact (opt_mono o c2 orel c' (fun ro => rs (radd ro (expr_as_stmt ro))) Mo Eo H2).
  - destruct (match o with
              | None => ([], bump c2)
              | Some o0 => let '(ro, c4) := cbranch o0 rempty None (bump c2) in (rs (radd ro (expr_as_stmt ro)), c4)
              end) as [orel c4] eqn:Eo. inversion Hc; subst.
    exact (opt_mono o (bump c2) orel c' (fun ro => rs (radd ro (expr_as_stmt ro))) Mo Eo H2).
Qed.

Lemma mono_try body hs o f :
  Forall mono body -> Forall (fun hb => Forall mono (snd hb)) hs -> Popt mono o -> Popt mono f -> mono (HTry body hs o f).
Proof.
  intros Mb Mh Mo Mf c r c' Hc Ht. rewrite compile_try in Hc.
  destruct (match hs, o with
            | [], Some o0 => ctwo o0 body rempty None c
            | _, _ => cbranch body rempty None c
            end) as [rb c1] eqn:Eb.
  assert (H1 : snd c1 = true).
  { destruct hs; [destruct o as [o0|]|].
    - rewrite ctwo_app in Eb. eapply cbranch_mono; [|exact Eb | exact Ht]. apply Forall_app. split; assumption.
    - eapply cbranch_mono; eassumption.
    - eapply cbranch_mono; eassumption. }
  assert (Hmain :
      (let rv := tmp (bump c1) in
       let '(hs0, c2) := cchs rv hs (bump c1) in
       let '(orel, c3) :=
         match hs, o with
         | _ :: _, Some o0 =>
             match o0 with
             | [] => ([], c2)
             | _ => let '(ro, c3) := cbranch o0 rempty None c2 in (rs ro ++ [SAssign rv (force ro)], c3)
             end
         | _, _ => ([], c2)
         end in
       let '(fin, c4) :=
         match f with
         | None => ([], c3)
         | Some f0 => let '(rf, c4) := cbranch f0 rempty None c3 in (or_pass (rs (radd rf (expr_as_stmt rf))), c4)
         end in
       let body_stmts :=
         or_pass (match orel with
                  | [] => rs rb ++ [SAssign rv (force rb)]
                  | _ => rs (radd rb (expr_as_stmt rb))
                  end) in
       (R [STry body_stmts hs0 orel fin] (Some (PName rv)) [(rv, true)], c4)) = (r, c') -> snd c' = true).
  { clear Hc. cbv zeta. intros Hc.
    destruct (cchs (tmp (bump c1)) hs (bump c1)) as [hs0 c2] eqn:Eh.
    assert (H2 : snd c2 = true) by (eapply cchs_mono; [exact Mh | exact Eh | exact H1]).
    destruct (match hs, o with
              | _ :: _, Some o0 =>
                  match o0 with
                  | [] => ([], c2)
                  | _ => let '(ro, c3) := cbranch o0 rempty None c2 in (rs ro ++ [SAssign (tmp (bump c1)) (force ro)], c3)
                  end
              | _, _ => ([], c2)
              end) as [orel c3] eqn:Eo.
    assert (H3 : snd c3 = true).
    { destruct hs; [inversion Eo; subst; exact H2|]. destruct o as [[|y o1]|]; try (inversion Eo; subst; exact H2).
      destruct (cbranch (y :: o1) rempty None c2) as [ro c3'] eqn:Ero. inversion Eo; subst.
      eapply cbranch_mono; [exact Mo | exact Ero | exact H2]. }
    destruct (match f with
              | None => ([], c3)
              | Some f0 => let '(rf, c4) := cbranch f0 rempty None c3 in (or_pass (rs (radd rf (expr_as_stmt rf))), c4)
              end) as [fin c4] eqn:Ef. inversion Hc; subst.
    exact (opt_mono f c3 fin c' (fun rf => or_pass (rs (radd rf (expr_as_stmt rf)))) Mf Ef H3). }
  destruct hs as [|h hs1].
  - destruct f as [[|x f0]|]; [inversion Hc; subst; exact H1 | apply Hmain; exact Hc | inversion Hc; subst; exact H1].
  - apply Hmain. exact Hc.
Qed.

Lemma Forall_split2 {A} (P Q : A -> Prop) l : Forall (fun x => P x /\ Q x) l -> Forall P l /\ Forall Q l.
Proof. induction 1 as [|x l [Hp Hq] _ [IH1 IH2]]; split; constructor; auto. Qed.
Lemma Popt_split2 (P Q : hexpr -> Prop) o : Popt (fun x => P x /\ Q x) o -> Popt P o /\ Popt Q o.
Proof. destruct o; cbn [Popt]; [apply Forall_split2 | auto]. Qed.

(* every program of the source fragment *)
Theorem compile_correct_all : forall e, mono e /\ sim e.
Proof.
  induction e using hexpr_ind'.
  - split; [|apply sim_const]. intros c r c' Hc Ht. destruct v; cbn [compile] in Hc; inversion Hc; subst; exact Ht.
  - split; [|apply sim_var]. intros c r c' Hc Ht. cbn [compile] in Hc; inversion Hc; subst; exact Ht.
  - destruct IHe as [M S]. split; [|apply sim_log; exact S].
    intros c r c' Hc Ht. cbn [compile] in Hc. destruct (compile e c) as [r1 c1] eqn:E. inversion Hc; subst. eapply M; eassumption.
  - destruct (Forall_split2 _ _ _ H) as [HM HS]. split; [|apply sim_do; assumption].
    intros c r c' Hc Ht. rewrite compile_do in Hc. eapply cbranch_mono; eassumption.
  - destruct IHe as [M S]. split; [|apply sim_setv; exact S].
    intros c r c' Hc Ht. cbn [compile] in Hc. destruct (compile e c) as [r1 c1] eqn:E.
    destruct (plain_assign r1); inversion Hc; subst; [eapply M; eassumption | reflexivity].
  - destruct IHe as [M S]. split; [|apply sim_setx; exact S].
    intros c r c' Hc Ht. cbn [compile] in Hc. destruct (compile e c) as [r1 c1] eqn:E.
    destruct (plain_assign r1); inversion Hc; subst; [eapply M; eassumption | reflexivity].
  - destruct (Forall_split2 _ _ _ H) as [HM HS]. split; [|apply sim_bool; assumption].
    intros c r c' Hc Ht. destruct es as [|e0 es]; [cbn [compile] in Hc; inversion Hc; subst; exact Ht|].
    inversion HM as [|? ? M0 Mes]; subst.
    rewrite compile_bool_cons in Hc. destruct (compile e0 c) as [r0 c0] eqn:E0.
    destruct (ccops es c0 None) as [[ops var] c1] eqn:Eo. inversion Hc; subst.
    eapply ccops_mono; [exact Mes | exact Eo | eapply M0; eassumption].
  - destruct IHe as [M S]. split; [|apply sim_not; exact S].
    intros c r c' Hc Ht. cbn [compile] in Hc. destruct (compile e c) as [r1 c1] eqn:E. inversion Hc; subst. eapply M; eassumption.
  - destruct IHe1 as [M1 S1]. destruct IHe2 as [M2 S2]. destruct IHe3 as [M3 S3].
    split; [|apply sim_if; assumption].
    intros c r c' Hc Ht. cbn [compile] in Hc.
    destruct (compile e1 c) as [rc c1] eqn:Ec. destruct (compile e2 c1) as [ra c2] eqn:Ea.
    destruct (compile e3 c2) as [rb c3] eqn:Eb.
    assert (H3 : snd c3 = true) by (eapply M3; [eassumption|]; eapply M2; [eassumption|]; eapply M1; eassumption).
    destruct (rs ra), (rs rb); inversion Hc; subst; exact H3.
  - destruct IHe as [Mc Sc]. destruct (Forall_split2 _ _ _ H) as [Mb Sb]. destruct (Popt_split2 _ _ _ H0) as [Mo So].
    split; [apply mono_while | apply sim_while]; assumption.
  - split; [|apply sim_break]. intros c r c' Hc Ht. cbn [compile] in Hc; inversion Hc; subst; exact Ht.
  - split; [|apply sim_continue]. intros c r c' Hc Ht. cbn [compile] in Hc; inversion Hc; subst; exact Ht.
  - destruct IHe as [M S]. split; [|apply sim_raise; exact S].
    intros c r c' Hc Ht. cbn [compile] in Hc. destruct (compile e c) as [r1 c1] eqn:E. inversion Hc; subst. eapply M; eassumption.
  - destruct (Forall_split2 _ _ _ H) as [Mb Sb]. destruct (Popt_split2 _ _ _ H1) as [Mo So]. destruct (Popt_split2 _ _ _ H2) as [Mf Sf].
    assert (Hh : Forall (fun hb => Forall mono (snd hb)) hs /\ Forall (fun hb => Forall sim (snd hb)) hs).
    { clear -H0. induction H0 as [|hb l Hb _ [IH1 IH2]]; [split; constructor|].
      destruct (Forall_split2 _ _ _ Hb). split; constructor; assumption. }
    destruct Hh as [Mh Sh].
    split; [apply mono_try | apply sim_try]; assumption.
Qed.

End Layer3.
