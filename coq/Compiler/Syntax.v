(* Values, names, the Python target fragment and the Hy source fragment of the
   compiler model (C01 C02 C09 C12). *)
From Coq Require Export List ZArith Bool Arith Lia.
Export ListNotations.

(* Python identifiers of the compiled code: user names (after mangling) and
   the compiler's temporaries _hy_anon_var_<n>. *)
Inductive ident := U (n : nat) | T (n : nat).
Definition ident_eqb (a b : ident) : bool :=
  match a, b with U x, U y => Nat.eqb x y | T x, T y => Nat.eqb x y | _, _ => false end.
Lemma ident_eqb_spec a b : reflect (a = b) (ident_eqb a b).
Proof. destruct a as [n|n], b as [m|m]; simpl; try (constructor; congruence);
  destruct (Nat.eqb_spec n m); constructor; congruence. Qed.
Lemma ident_eqb_refl a : ident_eqb a a = true.
Proof. destruct (ident_eqb_spec a a); congruence. Qed.

Definition exn := nat.                      (* exception classes *)
Definition type_error : exn := 0%nat.       (* raised by `raise` of a non-exception *)

Inductive val := VNone | VBool (b : bool) | VInt (z : Z) | VExn (c : exn).
Definition truthy (v : val) : bool :=
  match v with VNone => false | VBool b => b | VInt z => negb (Z.eqb z 0) | VExn _ => true end.
Definition raise_of (v : val) : exn := match v with VExn c => c | _ => type_error end.

Definition store := ident -> val.
Definition upd (s : store) (x : ident) (v : val) : store :=
  fun y => if ident_eqb y x then v else s y.
Definition trace := list nat.

(* ---------------- target ---------------- *)
Inductive htypes := HAll | HOne (c : exn) | HMany (cs : list exn).

Inductive pexpr :=
| PConst (v : val)
| PName (x : ident)
| PCls (c : exn)                        (* a Name that denotes an exception class (never assigned) *)
| PBoolOp (isand : bool) (es : list pexpr)
| PNot (e : pexpr)
| PLog (k : nat) (e : pexpr)            (* the call log(k, e): an effect point that may raise *)
| PIfExp (c a b : pexpr)
| PNamed (x : ident) (e : pexpr).       (* x := e *)

Inductive pstmt :=
| SAssign (x : ident) (e : pexpr)
| SExpr (e : pexpr)
| SIf (c : pexpr) (a b : list pstmt)
| SWhile (c : pexpr) (body orelse : list pstmt)
| SBreak | SContinue | SPass
| SRaise (e : pexpr)
| STry (body : list pstmt) (handlers : list (htypes * list pstmt)) (orelse final : list pstmt).

(* ---------------- source ---------------- *)
Inductive hexpr :=
| HConst (v : val)
| HVar (n : nat)
| HLog (k : nat) (e : hexpr)            (* (log k e) *)
| HDo (es : list hexpr)
| HSetv (n : nat) (e : hexpr)
| HSetx (n : nat) (e : hexpr)
| HBool (isand : bool) (es : list hexpr)
| HNot (e : hexpr)
| HIf (c a b : hexpr)
| HWhile (c : hexpr) (body : list hexpr) (orelse : option (list hexpr))
| HBreak | HContinue
| HRaise (e : hexpr)
| HTry (body : list hexpr) (handlers : list (htypes * list hexpr))
       (orelse final : option (list hexpr)).
