(* Named versions of the local fixpoints of [compile], their unfolding
   equations, the induction principle for the nested source syntax, and
   monotonicity of the compiler state. *)
From HyV Require Import Compiler.Syntax Compiler.Compile.

Fixpoint cbranch (es : list hexpr) (acc : result) (last : option result) (c : cst) : result * cst :=
  match es with
  | [] => (acc, c)
  | x :: r =>
      let acc1 := match last with Some l => radd acc (expr_as_stmt l) | None => acc end in
      let '(rx, c1) := compile x c in
      cbranch r (radd acc1 rx) (Some rx) c1
  end.

Fixpoint ccops (es : list hexpr) (c : cst) (var : option ident) : list result * option ident * cst :=
  match es with
  | [] => ([], var, c)
  | x :: r =>
      let '(rx, c1) := compile x c in
      let '(var1, c2) := match var, rs rx with
                         | None, _ :: _ => (Some (tmp (bump c1)), bump c1)
                         | _, _ => (var, c1)
                         end in
      let '(xs, var2, c3) := ccops r c2 var1 in
      (rx :: xs, var2, c3)
  end.

Lemma compile_do es c : compile (HDo es) c = cbranch es rempty None c.
Proof.
  cbn [compile]. generalize rempty (@None result). revert c.
  induction es as [|x r IH]; intros c acc last; [reflexivity|]. cbn [cbranch].
  destruct (compile x c) as [rx c1]. apply IH.
Qed.

Lemma compile_bool_cons isand e0 es c :
  compile (HBool isand (e0 :: es)) c =
  let '(r0, c0) := compile e0 c in
  let '(ops, var, c') := ccops es c0 None in
  (bool_result isand r0 ops var, c').
Proof.
  cbn [compile]. destruct (compile e0 c) as [r0 c0].
  assert (E : forall es c var,
    (fix cops (es : list hexpr) (c : cst) (var : option ident) {struct es} : list result * option ident * cst :=
       match es with
       | [] => ([], var, c)
       | x :: r =>
           let '(rx, c1) := compile x c in
           let '(var1, c2) := match var, rs rx with
                              | None, _ :: _ => (Some (tmp (bump c1)), bump c1)
                              | _, _ => (var, c1)
                              end in
           let '(xs, var2, c3) := cops r c2 var1 in
           (rx :: xs, var2, c3)
       end) es c var = ccops es c var).
  { clear. induction es as [|x r IH]; intros c var; [reflexivity|]. cbn [ccops].
    destruct (compile x c) as [rx c1].
    destruct (match var, rs rx with None, _ :: _ => (Some (tmp (bump c1)), bump c1) | _, _ => (var, c1) end) as [var1 c2].
    rewrite IH. reflexivity. }
  rewrite E. reflexivity.
Qed.

(* ---- induction principle ---- *)
Section Ind.
  Variable P : hexpr -> Prop.
  Definition Popt (o : option (list hexpr)) : Prop := match o with Some l => Forall P l | None => True end.
  Hypothesis Hconst : forall v, P (HConst v).
  Hypothesis Hvar : forall n, P (HVar n).
  Hypothesis Hlog : forall k e, P e -> P (HLog k e).
  Hypothesis Hdo : forall es, Forall P es -> P (HDo es).
  Hypothesis Hsetv : forall n e, P e -> P (HSetv n e).
  Hypothesis Hsetx : forall n e, P e -> P (HSetx n e).
  Hypothesis Hbool : forall b es, Forall P es -> P (HBool b es).
  Hypothesis Hnot : forall e, P e -> P (HNot e).
  Hypothesis Hif : forall c a b, P c -> P a -> P b -> P (HIf c a b).
  Hypothesis Hwhile : forall c body o, P c -> Forall P body -> Popt o -> P (HWhile c body o).
  Hypothesis Hbreak : P HBreak.
  Hypothesis Hcontinue : P HContinue.
  Hypothesis Hraise : forall e, P e -> P (HRaise e).
  Hypothesis Htry : forall body hs o f, Forall P body -> Forall (fun hb => Forall P (snd hb)) hs -> Popt o -> Popt f ->
                                        P (HTry body hs o f).

  Fixpoint hexpr_ind' (e : hexpr) : P e :=
    let all := fix all (l : list hexpr) : Forall P l :=
      match l with [] => Forall_nil _ | x :: r => Forall_cons _ (hexpr_ind' x) (all r) end in
    let opt := fun (o : option (list hexpr)) =>
      match o return Popt o with Some l => all l | None => I end in
    match e with
    | HConst v => Hconst v
    | HVar n => Hvar n
    | HLog k e => Hlog k e (hexpr_ind' e)
    | HDo es => Hdo es (all es)
    | HSetv n e => Hsetv n e (hexpr_ind' e)
    | HSetx n e => Hsetx n e (hexpr_ind' e)
    | HBool b es => Hbool b es (all es)
    | HNot e => Hnot e (hexpr_ind' e)
    | HIf c a b => Hif c a b (hexpr_ind' c) (hexpr_ind' a) (hexpr_ind' b)
    | HWhile c body o => Hwhile c body o (hexpr_ind' c) (all body) (opt o)
    | HBreak => Hbreak
    | HContinue => Hcontinue
    | HRaise e => Hraise e (hexpr_ind' e)
    | HTry body hs o f =>
        Htry body hs o f (all body)
          ((fix allh (l : list (htypes * list hexpr)) : Forall (fun hb => Forall P (snd hb)) l :=
              match l with [] => Forall_nil _ | hb :: r => Forall_cons _ (all (snd hb)) (allh r) end) hs)
          (opt o) (opt f)
    end.
End Ind.

(* ---- while / try ---- *)
Definition ctwo (o : list hexpr) : list hexpr -> result -> option result -> cst -> result * cst :=
  fix two (es : list hexpr) (acc : result) (last : option result) (c : cst) {struct es} : result * cst :=
  match es with
  | [] => cbranch o acc last c
  | x :: r =>
      let acc1 := match last with Some l => radd acc (expr_as_stmt l) | None => acc end in
      let '(rx, c1) := compile x c in
      two r (radd acc1 rx) (Some rx) c1
  end.
Lemma ctwo_nil o acc last c : ctwo o [] acc last c = cbranch o acc last c.
Proof. reflexivity. Qed.
Lemma ctwo_cons o x r acc last c :
  ctwo o (x :: r) acc last c =
  let acc1 := match last with Some l => radd acc (expr_as_stmt l) | None => acc end in
  let '(rx, c1) := compile x c in ctwo o r (radd acc1 rx) (Some rx) c1.
Proof. reflexivity. Qed.

Definition cchs (rv : ident) : list (htypes * list hexpr) -> cst -> list (htypes * list pstmt) * cst :=
  fix chs (hs : list (htypes * list hexpr)) (c : cst) {struct hs} : list (htypes * list pstmt) * cst :=
  match hs with
  | [] => ([], c)
  | (ty, eb) :: r =>
      let '(reb, c1) := cbranch eb rempty None c in
      let '(rest, c2) := chs r c1 in
      ((ty, rs reb ++ [SAssign rv (force reb)]) :: rest, c2)
  end.
Lemma cchs_nil rv c : cchs rv [] c = ([], c).
Proof. reflexivity. Qed.
Lemma cchs_cons rv ty eb r c :
  cchs rv ((ty, eb) :: r) c =
  let '(reb, c1) := cbranch eb rempty None c in
  let '(rest, c2) := cchs rv r c1 in
  ((ty, rs reb ++ [SAssign rv (force reb)]) :: rest, c2).
Proof. reflexivity. Qed.

Lemma compile_while cnd body orelse c :
  compile (HWhile cnd body orelse) c =
  let '(rc, c1) := compile cnd c in
  let '(rb0, c2) := cbranch body rempty None c1 in
  let body_stmts := or_pass (rs (radd rb0 (expr_as_stmt rb0))) in
  let '(rc', body', c3) :=
    match rs rc with
    | [] => (rc, body_stmts, c2)
    | _ => let v := tmp (bump c2) in
           (R [SAssign v (PConst (VBool true))] (Some (PName v)) [],
            rs rc ++ [SAssign v (PNot (PNot (force rc))); SIf (PName v) body_stmts []],
            bump c2)
    end in
  let '(orel, c4) :=
    match orelse with
    | None => ([], c3)
    | Some o => let '(ro, c4) := cbranch o rempty None c3 in (rs (radd ro (expr_as_stmt ro)), c4)
    end in
  (R (rs rc' ++ [SWhile (force rc') body' orel]) None [], c4).
Proof. reflexivity. Qed.

Lemma compile_try body handlers orelse final c :
  compile (HTry body handlers orelse final) c =
  let '(rb, c1) :=
    match handlers, orelse with
    | [], Some o => ctwo o body rempty None c
    | _, _ => cbranch body rempty None c
    end in
  match handlers, final with
  | [], None | [], Some [] => (rb, c1)
  | _, _ =>
      let rv := tmp (bump c1) in
      let '(hs, c2) := cchs rv handlers (bump c1) in
      let '(orel, c3) :=
        match handlers, orelse with
        | _ :: _, Some o =>
            match o with
            | [] => ([], c2)
            | _ => let '(ro, c3) := cbranch o rempty None c2 in (rs ro ++ [SAssign rv (force ro)], c3)
            end
        | _, _ => ([], c2)
        end in
      let '(fin, c4) :=
        match final with
        | None => ([], c3)
        | Some f => let '(rf, c4) := cbranch f rempty None c3 in (or_pass (rs (radd rf (expr_as_stmt rf))), c4)
        end in
      let body_stmts :=
        or_pass (match orel with
                 | [] => rs rb ++ [SAssign rv (force rb)]
                 | _ => rs (radd rb (expr_as_stmt rb))
                 end) in
      (R [STry body_stmts hs orel fin] (Some (PName rv)) [(rv, true)], c4)
  end.
Proof. reflexivity. Qed.
