(* The reference semantics of and/or restated in the words of property C02,
   for operands that each log one effect and yield one value. *)
From HyV Require Import Compiler.Syntax Compiler.PySem Compiler.HySem Compiler.HyFacts.

Definition operand (kv : nat * val) : hexpr := HLog (fst kv) (HConst (snd kv)).

(* the operands that get evaluated: up to and including the first one whose truth value stops the scan *)
Fixpoint evaluated (isand : bool) (l : list (nat * val)) : list (nat * val) :=
  match l with
  | [] => []
  | kv :: r => if Bool.eqb (truthy (snd kv)) isand then kv :: evaluated isand r else [kv]
  end.
Definition and_or_value (isand : bool) (l : list (nat * val)) : val :=
  match rev (evaluated isand l) with
  | kv :: _ => snd kv
  | [] => if isand then VBool true else VNone
  end.

Section Ref.
Variable issub : exn -> exn -> bool.
Definition nofault : nat -> option exn := fun _ => None.

Lemma hops_operands rec isand l : forall acc s t,
  hops nofault issub rec isand (map operand l) acc s t =
  (HV (if Bool.eqb (truthy acc) isand then match rev (evaluated isand l) with kv :: _ => snd kv | [] => acc end else acc),
   s, t ++ (if Bool.eqb (truthy acc) isand then map fst (evaluated isand l) else [])).
Proof.
  induction l as [|[k v] r IH]; intros acc s t.
  - cbn. destruct (Bool.eqb (truthy acc) isand); rewrite app_nil_r; reflexivity.
  - cbn [map HyFacts.hops operand fst snd]. destruct (Bool.eqb (truthy acc) isand) eqn:E.
    + unfold operand at 1. cbn [fst snd]. rewrite heval1_log, heval1_const. cbn [bindV]. unfold log_k, nofault. cbn [bindV].
      rewrite IH. cbn [evaluated fst snd]. destruct (Bool.eqb (truthy v) isand) eqn:Ev.
      * cbn [rev map fst]. rewrite <- app_assoc. cbn [app].
        destruct (rev (evaluated isand r)) eqn:Er; cbn [app]; [reflexivity|].
        destruct l; reflexivity.
      * cbn. rewrite app_nil_r. reflexivity.
    + rewrite app_nil_r. reflexivity.
Qed.

(* (and e1 ... en) / (or e1 ... en): the value is that of the first operand that is falsy / truthy, or else
   of the last; (and) is True, (or) is None; exactly the operands up to that one run, in order. *)
Theorem and_or_reference fuel isand l s t :
  heval nofault issub fuel (HBool isand (map operand l)) s t =
  (HV (and_or_value isand l), s, t ++ map fst (evaluated isand l)).
Proof.
  rewrite heval_rec. destruct l as [|[k v] r].
  - cbn. rewrite app_nil_r. reflexivity.
  - cbn [map]. unfold operand at 1. cbn [fst snd]. rewrite heval1_bool_cons, heval1_log, heval1_const. cbn [bindV].
    unfold log_k, nofault. cbn [bindV]. rewrite hops_operands. unfold and_or_value. cbn [evaluated fst snd].
    destruct (Bool.eqb (truthy v) isand).
    + cbn [rev map fst]. rewrite <- app_assoc. cbn [app].
      destruct (rev (evaluated isand r)) eqn:Er; cbn [app]; [reflexivity|]. destruct l; reflexivity.
    + cbn. rewrite app_nil_r. reflexivity.
Qed.
End Ref.
