(* Simulation proof, layer 1: const var log do setv setx and/or not if raise,
   with effect points that may raise (any fault oracle), in any nesting. *)
From HyV Require Import Compiler.Syntax Compiler.PySem Compiler.HySem Compiler.Compile
  Compiler.PyFacts Compiler.HyFacts Compiler.Sim Compiler.Named.

(* ---- generic facts about the continuation combinators ---- *)
Lemma bindV_id a : bindV a (fun v s t => (HV v, s, t)) = a.
Proof. destruct a as [[[] ?] ?]; reflexivity. Qed.
Lemma bindV_assoc a k k' : bindV (bindV a k) k' = bindV a (fun v s t => bindV (k v s t) k').
Proof. destruct a as [[[] ?] ?]; reflexivity. Qed.
Lemma bindV_ext a k k' : (forall v s t, k v s t = k' v s t) -> bindV a k = bindV a k'.
Proof. intros E. destruct a as [[[] ?] ?]; try reflexivity. apply E. Qed.
Lemma thenS_bindV x (A : store -> trace -> H) K :
  thenS x (fun s t => bindV (A s t) K) = bindV (thenS x A) K.
Proof. destruct x as [[[] ?] ?]; reflexivity. Qed.
Lemma thenS_ext x k k' : (forall s t, k s t = k' s t) -> thenS x k = thenS x k'.
Proof. intros E. destruct x as [[[] ?] ?]; try reflexivity. apply E. Qed.

Section Layer1.
Variable fault : nat -> option exn.
Variable issub : exn -> exn -> bool.
Notation peval := (peval fault).
Notation prun1 := (prun1 fault issub).
Notation heval1 := (heval1 fault issub).
Notation run := (run fault issub).
Notation runb := (runb fault issub).
Notation hrec_of := (hrec_of fault issub).
Notation rec_of := (rec_of fault issub).
Notation hseq := (hseq fault issub).
Notation hops := (hops fault issub).

Definition hrec_at (l : lvl) := hrec_of (ln l).
Definition rec_at (l : lvl) := rec_of (tfuel l).
Definition simr (e : hexpr) (r : result) : Prop :=
  forall fuel s s' t, eqU s s' -> rel (heval1 (hrec_at fuel) e s t) (run (rec_at fuel) r s' t).
Definition sim (e : hexpr) : Prop :=
  forall c r c', compile e c = (r, c') -> snd c' = false -> simr e r.
Definition mono (e : hexpr) : Prop :=
  forall c r c', compile e c = (r, c') -> snd c = true -> snd c' = true.

(* ---- a result followed by its expr_as_stmt ---- *)
Lemma eas_cases r :
  rs (expr_as_stmt r) = [SExpr (force r)] \/
  (rs (expr_as_stmt r) = [] /\ forall s t, exists v, peval (force r) s t = (EV v, s, t)).
Proof.
  unfold expr_as_stmt, force. destruct (re r) as [e|].
  - destruct e; try (left; reflexivity).
    + destruct (rs r); [left; reflexivity | right; split; [reflexivity | intros s t; eexists; reflexivity]].
    + destruct (rs r); [left; reflexivity | right; split; [reflexivity | intros s t; eexists; reflexivity]].
  - right. split; [reflexivity | intros s t; eexists; reflexivity].
Qed.

Lemma then_eas rec r rest k s t :
  thenS (prun1 rec (rs r ++ rs (expr_as_stmt r) ++ rest) s t) k =
  bindV (run rec r s t) (fun _ s1 t1 => thenS (prun1 rec rest s1 t1) k).
Proof.
  destruct (eas_cases r) as [E | [E Hp]]; rewrite E.
  - cbn [app]. apply then_expr.
  - cbn [app]. rewrite thenS_app. unfold run, thenS at 1 3.
    destruct (prun1 rec (rs r) s t) as [[[] s1] t1]; try reflexivity.
    destruct (Hp s1 t1) as [v Hv]. rewrite Hv. reflexivity.
Qed.

(* ---- do ---- *)
Lemma cbranch_sim es : Forall sim es -> Forall mono es ->
  forall (lsrc : hexpr) (l : result) pre c r c',
  cbranch es (R (pre ++ rs l) (re l) (rt l)) (Some l) c = (r, c') -> snd c' = false ->
  simr lsrc l ->
  snd c = false /\
  exists tail, rs r = pre ++ tail /\
    forall fuel s s' t, eqU s s' ->
      rel (bindV (heval1 (hrec_at fuel) lsrc s t) (fun v s1 t1 => hseq (hrec_at fuel) es v s1 t1))
          (runb (rec_at fuel) tail (force r) s' t).
Proof.
  intros Hsim Hmono. induction es as [|x es IH]; intros lsrc l pre c r c' Hc Hfl Hl.
  - cbn [cbranch] in Hc. inversion Hc; subst. split; [exact Hfl|]. exists (rs l). split; [reflexivity|].
    intros fuel s s' t Hs. cbn [hseq]. rewrite bindV_id. apply Hl. exact Hs.
  - inversion Hsim as [|? ? Hx Hes]; subst. inversion Hmono as [|? ? Mx Mes]; subst.
    cbn [cbranch] in Hc. destruct (compile x c) as [rx c1] eqn:Ex.
    specialize (IH Hes Mes x rx (pre ++ rs l ++ rs (expr_as_stmt l)) c1 r c').
    assert (Hacc : radd (radd (R (pre ++ rs l) (re l) (rt l)) (expr_as_stmt l)) rx
                   = R ((pre ++ rs l ++ rs (expr_as_stmt l)) ++ rs rx) (re rx) (rt rx)).
    { unfold radd. cbn [rs re rt]. rewrite <- !app_assoc. reflexivity. }
    rewrite Hacc in Hc. specialize (IH Hc Hfl).
    assert (Hc1 : snd c1 = false -> simr x rx) by (intros F; exact (Hx c rx c1 Ex F)).
    assert (Hfl1 : snd c1 = false).
    { destruct (snd c1) eqn:F; [|reflexivity]. exfalso.
      (* the flag never goes back to false *)
      assert (G : forall es acc last c r c', Forall mono es -> cbranch es acc last c = (r, c') -> snd c = true -> snd c' = true).
      { clear. induction es as [|y es IHes]; intros acc last c r c' HM Hc Ht; cbn [cbranch] in Hc.
        - inversion Hc; subst; exact Ht.
        - inversion HM; subst. destruct (compile y c) as [ry cy] eqn:Ey. eapply IHes; [eassumption | exact Hc | eapply H1; eassumption]. }
      rewrite (G _ _ _ _ _ _ Mes Hc F) in Hfl. discriminate. }
    destruct (IH (Hc1 Hfl1)) as [_ [tail [Hrs Hrel]]].
    split. { destruct (snd c) eqn:F; [|reflexivity]. rewrite (Mx _ _ _ Ex F) in Hfl1. discriminate. }
    exists (rs l ++ rs (expr_as_stmt l) ++ tail). split; [rewrite Hrs, <- !app_assoc; reflexivity|].
    intros fuel s s' t Hs. unfold runb. rewrite then_eas. cbn [hseq].
    apply rel_bindV; [apply Hl; exact Hs|]. intros v s1 s1' t1 Hs1. apply Hrel. exact Hs1.
Qed.

(* ---- and / or ---- *)
Section BoolOp.
Variable isand : bool.

Lemma hops_stuck rec es acc s t : Bool.eqb (truthy acc) isand = false -> hops rec isand es acc s t = (HV acc, s, t).
Proof. intros E. destruct es; [reflexivity|]. cbn [HyFacts.hops]. rewrite E. reflexivity. Qed.

Definition kx rec (x : hexpr) : val -> store -> trace -> H :=
  fun a s t => if Bool.eqb (truthy a) isand then heval1 rec x s t else (HV a, s, t).

Lemma hops_snoc rec x es : forall acc s t,
  hops rec isand (es ++ [x]) acc s t = bindV (hops rec isand es acc s t) (kx rec x).
Proof.
  induction es as [|y r IH]; intros acc s t.
  - cbn [app HyFacts.hops bindV]. unfold kx. destruct (Bool.eqb (truthy acc) isand); [|reflexivity].
    apply bindV_id.
  - cbn [app HyFacts.hops]. destruct (Bool.eqb (truthy acc) isand) eqn:E.
    + rewrite bindV_assoc. apply bindV_ext. intros v s1 t1. apply IH.
    + cbn [bindV]. unfold kx. rewrite E. reflexivity.
Qed.

Lemma hops_cons_via_kx rec x es a s t :
  hops rec isand (x :: es) a s t = bindV (kx rec x a s t) (fun v s1 t1 => hops rec isand es v s1 t1).
Proof.
  cbn [HyFacts.hops]. unfold kx. destruct (Bool.eqb (truthy a) isand) eqn:E; [reflexivity|].
  cbn [bindV]. symmetry. apply hops_stuck. exact E.
Qed.

Lemma hall_step rec (A : H) pes x es :
  bindV (bindV A (fun v s t => hops rec isand pes v s t)) (fun a s t => hops rec isand (x :: es) a s t) =
  bindV (bindV A (fun v s t => hops rec isand (pes ++ [x]) v s t)) (fun a s t => hops rec isand es a s t).
Proof.
  rewrite (bindV_ext A (fun v s t => hops rec isand (pes ++ [x]) v s t)
                       (fun v s t => bindV (hops rec isand pes v s t) (kx rec x))) by (intros; apply hops_snoc).
  rewrite <- (bindV_assoc A). rewrite (bindV_assoc (bindV A _) (kx rec x)).
  apply bindV_ext. intros a s t. apply hops_cons_via_kx.
Qed.

(* target side: appending an operand to a BoolOp *)
Lemma pbool_snoc e : forall l, l <> [] -> forall s t,
  pbool_go fault isand (l ++ [e]) s t =
  bindE (pbool_go fault isand l s t)
        (fun v s1 t1 => if Bool.eqb (truthy v) isand then peval e s1 t1 else (EV v, s1, t1))
        (fun x s1 t1 => (EX x, s1, t1)).
Proof.
  induction l as [|a l IH]; intros Hne s t; [congruence|]. destruct l as [|b l'].
  - cbn [app pbool_go]. unfold bindE. destruct (peval a s t) as [[[v|x] s1] t1]; reflexivity.
  - change ((a :: b :: l') ++ [e]) with (a :: ((b :: l') ++ [e])).
    rewrite pbool_cons by (destruct l'; discriminate). rewrite (pbool_cons fault isand a (b :: l')) by discriminate.
    unfold bindE at 1 3. destruct (peval a s t) as [[[v|x] s1] t1]; [|reflexivity].
    destruct (Bool.eqb (truthy v) isand) eqn:E; [apply IH; discriminate | cbn [bindE]; rewrite E; reflexivity].
Qed.

Definition ke (e : pexpr) : val -> store -> trace -> H :=
  fun a s t => if Bool.eqb (truthy a) isand then ofE (peval e s t) else (HV a, s, t).

Lemma mkbool_snoc first rest e s t :
  ofE (peval (mkbool isand first (rest ++ [e])) s t) = bindV (ofE (peval (mkbool isand first rest) s t)) (ke e).
Proof.
  unfold mkbool. destruct rest as [|b rest'].
  - cbn [app]. rewrite peval_bool. cbn [pbool_go]. unfold ofE, ke.
    destruct (peval first s t) as [[[v|x] s1] t1]; [|reflexivity]. cbn [bindV of_e].
    destruct (Bool.eqb (truthy v) isand); reflexivity.
  - destruct ((b :: rest') ++ [e]) eqn:E; [destruct rest'; discriminate|]. rewrite <- E.
    rewrite !peval_bool. change (first :: (b :: rest') ++ [e]) with ((first :: b :: rest') ++ [e]).
    rewrite pbool_snoc by discriminate. unfold bindE, ofE, ke.
    destruct (pbool_go fault isand (first :: b :: rest') s t) as [[[v|x] s1] t1]; [|reflexivity].
    cbn [bindV of_e]. destruct (Bool.eqb (truthy v) isand); reflexivity.
Qed.

Definition simQ (e0 : hexpr) (pes : list hexpr) (pl : list pstmt) (P : pexpr) : Prop :=
  forall fuel s s' t, eqU s s' ->
    rel (bindV (heval1 (hrec_at fuel) e0 s t) (fun v s1 t1 => hops (hrec_at fuel) isand pes v s1 t1))
        (runb (rec_at fuel) pl P s' t).

Lemma simQ_pure e0 pes pl first rest x rx :
  simQ e0 pes pl (mkbool isand first rest) -> simr x rx -> rs rx = [] ->
  simQ e0 (pes ++ [x]) pl (mkbool isand first (rest ++ [force rx])).
Proof.
  intros HQ Hx Hp fuel s s' t Hs.
  rewrite (bindV_ext _ (fun v s1 t1 => hops (hrec_at fuel) isand (pes ++ [x]) v s1 t1)
                       (fun v s1 t1 => bindV (hops (hrec_at fuel) isand pes v s1 t1) (kx (hrec_at fuel) x)))
    by (intros; apply hops_snoc).
  rewrite <- bindV_assoc. unfold runb.
  rewrite (thenS_ext _ _ (fun s1 t1 => bindV (ofE (peval (mkbool isand first rest) s1 t1)) (ke (force rx))))
    by (intros; apply mkbool_snoc).
  rewrite thenS_bindV. apply rel_bindV; [apply HQ; exact Hs|].
  intros v s1 s1' t1 Hs1. unfold kx, ke. destruct (Bool.eqb (truthy v) isand); [|apply rel_mk; exact Hs1].
  rewrite <- (run_pure fault issub (rec_at fuel) rx s1' t1 Hp). apply Hx. exact Hs1.
Qed.

Lemma simQ_pures es ops : Forall2 simr es ops -> Forall (fun r => rs r = []) ops ->
  forall e0 pes pl first rest, simQ e0 pes pl (mkbool isand first rest) ->
  simQ e0 (pes ++ es) pl (mkbool isand first (rest ++ map force ops)).
Proof.
  intros F2. induction F2 as [|x rx es ops Hx _ IH]; intros Hp e0 pes pl first rest HQ.
  - cbn [map]. rewrite !app_nil_r. exact HQ.
  - inversion Hp; subst. cbn [map].
    replace (pes ++ x :: es) with ((pes ++ [x]) ++ es) by (rewrite <- app_assoc; reflexivity).
    replace (rest ++ force rx :: map force ops) with ((rest ++ [force rx]) ++ map force ops) by (rewrite <- app_assoc; reflexivity).
    apply IH; [assumption|]. apply simQ_pure; assumption.
Qed.

Lemma then_one_if rec c body k s t cv :
  peval c s t = (EV cv, s, t) ->
  thenS (prun1 rec [SIf c body []] s t) k = if truthy cv then thenS (prun1 rec body s t) k else k s t.
Proof.
  intros E. rewrite prun1_cons, pexec1_if, E. cbn [bindE]. destruct (truthy cv).
  - unfold bindS, thenS. destruct (prun1 rec body s t) as [[[] ?] ?]; reflexivity.
  - reflexivity.
Qed.

Lemma build_sim n es ops : Forall2 simr es ops ->
  forall e0 pes pl first rest, simQ e0 pes pl (mkbool isand first rest) ->
  forall fuel s s' t, eqU s s' ->
    rel (bindV (bindV (heval1 (hrec_at fuel) e0 s t) (fun v s1 t1 => hops (hrec_at fuel) isand pes v s1 t1))
               (fun acc s1 t1 => hops (hrec_at fuel) isand es acc s1 t1))
        (thenS (prun1 (rec_at fuel) (pl ++ build isand (T n) first rest ops) s' t)
               (fun s1 t1 => ofE (peval (PName (T n)) s1 t1))).
Proof.
  intros F2. induction F2 as [|x r es ops Hx _ IH]; intros e0 pes pl first rest HQ fuel s s' t Hs.
  - cbn [build].
    rewrite (then_assign fault issub (rec_at fuel) (R pl (Some (mkbool isand first rest)) []) (T n) []).
    apply rel_bindV; [apply HQ; exact Hs|]. intros a s1 s1' t1 Hs1.
    cbn [HyFacts.hops prun1 thenS ofE PySem.peval of_e]. unfold upd at 1. rewrite ident_eqb_refl.
    apply rel_mk. apply eqU_updT. exact Hs1.
  - cbn [build]. destruct (rs r) as [|st l] eqn:Er.
    + rewrite hall_step. apply IH; [|exact Hs]. apply simQ_pure; assumption.
    + rewrite <- Er.
      rewrite (then_assign fault issub (rec_at fuel) (R pl (Some (mkbool isand first rest)) []) (T n)).
      apply rel_bindV; [apply HQ; exact Hs|]. intros a s1 s1' t1 Hs1.
      assert (Hc : peval (cond_of isand (T n)) (upd s1' (T n) a) t1
                   = (EV (if isand then a else VBool (negb (truthy a))), upd s1' (T n) a, t1)).
      { unfold cond_of. destruct isand; cbn [PySem.peval]; unfold upd at 1; rewrite ident_eqb_refl; reflexivity. }
      rewrite (then_one_if _ _ _ _ _ _ _ Hc).
      assert (Ht : truthy (if isand then a else VBool (negb (truthy a))) = Bool.eqb (truthy a) isand).
      { destruct isand; cbn [truthy]; destruct (truthy a); reflexivity. }
      rewrite Ht. cbn [HyFacts.hops]. destruct (Bool.eqb (truthy a) isand).
      * assert (HQ' : simQ x [] (rs r) (mkbool isand (force r) [])).
        { intros fuel0 s0 s0' t0 Hs0. cbn [HyFacts.hops]. rewrite bindV_id. apply Hx. exact Hs0. }
        specialize (IH x [] (rs r) (force r) [] HQ' fuel s1 (upd s1' (T n) a) t1 (eqU_updT _ _ _ _ Hs1)).
        cbn [HyFacts.hops] in IH. rewrite bindV_id in IH. exact IH.
      * cbn [ofE PySem.peval of_e]. unfold upd at 1. rewrite ident_eqb_refl. apply rel_mk. apply eqU_updT. exact Hs1.
Qed.

End BoolOp.

(* ---- monotonicity of the ghost flag through the named loops ---- *)
Lemma cbranch_mono es : Forall mono es -> forall acc last c r c',
  cbranch es acc last c = (r, c') -> snd c = true -> snd c' = true.
Proof.
  induction es as [|y es IH]; intros HM acc last c r c' Hc Ht; cbn [cbranch] in Hc.
  - inversion Hc; subst; exact Ht.
  - inversion HM as [|? ? My Mes]; subst. destruct (compile y c) as [ry cy] eqn:Ey.
    eapply IH; [exact Mes | exact Hc | eapply My; eassumption].
Qed.

Lemma ccops_mono es : Forall mono es -> forall c var ops var' c',
  ccops es c var = (ops, var', c') -> snd c = true -> snd c' = true.
Proof.
  induction es as [|y es IH]; intros HM c var ops var' c' Hc Ht; cbn [ccops] in Hc.
  - inversion Hc; subst; exact Ht.
  - inversion HM as [|? ? My Mes]; subst. destruct (compile y c) as [ry cy] eqn:Ey.
    pose proof (My _ _ _ Ey Ht) as Hy.
    destruct (match var, rs ry with None, _ :: _ => (Some (tmp (bump cy)), bump cy) | _, _ => (var, cy) end) as [var1 c2] eqn:Ev.
    assert (H2 : snd c2 = true).
    { destruct var; [inversion Ev; subst; exact Hy|]. destruct (rs ry); inversion Ev; subst; exact Hy. }
    destruct (ccops es c2 var1) as [[xs var2] c3] eqn:Er. inversion Hc; subst.
    eapply IH; [exact Mes | exact Er | exact H2].
Qed.

Definition isTopt (v : option ident) : Prop := match v with None => True | Some x => exists n, x = T n end.

Lemma ccops_spec es : Forall sim es -> Forall mono es -> forall c var ops var' c',
  ccops es c var = (ops, var', c') -> snd c' = false -> isTopt var ->
  Forall2 simr es ops /\ snd c = false /\ isTopt var' /\
  (var' = None -> Forall (fun r => rs r = []) ops).
Proof.
  induction es as [|y es IH]; intros HS HM c var ops var' c' Hc Hf Hv; cbn [ccops] in Hc.
  - inversion Hc; subst. repeat split; auto.
  - inversion HS as [|? ? Sy Ses]; subst. inversion HM as [|? ? My Mes]; subst.
    destruct (compile y c) as [ry cy] eqn:Ey.
    destruct (match var, rs ry with None, _ :: _ => (Some (tmp (bump cy)), bump cy) | _, _ => (var, cy) end) as [var1 c2] eqn:Ev.
    destruct (ccops es c2 var1) as [[xs var2] c3] eqn:Er. inversion Hc; subst.
    assert (Hv1 : isTopt var1 /\ snd c2 = snd cy /\ (var1 = None -> rs ry = [] /\ var = None)).
    { destruct var as [v|]; [inversion Ev; subst; repeat split; auto; discriminate|].
      destruct (rs ry); inversion Ev; subst; repeat split; auto; try discriminate.
      eexists; reflexivity. }
    destruct Hv1 as [Hv1 [Hc2 Hn1]].
    destruct (IH Ses Mes _ _ _ _ _ Er Hf Hv1) as [F2 [Hf2 [Hv' Hp]]].
    assert (Hfy : snd cy = false) by (rewrite <- Hc2; exact Hf2).
    repeat split.
    + constructor; [exact (Sy _ _ _ Ey Hfy) | exact F2].
    + destruct (snd c) eqn:F; [|reflexivity]. rewrite (My _ _ _ Ey F) in Hfy. discriminate.
    + exact Hv'.
    + intros E. constructor; [|apply Hp; exact E].
      (* var' = None forces var1 = None *)
      assert (var1 = None).
      { destruct var1 as [v1|]; [|reflexivity]. exfalso.
        assert (G : forall es c v ops var' c', ccops es c (Some v) = (ops, var', c') -> var' = Some v).
        { clear. induction es as [|z es IHes]; intros c v ops var' c' Hc; cbn [ccops] in Hc.
          - inversion Hc; reflexivity.
          - destruct (compile z c) as [rz cz]. destruct (ccops es cz (Some v)) as [[xs v2] c3] eqn:E.
            inversion Hc; subst. eapply IHes; exact E. }
        rewrite (G _ _ _ _ _ _ Er) in E. discriminate. }
      apply Hn1. assumption.
Qed.

(* ---- the forms of layer 1 ---- *)
Fixpoint frag1 (e : hexpr) : bool :=
  match e with
  | HConst _ | HVar _ => true
  | HLog _ e | HSetv _ e | HSetx _ e | HNot e | HRaise e => frag1 e
  | HDo es | HBool _ es => (fix all (l : list hexpr) : bool := match l with [] => true | x :: r => frag1 x && all r end) es
  | HIf c a b => frag1 c && frag1 a && frag1 b
  | _ => false
  end.
Lemma frag1_all es :
  (fix all (l : list hexpr) : bool := match l with [] => true | x :: r => frag1 x && all r end) es = forallb frag1 es.
Proof. induction es as [|x r IH]; [reflexivity|]. cbn [forallb]. rewrite <- IH. reflexivity. Qed.

Lemma rel_id_bind a b k : rel a b -> (forall v s s' t, eqU s s' -> rel (HV v, s, t) (k v s' t)) -> rel a (bindV b k).
Proof. intros Hab Hk. rewrite <- (bindV_id a). apply rel_bindV; assumption. Qed.

Lemma sim_const v : sim (HConst v).
Proof.
  intros c r c' Hc _ fuel s s' t Hs. destruct v; cbn [compile] in Hc; inversion Hc; subst;
    rewrite heval1_const; unfold Sim.run; cbn; apply rel_mk; exact Hs.
Qed.

Lemma sim_var n : sim (HVar n).
Proof.
  intros c r c' Hc _ fuel s s' t Hs. cbn [compile] in Hc. inversion Hc; subst.
  rewrite heval1_var. unfold Sim.run. cbn. rewrite (Hs n). apply rel_mk. exact Hs.
Qed.

Lemma sim_log k e : sim e -> sim (HLog k e).
Proof.
  intros IH c r c' Hc Hf fuel s s' t Hs. cbn [compile] in Hc. destruct (compile e c) as [r1 c1] eqn:E.
  inversion Hc; subst. rewrite heval1_log, run_log. apply rel_bindV; [apply (IH _ _ _ E Hf); exact Hs|].
  intros v s1 s1' t1 Hs1. unfold log_k. destruct (fault k); apply rel_mk; exact Hs1.
Qed.

Lemma sim_not e : sim e -> sim (HNot e).
Proof.
  intros IH c r c' Hc Hf fuel s s' t Hs. cbn [compile] in Hc. destruct (compile e c) as [r1 c1] eqn:E.
  inversion Hc; subst. rewrite heval1_not, run_not. apply rel_bindV; [apply (IH _ _ _ E Hf); exact Hs|].
  intros v s1 s1' t1 Hs1. apply rel_mk; exact Hs1.
Qed.

Lemma sim_raise e : sim e -> sim (HRaise e).
Proof.
  intros IH c r c' Hc Hf fuel s s' t Hs. cbn [compile] in Hc. destruct (compile e c) as [r1 c1] eqn:E.
  inversion Hc; subst. rewrite heval1_raise. unfold Sim.run. cbn [rs force re].
  rewrite then_raise. apply rel_bindV; [apply (IH _ _ _ E Hf); exact Hs|].
  intros v s1 s1' t1 Hs1. apply rel_mk; exact Hs1.
Qed.

Lemma sim_setv n e : sim e -> sim (HSetv n e).
Proof.
  intros IH c r c' Hc Hf fuel s s' t Hs. cbn [compile] in Hc. destruct (compile e c) as [r1 c1] eqn:E.
  destruct (plain_assign r1) eqn:Et; inversion Hc; subst; [|cbn in Hf; discriminate].
  rewrite heval1_setv. unfold Sim.run. cbn [rs force re]. rewrite then_assign.
  apply rel_bindV; [apply (IH _ _ _ E Hf); exact Hs|].
  intros v s1 s1' t1 Hs1. cbn. apply rel_mk. apply eqU_upd. exact Hs1.
Qed.

Lemma sim_setx n e : sim e -> sim (HSetx n e).
Proof.
  intros IH c r c' Hc Hf fuel s s' t Hs. cbn [compile] in Hc. destruct (compile e c) as [r1 c1] eqn:E.
  destruct (plain_assign r1) eqn:Et; inversion Hc; subst; [|cbn in Hf; discriminate].
  rewrite heval1_setx, run_named. apply rel_bindV; [apply (IH _ _ _ E Hf); exact Hs|].
  intros v s1 s1' t1 Hs1. apply rel_mk. apply eqU_upd. exact Hs1.
Qed.

Lemma sim_do es : Forall sim es -> Forall mono es -> sim (HDo es).
Proof.
  intros HS HM c r c' Hc Hf fuel s s' t Hs. rewrite compile_do in Hc. rewrite heval1_do.
  destruct es as [|x es].
  - cbn [cbranch] in Hc. inversion Hc; subst. cbn. apply rel_mk; exact Hs.
  - inversion HS as [|? ? Sx Ses]; subst. inversion HM as [|? ? Mx Mes]; subst.
    cbn [cbranch] in Hc. destruct (compile x c) as [rx c1] eqn:Ex.
    assert (Hacc : radd rempty rx = R ([] ++ rs rx) (re rx) (rt rx)) by reflexivity.
    rewrite Hacc in Hc.
    assert (Hf1 : snd c1 = false).
    { destruct (snd c1) eqn:F; [|reflexivity]. rewrite (cbranch_mono _ Mes _ _ _ _ _ Hc F) in Hf. discriminate. }
    destruct (cbranch_sim es Ses Mes x rx [] c1 r c' Hc Hf (Sx _ _ _ Ex Hf1)) as [_ [tail [Hrs Hrel]]].
    cbn [HyFacts.hseq]. rewrite run_runb, Hrs. cbn [app]. apply Hrel. exact Hs.
Qed.

Lemma sim_if cnd a b : sim cnd -> sim a -> sim b -> mono cnd -> mono a -> mono b -> sim (HIf cnd a b).
Proof.
  intros Sc Sa Sb Mc Ma Mb c r c' Hc Hf fuel s s' t Hs. cbn [compile] in Hc.
  destruct (compile cnd c) as [rc c1] eqn:Ec. destruct (compile a c1) as [ra c2] eqn:Ea.
  destruct (compile b c2) as [rb c3] eqn:Eb.
  assert (Hf3 : snd c3 = false) by (destruct (rs ra), (rs rb); inversion Hc; subst; exact Hf).
  assert (Hf2 : snd c2 = false) by (destruct (snd c2) eqn:F; [rewrite (Mb _ _ _ Eb F) in Hf3; discriminate | reflexivity]).
  assert (Hf1 : snd c1 = false) by (destruct (snd c1) eqn:F; [rewrite (Ma _ _ _ Ea F) in Hf2; discriminate | reflexivity]).
  pose proof (Sc _ _ _ Ec Hf1) as Hrc. pose proof (Sa _ _ _ Ea Hf2) as Hra. pose proof (Sb _ _ _ Eb Hf3) as Hrb.
  rewrite heval1_if.
  assert (Hstmt : r = R (rs rc ++ [SIf (force rc) (rs ra ++ [SAssign (tmp (bump c3)) (force ra)]) (rs rb ++ [SAssign (tmp (bump c3)) (force rb)])])
                       (Some (PName (tmp (bump c3)))) [(tmp (bump c3), true)] ->
          rel (bindV (heval1 (hrec_at fuel) cnd s t)
                 (fun v s1 t1 => if truthy v then heval1 (hrec_at fuel) a s1 t1 else heval1 (hrec_at fuel) b s1 t1))
              (run (rec_at fuel) r s' t)).
  { intros ->. unfold Sim.run. cbn [rs force re]. rewrite then_if.
    apply rel_bindV; [apply Hrc; exact Hs|]. intros v s1 s1' t1 Hs1.
    destruct (truthy v).
    - rewrite then_assign. apply rel_id_bind; [apply Hra; exact Hs1|].
      intros y s2 s2' t2 Hs2. cbn. unfold upd at 1. rewrite ident_eqb_refl. apply rel_mk. apply eqU_updT. exact Hs2.
    - rewrite then_assign. apply rel_id_bind; [apply Hrb; exact Hs1|].
      intros y s2 s2' t2 Hs2. cbn. unfold upd at 1. rewrite ident_eqb_refl. apply rel_mk. apply eqU_updT. exact Hs2. }
  destruct (rs ra) eqn:Era; [destruct (rs rb) eqn:Erb|]; inversion Hc; subst; try (apply Hstmt; reflexivity).
  rewrite run_ifexp. apply rel_bindV; [apply Hrc; exact Hs|]. intros v s1 s1' t1 Hs1.
  destruct (truthy v).
  - rewrite <- (run_pure fault issub (rec_at fuel) ra s1' t1 Era). apply Hra. exact Hs1.
  - rewrite <- (run_pure fault issub (rec_at fuel) rb s1' t1 Erb). apply Hrb. exact Hs1.
Qed.

Lemma sim_bool isand es : Forall sim es -> Forall mono es -> sim (HBool isand es).
Proof.
  intros HS HM c r c' Hc Hf fuel s s' t Hs. destruct es as [|e0 es].
  - cbn [compile] in Hc. inversion Hc; subst. rewrite heval1_bool_nil. cbn. apply rel_mk; exact Hs.
  - inversion HS as [|? ? S0 Ses]; subst. inversion HM as [|? ? M0 Mes]; subst.
    rewrite compile_bool_cons in Hc. destruct (compile e0 c) as [r0 c0] eqn:E0.
    destruct (ccops es c0 None) as [[ops var] c1] eqn:Eo. inversion Hc; subst.
    destruct (ccops_spec es Ses Mes _ _ _ _ _ Eo Hf I) as [F2 [Hf0 [Hv Hp]]].
    pose proof (S0 _ _ _ E0 Hf0) as Hr0.
    rewrite heval1_bool_cons.
    assert (HQ0 : simQ isand e0 [] (rs r0) (mkbool isand (force r0) [])).
    { intros fuel0 s0 s0' t0 Hs0. cbn [HyFacts.hops]. rewrite bindV_id. apply Hr0. exact Hs0. }
    unfold bool_result. destruct ops as [|o ops'].
    + inversion F2; subst. cbn [HyFacts.hops]. rewrite bindV_id. apply Hr0. exact Hs.
    + destruct var as [v|].
      * destruct Hv as [n ->]. unfold Sim.run. cbn [rs force re].
        pose proof (build_sim isand n es (o :: ops') F2 e0 [] (rs r0) (force r0) [] HQ0 fuel s s' t Hs) as HB.
        cbn [HyFacts.hops] in HB. rewrite bindV_id in HB. exact HB.
      * pose proof (simQ_pures isand es (o :: ops') F2 (Hp eq_refl) e0 [] (rs r0) (force r0) [] HQ0 fuel s s' t Hs) as HP.
        cbn [app] in HP. exact HP.
Qed.

Theorem layer1_correct : forall e, frag1 e = true -> mono e /\ sim e.
Proof.
  induction e using hexpr_ind'; intros Hfr; cbn [frag1] in Hfr; try discriminate.
  - split; [|apply sim_const]. intros c r c' Hc Ht. destruct v; cbn [compile] in Hc; inversion Hc; subst; exact Ht.
  - split; [|apply sim_var]. intros c r c' Hc Ht. cbn [compile] in Hc; inversion Hc; subst; exact Ht.
  - destruct (IHe Hfr) as [M S]. split; [|apply sim_log; exact S].
    intros c r c' Hc Ht. cbn [compile] in Hc. destruct (compile e c) as [r1 c1] eqn:E. inversion Hc; subst. eapply M; eassumption.
  - rewrite frag1_all in Hfr.
    assert (HA : Forall mono es /\ Forall sim es).
    { induction H as [|x l Hx Hl IHl]; [split; constructor|]. cbn [forallb] in Hfr. apply andb_true_iff in Hfr.
      destruct Hfr as [F1 F2]. destruct (Hx F1) as [Mx Sx]. destruct (IHl F2) as [Ml Sl]. split; constructor; assumption. }
    destruct HA as [HM HS]. split; [|apply sim_do; assumption].
    intros c r c' Hc Ht. rewrite compile_do in Hc. eapply cbranch_mono; eassumption.
  - destruct (IHe Hfr) as [M S]. split; [|apply sim_setv; exact S].
    intros c r c' Hc Ht. cbn [compile] in Hc. destruct (compile e c) as [r1 c1] eqn:E.
    destruct (plain_assign r1); inversion Hc; subst; [eapply M; eassumption | reflexivity].
  - destruct (IHe Hfr) as [M S]. split; [|apply sim_setx; exact S].
    intros c r c' Hc Ht. cbn [compile] in Hc. destruct (compile e c) as [r1 c1] eqn:E.
    destruct (plain_assign r1); inversion Hc; subst; [eapply M; eassumption | reflexivity].
  - rewrite frag1_all in Hfr.
    assert (HA : Forall mono es /\ Forall sim es).
    { induction H as [|x l Hx Hl IHl]; [split; constructor|]. cbn [forallb] in Hfr. apply andb_true_iff in Hfr.
      destruct Hfr as [F1 F2]. destruct (Hx F1) as [Mx Sx]. destruct (IHl F2) as [Ml Sl]. split; constructor; assumption. }
    destruct HA as [HM HS]. split; [|apply sim_bool; assumption].
    intros c r c' Hc Ht. destruct es as [|e0 es]; [cbn [compile] in Hc; inversion Hc; subst; exact Ht|].
    inversion HM as [|? ? M0 Mes]; subst.
    rewrite compile_bool_cons in Hc. destruct (compile e0 c) as [r0 c0] eqn:E0.
    destruct (ccops es c0 None) as [[ops var] c1] eqn:Eo. inversion Hc; subst.
    eapply ccops_mono; [exact Mes | exact Eo | eapply M0; eassumption].
  - destruct (IHe Hfr) as [M S]. split; [|apply sim_not; exact S].
    intros c r c' Hc Ht. cbn [compile] in Hc. destruct (compile e c) as [r1 c1] eqn:E. inversion Hc; subst. eapply M; eassumption.
  - apply andb_true_iff in Hfr. destruct Hfr as [Hfr F3]. apply andb_true_iff in Hfr. destruct Hfr as [F1 F2].
    destruct (IHe1 F1) as [M1 S1]. destruct (IHe2 F2) as [M2 S2]. destruct (IHe3 F3) as [M3 S3].
    split; [|apply sim_if; assumption].
    intros c r c' Hc Ht. cbn [compile] in Hc.
    destruct (compile e1 c) as [rc c1] eqn:Ec. destruct (compile e2 c1) as [ra c2] eqn:Ea.
    destruct (compile e3 c2) as [rb c3] eqn:Eb.
    assert (H3 : snd c3 = true) by (eapply M3; [eassumption|]; eapply M2; [eassumption|]; eapply M1; eassumption).
    destruct (rs ra), (rs rb); inversion Hc; subst; exact H3.
  - destruct (IHe Hfr) as [M S]. split; [|apply sim_raise; exact S].
    intros c r c' Hc Ht. cbn [compile] in Hc. destruct (compile e c) as [r1 c1] eqn:E. inversion Hc; subst. eapply M; eassumption.
Qed.

End Layer1.
