(* Canonical text rendering of target ASTs and outcomes, for the
   correspondence harness (the Python side renders the real AST the same way). *)
From Coq Require Import String Ascii.
From HyV Require Import Compiler.Syntax Compiler.PySem Compiler.HySem.
Open Scope string_scope.

Fixpoint digits (fuel n : nat) (acc : string) : string :=
  match fuel with
  | O => acc
  | S f => let d := String (ascii_of_nat (48 + n mod 10)) acc in
           match n / 10 with O => d | q => digits f q d end
  end.
Definition show_nat (n : nat) : string := digits (S n) n "".
Definition show_Z (z : Z) : string :=
  match z with
  | Z0 => "0"
  | Zpos p => show_nat (Pos.to_nat p)
  | Zneg p => "-" ++ show_nat (Pos.to_nat p)
  end.

Definition show_val (v : val) : string :=
  match v with
  | VNone => "N"
  | VBool true => "B1" | VBool false => "B0"
  | VInt z => "I" ++ show_Z z
  | VExn c => "X" ++ show_nat c
  end.
Definition show_id (x : ident) : string :=
  match x with U n => "u" ++ show_nat n | T n => "t" ++ show_nat n end.

Definition sp_concat (l : list string) : string := String.concat " " l.

Fixpoint show_e (e : pexpr) : string :=
  match e with
  | PConst v => show_val v
  | PName x => show_id x
  | PCls c => "X" ++ show_nat c
  | PBoolOp b es => "(" ++ (if b then "and" else "or") ++ " " ++ sp_concat (map show_e es) ++ ")"
  | PNot e => "(not " ++ show_e e ++ ")"
  | PLog k e => "(log " ++ show_nat k ++ " " ++ show_e e ++ ")"
  | PIfExp c a b => "(ifx " ++ show_e c ++ " " ++ show_e a ++ " " ++ show_e b ++ ")"
  | PNamed x e => "(:= " ++ show_id x ++ " " ++ show_e e ++ ")"
  end.

Definition show_ty (h : htypes) : string :=
  match h with
  | HAll => "all"
  | HOne c => "(one " ++ show_nat c ++ ")"
  | HMany cs => "(many " ++ sp_concat (map show_nat cs) ++ ")"
  end.

Fixpoint show_s (st : pstmt) : string :=
  let blk := fun l => "[" ++ sp_concat (map show_s l) ++ "]" in
  match st with
  | SAssign x e => "(= " ++ show_id x ++ " " ++ show_e e ++ ")"
  | SExpr e => "(expr " ++ show_e e ++ ")"
  | SIf c a b => "(if " ++ show_e c ++ " [" ++ sp_concat (map show_s a) ++ "] [" ++ sp_concat (map show_s b) ++ "])"
  | SWhile c a b => "(while " ++ show_e c ++ " [" ++ sp_concat (map show_s a) ++ "] [" ++ sp_concat (map show_s b) ++ "])"
  | SBreak => "break" | SContinue => "continue" | SPass => "pass"
  | SRaise e => "(raise " ++ show_e e ++ ")"
  | STry a hs o f =>
      "(try [" ++ sp_concat (map show_s a) ++ "] ["
      ++ sp_concat (map (fun hb => "(h " ++ show_ty (fst hb) ++ " [" ++ sp_concat (map show_s (snd hb)) ++ "])") hs)
      ++ "] [" ++ sp_concat (map show_s o) ++ "] [" ++ sp_concat (map show_s f) ++ "])"
  end.
Definition show_block (l : list pstmt) : string := "[" ++ sp_concat (map show_s l) ++ "]".

Definition show_trace (t : trace) : string := sp_concat (map show_nat t).
Definition show_store (nvars : nat) (s : store) : string :=
  sp_concat (map (fun n => show_val (s (U n))) (seq 0 nvars)).

Definition show_hres (r : hres) : string :=
  match r with
  | HV v => "V " ++ show_val v | HX e => "X " ++ show_nat e
  | HB => "BREAK" | HC => "CONTINUE" | HT => "TIMEOUT"
  end.
Definition show_sres (r : sres) : string :=
  match r with
  | SN => "N" | SX e => "X " ++ show_nat e | SB => "BREAK" | SC => "CONTINUE" | ST => "TIMEOUT"
  end.
Definition show_eres (r : eres) : string :=
  match r with EV v => "V " ++ show_val v | EX e => "X " ++ show_nat e end.
