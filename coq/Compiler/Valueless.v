(* Witnesses for the value-less statement forms (setv, while, ...: a Result with statements and no expression):
   the reference gives them the value None, and the model compiler -- like hy -- stores None into the temporary of
   and/or and of try where such a form is the operand / the last form of the selected handler.  These are
   instances of the simulation theorem's hypotheses (Result.rename does not fire), evaluated. *)
From HyV Require Import Compiler.Syntax Compiler.PySem Compiler.HySem Compiler.Compile Compiler.BoolRef.

(* (or 0 (setv u0 1)) is None; (and 7 (setv u0 1) (log 1 2)) is None and the effect point 1 is not reached *)
Example valueless_operand_of_and_or :
  let e1 := HBool false [HConst (VInt 0); HSetv 0 (HConst (VInt 1))] in
  let e2 := HBool true [HConst (VInt 7); HSetv 0 (HConst (VInt 1)); HLog 1 (HConst (VInt 2))] in
  (forall issub s, heval nofault issub 1 e1 s [] = (HV VNone, upd s (U 0) (VInt 1), [])) /\
  (forall issub s, heval nofault issub 1 e2 s [] = (HV VNone, upd s (U 0) (VInt 1), [])) /\
  compile_top e1 = ([SAssign (T 1) (PConst (VInt 0));
                     SIf (PNot (PName (T 1))) [SAssign (U 0) (PConst (VInt 1)); SAssign (T 1) (PConst VNone)] []],
                    PName (T 1)) /\
  compile_top e2 = ([SAssign (T 1) (PConst (VInt 7));
                     SIf (PName (T 1)) [SAssign (U 0) (PConst (VInt 1));
                                        SAssign (T 1) (PBoolOp true [PConst VNone; PLog 1 (PConst (VInt 2))])] []],
                    PName (T 1)) /\
  renames e1 = false /\ renames e2 = false.
Proof. repeat split. Qed.

(* (log 1 (try (raise E1) (except [E1] (setv u0 1)))): the handler's last form has no value, the try is None *)
Example valueless_last_form_of_handler :
  let e := HLog 1 (HTry [HRaise (HConst (VExn 1))] [(HOne 1, [HSetv 0 (HConst (VInt 1))])] None None) in
  (forall s, heval nofault Nat.eqb 1 e s [] = (HV VNone, upd s (U 0) (VInt 1), [1%nat])) /\
  compile_top e = ([STry [SRaise (PCls 1); SAssign (T 1) (PConst VNone)]
                         [(HOne 1, [SAssign (U 0) (PConst (VInt 1)); SAssign (T 1) (PConst VNone)])] [] []],
                   PLog 1 (PName (T 1))) /\
  renames e = false.
Proof. repeat split. Qed.
