(* Which temporaries a piece of target code mentions, and the write frame:
   code that mentions only temporaries accepted by p leaves all other
   temporaries unchanged. *)
From HyV Require Import Compiler.Syntax Compiler.PySem Compiler.PyFacts.

Definition tI (p : nat -> bool) (x : ident) : bool := match x with U _ => true | T n => p n end.

Fixpoint tE (p : nat -> bool) (e : pexpr) : bool :=
  match e with
  | PConst _ | PCls _ => true
  | PName x => tI p x
  | PBoolOp _ es => forallb (tE p) es
  | PNot e | PLog _ e => tE p e
  | PIfExp c a b => tE p c && tE p a && tE p b
  | PNamed x e => tI p x && tE p e
  end.

Fixpoint tS (p : nat -> bool) (st : pstmt) : bool :=
  match st with
  | SAssign x e => tI p x && tE p e
  | SExpr e | SRaise e => tE p e
  | SIf c a b | SWhile c a b => tE p c && forallb (tS p) a && forallb (tS p) b
  | SBreak | SContinue | SPass => true
  | STry a hs o f => forallb (tS p) a && forallb (fun hb => forallb (tS p) (snd hb)) hs
                     && forallb (tS p) o && forallb (tS p) f
  end.
Definition tL (p : nat -> bool) (l : list pstmt) : bool := forallb (tS p) l.

(* induction principles for the nested syntaxes *)
Section PInd.
  Variable P : pexpr -> Prop.
  Hypothesis Hc : forall v, P (PConst v).
  Hypothesis Hn : forall x, P (PName x).
  Hypothesis Hk : forall c, P (PCls c).
  Hypothesis Hb : forall b es, Forall P es -> P (PBoolOp b es).
  Hypothesis Hnot : forall e, P e -> P (PNot e).
  Hypothesis Hlog : forall k e, P e -> P (PLog k e).
  Hypothesis Hif : forall c a b, P c -> P a -> P b -> P (PIfExp c a b).
  Hypothesis Hnm : forall x e, P e -> P (PNamed x e).
  Fixpoint pexpr_ind' (e : pexpr) : P e :=
    match e with
    | PConst v => Hc v | PName x => Hn x | PCls c => Hk c
    | PBoolOp b es => Hb b es ((fix all (l : list pexpr) : Forall P l :=
         match l with [] => Forall_nil _ | x :: r => Forall_cons _ (pexpr_ind' x) (all r) end) es)
    | PNot e => Hnot e (pexpr_ind' e)
    | PLog k e => Hlog k e (pexpr_ind' e)
    | PIfExp c a b => Hif c a b (pexpr_ind' c) (pexpr_ind' a) (pexpr_ind' b)
    | PNamed x e => Hnm x e (pexpr_ind' e)
    end.
End PInd.

Section SInd.
  Variable P : pstmt -> Prop.
  Hypothesis Ha : forall x e, P (SAssign x e).
  Hypothesis He : forall e, P (SExpr e).
  Hypothesis Hi : forall c a b, Forall P a -> Forall P b -> P (SIf c a b).
  Hypothesis Hw : forall c a b, Forall P a -> Forall P b -> P (SWhile c a b).
  Hypothesis Hbr : P SBreak.
  Hypothesis Hco : P SContinue.
  Hypothesis Hpa : P SPass.
  Hypothesis Hr : forall e, P (SRaise e).
  Hypothesis Ht : forall a hs o f, Forall P a -> Forall (fun hb => Forall P (snd hb)) hs -> Forall P o -> Forall P f ->
                                   P (STry a hs o f).
  Fixpoint pstmt_ind' (st : pstmt) : P st :=
    let all := fix all (l : list pstmt) : Forall P l :=
      match l with [] => Forall_nil _ | x :: r => Forall_cons _ (pstmt_ind' x) (all r) end in
    match st with
    | SAssign x e => Ha x e | SExpr e => He e
    | SIf c a b => Hi c a b (all a) (all b)
    | SWhile c a b => Hw c a b (all a) (all b)
    | SBreak => Hbr | SContinue => Hco | SPass => Hpa
    | SRaise e => Hr e
    | STry a hs o f =>
        Ht a hs o f (all a)
          ((fix allh (l : list (htypes * list pstmt)) : Forall (fun hb => Forall P (snd hb)) l :=
              match l with [] => Forall_nil _ | hb :: r => Forall_cons _ (all (snd hb)) (allh r) end) hs)
          (all o) (all f)
    end.
End SInd.

Definition keepT (p : nat -> bool) (s s1 : store) : Prop := forall n, p n = false -> s1 (T n) = s (T n).
Lemma keepT_refl p s : keepT p s s. Proof. intros n _. reflexivity. Qed.
Lemma keepT_trans p a b c : keepT p a b -> keepT p b c -> keepT p a c.
Proof. intros A B n Hn. rewrite (B n Hn). apply A. exact Hn. Qed.
Lemma keepT_upd p s x v : tI p x = true -> keepT p s (upd s x v).
Proof.
  intros Hx n Hn. unfold upd. destruct x as [m|m]; cbn [ident_eqb]; [reflexivity|].
  destruct (Nat.eqb_spec n m); [subst; cbn [tI] in Hx; congruence | reflexivity].
Qed.

Section Writes.
Variable fault : nat -> option exn.
Variable issub : exn -> exn -> bool.
Variable p : nat -> bool.
Notation peval := (peval fault).
Notation pexec1 := (pexec1 fault issub).
Notation prun1 := (prun1 fault issub).

Lemma peval_keeps e : tE p e = true -> forall s t, keepT p s (snd (fst (peval e s t))).
Proof.
  induction e using pexpr_ind'; intros Ht s t; cbn [tE] in Ht; try (cbn; apply keepT_refl).
  - (* BoolOp *)
    rewrite peval_bool. revert s t. induction H as [|e es He Hes IH]; intros s t; [apply keepT_refl|].
    cbn [forallb] in Ht. apply andb_true_iff in Ht. destruct Ht as [Ht1 Ht2].
    destruct es as [|e' es']; [cbn [pbool_go]; apply He; exact Ht1|].
    rewrite pbool_cons by discriminate. unfold bindE. pose proof (He Ht1 s t) as K.
    destruct (peval e s t) as [[[v|x] s1] t1]; cbn [fst snd] in K; [|exact K].
    destruct (Bool.eqb (truthy v) b); [|exact K]. eapply keepT_trans; [exact K | apply IH; exact Ht2].
  - cbn [PySem.peval]. pose proof (IHe Ht s t) as K. destruct (peval e s t) as [[[v|x] s1] t1]; exact K.
  - cbn [PySem.peval]. pose proof (IHe Ht s t) as K. destruct (peval e s t) as [[[v|x] s1] t1]; [|exact K].
    destruct (fault k); exact K.
  - apply andb_true_iff in Ht. destruct Ht as [Ht T3]. apply andb_true_iff in Ht. destruct Ht as [T1 T2].
    cbn [PySem.peval]. pose proof (IHe1 T1 s t) as K. destruct (peval e1 s t) as [[[v|x] s1] t1]; cbn [fst snd] in K; [|exact K].
    destruct (truthy v); (eapply keepT_trans; [exact K|]); [apply IHe2; exact T2 | apply IHe3; exact T3].
  - apply andb_true_iff in Ht. destruct Ht as [T1 T2].
    cbn [PySem.peval]. pose proof (IHe T2 s t) as K. destruct (peval e s t) as [[[v|x'] s1] t1]; cbn [fst snd] in *; [|exact K].
    eapply keepT_trans; [exact K | apply keepT_upd; exact T1].
Qed.

Definition keeps (f : store -> trace -> sres * store * trace) : Prop :=
  forall s t, keepT p s (snd (fst (f s t))).

Lemma prun1_keeps rec l : Forall (fun st => keeps (pexec1 rec st)) l -> keeps (prun1 rec l).
Proof.
  induction 1 as [|x l Hx _ IH]; intros s t; [apply keepT_refl|]. cbn [PyFacts.prun1].
  pose proof (Hx s t) as K. destruct (pexec1 rec x s t) as [[[] s1] t1]; cbn [fst snd] in K; try exact K.
  eapply keepT_trans; [exact K | apply IH].
Qed.

Lemma Forall_tS (P : pstmt -> Prop) l : Forall (fun st => tS p st = true -> P st) l -> tL p l = true -> Forall P l.
Proof.
  induction 1 as [|x l Hx _ IH]; intros Ht; [constructor|]. unfold tL in Ht. cbn [forallb] in Ht.
  apply andb_true_iff in Ht. destruct Ht. constructor; auto.
Qed.

Lemma pexec1_keeps rec : (forall w, tS p w = true -> keeps (rec w)) ->
  forall st, tS p st = true -> keeps (pexec1 rec st).
Proof.
  intros Hrec. induction st using pstmt_ind'; intros Ht s t; cbn [tS] in Ht.
  - apply andb_true_iff in Ht. destruct Ht as [T1 T2]. rewrite pexec1_assign. unfold bindE.
    pose proof (peval_keeps e T2 s t) as K. destruct (peval e s t) as [[[v|x'] s1] t1]; cbn [fst snd] in *; [|exact K].
    eapply keepT_trans; [exact K | apply keepT_upd; exact T1].
  - rewrite pexec1_expr. unfold bindE. pose proof (peval_keeps e Ht s t) as K.
    destruct (peval e s t) as [[[v|x'] s1] t1]; exact K.
  - apply andb_true_iff in Ht. destruct Ht as [Ht T3]. apply andb_true_iff in Ht. destruct Ht as [T1 T2].
    rewrite pexec1_if. unfold bindE. pose proof (peval_keeps c T1 s t) as K.
    destruct (peval c s t) as [[[v|x'] s1] t1]; cbn [fst snd] in *; [|exact K].
    destruct (truthy v); (eapply keepT_trans; [exact K|]); apply prun1_keeps; eapply Forall_tS; eauto.
  - assert (Hw := Ht). apply andb_true_iff in Ht. destruct Ht as [Ht T3]. apply andb_true_iff in Ht. destruct Ht as [T1 T2].
    rewrite pexec1_while. unfold bindE. pose proof (peval_keeps c T1 s t) as K.
    destruct (peval c s t) as [[[v|x'] s1] t1]; cbn [fst snd] in *; [|exact K].
    destruct (truthy v).
    + assert (Kb : keeps (prun1 rec a)) by (apply prun1_keeps; eapply Forall_tS; eauto).
      pose proof (Kb s1 t1) as K2. unfold while_next. destruct (prun1 rec a s1 t1) as [[[] s2] t2]; cbn [fst snd] in *;
        try (eapply keepT_trans; [exact K | exact K2]);
        (eapply keepT_trans; [exact K|]); (eapply keepT_trans; [exact K2|]); apply (Hrec (SWhile c a b)); cbn [tS]; exact Hw.
    + eapply keepT_trans; [exact K|]. apply prun1_keeps; eapply Forall_tS; eauto.
  - apply keepT_refl.
  - apply keepT_refl.
  - apply keepT_refl.
  - rewrite pexec1_raise. unfold bindE. pose proof (peval_keeps e Ht s t) as K.
    destruct (peval e s t) as [[[v|x'] s1] t1]; exact K.
  - apply andb_true_iff in Ht. destruct Ht as [Ht T4]. apply andb_true_iff in Ht. destruct Ht as [Ht T3].
    apply andb_true_iff in Ht. destruct Ht as [T1 T2].
    assert (Ka : keeps (prun1 rec a)) by (apply prun1_keeps; eapply Forall_tS; eauto).
    assert (Ko : keeps (prun1 rec o)) by (apply prun1_keeps; eapply Forall_tS; eauto).
    assert (Kf : keeps (prun1 rec f)) by (apply prun1_keeps; eapply Forall_tS; eauto).
    assert (Kh : forall e, keeps (prunh1 fault issub rec hs e)).
    { intros e. clear -H0 T2. induction H0 as [|[h b] r Hb _ IH]; intros s t; [apply keepT_refl|].
      cbn [forallb snd] in T2. apply andb_true_iff in T2. destruct T2 as [Tb Tr]. cbn [prunh1].
      destruct (handles issub h e); [apply prun1_keeps; eapply Forall_tS; eauto | apply IH; exact Tr]. }
    rewrite pexec1_try.
    assert (K1 : keepT p s (snd (fst (match prun1 rec a s t with
                 | (SX e, s1, t1) => prunh1 fault issub rec hs e s1 t1
                 | (SN, s1, t1) => prun1 rec o s1 t1
                 | other => other end)))).
    { pose proof (Ka s t) as K. destruct (prun1 rec a s t) as [[[] s1] t1]; cbn [fst snd] in *; try exact K;
        (eapply keepT_trans; [exact K|]); [apply Ko | apply Kh]. }
    destruct (match prun1 rec a s t with
              | (SX e, s1, t1) => prunh1 fault issub rec hs e s1 t1
              | (SN, s1, t1) => prun1 rec o s1 t1
              | other => other end) as [[o1 s2] t2]. cbn [fst snd] in K1.
    unfold finish1. pose proof (Kf s2 t2) as K2.
    destruct o1; try exact K1; destruct (prun1 rec f s2 t2) as [[[] s3] t3]; cbn [fst snd] in *;
      eapply keepT_trans; eauto.
Qed.

End Writes.
