(* A definition-independent characterisation of the and/or reference semantics of BoolRef.v:
   the operands evaluated are exactly the prefix up to and including the first operand whose truth
   value stops the scan (falsy for and, truthy for or), or all of them; the value is that operand's,
   or the last one's, or the unit of the operator for no operands. *)
From HyV Require Import Compiler.Syntax Compiler.PySem Compiler.HySem Compiler.HyFacts Compiler.BoolRef.

Definition continues (isand : bool) (kv : nat * val) : Prop := truthy (snd kv) = isand.

Lemma evaluated_all isand l : Forall (continues isand) l -> evaluated isand l = l.
Proof.
  induction l as [|kv r IH]; intros H; [reflexivity|].
  inversion H as [|x y Hkv Hr]; subst. cbn [evaluated]. unfold continues in Hkv. rewrite Hkv, Bool.eqb_reflx.
  rewrite (IH Hr). reflexivity.
Qed.

Lemma evaluated_stop isand p kv q :
  Forall (continues isand) p -> truthy (snd kv) <> isand -> evaluated isand (p ++ kv :: q) = p ++ [kv].
Proof.
  intros Hp Hkv. induction p as [|x p IH]; cbn [app evaluated].
  - destruct (Bool.eqb (truthy (snd kv)) isand) eqn:E; [|reflexivity]. apply Bool.eqb_prop in E. contradiction.
  - inversion Hp as [|y z Hx Hp']; subst. unfold continues in Hx. rewrite Hx, Bool.eqb_reflx. rewrite (IH Hp'). reflexivity.
Qed.

Lemma split_first_stop isand l :
  Forall (continues isand) l \/
  exists p kv q, l = p ++ kv :: q /\ Forall (continues isand) p /\ truthy (snd kv) <> isand.
Proof.
  induction l as [|x r IH]; [left; constructor|].
  destruct (Bool.bool_dec (truthy (snd x)) isand) as [E|E].
  - destruct IH as [H | (p & kv & q & -> & Hp & Hkv)].
    + left. constructor; assumption.
    + right. exists (x :: p), kv, q. split; [reflexivity|]. split; [constructor; assumption | exact Hkv].
  - right. exists [], x, r. split; [reflexivity|]. split; [constructor | exact E].
Qed.

Theorem and_or_spec isand l :
  (Forall (continues isand) l /\ evaluated isand l = l /\
   and_or_value isand l = match rev l with kv :: _ => snd kv | [] => if isand then VBool true else VNone end)
  \/
  (exists p kv q, l = p ++ kv :: q /\ Forall (continues isand) p /\ truthy (snd kv) <> isand /\
     evaluated isand l = p ++ [kv] /\ and_or_value isand l = snd kv).
Proof.
  destruct (split_first_stop isand l) as [H | (p & kv & q & -> & Hp & Hkv)].
  - left. split; [exact H|]. split; [exact (evaluated_all isand l H)|]. unfold and_or_value. rewrite (evaluated_all isand l H). reflexivity.
  - right. exists p, kv, q. split; [reflexivity|]. split; [exact Hp|]. split; [exact Hkv|].
    split; [exact (evaluated_stop isand p kv q Hp Hkv)|]. unfold and_or_value. rewrite (evaluated_stop isand p kv q Hp Hkv).
    rewrite rev_app_distr. reflexivity.
Qed.
