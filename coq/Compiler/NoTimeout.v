(* Programs without loops never exhaust the fuel of the reference semantics. *)
From HyV Require Import Compiler.Syntax Compiler.PySem Compiler.HySem Compiler.HyFacts Compiler.Named Compiler.Correct1.

Section NT.
Variable fault : nat -> option exn.
Variable issub : exn -> exn -> bool.
Notation heval1 := (heval1 fault issub).

Definition nt (a : H) : Prop := fst (fst a) <> HT.
Definition ntE (e : hexpr) : Prop := forall rec s t, nt (heval1 rec e s t).

Lemma nt_bindV a k : nt a -> (forall v s t, nt (k v s t)) -> nt (bindV a k).
Proof. destruct a as [[[] ?] ?]; cbn; auto. Qed.

Lemma hseq_nt rec es : Forall ntE es -> forall last s t, nt (hseq fault issub rec es last s t).
Proof.
  induction 1 as [|x es Hx _ IH]; intros last s t; [unfold nt; cbn; discriminate|]. cbn [HyFacts.hseq].
  apply nt_bindV; [apply Hx | intros; apply IH].
Qed.
Lemma hops_nt rec b es : Forall ntE es -> forall acc s t, nt (hops fault issub rec b es acc s t).
Proof.
  induction 1 as [|x es Hx _ IH]; intros acc s t; [unfold nt; cbn; discriminate|]. cbn [HyFacts.hops].
  destruct (Bool.eqb (truthy acc) b); [|unfold nt; cbn; discriminate]. apply nt_bindV; [apply Hx | intros; apply IH].
Qed.

Theorem frag1_no_timeout : forall e, frag1 e = true -> ntE e.
Proof.
  induction e using hexpr_ind'; intros Hf rec s t; cbn [frag1] in Hf; try discriminate.
  - rewrite heval1_log. apply nt_bindV; [apply IHe; exact Hf|]. intros v s1 t1. unfold log_k. destruct (fault k); unfold nt; cbn; discriminate.
  - rewrite heval1_do. rewrite frag1_all in Hf. apply hseq_nt.
    induction H as [|x l Hx _ IHl]; [constructor|]. cbn [forallb] in Hf. apply andb_true_iff in Hf. destruct Hf. constructor; auto.
  - rewrite heval1_setv. apply nt_bindV; [apply IHe; exact Hf|]. intros; unfold nt; cbn; discriminate.
  - rewrite heval1_setx. apply nt_bindV; [apply IHe; exact Hf|]. intros; unfold nt; cbn; discriminate.
  - rewrite frag1_all in Hf.
    assert (HA : Forall ntE es).
    { induction H as [|x l Hx _ IHl]; [constructor|]. cbn [forallb] in Hf. apply andb_true_iff in Hf. destruct Hf. constructor; auto. }
    destruct es as [|e0 es]; [unfold nt; cbn; discriminate|]. rewrite heval1_bool_cons. inversion HA; subst.
    apply nt_bindV; [auto|]. intros; apply hops_nt; assumption.
  - rewrite heval1_not. apply nt_bindV; [apply IHe; exact Hf|]. intros; unfold nt; cbn; discriminate.
  - apply andb_true_iff in Hf. destruct Hf as [Hf F3]. apply andb_true_iff in Hf. destruct Hf as [F1 F2].
    rewrite heval1_if. apply nt_bindV; [apply IHe1; exact F1|]. intros v s1 t1. destruct (truthy v); [apply IHe2 | apply IHe3]; assumption.
  - rewrite heval1_raise. apply nt_bindV; [apply IHe; exact Hf|]. intros; unfold nt; cbn; discriminate.
Qed.
End NT.
