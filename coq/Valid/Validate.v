(* C10: the structural rules of CPython's PyAST_Validate (Python/ast.c,
   validate_expr) that can reject an expression of the fragment of
   Valid/Compile.v with ValueError/TypeError: BoolOp needs two values, Compare
   needs comparators and as many operators, Dict needs as many keys as values
   and no None among the values, a Name may not be None/True/False.  Contexts are
   Load throughout the fragment.  Modelled, not verified: validated on every run
   against compile() on the ASTs the real compiler produces. *)
From Coq Require Import ZArith.
From HyV Require Import Base.Text Valid.Compile.
Local Open Scope nat_scope.

Definition is_const_name (id : text) : bool := text_eqb id s_None || text_eqb id s_True || text_eqb id s_False.

Fixpoint validate (e : expr) : bool :=
  match e with
  | EConst _ => true
  | EName id => negb (is_const_name id)
  | EBinOp l _ r => validate l && validate r
  | EUnaryOp _ x => validate x
  | EBoolOp _ vs => (2 <=? length vs) && forallb validate vs
  | ECompare l ops cs => negb (length cs =? 0) && (length ops =? length cs) && validate l && forallb validate cs
  | ECall f args kws => validate f && forallb validate args && forallb (fun k => validate (snd k)) kws
  | EAttribute v _ => validate v
  | ESubscript v s => validate v && validate s
  | EStarred v => validate v
  | EIfExp a b c => validate a && validate b && validate c
  | EList es | ETuple es | ESet es => forallb validate es
  | EDict ks vs =>
      (length ks =? length vs)
      && forallb (fun k => match k with Some x => validate x | None => true end) ks
      && forallb (fun v => match v with Some x => validate x | None => false end) vs
  end.

(* a mangle that only turns hyphens into underscores: for running the model on plain names *)
Definition toy_mangle (t : text) : text := replace_ch ch_hyphen ch_us t.

Definition outcome (t : hy) : cres * bool :=
  let r := compile toy_mangle t in
  (r, match r with COk e => validate e | _ => true end).
