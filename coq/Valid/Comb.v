(* C10: deep embedding of the parser combinators with which the @pattern_macro
   decorators of hy/core/result_macros.py describe their argument grammars
   (funcparserlib: some, +, |, many, oneplus, maybe, skip, finished; and
   hy/model_patterns.py: sym, keepsym, times, brackets/pexpr/braces/in_tuple,
   dolike, notpexpr, unpack, whole), with the library's semantics: greedy
   repetition without backtracking, ordered choice, results combined by `+`
   into flat tuples with skipped values dropped.

   Tokens are Hy model trees reduced to what the predicates look at; every token
   carries an identity so that results can be compared with the real parser's. *)
From HyV Require Import Base.Text.
Local Open Scope nat_scope.

Inductive gkind := GExpr | GList | GTuple | GDict.

Inductive tok :=
| TSym (id : N) (name : text)
| TKw (id : N) (name : text)
| TStr (id : N)
| TLit (id : N)                       (* Integer, Float, Complex, Bytes *)
| TOther (id : N)                     (* Set, FString, ... : matched by FORM only *)
| TGroup (k : gkind) (id : N) (l : list tok).

Definition gkind_eqb (a b : gkind) : bool :=
  match a, b with GExpr, GExpr | GList, GList | GTuple, GTuple | GDict, GDict => true | _, _ => false end.

Inductive tpred :=
| PAny                                  (* FORM *)
| PSym | PKw | PStr | PLiteral          (* SYM KEYWORD STR LITERAL *)
| PSymEq (s : text)                     (* sym("s") / keepsym("s") *)
| PKwEq (s : text)                      (* sym(":s") / keepsym(":s") *)
| PNotExprHead (hs : list text)         (* notpexpr(h1, ...) *)
| PUnpack (kinds : list text) (one_symbol : bool).   (* unpack(kind[, Symbol]) *)

Inductive pat :=
| Some_ (p : tpred)
| Seq (a b : pat)
| Alt (a b : pat)
| Many (p : pat)
| Oneplus (p : pat)
| Maybe (p : pat)
| Times (lo : nat) (hi : option nat) (p : pat)     (* None = float("inf") *)
| Skip (p : pat)
| Finished
| Group (k : gkind) (ps : list pat)               (* brackets(...), pexpr(...), braces(...), in_tuple(...) *)
| Dolike (h : text).                              (* pexpr(sym(h), many(FORM)) >> r[0] *)

(* parse results *)
Inductive pres :=
| RTok (id : N)
| RNone
| RList (l : list pres)                (* a Python list: many / oneplus / times *)
| RTup (l : list pres)                 (* funcparserlib's _Tuple, and the tuple built by whole() *)
| RGroup (k : gkind) (l : list pres).  (* group_type(whole(parsers).parse(x)) *)

Inductive outcome :=
| Ok (v : pres) (rest : list tok) (pos : nat)
| Fail (pos : nat)                     (* NoParseError with state.pos *)
| OutOfFuel.

Definition tok_id (t : tok) : N :=
  match t with TSym i _ | TKw i _ | TStr i | TLit i | TOther i | TGroup _ i _ => i end.

Definition sym_named (t : tok) (s : text) : bool :=
  match t with TSym _ n => text_eqb n s | _ => false end.

Definition unpack_prefix : text := [117; 110; 112; 97; 99; 107; 45]%N.   (* "unpack-" *)

Definition test (p : tpred) (t : tok) : bool :=
  match p with
  | PAny => true
  | PSym => match t with TSym _ _ => true | _ => false end
  | PKw => match t with TKw _ _ => true | _ => false end
  | PStr => match t with TStr _ => true | _ => false end
  | PLiteral => match t with TStr _ | TLit _ => true | _ => false end
  | PSymEq s => sym_named t s
  | PKwEq s => match t with TKw _ n => text_eqb n s | _ => false end
  | PNotExprHead hs =>
      negb (match t with
            | TGroup GExpr _ (h :: _) => existsb (sym_named h) hs
            | _ => false
            end)
  | PUnpack kinds one =>
      match t with
      | TGroup GExpr _ (h :: r) =>
          existsb (fun k => sym_named h (unpack_prefix ++ k)) kinds
          && (negb one || match r with [TSym _ _] => true | _ => false end)
      | _ => false
      end
  end.

(* is the parser an _IgnoredParser (statically)? *)
Fixpoint ignored (p : pat) : bool :=
  match p with
  | Skip _ => true
  | Seq a b => ignored a && ignored b
  | _ => false
  end.

(* the value combination of `+` *)
Definition magic (v1 v2 : pres) : pres :=
  match v1 with RTup l => RTup (l ++ [v2]) | _ => RTup [v1; v2] end.

(* whole(parsers): the tuple of the non-ignored results *)
Definition shape_whole (n_parsers non_ignored : nat) (r : pres) : pres :=
  match n_parsers with
  | O => RTup []
  | S O => match non_ignored with O => RTup [] | _ => RTup [r] end
  | _ => match non_ignored with
         | O => RTup []
         | S O => RTup [r]
         | _ => r
         end
  end.

Definition count_non_ignored (ps : list pat) : nat := length (filter (fun p => negb (ignored p)) ps).

Section Run.

(* many(p): apply p until it fails; the fuel bounds the number of rounds *)
Fixpoint many_loop (runp : list tok -> nat -> outcome) (fuel : nat) (ts : list tok) (pos : nat) (acc : list pres) : outcome :=
  match fuel with
  | O => OutOfFuel
  | S f =>
      match runp ts pos with
      | Ok v ts' pos' => many_loop runp f ts' pos' (v :: acc)
      | Fail _ => Ok (RList (rev acc)) ts pos
      | OutOfFuel => OutOfFuel
      end
  end.

(* exactly n applications (the first loop of model_patterns.times) *)
Fixpoint exactly (runp : list tok -> nat -> outcome) (n : nat) (ts : list tok) (pos : nat) (acc : list pres) : outcome :=
  match n with
  | O => Ok (RList (rev acc)) ts pos
  | S m =>
      match runp ts pos with
      | Ok v ts' pos' => exactly runp m ts' pos' (v :: acc)
      | Fail p => Fail p
      | OutOfFuel => OutOfFuel
      end
  end.

(* at most n further applications (the second loop of times with a finite bound) *)
Fixpoint at_most (runp : list tok -> nat -> outcome) (n : nat) (ts : list tok) (pos : nat) (acc : list pres) : outcome :=
  match n with
  | O => Ok (RList (rev acc)) ts pos
  | S m =>
      match runp ts pos with
      | Ok v ts' pos' => at_most runp m ts' pos' (v :: acc)
      | Fail _ => Ok (RList (rev acc)) ts pos
      | OutOfFuel => OutOfFuel
      end
  end.

Definition rlist_items (v : pres) : list pres := match v with RList l => l | _ => [] end.

(* whole(parsers) on a token list: reduce(add, parsers), then finished; [runq] runs one parser *)
Definition run_seq_with (runq : pat -> list tok -> nat -> outcome) :=
  fix go (ps : list pat) (first : bool) (acc : pres) (ts : list tok) (pos : nat) {struct ps} : outcome :=
  match ps with
  | [] => match ts with [] => Ok acc [] pos | _ => Fail pos end
  | q :: ps' =>
      match runq q ts pos with
      | Ok v ts1 pos1 =>
          go ps' (first && ignored q) (if ignored q then acc else if first then v else magic acc v) ts1 pos1
      | o => o
      end
  end.

Fixpoint run (p : pat) (ts : list tok) (pos : nat) {struct p} : outcome :=
  match p with
  | Some_ pr =>
      match ts with
      | [] => Fail pos
      | t :: r => if test pr t then Ok (RTok (tok_id t)) r (S pos) else Fail pos
      end
  | Seq a b =>
      match run a ts pos with
      | Ok v1 ts1 pos1 =>
          match run b ts1 pos1 with
          | Ok v2 ts2 pos2 =>
              Ok (if ignored b then v1 else if ignored a then v2 else magic v1 v2) ts2 pos2
          | o => o
          end
      | o => o
      end
  | Alt a b =>
      match run a ts pos with
      | Fail _ => run b ts pos
      | o => o
      end
  | Many q => many_loop (run q) (S (length ts)) ts pos []
  | Oneplus q =>
      match run q ts pos with
      | Ok v ts1 pos1 =>
          match many_loop (run q) (S (length ts1)) ts1 pos1 [] with
          | Ok vs ts2 pos2 => Ok (RList (v :: rlist_items vs)) ts2 pos2
          | o => o
          end
      | o => o
      end
  | Maybe q =>
      match run q ts pos with
      | Fail _ => Ok RNone ts pos
      | o => o
      end
  | Times lo hi q =>
      match exactly (run q) lo ts pos [] with
      | Ok v1 ts1 pos1 =>
          match (match hi with
                 | None => many_loop (run q) (S (length ts1)) ts1 pos1 []
                 | Some h => at_most (run q) (h - lo) ts1 pos1 []
                 end) with
          | Ok v2 ts2 pos2 => Ok (RList (rlist_items v1 ++ rlist_items v2)) ts2 pos2
          | o => o
          end
      | o => o
      end
  | Skip q => run q ts pos
  | Finished => match ts with [] => Ok RNone [] pos | _ => Fail pos end
  | Group k ps =>
      match ts with
      | TGroup k' _ kids :: r =>
          if gkind_eqb k k' then
            (* whole(ps).parse(kids): a fresh parse starting at position 0 *)
            match run_seq_with run ps true RNone kids 0 with
            | Ok v _ _ =>
                Ok (RGroup k (match shape_whole (length ps) (count_non_ignored ps) v with RTup l => l | x => [x] end)) r (S pos)
            | Fail p => Fail p
            | OutOfFuel => OutOfFuel
            end
          else Fail pos
      | _ => Fail pos
      end
  | Dolike h =>
      match ts with
      | TGroup GExpr _ (hd :: body) :: r =>
          if sym_named hd h then Ok (RList (map (fun t => RTok (tok_id t)) body)) r (S pos) else Fail 0
      | TGroup GExpr _ [] :: r => Fail 0
      | _ => Fail pos
      end
  end.

(* the parser of a decorator: whole(pattern list) on the argument list *)
Definition run_seq := run_seq_with run.

Definition parse_whole (ps : list pat) (args : list tok) : outcome :=
  match run_seq ps true RNone args 0 with
  | Ok v r p => Ok (shape_whole (length ps) (count_non_ignored ps) v) r p
  | o => o
  end.

End Run.

(* what pattern_macro's wrapper does with the parser's verdict:
   parse tree handed to the handler, or a syntax error pointing at
   expr[min(e.state.pos + 1, len(expr) - 1)], expr = (head arg1 ... argn) *)
Inductive macro_outcome :=
| Parsed (tree : pres)
| SyntaxErrorAt (index : nat)
| Diverges.

Definition pattern_macro (ps : list pat) (args : list tok) : macro_outcome :=
  match parse_whole ps args with
  | Ok v _ _ => Parsed v
  | Fail pos => SyntaxErrorAt (Nat.min (pos + 1) (S (length args) - 1))
  | OutOfFuel => Diverges
  end.
