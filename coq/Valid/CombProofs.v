(* C10: facts about the combinator semantics of Valid/Comb.v:
   - a successful parser never lengthens the remaining input, and shortens it
     when it is [consumes];
   - a well-formed pattern (no repetition of a parser that can succeed without
     consuming) never runs out of fuel: the real parser terminates;
   - so pattern_macro ends in a parse tree or in a syntax error whose index is
     inside the form;
   - the flat operator grammars accept exactly an arity range. *)
From HyV Require Import Base.Text Valid.Comb.
From Coq Require Import Lia.
Local Open Scope nat_scope.

(* ---------------------------------------------------------------- induction over patterns *)
Section PatInd.
Variable P : pat -> Prop.
Hypothesis HSome : forall p, P (Some_ p).
Hypothesis HSeq : forall a b, P a -> P b -> P (Seq a b).
Hypothesis HAlt : forall a b, P a -> P b -> P (Alt a b).
Hypothesis HMany : forall q, P q -> P (Many q).
Hypothesis HOneplus : forall q, P q -> P (Oneplus q).
Hypothesis HMaybe : forall q, P q -> P (Maybe q).
Hypothesis HTimes : forall lo hi q, P q -> P (Times lo hi q).
Hypothesis HSkip : forall q, P q -> P (Skip q).
Hypothesis HFinished : P Finished.
Hypothesis HGroup : forall k ps, Forall P ps -> P (Group k ps).
Hypothesis HDolike : forall h, P (Dolike h).

Fixpoint pat_rect' (p : pat) : P p :=
  match p with
  | Some_ x => HSome x
  | Seq a b => HSeq a b (pat_rect' a) (pat_rect' b)
  | Alt a b => HAlt a b (pat_rect' a) (pat_rect' b)
  | Many q => HMany q (pat_rect' q)
  | Oneplus q => HOneplus q (pat_rect' q)
  | Maybe q => HMaybe q (pat_rect' q)
  | Times lo hi q => HTimes lo hi q (pat_rect' q)
  | Skip q => HSkip q (pat_rect' q)
  | Finished => HFinished
  | Group k ps =>
      HGroup k ps ((fix go (l : list pat) : Forall P l :=
                      match l with
                      | [] => Forall_nil P
                      | q :: r => Forall_cons q (pat_rect' q) (go r)
                      end) ps)
  | Dolike h => HDolike h
  end.
End PatInd.

(* ---------------------------------------------------------------- consuming / well-formed *)

(* every success of p consumes at least one token *)
Fixpoint consumes (p : pat) : bool :=
  match p with
  | Some_ _ => true
  | Seq a b => consumes a || consumes b
  | Alt a b => consumes a && consumes b
  | Many _ | Maybe _ | Finished => false
  | Oneplus q => consumes q
  | Times lo _ q => match lo with O => false | S _ => consumes q end
  | Skip q => consumes q
  | Group _ _ => true
  | Dolike _ => true
  end.

(* repetition only of consuming parsers *)
Fixpoint wf (p : pat) : bool :=
  match p with
  | Some_ _ | Finished | Dolike _ => true
  | Seq a b | Alt a b => wf a && wf b
  | Many q | Oneplus q => wf q && consumes q
  | Times _ None q => wf q && consumes q
  | Times _ (Some _) q => wf q
  | Maybe q | Skip q => wf q
  | Group _ ps => forallb wf ps
  end.

Definition shrinks (runp : list tok -> nat -> outcome) : Prop :=
  forall ts pos v ts' pos', runp ts pos = Ok v ts' pos' -> length ts' <= length ts.
Definition shrinks_strictly (runp : list tok -> nat -> outcome) : Prop :=
  forall ts pos v ts' pos', runp ts pos = Ok v ts' pos' -> length ts' < length ts.
Definition never_oof (runp : list tok -> nat -> outcome) : Prop :=
  forall ts pos, runp ts pos <> OutOfFuel.

Lemma many_loop_le runp : shrinks runp -> forall fuel ts pos acc v ts' pos',
  many_loop runp fuel ts pos acc = Ok v ts' pos' -> length ts' <= length ts.
Proof.
  intros H. induction fuel as [|f IH]; intros ts pos acc v ts' pos' E; cbn [many_loop] in E; [discriminate|].
  destruct (runp ts pos) as [w ts1 pos1| |] eqn:R; [| |discriminate].
  - apply IH in E. apply H in R. lia.
  - inversion E; subst. lia.
Qed.

Lemma exactly_le runp : shrinks runp -> forall n ts pos acc v ts' pos',
  exactly runp n ts pos acc = Ok v ts' pos' -> length ts' <= length ts.
Proof.
  intros H. induction n as [|n IH]; intros ts pos acc v ts' pos' E; cbn [exactly] in E.
  - inversion E; subst. lia.
  - destruct (runp ts pos) as [w ts1 pos1| |] eqn:R; try discriminate.
    apply IH in E. apply H in R. lia.
Qed.

Lemma exactly_lt runp : shrinks_strictly runp -> forall n ts pos acc v ts' pos',
  exactly runp (S n) ts pos acc = Ok v ts' pos' -> length ts' < length ts.
Proof.
  intros H n ts pos acc v ts' pos' E. cbn [exactly] in E.
  destruct (runp ts pos) as [w ts1 pos1| |] eqn:R; try discriminate.
  assert (S : shrinks runp) by (intros a b c d e F; apply H in F; lia).
  apply (exactly_le runp S) in E. apply H in R. lia.
Qed.

Lemma at_most_le runp : shrinks runp -> forall n ts pos acc v ts' pos',
  at_most runp n ts pos acc = Ok v ts' pos' -> length ts' <= length ts.
Proof.
  intros H. induction n as [|n IH]; intros ts pos acc v ts' pos' E; cbn [at_most] in E.
  - inversion E; subst. lia.
  - destruct (runp ts pos) as [w ts1 pos1| |] eqn:R; [| |discriminate].
    + apply IH in E. apply H in R. lia.
    + inversion E; subst. lia.
Qed.

Lemma run_seq_with_le runq ps : Forall (fun q => shrinks (runq q)) ps ->
  forall first acc ts pos v ts' pos',
  run_seq_with runq ps first acc ts pos = Ok v ts' pos' -> length ts' <= length ts.
Proof.
  induction 1 as [|q ps Hq _ IH]; intros first acc ts pos v ts' pos' E; cbn [run_seq_with] in E.
  - destruct ts; [inversion E; subst; cbn; lia | discriminate].
  - destruct (runq q ts pos) as [w ts1 pos1| |] eqn:R; try discriminate.
    apply IH in E. apply Hq in R. lia.
Qed.

(* ---------------------------------------------------------------- success never lengthens the input *)

Lemma run_shrinks : forall p, shrinks (run p) /\ (consumes p = true -> shrinks_strictly (run p)).
Proof.
  induction p using pat_rect'; cbn [consumes].
  - (* Some_ *)
    assert (A : shrinks_strictly (run (Some_ p))).
    { intros ts pos v ts' pos' E. cbn [run] in E. destruct ts as [|t r]; [discriminate|].
      destruct (test p t); [|discriminate]. inversion E; subst. cbn. lia. }
    split; [intros a b c d e F; apply A in F; lia | intros _; exact A].
  - (* Seq *)
    destruct IHp1 as [A1 A2], IHp2 as [B1 B2].
    assert (G : forall ts pos v ts' pos', run (Seq p1 p2) ts pos = Ok v ts' pos' ->
              exists v1 t1 q1 v2, run p1 ts pos = Ok v1 t1 q1 /\ run p2 t1 q1 = Ok v2 ts' pos').
    { intros ts pos v ts' pos' E. cbn [run] in E.
      destruct (run p1 ts pos) as [v1 t1 q1| |] eqn:R1; try discriminate.
      destruct (run p2 t1 q1) as [v2 t2 q2| |] eqn:R2; try discriminate.
      inversion E; subst. exists v1, t1, q1, v2. split; [reflexivity | assumption]. }
    split.
    + intros ts pos v ts' pos' E. destruct (G _ _ _ _ _ E) as (v1 & t1 & q1 & v2 & R1 & R2).
      apply A1 in R1. apply B1 in R2. lia.
    + intros C ts pos v ts' pos' E. destruct (G _ _ _ _ _ E) as (v1 & t1 & q1 & v2 & R1 & R2).
      apply orb_true_iff in C. destruct C as [C|C].
      * apply (A2 C) in R1. apply B1 in R2. lia.
      * apply A1 in R1. apply (B2 C) in R2. lia.
  - (* Alt *)
    destruct IHp1 as [A1 A2], IHp2 as [B1 B2]. split.
    + intros ts pos v ts' pos' E. cbn [run] in E.
      destruct (run p1 ts pos) as [v1 t1 q1| |] eqn:R1; try discriminate.
      * inversion E; subst. apply A1 in R1. exact R1.
      * apply B1 in E. exact E.
    + intros C ts pos v ts' pos' E. apply andb_true_iff in C. destruct C as [C1 C2]. cbn [run] in E.
      destruct (run p1 ts pos) as [v1 t1 q1| |] eqn:R1; try discriminate.
      * inversion E; subst. apply (A2 C1) in R1. exact R1.
      * apply (B2 C2) in E. exact E.
  - (* Many *)
    destruct IHp as [A1 _]. split; [|discriminate].
    intros ts pos v ts' pos' E. cbn [run] in E. exact (many_loop_le _ A1 _ _ _ _ _ _ _ E).
  - (* Oneplus *)
    destruct IHp as [A1 A2].
    assert (G : forall ts pos v ts' pos', run (Oneplus p) ts pos = Ok v ts' pos' ->
              exists v1 t1 q1, run p ts pos = Ok v1 t1 q1 /\ length ts' <= length t1).
    { intros ts pos v ts' pos' E. cbn [run] in E.
      destruct (run p ts pos) as [v1 t1 q1| |] eqn:R1; try discriminate.
      destruct (many_loop (run p) (S (length t1)) t1 q1 []) as [vs t2 q2| |] eqn:R2; try discriminate.
      inversion E; subst. exists v1, t1, q1. split; [reflexivity|].
      exact (many_loop_le _ A1 _ _ _ _ _ _ _ R2). }
    split.
    + intros ts pos v ts' pos' E. destruct (G _ _ _ _ _ E) as (v1 & t1 & q1 & R1 & L). apply A1 in R1. lia.
    + intros C ts pos v ts' pos' E. destruct (G _ _ _ _ _ E) as (v1 & t1 & q1 & R1 & L). apply (A2 C) in R1. lia.
  - (* Maybe *)
    destruct IHp as [A1 _]. split; [|discriminate].
    intros ts pos v ts' pos' E. cbn [run] in E.
    destruct (run p ts pos) as [v1 t1 q1| |] eqn:R1; try discriminate.
    + inversion E; subst. apply A1 in R1. exact R1.
    + inversion E; subst. lia.
  - (* Times *)
    destruct IHp as [A1 A2].
    assert (G : forall ts pos v ts' pos', run (Times lo hi p) ts pos = Ok v ts' pos' ->
              exists v1 t1 q1, exactly (run p) lo ts pos [] = Ok v1 t1 q1 /\ length ts' <= length t1).
    { intros ts pos v ts' pos' E. cbn [run] in E.
      destruct (exactly (run p) lo ts pos []) as [v1 t1 q1| |] eqn:R1; try discriminate.
      exists v1, t1, q1. split; [reflexivity|].
      destruct hi as [h|].
      - destruct (at_most (run p) (h - lo) t1 q1 []) as [v2 t2 q2| |] eqn:R2; try discriminate.
        inversion E; subst. exact (at_most_le _ A1 _ _ _ _ _ _ _ R2).
      - destruct (many_loop (run p) (S (length t1)) t1 q1 []) as [v2 t2 q2| |] eqn:R2; try discriminate.
        inversion E; subst. exact (many_loop_le _ A1 _ _ _ _ _ _ _ R2). }
    split.
    + intros ts pos v ts' pos' E. destruct (G _ _ _ _ _ E) as (v1 & t1 & q1 & R1 & L).
      apply (exactly_le _ A1) in R1. lia.
    + destruct lo as [|lo]; [discriminate|]. intros C ts pos v ts' pos' E.
      destruct (G _ _ _ _ _ E) as (v1 & t1 & q1 & R1 & L). apply (exactly_lt _ (A2 C)) in R1. lia.
  - (* Skip *)
    destruct IHp as [A1 A2]. split; [exact A1 | exact A2].
  - (* Finished *)
    split; [|discriminate]. intros ts pos v ts' pos' E. cbn [run] in E. destruct ts; [|discriminate].
    inversion E; subst. lia.
  - (* Group *)
    assert (A : shrinks_strictly (run (Group k ps))).
    { intros ts pos v ts' pos' E. cbn [run] in E.
      destruct ts as [|t r]; [discriminate|]. destruct t; try discriminate.
      destruct (gkind_eqb k k0); [|discriminate].
      destruct (run_seq_with run ps true RNone l 0); try discriminate.
      inversion E; subst. cbn. lia. }
    split; [intros a b c d e F; apply A in F; lia | intros _; exact A].
  - (* Dolike *)
    assert (A : shrinks_strictly (run (Dolike h))).
    { intros ts pos v ts' pos' E. cbn [run] in E.
      destruct ts as [|t r]; [discriminate|]. destruct t; try discriminate.
      destruct k; try discriminate. destruct l as [|hd body]; [discriminate|].
      destruct (sym_named hd h); [|discriminate]. inversion E; subst. cbn. lia. }
    split; [intros a b c d e F; apply A in F; lia | intros _; exact A].
Qed.

(* ---------------------------------------------------------------- well-formed patterns terminate *)

Lemma many_loop_no_oof runp : shrinks_strictly runp -> never_oof runp ->
  forall fuel ts pos acc, length ts < fuel -> many_loop runp fuel ts pos acc <> OutOfFuel.
Proof.
  intros Hs Hn. induction fuel as [|f IH]; intros ts pos acc L; [lia|]. cbn [many_loop].
  destruct (runp ts pos) as [w ts1 pos1| |] eqn:R.
  - apply IH. apply Hs in R. lia.
  - discriminate.
  - exfalso. exact (Hn _ _ R).
Qed.

Lemma exactly_no_oof runp : never_oof runp -> forall n ts pos acc, exactly runp n ts pos acc <> OutOfFuel.
Proof.
  intros Hn. induction n as [|n IH]; intros ts pos acc; cbn [exactly]; [discriminate|].
  destruct (runp ts pos) eqn:R; [apply IH | discriminate | exfalso; exact (Hn _ _ R)].
Qed.

Lemma at_most_no_oof runp : never_oof runp -> forall n ts pos acc, at_most runp n ts pos acc <> OutOfFuel.
Proof.
  intros Hn. induction n as [|n IH]; intros ts pos acc; cbn [at_most]; [discriminate|].
  destruct (runp ts pos) eqn:R; [apply IH | discriminate | exfalso; exact (Hn _ _ R)].
Qed.

Lemma run_seq_with_no_oof runq ps : Forall (fun q => never_oof (runq q)) ps ->
  forall first acc ts pos, run_seq_with runq ps first acc ts pos <> OutOfFuel.
Proof.
  induction 1 as [|q ps Hq _ IH]; intros first acc ts pos; cbn [run_seq_with].
  - destruct ts; discriminate.
  - destruct (runq q ts pos) eqn:R; [apply IH | discriminate | exfalso; exact (Hq _ _ R)].
Qed.

Lemma wf_never_oof : forall p, wf p = true -> never_oof (run p).
Proof.
  induction p using pat_rect'; cbn [wf]; intros W ts pos.
  - cbn [run]. destruct ts as [|t r]; [discriminate|]. destruct (test p t); discriminate.
  - apply andb_true_iff in W. destruct W as [W1 W2]. cbn [run].
    destruct (run p1 ts pos) eqn:R1; [| discriminate | exfalso; exact (IHp1 W1 _ _ R1)].
    destruct (run p2 rest pos0) eqn:R2; [discriminate | discriminate | exfalso; exact (IHp2 W2 _ _ R2)].
  - apply andb_true_iff in W. destruct W as [W1 W2]. cbn [run].
    destruct (run p1 ts pos) eqn:R1; [discriminate | apply (IHp2 W2) | exfalso; exact (IHp1 W1 _ _ R1)].
  - apply andb_true_iff in W. destruct W as [W1 C]. cbn [run].
    apply many_loop_no_oof; [exact (proj2 (run_shrinks p) C) | exact (IHp W1) | lia].
  - apply andb_true_iff in W. destruct W as [W1 C]. cbn [run].
    destruct (run p ts pos) eqn:R1; [| discriminate | exfalso; exact (IHp W1 _ _ R1)].
    destruct (many_loop (run p) (S (length rest)) rest pos0 []) eqn:R2; [discriminate | discriminate |].
    exfalso. revert R2. apply many_loop_no_oof; [exact (proj2 (run_shrinks p) C) | exact (IHp W1) | lia].
  - cbn [run]. destruct (run p ts pos) eqn:R1; [discriminate | discriminate | exfalso; exact (IHp W _ _ R1)].
  - cbn [run].
    assert (W1 : wf p = true) by (destruct hi; [exact W | apply andb_true_iff in W; tauto]).
    destruct (exactly (run p) lo ts pos []) eqn:R1; [| discriminate | exfalso; exact (exactly_no_oof _ (IHp W1) _ _ _ _ R1)].
    destruct hi as [h|].
    + destruct (at_most (run p) (h - lo) rest pos0 []) eqn:R2; [discriminate | discriminate |].
      exfalso. exact (at_most_no_oof _ (IHp W1) _ _ _ _ R2).
    + apply andb_true_iff in W. destruct W as [_ C].
      destruct (many_loop (run p) (S (length rest)) rest pos0 []) eqn:R2; [discriminate | discriminate |].
      exfalso. revert R2. apply many_loop_no_oof; [exact (proj2 (run_shrinks p) C) | exact (IHp W1) | lia].
  - cbn [run]. exact (IHp W ts pos).
  - cbn [run]. destruct ts; discriminate.
  - cbn [run]. destruct ts as [|t r]; [discriminate|]. destruct t; try discriminate.
    destruct (gkind_eqb k k0); [|discriminate].
    destruct (run_seq_with run ps true RNone l 0) eqn:R; [discriminate | discriminate |].
    exfalso. revert R. apply run_seq_with_no_oof.
    rewrite forallb_forall in W. rewrite Forall_forall in H |- *. intros q Hq. exact (H q Hq (W q Hq)).
  - cbn [run]. destruct ts as [|t r]; [discriminate|]. destruct t; try discriminate.
    destruct k; try discriminate. destruct l; [discriminate|]. destruct (sym_named t h); discriminate.
Qed.

(* ---------------------------------------------------------------- pattern_macro *)

Definition wf_all (ps : list pat) : bool := forallb wf ps.


Theorem pattern_macro_outcome : forall ps args, wf_all ps = true ->
  (exists tree, pattern_macro ps args = Parsed tree)
  \/ (exists i, pattern_macro ps args = SyntaxErrorAt i /\ i < S (length args)).
Proof.
  intros ps args W. unfold pattern_macro, parse_whole, run_seq.
  destruct (run_seq_with run ps true RNone args 0) as [v r p|p|] eqn:R.
  - left. eexists. reflexivity.
  - right. eexists. split; [reflexivity|]. lia.
  - exfalso. revert R. apply run_seq_with_no_oof.
    unfold wf_all in W. rewrite forallb_forall in W. rewrite Forall_forall. intros q Hq.
    exact (wf_never_oof q (W q Hq)).
Qed.

(* ---------------------------------------------------------------- flat grammars: arity *)

Definition FORM : pat := Some_ PAny.

(* k fixed forms followed by an optional repetition of FORM *)
Inductive tail := TNone | TMany | TOneplus | TTimes (lo : nat) (hi : option nat).

Definition tail_pat (t : tail) : list pat :=
  match t with
  | TNone => []
  | TMany => [Many FORM]
  | TOneplus => [Oneplus FORM]
  | TTimes lo hi => [Times lo hi FORM]
  end.

Definition flat (k : nat) (t : tail) : list pat := repeat FORM k ++ tail_pat t.

Definition in_arity (k : nat) (t : tail) (n : nat) : Prop :=
  match t with
  | TNone => n = k
  | TMany => k <= n
  | TOneplus => k + 1 <= n
  | TTimes lo None => k + lo <= n
  | TTimes lo (Some hi) => k + lo <= n /\ (n <= k + Nat.max lo hi)
  end.

Definition accepts (ps : list pat) (args : list tok) : Prop := exists tree, pattern_macro ps args = Parsed tree.

Lemma run_FORM t r pos : run FORM (t :: r) pos = Ok (RTok (tok_id t)) r (S pos).
Proof. reflexivity. Qed.

Lemma many_FORM_all : forall ts fuel pos acc, length ts < fuel ->
  exists v, many_loop (run FORM) fuel ts pos acc = Ok v [] (pos + length ts).
Proof.
  induction ts as [|t r IH]; intros fuel pos acc L; destruct fuel as [|f]; try (cbn in L; lia).
  - cbn. eexists. rewrite Nat.add_0_r. reflexivity.
  - cbn [many_loop]. rewrite run_FORM. cbn [length] in L.
    destruct (IH f (S pos) (RTok (tok_id t) :: acc)) as [v E]; [lia|].
    exists v. rewrite E. f_equal. cbn [length]. lia.
Qed.

Lemma exactly_FORM : forall n ts pos acc,
  (n <= length ts -> exists v, exactly (run FORM) n ts pos acc = Ok v (skipn n ts) (pos + n))
  /\ (length ts < n -> exists p, exactly (run FORM) n ts pos acc = Fail p).
Proof.
  induction n as [|n IH]; intros ts pos acc; split; intros L.
  - cbn. eexists. rewrite Nat.add_0_r. reflexivity.
  - lia.
  - destruct ts as [|t r]; [cbn in L; lia|]. cbn [exactly]. rewrite run_FORM.
    destruct (proj1 (IH r (S pos) (RTok (tok_id t) :: acc))) as [v E]; [cbn in L; lia|].
    exists v. rewrite E. cbn [skipn]. f_equal. lia.
  - destruct ts as [|t r].
    + cbn. eexists. reflexivity.
    + cbn [exactly]. rewrite run_FORM. apply (proj2 (IH r (S pos) (RTok (tok_id t) :: acc))). cbn in L. lia.
Qed.

Lemma at_most_FORM : forall n ts pos acc,
  exists v, at_most (run FORM) n ts pos acc = Ok v (skipn n ts) (pos + Nat.min n (length ts)).
Proof.
  induction n as [|n IH]; intros ts pos acc.
  - cbn. eexists. rewrite Nat.add_0_r. reflexivity.
  - destruct ts as [|t r].
    + cbn. eexists. rewrite Nat.add_0_r. reflexivity.
    + cbn [at_most]. rewrite run_FORM. destruct (IH r (S pos) (RTok (tok_id t) :: acc)) as [v E].
      exists v. rewrite E. cbn [skipn length Nat.min]. f_equal. lia.
Qed.

(* the k leading FORMs *)
Lemma run_seq_FORMs : forall k rest first acc ts pos,
  (k <= length ts -> exists first' acc',
     run_seq_with run (repeat FORM k ++ rest) first acc ts pos = run_seq_with run rest first' acc' (skipn k ts) (pos + k))
  /\ (length ts < k -> exists p, run_seq_with run (repeat FORM k ++ rest) first acc ts pos = Fail p).
Proof.
  induction k as [|k IH]; intros rest first acc ts pos; split; intros L.
  - cbn. exists first, acc. rewrite Nat.add_0_r. reflexivity.
  - lia.
  - destruct ts as [|t r]; [cbn in L; lia|]. cbn [repeat app run_seq_with]. rewrite run_FORM.
    destruct (proj1 (IH rest (first && ignored FORM) (if ignored FORM then acc else if first then RTok (tok_id t) else magic acc (RTok (tok_id t))) r (S pos)))
      as (f' & a' & E); [cbn in L; lia|].
    exists f', a'. rewrite E. cbn [skipn]. f_equal. lia.
  - destruct ts as [|t r].
    + cbn. eexists. reflexivity.
    + cbn [repeat app run_seq_with]. rewrite run_FORM. apply IH. cbn in L. lia.
Qed.

Lemma skipn_length_le {A} n (l : list A) : length (skipn n l) = length l - n.
Proof. apply skipn_length. Qed.

Theorem flat_accepts_iff : forall k t args, accepts (flat k t) args <-> in_arity k t (length args).
Proof.
  intros k t args. unfold accepts, pattern_macro, parse_whole, run_seq, flat.
  destruct (Nat.le_gt_cases k (length args)) as [L|L].
  2:{ (* too few arguments for the fixed part *)
      destruct (proj2 (run_seq_FORMs k (tail_pat t) true RNone args 0) L) as [p E]. rewrite E. split.
      - intros [tree H]. discriminate.
      - intros H. exfalso. destruct t as [| | |lo [hi|]]; cbn in H; lia. }
  destruct (proj1 (run_seq_FORMs k (tail_pat t) true RNone args 0) L) as (f' & a' & E). rewrite E. clear E.
  pose proof (skipn_length k args) as SL.
  remember (skipn k args) as rest eqn:Hr. clear Hr.
  destruct t as [| | |lo hi]; cbn [tail_pat run_seq_with in_arity].
  - (* no tail: finished *)
    destruct rest as [|x r].
    + split; [intros _; cbn in SL; lia | intros _; eexists; reflexivity].
    + split; [intros [tree H]; discriminate | intros H; cbn in SL; lia].
  - (* many *)
    cbn [run]. destruct (many_FORM_all rest (S (length rest)) (0 + k) []) as [v E]; [lia|]. rewrite E.
    split; [intros _; lia | intros _; eexists; reflexivity].
  - (* oneplus *)
    cbn [run]. destruct rest as [|x r].
    + cbn. split; [intros [tree H]; discriminate | intros H; cbn in SL; lia].
    + rewrite run_FORM. destruct (many_FORM_all r (S (length r)) (S (0 + k)) []) as [v E]; [lia|]. rewrite E.
      split; [intros _; cbn in SL; lia | intros _; eexists; reflexivity].
  - (* times *)
    cbn [run]. destruct (Nat.le_gt_cases lo (length rest)) as [L2|L2].
    2:{ destruct (proj2 (exactly_FORM lo rest (0 + k) []) L2) as [p E]. rewrite E.
        split; [intros [tree H]; discriminate | intros H; destruct hi; lia]. }
    destruct (proj1 (exactly_FORM lo rest (0 + k) []) L2) as [v1 E]. rewrite E. clear E.
    pose proof (skipn_length lo rest) as SL2. remember (skipn lo rest) as rest2 eqn:Hr2. clear Hr2.
    destruct hi as [hi|].
    + destruct (at_most_FORM (hi - lo) rest2 (0 + k + lo) []) as [v2 E]. rewrite E. clear E.
      pose proof (skipn_length (hi - lo) rest2) as SL3. remember (skipn (hi - lo) rest2) as rest3 eqn:Hr3. clear Hr3.
      destruct rest3 as [|x r].
      * split; [intros _; cbn in SL3; lia | intros _; eexists; reflexivity].
      * split; [intros [tree H]; discriminate | intros H; cbn in SL3; lia].
    + destruct (many_FORM_all rest2 (S (length rest2)) (0 + k + lo) []) as [v2 E]; [lia|]. rewrite E.
      split; [intros _; lia | intros _; eexists; reflexivity].
Qed.
