(* C10: model of the expression-level part of the compiler (hy/compiler.py model
   compilers and _compile_collect; hy/core/result_macros.py operator macros,
   if, get, unpack-iterable, chainc), for trees whose sub-forms all yield pure
   expressions, together with the error classification:

     - a NoParseError of the macro's grammar              -> user-facing syntax error
     - a Python exception inside a macro (MacroExceptions) -> HyMacroExpansionError (user-facing)
     - a Python exception elsewhere (HyASTCompiler.compile) -> HyCompileError (internal)

   Operator tables, arities and the list of macro names come from Gen/Patterns.v. *)
From Coq Require Import ZArith.
From HyV Require Import Base.Text Valid.Comb Valid.CombProofs Gen.Patterns Valid.GrammarFacts.
Local Open Scope nat_scope.

Inductive hy :=
| HSym (s : text)
| HKw (s : text)
| HInt (z : Z)
| HStr (s : text)
| HExpr (l : list hy)
| HList (l : list hy)
| HTuple (l : list hy)
| HSet (l : list hy)
| HDict (l : list hy).

Inductive const := CNone | CTrue | CFalse | CEllipsis | CInt (z : Z) | CStr (s : text).

Inductive expr :=
| EConst (c : const)
| EName (id : text)                                   (* ctx = Load throughout this fragment *)
| EBinOp (l : expr) (op : text) (r : expr)            (* op = name of the ast class *)
| EUnaryOp (op : text) (e : expr)
| EBoolOp (op : text) (vs : list expr)
| ECompare (l : expr) (ops : list text) (cs : list expr)
| ECall (f : expr) (args : list expr) (kws : list (option text * expr))
| EAttribute (v : expr) (attr : text)
| ESubscript (v : expr) (sl : expr)
| EStarred (v : expr)
| EIfExp (t b o : expr)
| EList (es : list expr)
| ETuple (es : list expr)
| ESet (es : list expr)
| EDict (keys : list (option expr)) (vals : list (option expr)).   (* a None in `values` is what CPython rejects *)

Inductive cres :=
| COk (e : expr)
| CUser            (* HySyntaxError / HyMacroExpansionError ... : a HyLanguageError *)
| CInternal        (* HyCompileError "Internal Compiler Bug" *)
| CUnmodelled.     (* a head outside this fragment *)

Definition t_of (l : list nat) : text := map N.of_nat l.
Definition s_unpack_iterable : text := unpack_prefix ++ t_of [105;116;101;114;97;98;108;101].
Definition s_unpack_mapping : text := unpack_prefix ++ t_of [109;97;112;112;105;110;103].
Definition s_if : text := t_of [105;102].
Definition s_get : text := t_of [103;101;116].
Definition s_chainc : text := t_of [99;104;97;105;110;99].
Definition s_dots : text := t_of [46;46;46].
Definition s_None : text := t_of [78;111;110;101].
Definition s_True : text := t_of [84;114;117;101].
Definition s_False : text := t_of [70;97;108;115;101].
Definition s_hy : text := t_of [104;121].
Definition s_models : text := t_of [109;111;100;101;108;115].
Definition s_Keyword : text := t_of [75;101;121;119;111;114;100].
Definition s_pyops : text := t_of [112;121;111;112;115].
Definition s_slash : text := t_of [47].
Definition s_pow : text := t_of [42;42].
Definition s_ifstar : text := t_of [105;102;42].
Definition s_annotate : text := t_of [97;110;110;111;116;97;116;101].

Fixpoint lookup {A} (k : text) (l : list (text * A)) : option A :=
  match l with [] => None | (a, b) :: r => if text_eqb k a then Some b else lookup k r end.

Section Compile.
Variable mangle : text -> text.

Definition is_unpack (kind : text) (x : hy) : bool :=
  match x with HExpr (HSym h :: _) => text_eqb h kind | _ => false end.

Definition head_in (heads : list text) (s : text) : bool := existsb (fun h => text_eqb (mangle s) (mangle h)) heads.

(* the grammar of a head, as translated *)
Fixpoint grammar_of (s : text) (gs : list (list text * list pat * bool)) : option (list pat * bool) :=
  match gs with
  | [] => None
  | (hs, ps, sh) :: r => if existsb (fun h => text_eqb (mangle s) (mangle h)) hs then Some (ps, sh) else grammar_of s r
  end.

(* tokens for the grammar check: only what the flat grammars and chainc look at *)
Definition tok_of (x : hy) : tok :=
  match x with
  | HSym s => TSym 0 s
  | HKw s => TKw 0 s
  | HStr _ => TStr 0
  | HInt _ => TLit 0
  | HExpr l => TGroup GExpr 0 (map (fun y => match y with HSym s => TSym 0 s | _ => TOther 0 end) l)
  | HList _ => TGroup GList 0 []
  | HTuple _ => TGroup GTuple 0 []
  | HDict _ => TGroup GDict 0 []
  | HSet _ => TOther 0
  end.

Definition grammar_accepts (ps : list pat) (args : list hy) : bool :=
  match pattern_macro ps (map tok_of args) with Parsed _ => true | _ => false end.

(* what MacroExceptions does to a result produced inside a macro *)
Definition in_macro (r : cres) : cres := match r with CInternal => CUser | x => x end.

Definition kw_call (name : text) : expr :=
  ECall (EAttribute (EAttribute (EName s_hy) s_models) s_Keyword) [EConst (CStr name)] [].

Definition compile_symbol (s : text) : expr :=
  if text_eqb s s_dots then EConst CEllipsis
  else let m := mangle s in
       if text_eqb m s_None then EConst CNone
       else if text_eqb m s_True then EConst CTrue
       else if text_eqb m s_False then EConst CFalse
       else EName m.

(* result of _compile_collect *)
Inductive collected :=
| Coll (exprs : list (option expr)) (kws : list (option text * expr))
| CollErr (r : cres).

(* _compile_collect(exprs, with_kwargs, dict_display) over a compile function for the elements *)
Definition collect_with (comp : hy -> cres) (with_kwargs dict_display : bool) :=
  fix go (l : list hy) : collected :=
  match l with
  | [] => Coll [] []
  | x :: r =>
      if is_unpack s_unpack_mapping x then
        match x with
        | HExpr [_; v] =>
            match comp v with
            | COk e =>
                if dict_display then
                  match go r with Coll es ks => Coll (None :: Some e :: es) ks | err => err end
                else if with_kwargs then
                  match go r with Coll es ks => Coll es ((None, e) :: ks) | err => err end
                else CollErr CUser                               (* can't unpack a mapping here: raised at once *)
            | bad => CollErr bad
            end
        | _ => CollErr CUser                 (* `unpack-mapping` takes exactly one argument (fix b5377ba) *)
        end
      else
        match x, with_kwargs with
        | HKw k, true =>
            match r with
            | [] => CollErr CUser                                 (* Keyword argument needs a value *)
            | v :: r' =>
                match k with
                | [] => CollErr CUser                             (* the empty keyword *)
                | _ =>
                    match comp v with
                    | COk e =>
                        match go r' with
                        | Coll es ks => Coll es ((Some (mangle k), e) :: ks)
                        | err => err
                        end
                    | bad => CollErr bad
                    end
                end
            end
        | _, _ =>
            match comp x with
            | COk e => match go r with Coll es ks => Coll (Some e :: es) ks | err => err end
            | bad => CollErr bad
            end
        end
  end.

Fixpoint somes {A} (l : list (option A)) : list A :=
  match l with [] => [] | Some a :: r => a :: somes r | None :: r => somes r end.

Fixpoint evens {A} (l : list A) : list A := match l with [] => [] | a :: r => a :: match r with [] => [] | _ :: r' => evens r' end end.
Definition odds {A} (l : list A) : list A := match l with [] => [] | _ :: r => evens r end.

(* left fold of BinOp; right fold for ** *)
Fixpoint fold_left_binop (op : text) (acc : expr) (rest : list expr) : expr :=
  match rest with [] => acc | e :: r => fold_left_binop op (EBinOp acc op e) r end.
Fixpoint fold_right_binop (op : text) (es : list expr) (last : expr) : expr :=
  match es with [] => last | e :: r => EBinOp e op (fold_right_binop op r last) end.

Fixpoint subscripts (v : expr) (ixs : list expr) : expr :=
  match ixs with [] => v | i :: r => subscripts (ESubscript v i) r end.

Definition pyops_call (name : text) (args : list expr) : expr :=
  ECall (EAttribute (EAttribute (EName s_hy) s_pyops) (mangle name)) args [].

Definition all_ok (comp : hy -> cres) :=
  fix go (l : list hy) : cres + list expr :=
  match l with
  | [] => inr []
  | x :: r => match comp x with
              | COk e => match go r with inr es => inr (e :: es) | inl bad => inl bad end
              | bad => inl bad
              end
  end.

(* one element of _compile_collect without keyword arguments and outside a dict display *)
Definition collect1 (comp : hy -> cres) (x : hy) : cres + option expr :=
  if is_unpack s_unpack_mapping x then
    match x with
    | HExpr [_; v] => match comp v with COk _ => inl CUser (* can't unpack a mapping here *) | bad => inl bad end
    | _ => inl CUser
    end
  else match comp x with COk e => inr (Some e) | bad => inl bad end.

Inductive chained :=
| Chain (ops : list text) (es : list (option expr))
| ChainErr (r : cres)
| ChainNoParse.          (* the grammar many(SYM + FORM) does not match *)

(* chainc: the (op form) pairs after the first form; operators are looked up before the operands are compiled *)
Definition chain_with (comp : hy -> cres) (cop : text -> option text) :=
  fix go (l : list hy) : chained :=
  match l with
  | [] => Chain [] []
  | HSym o :: x :: r =>
      match go r with
      | Chain ops es =>
          match cop o with
          | None => ChainErr CUser
          | Some cls => match collect1 comp x with inr e => Chain (cls :: ops) (e :: es) | inl bad => ChainErr bad end
          end
      | other => other
      end
  | _ => ChainNoParse
  end.

Definition c_op (s : text) : option text := lookup (mangle s) (map (fun p => (mangle (fst p), snd p)) c_ops_class).

(* the handler of a macro head, given the compile function for sub-forms; runs inside MacroExceptions *)
Definition handler (comp : hy -> cres) (head : text) (args : list hy) : cres :=
  let collect := collect_with comp false false in
  match lookup head unary_ops_class with
  | Some cls =>
      match args with [x] => match comp x with COk e => COk (EUnaryOp cls e) | bad => bad end | _ => CUser end
  | None =>
  match lookup head (map (fun t => (fst (fst t), (snd (fst t), snd t))) bool_ops_class) with
  | Some (cls, dflt_true) =>
      match all_ok comp args with
      | inl bad => bad
      | inr [] => COk (EConst (if dflt_true then CTrue else CNone))
      | inr [e] => COk e
      | inr es => COk (EBoolOp cls es)
      end
  | None =>
  match lookup head c_ops_class with
  | Some _ =>
      match args with
      | [x] => match comp x with COk _ => COk (EConst CTrue) | bad => bad end
      | _ =>
          match c_op head with
          | None => CUser
          | Some cls =>
              match collect args with
              | Coll es _ =>
                  match somes es with
                  | [] => CUser                                      (* exprs[0]: IndexError inside the macro *)
                  | e0 :: rest => COk (ECompare e0 (map (fun _ => cls) (tl args)) rest)
                  end
              | CollErr bad => bad
              end
          end
      end
  | None =>
  match lookup head m_ops_class with
  | Some cls =>
      match args with
      | [] => match lookup head identity_elements with Some z => COk (EConst (CInt z)) | None => CUser end
      | [x] =>
          if text_eqb head s_slash then
            match comp x with COk e => COk (EBinOp (EConst (CInt 1)) cls e) | bad => bad end
          else match lookup head unary_maths_class with
               | Some ucls => match comp x with COk e => COk (EUnaryOp ucls e) | bad => bad end
               | None => comp x
               end
      | x :: rest =>
          match all_ok comp args with
          | inl bad => bad
          | inr es =>
              if text_eqb head s_pow
              then COk (fold_right_binop cls (removelast es) (last es (EConst CNone)))
              else match es with e0 :: r => COk (fold_left_binop cls e0 r) | [] => CUser end
          end
      end
  | None =>
  if text_eqb head s_if then
    match args with
    | [c; b; o] =>
        match o with
        | HExpr [] => CUser                                          (* orel_expr[0]: IndexError inside the macro *)
        | HExpr (HSym h :: _) => if text_eqb h s_ifstar then CUnmodelled else
            match comp c, comp b, comp o with
            | COk ec, COk eb, COk eo => COk (EIfExp ec eb eo)
            | COk _, COk _, bad => bad | COk _, bad, _ => bad | bad, _, _ => bad
            end
        | _ =>
            match comp c, comp b, comp o with
            | COk ec, COk eb, COk eo => COk (EIfExp ec eb eo)
            | COk _, COk _, bad => bad | COk _, bad, _ => bad | bad, _, _ => bad
            end
        end
    | _ => CUser
    end
  else if text_eqb head s_get then
    match args with
    | obj :: ixs =>
        match collect ixs with
        | Coll es _ => match comp obj with COk eo => COk (subscripts eo (somes es)) | bad => bad end
        | CollErr bad => bad
        end
    | [] => CUser
    end
  else if text_eqb head s_unpack_iterable then
    match args with [x] => match comp x with COk e => COk (EStarred e) | bad => bad end | _ => CUser end
  else if text_eqb head s_chainc then
    match args with
    | x :: rest =>
        match comp x with
        | COk e0 =>
            match chain_with comp c_op rest with
            | Chain ops es => COk (ECompare e0 ops (somes es))
            | ChainErr bad => bad
            | ChainNoParse => CUser
            end
        | bad =>
            (* the grammar is checked before anything is compiled *)
            match chain_with (fun _ => COk (EConst CNone)) (fun _ => Some []) rest with ChainNoParse => CUser | _ => bad end
        end
    | [] => CUser
    end
  else CUnmodelled
  end end end end.

Definition modelled_head (s : text) : bool :=
  match lookup s unary_ops_class, lookup s c_ops_class, lookup s m_ops_class with
  | None, None, None =>
      existsb (text_eqb s) (map (fun t => fst (fst t)) bool_ops_class)
      || text_eqb s s_if || text_eqb s s_get || text_eqb s s_unpack_iterable || text_eqb s s_chainc
  | _, _, _ => true
  end.

Fixpoint compile (t : hy) : cres :=
  match t with
  | HSym s => COk (compile_symbol s)
  | HKw k => COk (kw_call k)
  | HInt z => COk (EConst (CInt z))
  | HStr s => COk (EConst (CStr s))
  | HList l => match collect_with compile false false l with
               | Coll es _ => COk (EList (somes es)) | CollErr bad => bad end
  | HTuple l => match collect_with compile false false l with
                | Coll es _ => COk (ETuple (somes es)) | CollErr bad => bad end
  | HSet l => match collect_with compile false false l with
              | Coll es _ => COk (ESet (somes es)) | CollErr bad => bad end
  | HDict l => match collect_with compile false true l with
               | Coll es _ => if Nat.even (length es) then COk (EDict (evens es) (odds es))
                              else CUser                          (* a dictionary literal needs an even number of child forms *)
               | CollErr bad => bad end
  | HExpr [] => CUser                                            (* empty expressions are not allowed *)
  | HExpr (root :: args) =>
      match root with
      | HSym s =>
          if head_in (all_pattern_heads ++ hy_macro_names) s then
            (* a core macro: only the canonical spelling of a modelled head is handled *)
            if modelled_head s then
              match grammar_of s grammars with
              | Some (ps, shadow) =>
                  if shadow && existsb (is_unpack s_unpack_iterable) args then
                    match collect_with compile true false args with
                    | Coll es ks => COk (ECall (EAttribute (EAttribute (EName s_hy) s_pyops) (mangle s)) (somes es) ks)
                    | CollErr bad => bad
                    end
                  else if grammar_accepts ps args then in_macro (handler compile s args) else CUser
              | None => CUnmodelled
              end
            else CUnmodelled
          else
            match collect_with compile true false args with
            | Coll es ks => COk (ECall (compile_symbol s) (somes es) ks)
            | CollErr bad => bad
            end
      | HExpr (HSym d :: _) =>
          (* ((. None m) obj ...) method-call sugar and (annotate ...) heads: outside the fragment *)
          if forallb (N.eqb 46) d || text_eqb d s_annotate then CUnmodelled else
          match compile root with
          | COk f =>
              match collect_with compile true false args with
              | Coll es ks => COk (ECall f (somes es) ks)
              | CollErr bad => bad
              end
          | bad => bad
          end
      | _ =>
          match compile root with
          | COk f =>
              match collect_with compile true false args with
              | Coll es ks => COk (ECall f (somes es) ks)
              | CollErr bad => bad
              end
          | bad => bad
          end
      end
  end.

End Compile.
