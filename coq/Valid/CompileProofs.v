(* C10: outcome classes of the expression-fragment model of Valid/Compile.v:
   for trees without the shapes listed in [good], compilation never ends in an
   internal error and every produced AST passes the validator; each excluded
   shape is a concrete counter-example (the refutations at the end). *)
From Coq Require Import ZArith Lia.
From HyV Require Import Base.Text Valid.Comb Valid.CombProofs Gen.Patterns Valid.GrammarFacts Valid.Compile Valid.Validate.
Local Open Scope nat_scope.

Section HyInd.
Variable P : hy -> Prop.
Hypothesis HS : forall s, P (HSym s).
Hypothesis HK : forall s, P (HKw s).
Hypothesis HI : forall z, P (HInt z).
Hypothesis HT : forall s, P (HStr s).
Hypothesis HE : forall l, Forall P l -> P (HExpr l).
Hypothesis HL : forall l, Forall P l -> P (HList l).
Hypothesis HU : forall l, Forall P l -> P (HTuple l).
Hypothesis HX : forall l, Forall P l -> P (HSet l).
Hypothesis HD : forall l, Forall P l -> P (HDict l).
Fixpoint hy_ind' (t : hy) : P t :=
  let go := fix go (l : list hy) : Forall P l :=
              match l with [] => Forall_nil P | x :: r => Forall_cons x (hy_ind' x) (go r) end in
  match t with
  | HSym s => HS s | HKw s => HK s | HInt z => HI z | HStr s => HT s
  | HExpr l => HE l (go l) | HList l => HL l (go l) | HTuple l => HU l (go l)
  | HSet l => HX l (go l) | HDict l => HD l (go l)
  end.
End HyInd.

(* ---------------------------------------------------------------- the side conditions *)

Definition is_um (x : hy) : bool := is_unpack s_unpack_mapping x.
Definition bare_um (x : hy) : bool :=
  match x with HExpr [HSym h] => text_eqb h s_unpack_mapping | _ => false end.

Definition dict_shape (l : list hy) : list bool := flat_map (fun x => if is_um x then [false; true] else [true]) l.
Definition dict_ok (sh : list bool) : bool := (length (evens sh) =? length (odds sh)) && forallb (fun b => b) (odds sh).

Definition is_compare_head (s : text) : bool := match lookup s c_ops_class with Some _ => true | None => false end.

Fixpoint good (t : hy) : bool :=
  match t with
  | HSym _ | HKw _ | HInt _ | HStr _ => true
  | HList l | HTuple l | HSet l => forallb good l
  | HDict l => forallb good l && dict_ok (dict_shape l)
  | HExpr l =>
      forallb good l
      && match l with
         | HSym s :: args =>
             if text_eqb s s_chainc then 3 <=? length args else true
         | _ => true
         end
  end.

(* ---------------------------------------------------------------- outcome predicates *)

Definition V (r : cres) : Prop :=
  match r with COk e => validate e = true | CInternal => False | _ => True end.
Definition W (r : cres) : Prop := forall e, r = COk e -> validate e = true.     (* enough inside a macro *)

Lemma V_W r : V r -> W r.
Proof. unfold W. intros H e E. subst r. exact H. Qed.

Lemma W_in_macro r : W r -> V (in_macro r).
Proof. intros H. destruct r; cbn; try exact I. apply H. reflexivity. Qed.

Definition okopt (o : option expr) : Prop := match o with Some e => validate e = true | None => True end.

Definition VC (c : collected) : Prop :=
  match c with
  | Coll es ks => Forall okopt es /\ Forall (fun k => validate (snd k) = true) ks
  | CollErr r => V r /\ (forall e, r <> COk e)
  end.
Definition WC (c : collected) : Prop :=
  match c with
  | Coll es ks => Forall okopt es /\ Forall (fun k => validate (snd k) = true) ks
  | CollErr r => forall e, r <> COk e
  end.

Section Proofs.
Variable mangle : text -> text.
Notation compile := (compile mangle).
Notation collect_with := (collect_with mangle).

(* what the induction provides for the elements of a list *)
Definition elem_ok (X : cres -> Prop) (comp : hy -> cres) (x : hy) : Prop :=
  X (comp x) /\ (forall h v r, x = HExpr (h :: v :: r) -> X (comp v)).

Lemma somes_ok es : Forall okopt es -> forallb validate (somes es) = true.
Proof.
  induction 1 as [|o es Ho _ IH]; [reflexivity|]. destruct o; cbn; [|exact IH]. cbn in Ho. rewrite Ho. exact IH.
Qed.

Lemma not_ok_of {r} : (forall e, r <> COk e) -> match r with COk _ => False | _ => True end.
Proof. destruct r; auto. intros H. exact (H e eq_refl). Qed.

(* _compile_collect, strong form: no internal error, all collected expressions valid *)
Lemma collect_V comp wk dd : forall l,
  Forall (elem_ok V comp) l -> VC (collect_with comp wk dd l).
Proof.
  induction l as [l IHl] using (well_founded_induction (Wf_nat.well_founded_ltof _ (@length hy))).
  intros HF. destruct l as [|x r]; [cbn; split; constructor|].
  inversion HF as [|? ? [Hx Hin] HFr]; subst.
  assert (IHr : VC (collect_with comp wk dd r)) by (apply IHl; [unfold ltof; cbn; lia | assumption]).
  cbn [Compile.collect_with]. fold (collect_with comp wk dd).
  destruct (is_unpack s_unpack_mapping x) eqn:U.
  - (* unpack-mapping *)
    destruct x as [| | | |lx| | | |]; try discriminate.
    destruct lx as [|h [|v [|w rest]]]; try (split; [exact I | discriminate]).
    specialize (Hin h v [] eq_refl). destruct (comp v) eqn:Cv; cbn in Hin.
    + destruct dd.
      { destruct (collect_with comp wk true r) as [es ks|bad]; [|exact IHr]. destruct IHr as [I1 I2].
        split; [constructor; [exact I | constructor; [exact Hin | assumption]] | assumption]. }
      destruct wk; [|split; [exact I | discriminate]].
      destruct (collect_with comp true false r) as [es ks|bad]; [|exact IHr]. destruct IHr as [I1 I2].
      split; try assumption. constructor; [exact Hin | assumption].
    + split; [exact I | discriminate].
    + destruct Hin.
    + split; [exact I | discriminate].
  - destruct x as [s|k|z|s|lx|lx|lx|lx|lx], wk; cbv beta iota;
      try (destruct (comp _) eqn:Cx; cbn in Hx;
           [ destruct (collect_with comp _ dd r) as [es ks|bad]; [destruct IHr as [I1 I2]; split; [constructor; [exact Hx | assumption] | assumption] | exact IHr]
           | split; [exact I | discriminate] | destruct Hx | split; [exact I | discriminate] ]).
    (* keyword with kwargs *)
    destruct r as [|v r'].
    + split; [exact I | discriminate].
    + destruct k as [|c k']; [split; [exact I | discriminate]|].
      inversion HFr as [|? ? [Hv _] HFr']; subst.
      assert (IHr' : VC (collect_with comp true dd r')) by (apply IHl; [unfold ltof; cbn; lia | assumption]).
      destruct (comp v) eqn:Cv; cbn in Hv.
      * destruct (collect_with comp true dd r') as [es ks|bad]; [|exact IHr']. destruct IHr' as [I1 I2].
        split; [assumption | constructor; [exact Hv | assumption]].
      * split; [exact I | discriminate].
      * destruct Hv.
      * split; [exact I | discriminate].
Qed.

(* weak form, enough inside a macro: whatever is collected is valid *)
Lemma collect_W comp wk dd : forall l,
  Forall (elem_ok W comp) l -> WC (collect_with comp wk dd l).
Proof.
  induction l as [l IHl] using (well_founded_induction (Wf_nat.well_founded_ltof _ (@length hy))).
  intros HF. destruct l as [|x r]; [cbn; split; constructor|].
  inversion HF as [|? ? [Hx Hin] HFr]; subst.
  assert (IHr : WC (collect_with comp wk dd r)) by (apply IHl; [unfold ltof; cbn; lia | assumption]).
  cbn [Compile.collect_with]. fold (collect_with comp wk dd).
  destruct (is_unpack s_unpack_mapping x) eqn:U.
  - destruct x as [| | | |lx| | | |]; try discriminate. destruct lx as [|h [|v [|w rest]]]; try (intros e; discriminate).
    specialize (Hin h v [] eq_refl). destruct (comp v) eqn:Cv; try (intros e0; discriminate).
    pose proof (Hin e eq_refl) as He. destruct dd.
    { destruct (collect_with comp wk true r) as [es ks|bad]; [|exact IHr]. destruct IHr as [I1 I2].
      split; [constructor; [exact I | constructor; [exact He | assumption]] | assumption]. }
    destruct wk; [|intros e0; discriminate].
    destruct (collect_with comp true false r) as [es ks|bad]; [|exact IHr]. destruct IHr as [I1 I2].
    split; try assumption. constructor; [exact He | assumption].
  - destruct x as [s|k|z|s|lx|lx|lx|lx|lx], wk; cbv beta iota;
      try (destruct (comp _) eqn:Cx; try (intros e0; discriminate);
           destruct (collect_with comp _ dd r) as [es ks|bad]; [destruct IHr as [I1 I2]; split; [constructor; [exact (Hx _ eq_refl) | assumption] | assumption] | exact IHr]).
    destruct r as [|v r']; [intros e; discriminate|].
    destruct k as [|c k']; [intros e; discriminate|].
    inversion HFr as [|? ? [Hv _] HFr']; subst.
    assert (IHr' : WC (collect_with comp true dd r')) by (apply IHl; [unfold ltof; cbn; lia | assumption]).
    destruct (comp v) eqn:Cv; try (intros e0; discriminate).
    destruct (collect_with comp true dd r') as [es ks|bad]; [|exact IHr']. destruct IHr' as [I1 I2].
    split; [assumption | constructor; [exact (Hv _ eq_refl) | assumption]].
Qed.

(* ---------------------------------------------------------------- shapes *)

Definition is_some {A} (o : option A) : bool := match o with Some _ => true | None => false end.

Lemma collect_shape_dict comp : forall l es ks,
  collect_with comp false true l = Coll es ks -> map is_some es = dict_shape l.
Proof.
  induction l as [|x r IH]; intros es ks E.
  - cbn in E. inversion E. reflexivity.
  - cbn [Compile.collect_with] in E. fold (collect_with comp false true) in E. unfold dict_shape. cbn [flat_map]. fold (dict_shape r).
    unfold is_um. destruct (is_unpack s_unpack_mapping x) eqn:U.
    + destruct x as [| | | |lx| | | |]; try discriminate. destruct lx as [|h [|v [|w rest]]]; try discriminate.
      destruct (comp v); try discriminate. destruct (collect_with comp false true r) as [es' ks'|]; [|discriminate].
      inversion E; subst. cbn. rewrite (IH _ _ eq_refl). reflexivity.
    + assert (G : match comp x with
                  | COk e => match collect_with comp false true r with Coll es0 ks0 => Coll (Some e :: es0) ks0 | CollErr r0 => CollErr r0 end
                  | bad => CollErr bad end = Coll es ks) by (destruct x; exact E).
      destruct (comp x); try discriminate. destruct (collect_with comp false true r) as [es' ks'|]; [|discriminate].
      inversion G; subst. cbn. rewrite (IH _ _ eq_refl). reflexivity.
Qed.

Lemma collect_len comp : forall l es ks,
  collect_with comp false false l = Coll es ks -> length (somes es) = length l.
Proof.
  induction l as [|x r IH]; intros es ks E.
  - cbn in E. inversion E. reflexivity.
  - cbn [Compile.collect_with] in E. fold (collect_with comp false false) in E.
    destruct (is_unpack s_unpack_mapping x) eqn:U.
    + destruct x as [| | | |lx| | | |]; try discriminate. destruct lx as [|h [|v [|w rest]]]; try discriminate.
      destruct (comp v); discriminate.
    + assert (G : match comp x with
                  | COk e => match collect_with comp false false r with Coll es0 ks0 => Coll (Some e :: es0) ks0 | CollErr r0 => CollErr r0 end
                  | bad => CollErr bad end = Coll es ks) by (destruct x; exact E).
      destruct (comp x); try discriminate. destruct (collect_with comp false false r) as [es' ks'|]; [|discriminate].
      inversion G; subst. cbn. f_equal. exact (IH _ _ eq_refl).
Qed.

Lemma evens_map {A B} (f : A -> B) : forall l, evens (map f l) = map f (evens l).
Proof.
  fix IH 1. intros [|a [|b r]]; [reflexivity | reflexivity |]. cbn. f_equal. apply IH.
Qed.
Lemma odds_map {A B} (f : A -> B) l : odds (map f l) = map f (odds l).
Proof. destruct l; [reflexivity|]. cbn. apply evens_map. Qed.

Lemma Forall_evens {A} (P : A -> Prop) : forall l, Forall P l -> Forall P (evens l).
Proof.
  fix IH 1. intros [|a [|b r]] H; [constructor | exact H |]. inversion H as [|? ? Ha H1]; subst. inversion H1; subst.
  cbn. constructor; [exact Ha | apply IH; assumption].
Qed.
Lemma Forall_odds {A} (P : A -> Prop) l : Forall P l -> Forall P (odds l).
Proof. destruct l; intros H; [constructor|]. inversion H; subst. apply Forall_evens. assumption. Qed.

Lemma keys_ok l : Forall okopt l -> forallb (fun k => match k with Some x => validate x | None => true end) l = true.
Proof. induction 1 as [|o l Ho _ IH]; [reflexivity|]. cbn. destruct o; cbn in Ho; [rewrite Ho|]; exact IH. Qed.

Lemma vals_ok l : Forall okopt l -> forallb (fun b : bool => b) (map is_some l) = true ->
  forallb (fun v => match v with Some x => validate x | None => false end) l = true.
Proof.
  induction 1 as [|o l Ho _ IH]; intros D; [reflexivity|]. cbn in D. apply andb_true_iff in D. destruct D as [Do Dl].
  destruct o; [|discriminate]. cbn in *. rewrite Ho. exact (IH Dl).
Qed.

Lemma dict_valid es : Forall okopt es -> dict_ok (map is_some es) = true -> validate (EDict (evens es) (odds es)) = true.
Proof.
  intros F D. unfold dict_ok in D. apply andb_true_iff in D. destruct D as [D1 D2].
  rewrite evens_map, odds_map, !map_length in D1. rewrite odds_map in D2.
  cbn [validate]. rewrite D1. cbn [andb]. apply andb_true_iff. split.
  - exact (keys_ok _ (Forall_evens _ _ F)).
  - exact (vals_ok _ (Forall_odds _ _ F) D2).
Qed.

Lemma evens_odds_even {A} : forall (l : list A), length (evens l) = length (odds l) -> Nat.even (length l) = true.
Proof.
  fix IH 1. intros [|a [|b r]] H; [reflexivity | discriminate |]. cbn in H. inversion H as [H']. cbn. apply IH. destruct r; [reflexivity|]. exact H'.
Qed.

(* ---------------------------------------------------------------- pieces of the handlers *)

Lemma all_ok_W comp : forall args, Forall (fun x => W (comp x)) args ->
  match all_ok comp args with
  | inl bad => forall e, bad <> COk e
  | inr es => forallb validate es = true
  end.
Proof.
  induction 1 as [|x r Hx _ IH]; [reflexivity|]. cbn [all_ok]. fold (all_ok comp).
  destruct (comp x) eqn:C; try (intros e0; discriminate).
  destruct (all_ok comp r); [exact IH|]. cbn. rewrite (Hx _ eq_refl). exact IH.
Qed.

Lemma fold_left_valid cls : forall r e0, validate e0 = true -> forallb validate r = true -> validate (fold_left_binop cls e0 r) = true.
Proof.
  induction r as [|e r IH]; intros e0 H0 Hr; [exact H0|]. cbn in Hr. apply andb_true_iff in Hr. destruct Hr as [He Hr].
  cbn [fold_left_binop]. apply IH; [cbn; rewrite H0, He; reflexivity | exact Hr].
Qed.

Lemma fold_right_valid cls : forall es last, forallb validate es = true -> validate last = true -> validate (fold_right_binop cls es last) = true.
Proof.
  induction es as [|e r IH]; intros lst Hr Hl; [exact Hl|]. cbn in Hr. apply andb_true_iff in Hr. destruct Hr as [He Hr].
  cbn. rewrite He. exact (IH lst Hr Hl).
Qed.

Lemma forallb_removelast {A} (f : A -> bool) : forall l, forallb f l = true -> forallb f (removelast l) = true.
Proof.
  induction l as [|a r IH]; intros H; [reflexivity|]. cbn in H. apply andb_true_iff in H. destruct H as [Ha Hr].
  destruct r; [reflexivity|]. cbn [removelast forallb]. rewrite Ha. exact (IH Hr).
Qed.

Lemma last_valid : forall l d, forallb validate l = true -> validate d = true -> validate (last l d) = true.
Proof.
  induction l as [|a r IH]; intros d H Hd; [exact Hd|]. cbn in H. apply andb_true_iff in H. destruct H as [Ha Hr].
  destruct r; [exact Ha|]. exact (IH d Hr Hd).
Qed.

Lemma subscripts_valid : forall ixs v, validate v = true -> forallb validate ixs = true -> validate (subscripts v ixs) = true.
Proof.
  induction ixs as [|i r IH]; intros v Hv Hr; [exact Hv|]. cbn in Hr. apply andb_true_iff in Hr. destruct Hr as [Hi Hr].
  cbn [subscripts]. apply IH; [cbn; rewrite Hv, Hi; reflexivity | exact Hr].
Qed.

Lemma collect1_W comp x : elem_ok W comp x ->
  match collect1 comp x with inl bad => forall e, bad <> COk e | inr o => okopt o end.
Proof.
  intros [Hx Hin]. unfold collect1. destruct (is_unpack s_unpack_mapping x).
  - destruct x as [| | | |lx| | | |]; try (intros e; discriminate). destruct lx as [|h [|v [|w rest]]]; try (intros e; discriminate).
    destruct (comp v); intros e0; discriminate.
  - destruct (comp x) eqn:C; try (intros e0; discriminate). exact (Hx _ eq_refl).
Qed.

Lemma collect1_some comp x o : collect1 comp x = inr o -> is_some o = true.
Proof.
  unfold collect1. destruct (is_unpack s_unpack_mapping x).
  - destruct x as [| | | |lx| | | |]; try discriminate. destruct lx as [|h [|v [|w rest]]]; try discriminate. destruct (comp v); discriminate.
  - destruct (comp x); try discriminate. intros E. inversion E. reflexivity.
Qed.

Lemma chain_W comp cop : forall rest ops es,
  Forall (elem_ok W comp) rest -> chain_with comp cop rest = Chain ops es ->
  Forall okopt es /\ length ops = length es /\ 2 * length es = length rest
  /\ length (somes es) = length es.
Proof.
  induction rest as [rest IH] using (well_founded_induction (Wf_nat.well_founded_ltof _ (@length hy))).
  intros ops es HF E. destruct rest as [|a [|x r]].
  - cbn in E. inversion E. repeat split; constructor.
  - cbn in E. destruct a; discriminate.
  - cbn [chain_with] in E. fold (chain_with comp cop) in E. destruct a as [o| | | | | | | |]; try discriminate.
    inversion HF as [|? ? _ HF1]; subst. inversion HF1 as [|? ? Hx HFr]; subst.
    destruct (chain_with comp cop r) as [ops' es'| |] eqn:R; try discriminate.
    destruct (cop o); [|discriminate]. pose proof (collect1_W comp x Hx) as C1.
    destruct (collect1 comp x) as [bad|oe] eqn:C; [discriminate|]. inversion E; subst.
    destruct (IH r (ltac:(unfold ltof; cbn; lia)) _ _ HFr R) as (I1 & I2 & I3 & I4).
    repeat split.
    + constructor; assumption.
    + cbn. f_equal. exact I2.
    + cbn. lia.
    + pose proof (collect1_some comp x oe C) as S. destruct oe; [|discriminate]. cbn. f_equal. exact I4.
Qed.


(* ---------------------------------------------------------------- the macro handlers *)

Lemma Forall_elem_W_weaken comp l : Forall (elem_ok V comp) l -> Forall (elem_ok W comp) l.
Proof.
  intros H. eapply Forall_impl; [|exact H]. intros x [A B]. split; [exact (V_W _ A)|].
  intros h v r E. exact (V_W _ (B h v r E)).
Qed.

Lemma Forall_W_of comp l : Forall (elem_ok W comp) l -> Forall (fun x => W (comp x)) l.
Proof. intros H. eapply Forall_impl; [|exact H]. intros x [A _]. exact A. Qed.

Lemma handler_W comp head args :
  Forall (elem_ok W comp) args ->
  (text_eqb head s_chainc = true -> 3 <= length args) ->
  W (handler mangle comp head args).
Proof.
  intros HF Hch. pose proof (Forall_W_of _ _ HF) as HW. unfold handler.
  destruct (lookup head unary_ops_class) as [cls|] eqn:L1.
  { destruct args as [|x [|? ?]]; try (intros ee; discriminate). inversion HW as [|? ? Hx _]; subst.
    destruct (comp x) eqn:C; try (intros ee; discriminate). intros ee E. inversion E; subst. cbn. exact (Hx _ eq_refl). }
  destruct (lookup head (map _ bool_ops_class)) as [[cls dflt]|] eqn:L2.
  { pose proof (all_ok_W comp args HW) as A. destruct (all_ok comp args) as [bad|es].
    - intros ee E. exact (False_ind _ (A ee E)).
    - destruct es as [|e1 [|e2 r]]; intros ee E; inversion E; subst.
      + destruct dflt; reflexivity.
      + cbn in A. rewrite andb_true_r in A. exact A.
      + cbn [validate]. cbn [length]. exact A. }
  destruct (lookup head c_ops_class) as [ccls|] eqn:L3.
  { assert (G : length args <> 1 -> W (match c_op mangle head with
                   | None => CUser
                   | Some cls => match collect_with comp false false args with
                                 | Coll es _ => match somes es with [] => CUser | e0 :: rest => COk (ECompare e0 (map (fun _ => cls) (tl args)) rest) end
                                 | CollErr bad => bad end end)).
    { intros NL. destruct (c_op mangle head) as [cls|]; [|intros ee; discriminate].
      pose proof (collect_W comp false false args HF) as C. destruct (collect_with comp false false args) as [es ks|bad] eqn:CE.
      - destruct C as [C1 _]. pose proof (collect_len comp args es ks CE) as Len. pose proof (somes_ok _ C1) as SV.
        destruct (somes es) as [|e0 rest]; [intros ee; discriminate|]. intros ee E. inversion E; subst.
        cbn in SV. apply andb_true_iff in SV. destruct SV as [S0 SR]. cbn [validate].
        destruct args as [|a0 args']; [discriminate|]. cbn [tl]. rewrite map_length. cbn in Len. inversion Len as [Len'].
        rewrite Len'. rewrite Nat.eqb_refl. rewrite S0, SR.
        destruct args' as [|a1 ?]; [exfalso; apply NL; reflexivity|].
        destruct rest; [discriminate | reflexivity].
      - intros ee E. exact (False_ind _ (C ee E)). }
    destruct args as [|x [|y r]]; [apply G; discriminate | | apply G; discriminate].
    inversion HW as [|? ? Hx _]; subst. destruct (comp x); try (intros ee; discriminate). intros ee E. inversion E. reflexivity. }
  destruct (lookup head m_ops_class) as [mcls|] eqn:L4.
  { destruct args as [|x rest].
    - destruct (lookup head identity_elements); intros ee E; inversion E; reflexivity.
    - inversion HW as [|? ? Hx HWr]; subst. destruct rest as [|y r].
      + destruct (text_eqb head s_slash).
        * destruct (comp x) eqn:C; try (intros ee; discriminate). intros ee E. inversion E; subst. cbn. exact (Hx _ eq_refl).
        * destruct (lookup head unary_maths_class).
          -- destruct (comp x) eqn:C; try (intros ee; discriminate). intros ee E. inversion E; subst. cbn. exact (Hx _ eq_refl).
          -- exact Hx.
      + pose proof (all_ok_W comp (x :: y :: r) HW) as A. destruct (all_ok comp (x :: y :: r)) as [bad|es].
        * intros ee E. exact (False_ind _ (A ee E)).
        * destruct (text_eqb head s_pow).
          -- intros ee E. inversion E; subst. apply fold_right_valid; [apply forallb_removelast; exact A | apply last_valid; [exact A | reflexivity]].
          -- destruct es as [|e0 r0]; [intros ee; discriminate|]. intros ee E. inversion E; subst.
             cbn in A. apply andb_true_iff in A. destruct A as [A0 Ar]. apply fold_left_valid; assumption. }
  destruct (text_eqb head s_if) eqn:L5.
  { destruct args as [|c [|b [|o [|? ?]]]]; try (intros ee; discriminate).
    inversion HW as [|? ? Hc HW1]; subst. inversion HW1 as [|? ? Hb HW2]; subst. inversion HW2 as [|? ? Ho _]; subst.
    assert (G : W (match comp c, comp b, comp o with
                   | COk ec, COk eb, COk eo => COk (EIfExp ec eb eo)
                   | COk _, COk _, bad => bad | COk _, bad, _ => bad | bad, _, _ => bad end)).
    { destruct (comp c) eqn:Cc; try (intros ee; discriminate).
      destruct (comp b) eqn:Cb; try (intros ee; discriminate).
      destruct (comp o) eqn:Co; try (intros ee; discriminate).
      intros ee E. inversion E; subst. cbn. rewrite (Hc _ eq_refl), (Hb _ eq_refl), (Ho _ eq_refl). reflexivity. }
    destruct o as [| | | |lo| | | |]; try exact G. destruct lo as [|h ?]; [intros ee; discriminate|].
    destruct h; try exact G. destruct (text_eqb s s_ifstar); [intros ee; discriminate | exact G]. }
  destruct (text_eqb head s_get) eqn:L6.
  { destruct args as [|obj ixs]; [intros ee; discriminate|]. inversion HF as [|? ? _ HFi]; subst. inversion HW as [|? ? Hobj _]; subst.
    pose proof (collect_W comp false false ixs HFi) as C. destruct (collect_with comp false false ixs) as [es ks|bad].
    - destruct C as [C1 _]. destruct (comp obj) eqn:Co; try (intros ee; discriminate). intros ee E. inversion E; subst.
      apply subscripts_valid; [exact (Hobj _ eq_refl) | exact (somes_ok _ C1)].
    - intros ee E. exact (False_ind _ (C ee E)). }
  destruct (text_eqb head s_unpack_iterable) eqn:L7.
  { destruct args as [|x [|? ?]]; try (intros ee; discriminate). inversion HW as [|? ? Hx _]; subst.
    destruct (comp x) eqn:C; try (intros ee; discriminate). intros ee E. inversion E; subst. cbn. exact (Hx _ eq_refl). }
  destruct (text_eqb head s_chainc) eqn:L8; [|intros ee; discriminate].
  pose proof (Hch eq_refl) as Len.
  destruct args as [|x rest]; [intros ee; discriminate|]. inversion HF as [|? ? _ HFr]; subst. inversion HW as [|? ? Hx _]; subst.
  destruct (comp x) eqn:Cx.
  - pose proof (chain_W comp (c_op mangle) rest) as CW. destruct (chain_with comp (c_op mangle) rest) as [ops es|bad|] eqn:CE.
    + destruct (CW ops es HFr eq_refl) as (I1 & I2 & I3 & I4). intros ee E. inversion E; subst. cbn [validate]. pose proof (somes_ok _ I1) as SV.
      cbn [length] in Len. rewrite I4, I2, Nat.eqb_refl, (Hx _ eq_refl), SV.
      destruct es; [cbn in I3; lia | reflexivity].
    + intros ee E. subst bad. exfalso.
      (* an error of chain_with is never COk: by construction *)
      assert (Q : forall l, match chain_with comp (c_op mangle) l with ChainErr (COk _) => False | _ => True end).
      { induction l as [l IHl] using (well_founded_induction (Wf_nat.well_founded_ltof _ (@length hy))).
        destruct l as [|a [|y r]]; [exact I | destruct a; exact I |]. cbn [chain_with]. fold (chain_with comp (c_op mangle)).
        destruct a; try exact I. specialize (IHl r (ltac:(unfold ltof; cbn; lia))).
        destruct (chain_with comp (c_op mangle) r) as [? ?|b|]; [|destruct b; try exact I; contradiction | exact I].
        destruct (c_op mangle s); [|exact I]. unfold collect1. destruct (is_unpack s_unpack_mapping y).
        - destruct y as [| | | |ly| | | |]; try exact I. destruct ly as [|? [|v0 [|? ?]]]; try exact I. destruct (comp v0); exact I.
        - destruct (comp y); exact I. }
      specialize (Q rest). rewrite CE in Q. exact Q.
    + intros ee; discriminate.
  - destruct (chain_with _ _ rest); intros ee; discriminate.
  - destruct (chain_with _ _ rest); intros ee; discriminate.
  - destruct (chain_with _ _ rest); intros ee; discriminate.
Qed.


(* ---------------------------------------------------------------- the whole fragment *)

Definition kids (t : hy) : list hy :=
  match t with HExpr l | HList l | HTuple l | HSet l | HDict l => l | _ => [] end.

Lemma compile_symbol_valid s : validate (compile_symbol mangle s) = true.
Proof.
  unfold compile_symbol. destruct (text_eqb s s_dots); [reflexivity|].
  destruct (text_eqb (mangle s) s_None) eqn:E1; [reflexivity|].
  destruct (text_eqb (mangle s) s_True) eqn:E2; [reflexivity|].
  destruct (text_eqb (mangle s) s_False) eqn:E3; [reflexivity|].
  cbn. unfold is_const_name. rewrite E1, E2, E3. reflexivity.
Qed.

Lemma good_kids t : good t = true -> forallb good (kids t) = true.
Proof.
  destruct t; cbn [good kids]; intros H; try reflexivity.
  - apply andb_true_iff in H. exact (proj1 H).
  - exact H.
  - exact H.
  - exact H.
  - apply andb_true_iff in H. exact (proj1 H).
Qed.

Definition Q (t : hy) : Prop := good t = true -> V (compile t).
Definition P (t : hy) : Prop := Q t /\ Forall Q (kids t).

Lemma elems_ok l : Forall P l -> forallb good l = true -> Forall (elem_ok V compile) l.
Proof.
  intros HP HG. rewrite Forall_forall in *. rewrite forallb_forall in HG. intros x Hx.
  destruct (HP x Hx) as [A B]. split; [exact (A (HG x Hx))|].
  intros h v r E. subst x. cbn [kids] in B. rewrite Forall_forall in B.
  pose proof (good_kids _ (HG _ Hx)) as G. cbn [kids] in G. rewrite forallb_forall in G.
  apply (B v); [right; left; reflexivity|]. apply G. right; left; reflexivity.
Qed.

Lemma call_V f args : validate f = true -> Forall (elem_ok V compile) args ->
  V (match collect_with compile true false args with Coll es ks => COk (ECall f (somes es) ks) | CollErr bad => bad end).
Proof.
  intros Hf HF. pose proof (collect_V compile true false args HF) as C.
  destruct (collect_with compile true false args) as [es ks|bad].
  - destruct C as [C1 C2]. cbn. rewrite Hf, (somes_ok _ C1). cbn.
    induction C2 as [|k ks Hk _ IH]; [reflexivity|]. cbn. rewrite Hk. exact IH.
  - exact (proj1 C).
Qed.

Lemma seq_V (mk : list expr -> expr) l :
  (forall es, forallb validate es = true -> validate (mk es) = true) ->
  Forall (elem_ok V compile) l ->
  V (match collect_with compile false false l with Coll es _ => COk (mk (somes es)) | CollErr bad => bad end).
Proof.
  intros Hmk HF. pose proof (collect_V compile false false l HF) as C.
  destruct (collect_with compile false false l) as [es ks|bad]; [|exact (proj1 C)].
  destruct C as [C1 _]. cbn. apply Hmk. exact (somes_ok _ C1).
Qed.

Theorem compile_outcome : forall t, good t = true -> V (compile t).
Proof.
  assert (H : forall t, P t); [|intros t; exact (proj1 (H t))].
  induction t using hy_ind'; (split; [|first [exact (Forall_nil _) | cbn [kids]; eapply Forall_impl; [|eassumption]; intros a [A _]; exact A]]); intros G.
  - cbn. apply compile_symbol_valid.
  - reflexivity.
  - reflexivity.
  - reflexivity.
  - (* expression *)
    pose proof (good_kids _ G) as GK. cbn [kids] in GK. pose proof (elems_ok l H GK) as EO.
    destruct l as [|root args]; [exact I|].
    inversion EO as [|? ? [Vroot _] EOa]; subst.
    cbn [Compile.compile]. fold compile.
    assert (Generic : V (match compile root with
                         | COk f => match collect_with compile true false args with
                                    | Coll es ks => COk (ECall f (somes es) ks) | CollErr bad => bad end
                         | bad => bad end)).
    { destruct (compile root) eqn:CR; try exact Vroot. apply call_V; assumption. }
    destruct root as [s| | | |lr| | | |]; try exact Generic.
    + (* symbol head *)
      destruct (head_in mangle (all_pattern_heads ++ hy_macro_names) s).
      * destruct (modelled_head s); [|exact I]. destruct (grammar_of mangle s grammars) as [[ps shadow]|]; [|exact I].
        destruct (shadow && existsb (is_unpack s_unpack_iterable) args).
        -- apply call_V; [reflexivity | assumption].
        -- destruct (grammar_accepts ps args); [|exact I]. apply W_in_macro. apply handler_W.
           ++ apply Forall_elem_W_weaken. exact EOa.
           ++ intros IC. cbn [good] in G. apply andb_true_iff in G. destruct G as [_ G].
              rewrite IC in G. apply Nat.leb_le in G. exact G.
      * apply call_V; [apply compile_symbol_valid | assumption].
    + (* expression head *)
      destruct lr as [|h ?]; [exact Generic|]. destruct h; try exact Generic.
      destruct (forallb (N.eqb 46) s || text_eqb s s_annotate); [exact I | exact Generic].
  - pose proof (good_kids _ G) as GK. cbn [kids] in GK. cbn [Compile.compile]. fold compile.
    apply (seq_V EList); [intros es E; exact E | exact (elems_ok l H GK)].
  - pose proof (good_kids _ G) as GK. cbn [kids] in GK. cbn [Compile.compile]. fold compile.
    apply (seq_V ETuple); [intros es E; exact E | exact (elems_ok l H GK)].
  - pose proof (good_kids _ G) as GK. cbn [kids] in GK. cbn [Compile.compile]. fold compile.
    apply (seq_V ESet); [intros es E; exact E | exact (elems_ok l H GK)].
  - pose proof (good_kids _ G) as GK. cbn [kids] in GK. cbn [Compile.compile]. fold compile.
    pose proof (collect_V compile false true l (elems_ok l H GK)) as C.
    destruct (collect_with compile false true l) as [es ks|bad] eqn:CE; [|exact (proj1 C)].
    destruct C as [C1 _].
    assert (D : dict_ok (map is_some es) = true).
    { rewrite (collect_shape_dict compile l es ks CE). cbn [good] in G. apply andb_true_iff in G. exact (proj2 G). }
    assert (Ev : Nat.even (length es) = true).
    { unfold dict_ok in D. apply andb_true_iff in D. destruct D as [D1 _]. rewrite evens_map, odds_map, !map_length in D1.
      apply Nat.eqb_eq in D1. exact (evens_odds_even es D1). }
    rewrite Ev. cbn [V]. apply dict_valid; assumption.
Qed.

End Proofs.

(* ---------------------------------------------------------------- the excluded shapes are real counter-examples *)

Definition sym (l : list nat) : hy := HSym (t_of l).
Definition x_ : hy := sym [120].

(* {1}: an odd dict is a syntax error (fix bac53a5; it used to compile to a Dict with one key and no value) *)
Example odd_dict_is_user_error : compile toy_mangle (HDict [HInt 1]) = CUser.
Proof. vm_compute. reflexivity. Qed.

(* (= x x #** x): a syntax error (fix c0e258f; the #** operand used to be dropped) *)
Example compare_unpack_mapping_is_user_error :
  compile toy_mangle (HExpr [sym [61]; x_; x_; HExpr [HSym s_unpack_mapping; x_]]) = CUser.
Proof. vm_compute. reflexivity. Qed.

(* (chainc x): rejected by the grammar oneplus(SYM + FORM) (fix aeaad9f; it used to compile to a Compare without comparators) *)
Example chainc_single_is_user_error :
  compile toy_mangle (HExpr [sym [99;104;97;105;110;99]; x_]) = CUser.
Proof. vm_compute. reflexivity. Qed.

(* {x #** x x}: an even number of collected entries, but the None marker of the dict unpacking lands among the values *)
Example refuted_dict_unpack_misaligned :
  exists e, compile toy_mangle (HDict [x_; HExpr [HSym s_unpack_mapping; x_]; x_]) = COk e /\ validate e = false.
Proof. eexists. split; vm_compute; reflexivity. Qed.

(* [(unpack-mapping)]: a syntax error (fix b5377ba; indexing the argument-less form used to be an internal error) *)
Example bare_unpack_mapping_is_user_error :
  compile toy_mangle (HList [HExpr [HSym s_unpack_mapping]]) = CUser.
Proof. vm_compute. reflexivity. Qed.

(* a non-trivial tree meeting the hypothesis of compile_outcome *)
Example good_example :
  good (HExpr [sym [102]; HExpr [sym [43]; HInt 1; HExpr [sym [60]; x_; HInt 2; HInt 3]]; HKw (t_of [107]); HDict [HStr []; x_]]) = true.
Proof. vm_compute. reflexivity. Qed.
