(* C10: obligations over the regenerated grammars (Gen/Patterns.v) and their
   consequences.  Everything here is re-checked when the table changes. *)
From HyV Require Import Base.Text Valid.Comb Valid.CombProofs Gen.Patterns.
From Coq Require Import Lia.
Local Open Scope nat_scope.

Definition g_heads (g : list text * list pat * bool) : list text := fst (fst g).
Definition g_pats (g : list text * list pat * bool) : list pat := snd (fst g).
Definition g_shadow (g : list text * list pat * bool) : bool := snd g.

(* every translated grammar repeats only parsers that consume: the real parser cannot loop *)
Lemma grammars_wf_checked : forallb (fun g => wf_all (g_pats g)) grammars = true.
Proof. vm_compute. reflexivity. Qed.

Theorem grammars_outcome : forall g, In g grammars -> forall args,
  (exists tree, pattern_macro (g_pats g) args = Parsed tree)
  \/ (exists i, pattern_macro (g_pats g) args = SyntaxErrorAt i /\ i < S (length args)).
Proof.
  intros g Hg args. apply pattern_macro_outcome.
  pose proof grammars_wf_checked as A. rewrite forallb_forall in A. exact (A g Hg).
Qed.

(* recognise  FORM ... FORM [many(FORM) | oneplus(FORM) | times(lo, hi, FORM)] *)
Fixpoint classify_flat (ps : list pat) : option (nat * tail) :=
  match ps with
  | [] => Some (0, TNone)
  | Some_ PAny :: r =>
      match classify_flat r with Some (k, t) => Some (S k, t) | None => None end
  | [Many (Some_ PAny)] => Some (0, TMany)
  | [Oneplus (Some_ PAny)] => Some (0, TOneplus)
  | [Times lo hi (Some_ PAny)] => Some (0, TTimes lo hi)
  | _ => None
  end.

Lemma classify_flat_sound : forall ps k t, classify_flat ps = Some (k, t) -> ps = flat k t.
Proof.
  induction ps as [|p r IH]; intros k t H.
  - inversion H; subst. reflexivity.
  - cbn [classify_flat] in H. destruct p as [pr| | |q|q| |lo hi q| | | |]; try discriminate.
    + destruct pr; try discriminate.
      destruct (classify_flat r) as [[k' t']|] eqn:E; [|discriminate].
      inversion H; subst. rewrite (IH _ _ eq_refl). reflexivity.
    + destruct q as [pr| | | | | | | | | |]; try discriminate. destruct pr; try discriminate.
      destruct r; [|discriminate]. inversion H; subst. reflexivity.
    + destruct q as [pr| | | | | | | | | |]; try discriminate. destruct pr; try discriminate.
      destruct r; [|discriminate]. inversion H; subst. reflexivity.
    + destruct q as [pr| | | | | | | | | |]; try discriminate. destruct pr; try discriminate.
      destruct r; [|discriminate]. inversion H; subst. reflexivity.
Qed.

(* all shadowed (operator) grammars, and the augmented assignments, are flat *)
Definition is_some {A} (o : option A) : bool := match o with Some _ => true | None => false end.

Lemma operator_grammars_flat_checked :
  forallb (fun g => if g_shadow g then is_some (classify_flat (g_pats g)) else true) grammars = true.
Proof. vm_compute. reflexivity. Qed.

Theorem operator_arity : forall g, In g grammars -> g_shadow g = true ->
  exists k t, classify_flat (g_pats g) = Some (k, t)
              /\ forall args, accepts (g_pats g) args <-> in_arity k t (length args).
Proof.
  intros g Hg Hs. pose proof operator_grammars_flat_checked as A. rewrite forallb_forall in A.
  specialize (A g Hg). rewrite Hs in A.
  destruct (classify_flat (g_pats g)) as [[k t]|] eqn:E; [|discriminate].
  exists k, t. split; [reflexivity|]. intros args.
  rewrite (classify_flat_sound _ _ _ E). apply flat_accepts_iff.
Qed.

(* any grammar of the table that is flat accepts exactly its arity range *)
Theorem flat_grammar_arity : forall g k t, In g grammars -> classify_flat (g_pats g) = Some (k, t) ->
  forall args, accepts (g_pats g) args <-> in_arity k t (length args).
Proof. intros g k t _ E args. rewrite (classify_flat_sound _ _ _ E). apply flat_accepts_iff. Qed.

(* the table is not empty and contains a non-trivial flat grammar and a non-flat one *)
Example grammars_nontrivial :
  existsb (fun g => match classify_flat (g_pats g) with Some (_, TTimes 2 None) => g_shadow g | _ => false end) grammars = true
  /\ existsb (fun g => negb (is_some (classify_flat (g_pats g)))) grammars = true.
Proof. vm_compute. split; reflexivity. Qed.
