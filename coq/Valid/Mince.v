(* C14: the identifier rewriting ("keyword mincing") that hy/compat.py applies
   before ast.unparse, over the regenerated keyword list and constants
   (Gen/Keywords.v).  The only Unicode fact used is a hypothesis about NFKC on
   the mathematical bold small letters, validated by the harness. *)
From HyV Require Import Base.Text Gen.Keywords.
From Coq Require Import Lia.

Definition in_list (t : text) (l : list text) : bool := existsb (text_eqb t) l.
Definition is_keyword (t : text) : bool := in_list t kwlist.               (* keyword.iskeyword *)
Definition minced (v : text) : bool := is_keyword v && negb (in_list v mince_exclusions).

(* chr(ord(v[0]) - ord("a") + ord(bold a)) + v[1:]; Python integers: the subtraction may go below zero, then chr raises *)
Definition mince (v : text) : option text :=
  match v with
  | [] => None                                        (* v[0]: IndexError *)
  | c :: r => if mince_from <=? c + mince_to then
                let x := c + mince_to - mince_from in
                if x <? 1114112 then Some (x :: r) else None      (* chr: ValueError *)
              else None
  end.

(* what rewriting_unparse does to one identifier field *)
Definition rewrite_ident (v : text) : option text := if minced v then mince v else Some v.

Definition is_lower (c : N) : bool := (97 <=? c) && (c <=? 122).
Definition bold_of (c : N) : N := c + mince_to - mince_from.

(* ---------------------------------------------------------------- obligations over the generated list *)

(* every keyword that gets minced starts with a lower-case ASCII letter and is ASCII *)
Lemma minced_keywords_shape_checked :
  forallb (fun k => if minced k then match k with c :: r => is_lower c && forallb is_ascii r | [] => false end else true) kwlist = true.
Proof. vm_compute. reflexivity. Qed.

(* mincing a keyword never raises, and the result is not a keyword and differs from it *)
Lemma mince_results_checked :
  forallb (fun k => if minced k then
                      match mince k with
                      | Some m => negb (is_keyword m) && negb (text_eqb m k)
                                  && match m with x :: _ => (119834 <=? x) && (x <=? 119859) | [] => false end
                      | None => false
                      end
                    else true) kwlist = true.
Proof. vm_compute. reflexivity. Qed.

Lemma minced_in_kwlist v : minced v = true -> In v kwlist.
Proof.
  unfold minced, is_keyword, in_list. intros H. apply andb_true_iff in H. destruct H as [H _].
  apply existsb_exists in H. destruct H as [k [Hin E]]. apply text_eqb_eq in E. subst. exact Hin.
Qed.

Section WithNFKC.
Variable nfkc : text -> text.
(* NFKC maps a mathematical bold small letter followed by ASCII to the plain letter followed by the same ASCII *)
Hypothesis nfkc_bold : forall c r, is_lower c = true -> forallb is_ascii r = true -> nfkc (bold_of c :: r) = c :: r.

Theorem mince_correct : forall k, minced k = true ->
  exists m, mince k = Some m /\ nfkc m = k /\ is_keyword m = false /\ m <> k.
Proof.
  intros k Hm. pose proof (minced_in_kwlist k Hm) as Hin.
  pose proof minced_keywords_shape_checked as A. pose proof mince_results_checked as B.
  rewrite forallb_forall in A, B. specialize (A k Hin). specialize (B k Hin). rewrite Hm in A, B.
  destruct (mince k) as [m|] eqn:E; [|discriminate]. exists m. split; [reflexivity|].
  apply andb_true_iff in B. destruct B as [B B3]. apply andb_true_iff in B. destruct B as [B1 B2].
  destruct k as [|c r]; [discriminate|]. apply andb_true_iff in A. destruct A as [A1 A2].
  split; [|split].
  - unfold mince in E. destruct (mince_from <=? c + mince_to); [|discriminate].
    destruct (c + mince_to - mince_from <? 1114112); [|discriminate]. inversion E; subst.
    exact (nfkc_bold c r A1 A2).
  - apply negb_true_iff in B1. exact B1.
  - apply negb_true_iff in B2. intros ->. rewrite (proj2 (text_eqb_eq _ _) eq_refl) in B2. discriminate.
Qed.

(* after rewriting, an identifier field is a Python keyword only if it is one of the excluded constants' names *)
Theorem rewrite_leaves_no_keyword : forall v w, rewrite_ident v = Some w -> is_keyword w = true ->
  in_list v mince_exclusions = true.
Proof.
  intros v w E K. unfold rewrite_ident in E. destruct (minced v) eqn:M.
  - destruct (mince_correct v M) as (m & E1 & _ & NK & _). rewrite E1 in E. inversion E; subst. congruence.
  - inversion E; subst. unfold minced in M. rewrite K in M. cbn in M. apply negb_false_iff in M. exact M.
Qed.

(* rewriting never fails (no exception from chr / indexing) *)
Theorem rewrite_total : forall v, exists w, rewrite_ident v = Some w.
Proof.
  intros v. unfold rewrite_ident. destruct (minced v) eqn:M; [|eexists; reflexivity].
  destruct (mince_correct v M) as (m & E1 & _). exists m. exact E1.
Qed.

(* and Python's own NFKC normalisation of identifiers gives the original name back *)
Theorem rewrite_normalises_back : forall v w, nfkc v = v -> rewrite_ident v = Some w -> nfkc w = v.
Proof.
  intros v w N E. unfold rewrite_ident in E. destruct (minced v) eqn:M.
  - destruct (mince_correct v M) as (m & E1 & Nm & _ & _). rewrite E1 in E. inversion E as [Ew]. rewrite <- Ew. exact Nm.
  - inversion E; subst. exact N.
Qed.
End WithNFKC.

(* the hypothesis is satisfiable: a normaliser that maps the bold block back *)
Definition toy_nfkc (t : text) : text :=
  map (fun x => if (119834 <=? x) && (x <=? 119859) then x + mince_from - mince_to else x) t.

Lemma toy_nfkc_bold : forall c r, is_lower c = true -> forallb is_ascii r = true -> toy_nfkc (bold_of c :: r) = c :: r.
Proof.
  intros c r L A. unfold toy_nfkc, bold_of. cbn [map]. unfold is_lower in L. apply andb_true_iff in L. destruct L as [L1 L2].
  apply N.leb_le in L1, L2. unfold mince_to, mince_from in *.
  assert (E1 : (119834 <=? c + 119834 - 97) = true) by (apply N.leb_le; lia).
  assert (E2 : (c + 119834 - 97 <=? 119859) = true) by (apply N.leb_le; lia).
  rewrite E1, E2. cbn [andb]. f_equal; [lia|].
  induction r as [|x r IH]; [reflexivity|]. cbn [forallb] in A. apply andb_true_iff in A. destruct A as [Ax Ar].
  cbn [map]. rewrite (IH Ar). f_equal. unfold is_ascii in Ax. apply N.ltb_lt in Ax.
  assert (E : (119834 <=? x) = false) by (apply N.leb_gt; lia). rewrite E. reflexivity.
Qed.

(* ---------------------------------------------------------------- which fields are rewritten *)
(* rewriting_unparse looks at every field of every non-Constant node: a str field is minced; a field that
   holds a list of strings (Global.names, Nonlocal.names, MatchClass.kwd_attrs) is minced element-wise when
   the regenerated flag [list_fields_minced] is set (fix 55f8aa9; before it such fields were left alone). *)
Inductive field :=
| FStr (v : text)
| FStrList (l : list text)
| FOther.

Fixpoint map_opt {A B} (f : A -> option B) (l : list A) : option (list B) :=
  match l with
  | [] => Some []
  | a :: r => match f a, map_opt f r with Some b, Some bs => Some (b :: bs) | _, _ => None end
  end.

Definition rewrite_field (f : field) : option field :=
  match f with
  | FStr v => option_map FStr (rewrite_ident v)
  | FStrList l => if list_fields_minced then option_map FStrList (map_opt rewrite_ident l) else Some (FStrList l)
  | FOther => Some FOther
  end.

Definition bad_kw (v : text) : bool := is_keyword v && negb (in_list v mince_exclusions).

Definition field_has_keyword (f : field) : bool :=
  match f with
  | FStr v => bad_kw v
  | FStrList l => existsb bad_kw l
  | FOther => false
  end.

Lemma list_fields_minced_checked : list_fields_minced = true.
Proof. reflexivity. Qed.

Section Fields.
Variable nfkc : text -> text.
Hypothesis nfkc_bold : forall c r, is_lower c = true -> forallb is_ascii r = true -> nfkc (bold_of c :: r) = c :: r.

Lemma rewritten_not_bad v w : rewrite_ident v = Some w -> bad_kw w = false.
Proof.
  intros R. unfold bad_kw. destruct (is_keyword w) eqn:K; [|reflexivity].
  pose proof (rewrite_leaves_no_keyword nfkc nfkc_bold v w R K) as X.
  unfold rewrite_ident in R. unfold minced in R. rewrite X in R. rewrite andb_false_r in R.
  inversion R; subst. rewrite X. reflexivity.
Qed.

(* every identifier field -- a string or a list of strings -- is free of keywords after the rewriting *)
Theorem fields_clean : forall f f', rewrite_field f = Some f' -> field_has_keyword f' = false.
Proof.
  intros f f' E. destruct f as [v|l|]; cbn [rewrite_field] in E.
  - destruct (rewrite_ident v) as [w|] eqn:R; [|discriminate]. inversion E; subst. cbn. exact (rewritten_not_bad v w R).
  - rewrite list_fields_minced_checked in E. destruct (map_opt rewrite_ident l) as [l'|] eqn:M; [|discriminate].
    inversion E; subst. clear E. cbn [field_has_keyword]. revert l' M. induction l as [|v r IH]; intros l' M.
    + inversion M. reflexivity.
    + cbn [map_opt] in M. destruct (rewrite_ident v) as [w|] eqn:R; [|discriminate].
      destruct (map_opt rewrite_ident r) as [ws|]; [|discriminate]. inversion M; subst. cbn [existsb].
      rewrite (rewritten_not_bad v w R). exact (IH ws eq_refl).
  - inversion E. reflexivity.
Qed.

(* and the rewriting of a field never fails *)
Theorem rewrite_field_total : forall f, exists f', rewrite_field f = Some f'.
Proof.
  intros [v|l|]; cbn [rewrite_field].
  - destruct (rewrite_total nfkc nfkc_bold v) as [w E]. rewrite E. eexists. reflexivity.
  - rewrite list_fields_minced_checked. induction l as [|v r [f' IH]].
    + eexists. reflexivity.
    + destruct (rewrite_total nfkc nfkc_bold v) as [w E]. cbn [map_opt]. rewrite E.
      destruct (map_opt rewrite_ident r) as [ws|]; [|discriminate]. eexists. reflexivity.
  - eexists. reflexivity.
Qed.
End Fields.

Definition kw_if : text := [105; 102]%N.
(* (global if): the list field is minced (it survived before the fix 55f8aa9) *)
Example global_if_is_minced : rewrite_field (FStrList [kw_if]) = Some (FStrList [[119842; 102]%N]).
Proof. vm_compute. reflexivity. Qed.

(* ---------------------------------------------------------------- negative numeric constants *)
(* NegativeConstants (fix 4c5d6f5): on the copy that is printed, a Constant whose value is a negative int or
   float (math.copysign(1, v) < 0; the kinds come from Gen/Keywords.v) becomes UnaryOp(USub, Constant(-v)),
   which is what Python's parser produces for such text and what ast.unparse parenthesises correctly. *)
Inductive nkind := KInt | KFloat | KComplex.
Inductive pex :=
| PNum (k : nkind) (neg : bool) (mag : N)      (* a numeric Constant: kind, sign, magnitude *)
| PLeaf                                         (* any other leaf *)
| PNeg (e : pex)                                (* UnaryOp(USub, e) *)
| PNode (kids : list pex).                      (* any other node *)

Definition handled (k : nkind) : bool := match k with KInt => neg_int | KFloat => neg_float | KComplex => neg_complex end.

Fixpoint negconst (e : pex) : pex :=
  match e with
  | PNum k true m => if handled k then PNeg (PNum k false m) else e
  | PNum _ false _ | PLeaf => e
  | PNeg x => PNeg (negconst x)
  | PNode l => PNode (map negconst l)
  end.

Fixpoint no_negative (e : pex) : bool :=
  match e with
  | PNum k neg _ => negb (neg && handled k)
  | PLeaf => true
  | PNeg x => no_negative x
  | PNode l => forallb no_negative l
  end.

Section PexInd.
Variable P : pex -> Prop.
Hypothesis H1 : forall k n m, P (PNum k n m).
Hypothesis H2 : P PLeaf.
Hypothesis H3 : forall x, P x -> P (PNeg x).
Hypothesis H4 : forall l, Forall P l -> P (PNode l).
Fixpoint pex_ind' (e : pex) : P e :=
  match e with
  | PNum k n m => H1 k n m | PLeaf => H2 | PNeg x => H3 x (pex_ind' x)
  | PNode l => H4 l ((fix go (l : list pex) : Forall P l :=
                        match l with [] => Forall_nil P | x :: r => Forall_cons x (pex_ind' x) (go r) end) l)
  end.
End PexInd.

(* after the transformation no handled-kind Constant is negative *)
Theorem negconst_no_negative : forall e, no_negative (negconst e) = true.
Proof.
  induction e using pex_ind'.
  - destruct n; cbn; [|reflexivity]. destruct (handled k) eqn:Hk; cbn; [reflexivity | rewrite Hk; reflexivity].
  - reflexivity.
  - exact IHe.
  - cbn. rewrite forallb_forall. intros x Hx. apply in_map_iff in Hx. destruct Hx as (y & <- & Hy).
    rewrite Forall_forall in H. exact (H y Hy).
Qed.

(* and the value is unchanged, for any evaluation in which negating the positive constant gives the negative one *)
Section Eval.
Variable V : Type.
Variable num : nkind -> bool -> N -> V.
Variable leaf : V.
Variable usub : V -> V.
Variable node : list V -> V.
Hypothesis usub_num : forall k m, handled k = true -> usub (num k false m) = num k true m.

Fixpoint peval (e : pex) : V :=
  match e with
  | PNum k n m => num k n m
  | PLeaf => leaf
  | PNeg x => usub (peval x)
  | PNode l => node (map peval l)
  end.

Theorem negconst_preserves_value : forall e, peval (negconst e) = peval e.
Proof.
  induction e using pex_ind'.
  - destruct n; cbn; [|reflexivity]. destruct (handled k) eqn:Hk; cbn; [exact (usub_num k m Hk) | reflexivity].
  - reflexivity.
  - cbn. rewrite IHe. reflexivity.
  - cbn. f_equal. rewrite map_map. apply map_ext_in. intros x Hx. rewrite Forall_forall in H. exact (H x Hx).
Qed.
End Eval.

(* the power form with base -2: the Constant(-2) under a node becomes -(2) *)
Example pow_minus_two : negconst (PNode [PNum KInt true 2; PNum KInt false 2]) = PNode [PNeg (PNum KInt false 2); PNum KInt false 2].
Proof. vm_compute. reflexivity. Qed.

(* complex constants: either handled too, or a negative imaginary literal is left as it is
   (on the current tree the second alternative computes: finding C14-negative-imaginary-literal) *)
Theorem complex_constants_status :
  neg_complex = true \/ negconst (PNum KComplex true 1) = PNum KComplex true 1.
Proof. first [left; reflexivity | right; vm_compute; reflexivity]. Qed.
