(* C14: the identifier rewriting ("keyword mincing") that hy/compat.py applies
   before ast.unparse, over the regenerated keyword list and constants
   (Gen/Keywords.v).  The only Unicode fact used is a hypothesis about NFKC on
   the mathematical bold small letters, validated by the harness. *)
From HyV Require Import Base.Text Gen.Keywords.
From Coq Require Import Lia.

Definition in_list (t : text) (l : list text) : bool := existsb (text_eqb t) l.
Definition is_keyword (t : text) : bool := in_list t kwlist.               (* keyword.iskeyword *)
Definition minced (v : text) : bool := is_keyword v && negb (in_list v mince_exclusions).

(* chr(ord(v[0]) - ord("a") + ord(bold a)) + v[1:]; Python integers: the subtraction may go below zero, then chr raises *)
Definition mince (v : text) : option text :=
  match v with
  | [] => None                                        (* v[0]: IndexError *)
  | c :: r => if mince_from <=? c + mince_to then
                let x := c + mince_to - mince_from in
                if x <? 1114112 then Some (x :: r) else None      (* chr: ValueError *)
              else None
  end.

(* what rewriting_unparse does to one identifier field *)
Definition rewrite_ident (v : text) : option text := if minced v then mince v else Some v.

Definition is_lower (c : N) : bool := (97 <=? c) && (c <=? 122).
Definition bold_of (c : N) : N := c + mince_to - mince_from.

(* ---------------------------------------------------------------- obligations over the generated list *)

(* every keyword that gets minced starts with a lower-case ASCII letter and is ASCII *)
Lemma minced_keywords_shape_checked :
  forallb (fun k => if minced k then match k with c :: r => is_lower c && forallb is_ascii r | [] => false end else true) kwlist = true.
Proof. vm_compute. reflexivity. Qed.

(* mincing a keyword never raises, and the result is not a keyword and differs from it *)
Lemma mince_results_checked :
  forallb (fun k => if minced k then
                      match mince k with
                      | Some m => negb (is_keyword m) && negb (text_eqb m k)
                                  && match m with x :: _ => (119834 <=? x) && (x <=? 119859) | [] => false end
                      | None => false
                      end
                    else true) kwlist = true.
Proof. vm_compute. reflexivity. Qed.

Lemma minced_in_kwlist v : minced v = true -> In v kwlist.
Proof.
  unfold minced, is_keyword, in_list. intros H. apply andb_true_iff in H. destruct H as [H _].
  apply existsb_exists in H. destruct H as [k [Hin E]]. apply text_eqb_eq in E. subst. exact Hin.
Qed.

Section WithNFKC.
Variable nfkc : text -> text.
(* NFKC maps a mathematical bold small letter followed by ASCII to the plain letter followed by the same ASCII *)
Hypothesis nfkc_bold : forall c r, is_lower c = true -> forallb is_ascii r = true -> nfkc (bold_of c :: r) = c :: r.

Theorem mince_correct : forall k, minced k = true ->
  exists m, mince k = Some m /\ nfkc m = k /\ is_keyword m = false /\ m <> k.
Proof.
  intros k Hm. pose proof (minced_in_kwlist k Hm) as Hin.
  pose proof minced_keywords_shape_checked as A. pose proof mince_results_checked as B.
  rewrite forallb_forall in A, B. specialize (A k Hin). specialize (B k Hin). rewrite Hm in A, B.
  destruct (mince k) as [m|] eqn:E; [|discriminate]. exists m. split; [reflexivity|].
  apply andb_true_iff in B. destruct B as [B B3]. apply andb_true_iff in B. destruct B as [B1 B2].
  destruct k as [|c r]; [discriminate|]. apply andb_true_iff in A. destruct A as [A1 A2].
  split; [|split].
  - unfold mince in E. destruct (mince_from <=? c + mince_to); [|discriminate].
    destruct (c + mince_to - mince_from <? 1114112); [|discriminate]. inversion E; subst.
    exact (nfkc_bold c r A1 A2).
  - apply negb_true_iff in B1. exact B1.
  - apply negb_true_iff in B2. intros ->. rewrite (proj2 (text_eqb_eq _ _) eq_refl) in B2. discriminate.
Qed.

(* after rewriting, an identifier field is a Python keyword only if it is one of the excluded constants' names *)
Theorem rewrite_leaves_no_keyword : forall v w, rewrite_ident v = Some w -> is_keyword w = true ->
  in_list v mince_exclusions = true.
Proof.
  intros v w E K. unfold rewrite_ident in E. destruct (minced v) eqn:M.
  - destruct (mince_correct v M) as (m & E1 & _ & NK & _). rewrite E1 in E. inversion E; subst. congruence.
  - inversion E; subst. unfold minced in M. rewrite K in M. cbn in M. apply negb_false_iff in M. exact M.
Qed.

(* rewriting never fails (no exception from chr / indexing) *)
Theorem rewrite_total : forall v, exists w, rewrite_ident v = Some w.
Proof.
  intros v. unfold rewrite_ident. destruct (minced v) eqn:M; [|eexists; reflexivity].
  destruct (mince_correct v M) as (m & E1 & _). exists m. exact E1.
Qed.

(* and Python's own NFKC normalisation of identifiers gives the original name back *)
Theorem rewrite_normalises_back : forall v w, nfkc v = v -> rewrite_ident v = Some w -> nfkc w = v.
Proof.
  intros v w N E. unfold rewrite_ident in E. destruct (minced v) eqn:M.
  - destruct (mince_correct v M) as (m & E1 & Nm & _ & _). rewrite E1 in E. inversion E as [Ew]. rewrite <- Ew. exact Nm.
  - inversion E; subst. exact N.
Qed.
End WithNFKC.

(* the hypothesis is satisfiable: a normaliser that maps the bold block back *)
Definition toy_nfkc (t : text) : text :=
  map (fun x => if (119834 <=? x) && (x <=? 119859) then x + mince_from - mince_to else x) t.

Lemma toy_nfkc_bold : forall c r, is_lower c = true -> forallb is_ascii r = true -> toy_nfkc (bold_of c :: r) = c :: r.
Proof.
  intros c r L A. unfold toy_nfkc, bold_of. cbn [map]. unfold is_lower in L. apply andb_true_iff in L. destruct L as [L1 L2].
  apply N.leb_le in L1, L2. unfold mince_to, mince_from in *.
  assert (E1 : (119834 <=? c + 119834 - 97) = true) by (apply N.leb_le; lia).
  assert (E2 : (c + 119834 - 97 <=? 119859) = true) by (apply N.leb_le; lia).
  rewrite E1, E2. cbn [andb]. f_equal; [lia|].
  induction r as [|x r IH]; [reflexivity|]. cbn [forallb] in A. apply andb_true_iff in A. destruct A as [Ax Ar].
  cbn [map]. rewrite (IH Ar). f_equal. unfold is_ascii in Ax. apply N.ltb_lt in Ax.
  assert (E : (119834 <=? x) = false) by (apply N.leb_gt; lia). rewrite E. reflexivity.
Qed.

(* ---------------------------------------------------------------- which fields are rewritten *)
(* rewriting_unparse looks at every field of every non-Constant node and rewrites it when
   `type(v) is str` (checked by the translator): a field holding a *list* of strings -- Global.names,
   Nonlocal.names, MatchClass.kwd_attrs -- is left alone. *)
Inductive field :=
| FStr (v : text)
| FStrList (l : list text)
| FOther.

Definition rewrite_field (f : field) : option field :=
  match f with
  | FStr v => option_map FStr (rewrite_ident v)
  | other => Some other
  end.

Definition field_has_keyword (f : field) : bool :=
  match f with
  | FStr v => is_keyword v && negb (in_list v mince_exclusions)
  | FStrList l => existsb (fun v => is_keyword v && negb (in_list v mince_exclusions)) l
  | FOther => false
  end.

(* string fields are clean after rewriting ... *)
Theorem str_fields_clean : forall (nfkc : text -> text),
  (forall c r, is_lower c = true -> forallb is_ascii r = true -> nfkc (bold_of c :: r) = c :: r) ->
  forall v f, rewrite_field (FStr v) = Some f -> field_has_keyword f = false.
Proof.
  intros nfkc H v f E. cbn [rewrite_field] in E. destruct (rewrite_ident v) as [w|] eqn:R; [|discriminate].
  inversion E; subst. cbn [field_has_keyword]. destruct (is_keyword w) eqn:K; [|reflexivity].
  pose proof (rewrite_leaves_no_keyword nfkc H v w R K) as X.
  unfold rewrite_ident in R. unfold minced in R. rewrite X in R. rewrite andb_false_r in R.
  inversion R; subst. rewrite X. reflexivity.
Qed.

(* ... but a keyword inside a list-of-strings field survives: `global if` is printed as is *)
Definition kw_if : text := [105; 102]%N.
Theorem list_field_keyword_survives :
  rewrite_field (FStrList [kw_if]) = Some (FStrList [kw_if]) /\ field_has_keyword (FStrList [kw_if]) = true.
Proof. vm_compute. split; reflexivity. Qed.
