(* Interleaving semantics for hy.gensym (hy/core/util.hy).

   The function body is a program of four phases

       pre ; try: body finally: fin ; post

   over the steps below (the granularity is that of the CPython bytecodes that
   touch shared state; the translator translator/gensym_steps.py produces the
   program from the source and cross-checks it with `dis`).  Any number of
   threads run the program any number of times; a schedule is a list of
   (thread id, fault flag): the thread makes one step, and when the flag is set
   and the thread is inside the try body the step raises instead (control goes
   to the finally clause and the call returns no symbol). *)
From HyV Require Import Base.Text.

Inductive step :=
| Acquire      (* _gensym_lock.acquire(): proceeds only when the lock is free *)
| Release      (* _gensym_lock.release() *)
| Read         (* push the global _gensym_counter      (LOAD_GLOBAL) *)
| Add          (* add 1 to the pushed value            (BINARY_OP) *)
| Write        (* pop into the global _gensym_counter  (STORE_GLOBAL) *)
| Assign       (* n = _gensym_counter                  (LOAD_GLOBAL; STORE_FAST) *)
| Local.       (* anything that touches no shared state *)

Record prog := { p_pre : list step; p_body : list step; p_fin : list step; p_post : list step }.

Inductive phase := Pre | Body | Fin (raising : bool) | Post.

Inductive tstate :=
| Idle
| Run (ph : phase) (rest : list step) (tmp : option N) (nn : option N).

Definition tid := nat.

Record state := {
  lock : option tid;
  counter : N;
  th : tid -> tstate;
  issued : list N          (* the numbers of the symbols returned so far, latest first *)
}.

Definition upd (f : tid -> tstate) (t : tid) (x : tstate) : tid -> tstate :=
  fun u => if Nat.eqb u t then x else f u.

Definition init : state := {| lock := None; counter := 0; th := fun _ => Idle; issued := [] |}.

Definition set_th (s : state) (t : tid) (x : tstate) : state :=
  {| lock := lock s; counter := counter s; th := upd (th s) t x; issued := issued s |}.

(* one step of thread t *)
Definition exec (t : tid) (s : state) (ph : phase) (st : step) (rest : list step)
                (tmp nn : option N) : state :=
  match st with
  | Acquire =>
      match lock s with
      | None => {| lock := Some t; counter := counter s; th := upd (th s) t (Run ph rest tmp nn); issued := issued s |}
      | Some _ => s     (* blocked *)
      end
  | Release =>
      {| lock := None; counter := counter s; th := upd (th s) t (Run ph rest tmp nn); issued := issued s |}
  | Read => set_th s t (Run ph rest (Some (counter s)) nn)
  | Add => set_th s t (Run ph rest (option_map (fun x => x + 1) tmp) nn)
  | Write =>
      match tmp with
      | Some v => {| lock := lock s; counter := v; th := upd (th s) t (Run ph rest None nn); issued := issued s |}
      | None => set_th s t (Run ph rest None nn)     (* nothing was pushed: not reachable in checked programs *)
      end
  | Assign => set_th s t (Run ph rest tmp (Some (counter s)))
  | Local => set_th s t (Run ph rest tmp nn)
  end.

Definition tick (p : prog) (t : tid) (fault : bool) (s : state) : state :=
  match th s t with
  | Idle => set_th s t (Run Pre (p_pre p) None None)               (* a new call *)
  | Run ph [] tmp nn =>
      match ph with
      | Pre => set_th s t (Run Body (p_body p) tmp nn)
      | Body => set_th s t (Run (Fin false) (p_fin p) tmp nn)
      | Fin false => set_th s t (Run Post (p_post p) tmp nn)
      | Fin true => set_th s t Idle                                 (* the exception propagates: no symbol *)
      | Post =>
          {| lock := lock s; counter := counter s; th := upd (th s) t Idle;
             issued := match nn with Some x => x :: issued s | None => issued s end |}
      end
  | Run ph (st :: rest) tmp nn =>
      match ph, fault with
      | Body, true => set_th s t (Run (Fin true) (p_fin p) tmp nn)  (* the step raises *)
      | _, _ => exec t s ph st rest tmp nn
      end
  end.

Fixpoint run (p : prog) (sched : list (tid * bool)) (s : state) : state :=
  match sched with
  | [] => s
  | (t, f) :: r => run p r (tick p t f s)
  end.

(* ------------------------------------------------------------------ the checker *)
Definition is_local (s : step) : bool := match s with Local => true | _ => false end.

(* symbolic execution of the try body, run atomically from counter c:
   (pushed value, counter, n) as offsets from c *)
Definition sym := (option nat * nat * option nat)%type.
Definition sym_init : sym := (None, O, None).

Definition sym_step (st : step) (x : sym) : option sym :=
  let '(tmp, cnt, n) := x in
  match st with
  | Read => Some (Some cnt, cnt, n)
  | Add => Some (option_map S tmp, cnt, n)
  | Write => match tmp with Some a => Some (None, a, n) | None => None end
  | Assign => Some (tmp, cnt, Some cnt)
  | Local => Some x
  | Acquire | Release => None
  end.

Fixpoint sym_run (l : list step) (x : sym) : option sym :=
  match l with
  | [] => Some x
  | st :: r => match sym_step st x with Some y => sym_run r y | None => None end
  end.

(* pre = local steps then one Acquire; the body, run atomically, raises the counter and leaves
   n = the new counter; fin = Release then local steps; post = local steps *)
Definition well_locked (p : prog) : bool :=
  match rev (p_pre p) with
  | Acquire :: l => forallb is_local l
  | _ => false
  end
  && match sym_run (p_body p) sym_init with
     | Some (_, cnt, Some n) => Nat.ltb 0 cnt && Nat.eqb n cnt
     | _ => false
     end
  && match p_fin p with
     | Release :: l => forallb is_local l
     | _ => false
     end
  && forallb is_local (p_post p).

(* ------------------------------------------------------------------ search for a duplicate *)
Fixpoint has_dup (l : list N) : bool :=
  match l with
  | [] => false
  | x :: r => existsb (N.eqb x) r || has_dup r
  end.

Definition rep (t : tid) (n : nat) : list (tid * bool) := repeat (t, false) n.

(* schedules 0^a 1^b 0^c 1^d 0^k 1^k (at most three context switches before both threads run to completion) *)
Definition sched4 (a b c d k : nat) : list (tid * bool) :=
  rep 0%nat a ++ rep 1%nat b ++ rep 0%nat c ++ rep 1%nat d ++ rep 0%nat k ++ rep 1%nat k.

Definition prog_len (p : prog) : nat :=
  (length (p_pre p) + length (p_body p) + length (p_fin p) + length (p_post p) + 6)%nat.

(* the first (a, b, c, d) with a, b, c, d <= m whose schedule makes two returned numbers equal *)
Definition search_dup (p : prog) (m : nat) : option (nat * nat * nat * nat) :=
  let k := prog_len p in
  let r := seq 0%nat (S m) in
  find (fun q => let '(a, b, c, d) := q in has_dup (issued (run p (sched4 a b c d k) init)))
       (flat_map (fun a => flat_map (fun b => flat_map (fun c => map (fun d => (a, b, c, d)) r) r) r) r).

(* the shared-state events of a schedule, in order: (thread, step) for every executed
   Acquire / Release / Read / Write / Assign -- what the replay on the real function enforces *)
Definition is_shared (st : step) : bool :=
  match st with Acquire | Release | Read | Write | Assign => true | _ => false end.

Fixpoint events (p : prog) (sched : list (tid * bool)) (s : state) : list (tid * step) :=
  match sched with
  | [] => []
  | (t, f) :: r =>
      let s' := tick p t f s in
      match th s t with
      | Run ph (st :: _) _ _ =>
          if is_shared st && negb (match ph, f with Body, true => true | _, _ => false end)
             && negb (match st, lock s with Acquire, Some _ => true | _, _ => false end)
          then (t, st) :: events p r s' else events p r s'
      | _ => events p r s'
      end
  end.

(* ------------------------------------------------------------------ the name *)
(* "{}".format(n) for an int *)
Fixpoint dec_aux (fuel : nat) (n : N) (acc : text) : text :=
  match fuel with
  | O => acc
  | S f => if n <? 10 then (48 + n) :: acc else dec_aux f (n / 10) ((48 + n mod 10) :: acc)
  end.
Definition dec (n : N) : text := dec_aux (S (N.to_nat (N.log2 n))) n [].

Definition fmt_pre : text := [95; 104; 121; 95; 103; 101; 110; 115; 121; 109; 95].   (* _hy_gensym_ *)
Definition fmt_mid : text := [95].                                                  (* _ *)
Definition fmt_post : text := [].
Definition strip_prefix : text := [95; 104; 121; 120; 95].                           (* _hyx_ *)
Definition strip_repl : text := [95].                                                (* _ *)

Section Name.
Variable mangle : text -> text.
(* (hy.mangle (.format "_hy_gensym_{}_{}" g n)), then the _hyx_ prefix is replaced by _ *)
Definition gensym_name (g : text) (n : N) : text :=
  let m := mangle (fmt_pre ++ g ++ fmt_mid ++ dec n ++ fmt_post) in
  if starts_with strip_prefix m then strip_repl ++ skipn (length strip_prefix) m else m.
End Name.
