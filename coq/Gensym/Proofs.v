(* C38: distinctness of the numbers hy.gensym hands out, for every number of
   threads, calls and every schedule (with faults inside the try body), by an
   inductive invariant over Gensym/Model.v. *)
From HyV Require Import Base.Text Gensym.Model.
From Coq Require Import Lia.

Lemma sym_run_app a b x : sym_run (a ++ b) x = match sym_run a x with Some y => sym_run b y | None => None end.
Proof.
  revert x. induction a as [|s a IH]; intros x; [reflexivity|].
  cbn [app sym_run]. destruct (sym_step s x) as [y|]; [apply IH | reflexivity].
Qed.

Lemma upd_same f t x : upd f t x t = x.
Proof. unfold upd. rewrite Nat.eqb_refl. reflexivity. Qed.

Lemma upd_other f t x u : u <> t -> upd f t x u = f u.
Proof. unfold upd. intros H. apply Nat.eqb_neq in H. rewrite H. reflexivity. Qed.

Section Inv.
Variable p : prog.
Variables pl fl : list step.
Variable cf : nat.
Variable tf : option nat.
Hypothesis Hpre : p_pre p = pl ++ [Acquire].
Hypothesis Hpl : forallb is_local pl = true.
Hypothesis Hbody : sym_run (p_body p) sym_init = Some (tf, cf, Some cf).
Hypothesis Hcf : (0 < cf)%nat.
Hypothesis Hfin : p_fin p = Release :: fl.
Hypothesis Hfl : forallb is_local fl = true.
Hypothesis Hpost : forallb is_local (p_post p) = true.

Definition off (C : N) (a : nat) : N := C + N.of_nat a.

(* a thread that does not hold the lock *)
Definition nonholder (ts : tstate) : Prop :=
  match ts with
  | Idle => True
  | Run Pre rest tmp nn =>
      (exists l, rest = l ++ [Acquire] /\ forallb is_local l = true) /\ tmp = None /\ nn = None
  | Run Body _ _ _ => False
  | Run (Fin _) rest _ _ => forallb is_local rest = true
  | Run Post rest _ _ => forallb is_local rest = true
  end.

(* the thread that holds the lock; C is the counter at the time it acquired it *)
Definition hrel (C cnt : N) (ts : tstate) : Prop :=
  match ts with
  | Run Pre [] tmp nn => tmp = None /\ nn = None /\ cnt = C
  | Run Body rest tmp nn =>
      exists d so co no,
        p_body p = d ++ rest /\ sym_run d sym_init = Some (so, co, no)
        /\ tmp = option_map (off C) so /\ cnt = off C co /\ nn = option_map (off C) no
  | Run (Fin false) (Release :: l) _ nn =>
      forallb is_local l = true /\ C < cnt /\ nn = Some cnt
  | Run (Fin true) (Release :: l) _ _ => forallb is_local l = true /\ C <= cnt
  | _ => False
  end.

(* the thread has left the critical section normally and will return the symbol numbered x *)
Definition pending (ts : tstate) (x : N) : Prop :=
  match ts with
  | Run (Fin false) rest _ (Some y) => forallb is_local rest = true /\ y = x
  | Run Post _ _ (Some y) => y = x
  | _ => False
  end.

Record inv (C : N) (s : state) : Prop := {
  i_nodup : NoDup (issued s);
  i_le : forall x, In x (issued s) -> x <= C;
  i_pend : forall t x, pending (th s t) x -> x <= C /\ ~ In x (issued s);
  i_pend2 : forall t t' x x', t <> t' -> pending (th s t) x -> pending (th s t') x' -> x <> x';
  i_thr : forall t, (lock s = Some t /\ hrel C (counter s) (th s t)) \/ (lock s <> Some t /\ nonholder (th s t));
  i_free : lock s = None -> counter s = C
}.

Lemma hrel_not_pending C cnt ts x : hrel C cnt ts -> ~ pending ts x.
Proof.
  destruct ts as [|ph rest tmp nn]; [intros []|].
  destruct ph as [| |[|]|]; destruct rest as [|[] l]; destruct nn as [y|]; cbn;
    intros H Hp; try exact Hp; try exact H;
    try (destruct Hp as [Hp _]; discriminate Hp).
Qed.

Lemma local_head st rest : forallb is_local (st :: rest) = true -> st = Local /\ forallb is_local rest = true.
Proof. cbn. intros H. apply andb_true_iff in H. destruct H as [H1 H2]. destruct st; try discriminate H1. split; [reflexivity | exact H2]. Qed.

(* thread t, not the holder, moves to another non-holding state that promises nothing new *)
Lemma inv_set_nonholder C s t ts' :
  inv C s -> lock s <> Some t -> nonholder ts' ->
  (forall x, pending ts' x -> pending (th s t) x) ->
  inv C (set_th s t ts').
Proof.
  intros I Hl Hn Hp. destruct I as [I1 I2 I3 I4 I5 I6].
  constructor; cbn [set_th lock counter th issued]; try assumption.
  - intros u x. destruct (Nat.eq_dec u t) as [->|Hu].
    + rewrite upd_same. intros H. apply (I3 t x). apply Hp, H.
    + rewrite (upd_other _ _ _ _ Hu). apply I3.
  - intros u u' x x' Hne. destruct (Nat.eq_dec u t) as [->|Hu]; destruct (Nat.eq_dec u' t) as [->|Hu'].
    + contradiction.
    + rewrite upd_same, (upd_other _ _ _ _ Hu'). intros A B. exact (I4 t u' x x' Hne (Hp _ A) B).
    + rewrite upd_same, (upd_other _ _ _ _ Hu). intros A B. exact (I4 u t x x' Hne A (Hp _ B)).
    + rewrite (upd_other _ _ _ _ Hu), (upd_other _ _ _ _ Hu'). apply I4. exact Hne.
  - intros u. destruct (Nat.eq_dec u t) as [->|Hu].
    + rewrite upd_same. right. split; assumption.
    + rewrite (upd_other _ _ _ _ Hu). apply I5.
Qed.

(* the holder moves inside its critical section; the counter may change *)
Lemma inv_set_holder C s t ts' cnt' :
  inv C s -> lock s = Some t -> hrel C cnt' ts' ->
  inv C {| lock := lock s; counter := cnt'; th := upd (th s) t ts'; issued := issued s |}.
Proof.
  intros I Hl Hh. destruct I as [I1 I2 I3 I4 I5 I6].
  assert (Hold : forall x, ~ pending (th s t) x).
  { intros x. destruct (I5 t) as [[_ H]|[H _]]; [exact (hrel_not_pending _ _ _ x H) | contradiction]. }
  constructor; cbn [lock counter th issued]; try assumption.
  - intros u x. destruct (Nat.eq_dec u t) as [->|Hu].
    + rewrite upd_same. intros H. exfalso. exact (hrel_not_pending _ _ _ x Hh H).
    + rewrite (upd_other _ _ _ _ Hu). apply I3.
  - intros u u' x x' Hne. destruct (Nat.eq_dec u t) as [->|Hu]; destruct (Nat.eq_dec u' t) as [->|Hu'].
    + contradiction.
    + rewrite upd_same. intros A. exfalso. exact (hrel_not_pending _ _ _ x Hh A).
    + rewrite upd_same. intros _ B. exfalso. exact (hrel_not_pending _ _ _ x' Hh B).
    + rewrite (upd_other _ _ _ _ Hu), (upd_other _ _ _ _ Hu'). apply I4. exact Hne.
  - intros u. destruct (Nat.eq_dec u t) as [->|Hu].
    + rewrite upd_same. left. split; assumption.
    + rewrite (upd_other _ _ _ _ Hu). destruct (I5 u) as [[H _]|H]; [|right; exact H].
      rewrite Hl in H. injection H as H. symmetry in H. contradiction.
  - intros H. rewrite Hl in H. discriminate H.
Qed.

Lemma holder_or_not C s t : inv C s ->
  (lock s = Some t /\ hrel C (counter s) (th s t)) \/ (lock s <> Some t /\ nonholder (th s t)).
Proof. intros I. apply (i_thr _ _ I). Qed.

Lemma set_th_eta s t ts :
  set_th s t ts = {| lock := lock s; counter := counter s; th := upd (th s) t ts; issued := issued s |}.
Proof. reflexivity. Qed.

Lemma off_S C a : off C a + 1 = off C (S a).
Proof. unfold off. lia. Qed.

Lemma off_0 C : off C 0 = C.
Proof. unfold off. lia. Qed.

Theorem tick_preserves C s t f : inv C s -> exists C', C <= C' /\ inv C' (tick p t f s).
Proof.
  intros I. unfold tick. destruct (th s t) as [|ph rest tmp nn] eqn:Et.
  - (* a new call *)
    exists C. split; [lia|]. destruct (holder_or_not C s t I) as [[_ H]|[Hl _]]; [rewrite Et in H; destruct H|].
    apply inv_set_nonholder; try assumption.
    + cbn. split; [exists pl; split; [exact Hpre | exact Hpl] | split; reflexivity].
    + intros x [].
  - destruct rest as [|st rest].
    + (* phase transitions *)
      destruct ph as [| |[|]|].
      * (* Pre -> Body: the thread has just acquired the lock *)
        exists C. split; [lia|].
        destruct (holder_or_not C s t I) as [[Hl H]|[_ H]]; rewrite Et in H.
        -- cbn in H. destruct H as [-> [-> Hc]]. rewrite set_th_eta. apply inv_set_holder; try assumption.
           cbn. exists [], None, O, None. repeat split; try reflexivity. rewrite off_0. exact Hc.
        -- cbn in H. destruct H as [[l [Hl' _]] _]. destruct l; discriminate Hl'.
      * (* Body -> Fin false: the whole body has run *)
        exists C. split; [lia|].
        destruct (holder_or_not C s t I) as [[Hl H]|[_ H]]; rewrite Et in H; [|destruct H].
        cbn in H. destruct H as [d [so [co [no [Hd [Hs [Ht [Hc Hn]]]]]]]].
        rewrite app_nil_r in Hd. subst d. rewrite Hbody in Hs. injection Hs as <- <- <-.
        rewrite set_th_eta, Hfin. apply inv_set_holder; try assumption.
        cbn. split; [exact Hfl|]. split; [rewrite Hc; unfold off; lia|]. rewrite Hn, Hc. reflexivity.
      * (* Fin true, finished: the exception propagates *)
        exists C. split; [lia|].
        destruct (holder_or_not C s t I) as [[_ H]|[Hl H]]; rewrite Et in H; [destruct H|].
        apply inv_set_nonholder; try assumption; [exact Logic.I | intros x []].
      * (* Fin false -> Post *)
        exists C. split; [lia|].
        destruct (holder_or_not C s t I) as [[_ H]|[Hl H]]; rewrite Et in H; [destruct H|].
        apply inv_set_nonholder; try assumption; try exact Hpost.
        intros x. rewrite Et. cbn. destruct nn; [|tauto]. intros ->. split; reflexivity.
      * (* Post finished: the symbol is returned *)
        exists C. split; [lia|].
        destruct (holder_or_not C s t I) as [[_ H]|[Hl _]]; [rewrite Et in H; destruct H|].
        destruct I as [I1 I2 I3 I4 I5 I6].
        assert (Hother : forall u, u <> t -> upd (th s) t Idle u = th s u) by (intros u Hu; apply upd_other; exact Hu).
        constructor; cbn [lock counter th issued].
        -- destruct nn as [x|]; [|exact I1]. constructor; [|exact I1].
           apply (I3 t x). rewrite Et. reflexivity.
        -- destruct nn as [x|]; [|exact I2]. intros y [<-|Hy]; [|apply I2, Hy].
           apply (I3 t x). rewrite Et. reflexivity.
        -- intros u y. destruct (Nat.eq_dec u t) as [->|Hu]; [rewrite upd_same; intros []|].
           rewrite (Hother u Hu). intros Hp. destruct (I3 u y Hp) as [A B]. split; [exact A|].
           destruct nn as [x|]; [|exact B]. intros [<-|Hy]; [|exact (B Hy)].
           apply (I4 u t x x Hu Hp); [rewrite Et; reflexivity | reflexivity].
        -- intros u u' y y' Hne. destruct (Nat.eq_dec u t) as [->|Hu]; [rewrite upd_same; intros []|].
           destruct (Nat.eq_dec u' t) as [->|Hu']; [rewrite upd_same; intros _ []|].
           rewrite (Hother u Hu), (Hother u' Hu'). apply I4. exact Hne.
        -- intros u. destruct (Nat.eq_dec u t) as [->|Hu].
           ++ rewrite upd_same. right. split; [exact Hl | exact Logic.I].
           ++ rewrite (Hother u Hu). apply I5.
        -- exact I6.
    + (* a step *)
      destruct (holder_or_not C s t I) as [[Hl H]|[Hl H]]; rewrite Et in H.
      * (* the holder *)
        destruct ph as [| |r|]; try (destruct H; fail).
        -- (* Body *)
           cbn in H. destruct H as [d [so [co [no [Hd [Hs [Ht [Hc Hn]]]]]]]].
           destruct f.
           ++ (* the step raises *)
              exists C. split; [lia|]. rewrite set_th_eta, Hfin. apply inv_set_holder; try assumption.
              cbn. split; [exact Hfl|]. rewrite Hc. unfold off. lia.
           ++ exists C. split; [lia|].
              assert (Hstep : exists y, sym_step st (so, co, no) = Some y).
              { pose proof Hbody as Hb. rewrite Hd, sym_run_app, Hs in Hb. cbn [sym_run] in Hb.
                destruct (sym_step st (so, co, no)) as [y|]; [exists y; reflexivity | discriminate Hb]. }
              destruct Hstep as [y Hy].
              assert (Hd' : p_body p = (d ++ [st]) ++ rest) by (rewrite <- app_assoc; exact Hd).
              assert (Hs' : sym_run (d ++ [st]) sym_init = Some y).
              { rewrite sym_run_app, Hs. cbn [sym_run]. rewrite Hy. reflexivity. }
              destruct st; cbn [sym_step] in Hy; try discriminate Hy; cbn [exec].
              ** (* Read *) injection Hy as <-. rewrite set_th_eta. apply inv_set_holder; try assumption.
                 cbn. exists (d ++ [Read]), (Some co), co, no. repeat split; try assumption. cbn. rewrite Hc. reflexivity.
              ** (* Add *) injection Hy as <-. rewrite set_th_eta. apply inv_set_holder; try assumption.
                 cbn. exists (d ++ [Add]), (option_map S so), co, no. repeat split; try assumption.
                 rewrite Ht. destruct so; cbn; [rewrite off_S|]; reflexivity.
              ** (* Write *) destruct so as [a|]; [|discriminate Hy]. injection Hy as <-.
                 rewrite Ht. cbn [option_map]. apply inv_set_holder; try assumption.
                 cbn. exists (d ++ [Write]), None, a, no. repeat split; try assumption.
              ** (* Assign *) injection Hy as <-. rewrite set_th_eta. apply inv_set_holder; try assumption.
                 cbn. exists (d ++ [Assign]), so, co, (Some co). repeat split; try assumption. cbn. rewrite Hc. reflexivity.
              ** (* Local *) injection Hy as <-. rewrite set_th_eta. apply inv_set_holder; try assumption.
                 cbn. exists (d ++ [Local]), so, co, no. repeat split; assumption.
        -- (* Fin: the holder releases *)
           assert (Hst : st = Release) by (destruct r, st; cbn in H; try contradiction; reflexivity).
           subst st.
           assert (Hrest : forallb is_local rest = true) by (destruct r; cbn in H; tauto).
           assert (HC : C <= counter s) by (destruct r; cbn in H; lia).
           exists (counter s). split; [exact HC|].
           cbn [exec]. destruct I as [I1 I2 I3 I4 I5 I6].
           assert (Hoth : forall u, u <> t -> lock s <> Some u /\ nonholder (th s u)).
           { intros u Hu. destruct (I5 u) as [[A _]|A]; [|exact A]. rewrite Hl in A. injection A as A. symmetry in A. contradiction. }
           assert (Hnew : forall x, pending (Run (Fin r) rest tmp nn) x -> r = false /\ nn = Some x /\ x = counter s /\ C < x).
           { intros x. destruct r; cbn; [tauto|]. cbn in H. destruct H as [_ [Hlt Hnn]]. rewrite Hnn.
             intros [_ <-]. repeat split; try reflexivity. exact Hlt. }
           cbn [exec].
           constructor; cbn [lock counter th issued].
           ++ exact I1.
           ++ intros x Hx. specialize (I2 x Hx). lia.
           ++ intros u x. destruct (Nat.eq_dec u t) as [->|Hu].
              ** rewrite upd_same. intros Hp. destruct (Hnew x Hp) as [_ [_ [-> Hlt]]]. split; [lia|].
                 intros Hin. specialize (I2 _ Hin). lia.
              ** rewrite (upd_other _ _ _ _ Hu). intros Hp. destruct (I3 u x Hp) as [A B]. split; [lia | exact B].
           ++ intros u u' x x' Hne. destruct (Nat.eq_dec u t) as [->|Hu]; destruct (Nat.eq_dec u' t) as [->|Hu'].
              ** contradiction.
              ** rewrite upd_same, (upd_other _ _ _ _ Hu'). intros A B.
                 destruct (Hnew x A) as [_ [_ [-> Hlt]]]. destruct (I3 u' x' B) as [Hle _]. lia.
              ** rewrite upd_same, (upd_other _ _ _ _ Hu). intros A B.
                 destruct (Hnew x' B) as [_ [_ [-> Hlt]]]. destruct (I3 u x A) as [Hle _]. lia.
              ** rewrite (upd_other _ _ _ _ Hu), (upd_other _ _ _ _ Hu'). apply I4. exact Hne.
           ++ intros u. right. split; [discriminate|]. destruct (Nat.eq_dec u t) as [->|Hu].
              ** rewrite upd_same. cbn. exact Hrest.
              ** rewrite (upd_other _ _ _ _ Hu). apply Hoth, Hu.
           ++ reflexivity.
      * (* not the holder *)
        destruct ph as [| |r|]; try (destruct H; fail).
        -- (* Pre *)
           cbn in H. destruct H as [[l [Hr Hloc]] [-> ->]].
           destruct l as [|x l].
           ++ (* Acquire *)
              cbn in Hr. injection Hr as -> ->. cbn [exec].
              destruct (lock s) as [u|] eqn:Elock.
              ** exists C. split; [lia | exact I].
              ** exists C. split; [lia|]. destruct I as [I1 I2 I3 I4 I5 I6].
                 assert (Hold : forall x, ~ pending (th s t) x) by (intros x; rewrite Et; intros []).
                 constructor; cbn [lock counter th issued]; try assumption.
                 --- intros u x. destruct (Nat.eq_dec u t) as [->|Hu]; [rewrite upd_same; intros []|].
                     rewrite (upd_other _ _ _ _ Hu). apply I3.
                 --- intros u u' x x' Hne. destruct (Nat.eq_dec u t) as [->|Hu]; [rewrite upd_same; intros []|].
                     destruct (Nat.eq_dec u' t) as [->|Hu']; [rewrite upd_same; intros _ []|].
                     rewrite (upd_other _ _ _ _ Hu), (upd_other _ _ _ _ Hu'). apply I4. exact Hne.
                 --- intros u. destruct (Nat.eq_dec u t) as [->|Hu].
                     +++ rewrite upd_same. left. split; [reflexivity|]. cbn. repeat split. apply I6. exact Elock.
                     +++ rewrite (upd_other _ _ _ _ Hu). right. split; [intros A; injection A as A; symmetry in A; contradiction|].
                         destruct (I5 u) as [[A _]|[_ A]]; [rewrite Elock in A; discriminate A | exact A].
                 --- discriminate.
           ++ cbn in Hr. injection Hr as -> ->. destruct (local_head _ _ Hloc) as [-> Hl'].
              exists C. split; [lia|]. cbn [exec]. apply inv_set_nonholder; try assumption.
              ** cbn. split; [exists l; split; [reflexivity | exact Hl'] | split; reflexivity].
              ** intros y [].
        -- (* Fin, after the release *)
           cbn in H. destruct (local_head _ _ H) as [-> Hl'].
           exists C. split; [lia|]. cbn [exec]. apply inv_set_nonholder; try assumption.
           intros x. rewrite Et. destruct r; cbn; [tauto|]. destruct nn; [|tauto]. intros [_ ->]. split; [exact H | reflexivity].
        -- (* Post *)
           cbn in H. destruct (local_head _ _ H) as [-> Hl'].
           exists C. split; [lia|]. cbn [exec]. apply inv_set_nonholder; try assumption.
           intros x. rewrite Et. cbn. tauto.
Qed.

Lemma inv_init : inv 0 init.
Proof.
  constructor; cbn.
  - constructor.
  - intros x [].
  - intros t x [].
  - intros t t' x x' _ [].
  - intros t. right. split; [discriminate | exact I].
  - reflexivity.
Qed.

Lemma run_inv sched : forall C s, inv C s -> exists C', inv C' (run p sched s).
Proof.
  induction sched as [|[t f] r IH]; intros C s I; [exists C; exact I|].
  cbn [run]. destruct (tick_preserves C s t f I) as [C' [_ I']]. exact (IH _ _ I').
Qed.

Theorem issued_nodup sched : NoDup (issued (run p sched init)).
Proof. destruct (run_inv sched 0 init inv_init) as [C I]. exact (i_nodup _ _ I). Qed.

Theorem lock_holder_is_running sched t : lock (run p sched init) = Some t -> th (run p sched init) t <> Idle.
Proof.
  destruct (run_inv sched 0 init inv_init) as [C I]. intros Hl Hi.
  destruct (i_thr _ _ I t) as [[_ H]|[H _]]; [rewrite Hi in H; exact H | contradiction].
Qed.

End Inv.

(* ------------------------------------------------------------------ from the checker *)
Lemma rev_cons_inv {A} (l : list A) x r : rev l = x :: r -> l = rev r ++ [x].
Proof. intros H. rewrite <- (rev_involutive l), H. reflexivity. Qed.

Lemma forallb_rev {A} (f : A -> bool) l : forallb f (rev l) = forallb f l.
Proof.
  induction l as [|x l IH]; [reflexivity|]. cbn. rewrite forallb_app, IH. cbn. rewrite andb_true_r, andb_comm. reflexivity.
Qed.

Theorem well_locked_distinct p : well_locked p = true ->
  forall sched, NoDup (issued (run p sched init)).
Proof.
  unfold well_locked. intros H.
  apply andb_true_iff in H. destruct H as [H Hpost].
  apply andb_true_iff in H. destruct H as [H Hfin].
  apply andb_true_iff in H. destruct H as [Hpre Hbody].
  destruct (rev (p_pre p)) as [|[] l] eqn:Er; try discriminate Hpre.
  destruct (sym_run (p_body p) sym_init) as [[[tf cnt] [n|]]|] eqn:Eb; try discriminate Hbody.
  apply andb_true_iff in Hbody. destruct Hbody as [Hlt Heq].
  apply Nat.ltb_lt in Hlt. apply Nat.eqb_eq in Heq. subst n.
  destruct (p_fin p) as [|[] fl] eqn:Ef; try discriminate Hfin.
  intros sched.
  apply (issued_nodup p (rev l) fl cnt tf); try assumption.
  - apply rev_cons_inv. exact Er.
  - rewrite forallb_rev. exact Hpre.
Qed.

Theorem well_locked_no_leak p : well_locked p = true ->
  forall sched t, lock (run p sched init) = Some t -> th (run p sched init) t <> Idle.
Proof.
  unfold well_locked. intros H.
  apply andb_true_iff in H. destruct H as [H Hpost].
  apply andb_true_iff in H. destruct H as [H Hfin].
  apply andb_true_iff in H. destruct H as [Hpre Hbody].
  destruct (rev (p_pre p)) as [|[] l] eqn:Er; try discriminate Hpre.
  destruct (sym_run (p_body p) sym_init) as [[[tf cnt] [n|]]|] eqn:Eb; try discriminate Hbody.
  apply andb_true_iff in Hbody. destruct Hbody as [Hlt Heq].
  apply Nat.ltb_lt in Hlt. apply Nat.eqb_eq in Heq. subst n.
  destruct (p_fin p) as [|[] fl] eqn:Ef; try discriminate Hfin.
  intros sched t.
  apply (lock_holder_is_running p (rev l) fl cnt tf); try assumption.
  - apply rev_cons_inv. exact Er.
  - rewrite forallb_rev. exact Hpre.
Qed.
