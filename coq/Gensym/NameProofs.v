(* C38, the name: for every dot-free argument text g and every number n the
   symbol returned by gensym starts with _hy_ and is a fixed point of mangle.
   Over the mangle model of C32 (Mangle/Model.v, its constants regenerated from
   the source), the Unicode facts of Mangle/Facts.v and one more fact about
   NFKC (an ASCII prefix followed by an ASCII character is kept and splits the
   normalisation), validated by the harness. *)
From HyV Require Import Base.Text Gen.MangleTables Mangle.Model Mangle.Facts Mangle.MangleProofs Gensym.Model.
From Coq Require Import Lia.

Definition gs_word : text := [104; 121; 95; 103; 101; 110; 115; 121; 109; 95].     (* hy_gensym_ *)
Definition gs_head : text := [95; 104; 121; 95; 103; 101; 110; 115; 121; 109].     (* _hy_gensym *)
Definition gs_xhead : text := [95; 104; 121; 120; 95; 104; 121; 95; 103; 101; 110; 115; 121; 109].   (* _hyx_hy_gensym *)

Lemma fmt_pre_eq : fmt_pre = ch_us :: gs_word.
Proof. reflexivity. Qed.

(* "{}".format(n) consists of decimal digits *)
Definition is_digit (c : N) : bool := (48 <=? c) && (c <=? 57).

Lemma dec_aux_digits fuel : forall n acc, forallb is_digit acc = true -> forallb is_digit (dec_aux fuel n acc) = true.
Proof.
  induction fuel as [|f IH]; intros n acc H; [exact H|].
  cbn [dec_aux]. destruct (n <? 10) eqn:E.
  - apply N.ltb_lt in E. cbn [forallb]. rewrite H, andb_true_r. unfold is_digit.
    apply andb_true_iff. split; apply N.leb_le; lia.
  - apply IH. cbn [forallb]. rewrite H, andb_true_r. unfold is_digit.
    assert (Hm : n mod 10 < 10) by (apply N.mod_lt; discriminate).
    revert Hm. generalize (n mod 10). intros m Hm.
    apply andb_true_iff. split; apply N.leb_le; lia.
Qed.

Lemma dec_digits n : forallb is_digit (dec n) = true.
Proof. apply dec_aux_digits. reflexivity. Qed.

Lemma digits_no_dot l : forallb is_digit l = true -> mem ch_dot l = false.
Proof.
  induction l as [|c r IH]; [reflexivity|]. cbn [forallb]. intros H. apply andb_true_iff in H. destruct H as [H1 H2].
  unfold mem in *. cbn [existsb]. rewrite (IH H2), orb_false_r.
  unfold is_digit in H1. apply andb_true_iff in H1. destruct H1 as [A _]. apply N.leb_le in A.
  apply N.eqb_neq. unfold ch_dot. lia.
Qed.

Lemma mem_app c a b : mem c (a ++ b) = mem c a || mem c b.
Proof. unfold mem. apply existsb_app. Qed.

Section Names.
Variable U : uni.
Hypothesis F : unicode_facts U.
Hypothesis nfkc_ascii_split : forall a c t,
  forallb is_ascii a = true -> is_ascii c = true -> nfkc U (a ++ c :: t) = a ++ nfkc U (c :: t).

Definition kept (c : N) : bool := is_word_ascii c && negb (N.eqb c mangle_delim).

Lemma esc_char_kept c : kept c = true -> esc_char U c = [c].
Proof.
  unfold kept. intros H. apply andb_true_iff in H. destruct H as [Hw Hd].
  unfold esc_char. rewrite Hd. cbn [andb].
  assert (Hi : isid U [83; c] = true).
  { rewrite isid_cons. rewrite (xs_letter U F 83) by reflexivity. cbn. rewrite (word_xc U F c Hw). reflexivity. }
  rewrite Hi. reflexivity.
Qed.

Lemma flat_esc_kept a t : forallb kept a = true ->
  flat_map (esc_char U) (a ++ t) = a ++ flat_map (esc_char U) t.
Proof.
  induction a as [|c a IH]; [reflexivity|]. cbn [forallb]. intros H. apply andb_true_iff in H. destruct H as [H1 H2].
  cbn [app flat_map]. rewrite (esc_char_kept c H1), (IH H2). reflexivity.
Qed.

Lemma nfkc_us_cons t : nfkc U (ch_us :: t) = ch_us :: nfkc U t.
Proof. exact (nfkc_us_prefix U F [ch_us] t eq_refl). Qed.

(* the argument of mangle *)
Definition gs_input (g : text) (n : N) : text := fmt_pre ++ g ++ fmt_mid ++ dec n ++ fmt_post.
Definition gs_tail (g : text) (n : N) : text := replace_ch ch_hyphen ch_us (g ++ ch_us :: dec n).

Lemma gs_input_eq g n : gs_input g n = ch_us :: gs_word ++ g ++ ch_us :: dec n.
Proof. unfold gs_input, fmt_mid, fmt_post. rewrite app_nil_r. reflexivity. Qed.

Lemma gs_input_no_dot g n : mem ch_dot g = false -> dotted (gs_input g n) = false.
Proof.
  intros Hg. apply dotted_false_of_no_dot. rewrite gs_input_eq.
  change (ch_us :: gs_word ++ g ++ ch_us :: dec n) with ((ch_us :: gs_word) ++ g ++ [ch_us] ++ dec n).
  rewrite !mem_app, Hg, (digits_no_dot _ (dec_digits n)). reflexivity.
Qed.

Lemma gs_mangle_pre g n :
  mangle_pre U (gs_input g n) =
  ch_us :: (if isid U (ch_us :: gs_word ++ gs_tail g n) then gs_word ++ gs_tail g n
            else hyx_prefix ++ flat_map (esc_char U) (gs_word ++ gs_tail g n)).
Proof.
  rewrite gs_input_eq. unfold mangle_pre.
  set (r := [121; 95; 103; 101; 110; 115; 121; 109; 95] ++ g ++ ch_us :: dec n).
  assert (Hd : dropwhile is_us_class (ch_us :: gs_word ++ g ++ ch_us :: dec n) = 104 :: r).
  { change (ch_us :: gs_word ++ g ++ ch_us :: dec n) with (ch_us :: 104 :: r).
    cbn [dropwhile]. rewrite us_in_class, h_not_in_class. reflexivity. }
  rewrite Hd.
  replace (Nat.sub (length (ch_us :: gs_word ++ g ++ ch_us :: dec n)) (length (104 :: r))) with 1%nat
    by (change (ch_us :: gs_word ++ g ++ ch_us :: dec n) with (ch_us :: 104 :: r); cbn [length]; lia).
  assert (Hh : hyphens (104 :: r) = gs_word ++ gs_tail g n).
  { unfold hyphens, r, gs_tail, replace_ch. rewrite map_app. reflexivity. }
  rewrite Hh. reflexivity.
Qed.

Lemma gs_word_kept : forallb kept gs_word = true.
Proof. vm_compute. reflexivity. Qed.

(* what mangle returns for the formatted text: one of two shapes *)
Lemma gs_mangle g n : mem ch_dot g = false ->
  let w := gs_tail g n in
  (isid U (ch_us :: gs_word ++ w) = true /\ mangle U (gs_input g n) = gs_head ++ nfkc U (ch_us :: w))
  \/ (mangle U (gs_input g n) = gs_xhead ++ ch_us :: nfkc U (flat_map (esc_char U) w)).
Proof.
  intros Hg w. unfold mangle. rewrite (gs_input_no_dot g n Hg). unfold mangle1. rewrite gs_mangle_pre. fold w.
  destruct (isid U (ch_us :: gs_word ++ w)) eqn:E.
  - left. split; [reflexivity|].
    change (ch_us :: gs_word ++ w) with (gs_head ++ ch_us :: w).
    apply nfkc_ascii_split; reflexivity.
  - right. rewrite (flat_esc_kept gs_word w gs_word_kept).
    change (ch_us :: hyx_prefix ++ gs_word ++ flat_map (esc_char U) w)
      with (gs_xhead ++ ch_us :: flat_map (esc_char U) w).
    rewrite nfkc_ascii_split by reflexivity. rewrite nfkc_us_cons. reflexivity.
Qed.

Lemma gs_input_nonempty g n : gs_input g n <> [].
Proof. rewrite gs_input_eq. discriminate. Qed.

Lemma forallb_xc_word a : forallb is_word_ascii a = true -> forallb (xid_continue U) a = true.
Proof. apply forallb_impl. apply (word_xc U F). Qed.

(* the symbol hy.gensym returns for the argument text g and the number n *)
Theorem gensym_name_props g n : mem ch_dot g = false ->
  starts_with [95; 104; 121; 95] (gensym_name (mangle U) g n) = true
  /\ mangle U (gensym_name (mangle U) g n) = gensym_name (mangle U) g n.
Proof.
  intros Hg. unfold gensym_name. fold (gs_input g n).
  destruct (gs_mangle g n Hg) as [[_ Hm]|Hm]; rewrite Hm.
  - (* an identifier as it is: mangle's own result *)
    change (starts_with strip_prefix (gs_head ++ nfkc U (ch_us :: gs_tail g n))) with false. cbv iota.
    split; [reflexivity|]. rewrite <- Hm.
    exact (proj2 (proj2 (proj2 (mangle_canonical U F _ (gs_input_nonempty g n) (gs_input_no_dot g n Hg))))).
  - (* the hyx_ form: the prefix is cut off again *)
    set (e := nfkc U (flat_map (esc_char U) (gs_tail g n))).
    change (starts_with strip_prefix (gs_xhead ++ ch_us :: e)) with true. cbv iota.
    change (strip_repl ++ skipn (length strip_prefix) (gs_xhead ++ ch_us :: e)) with (gs_head ++ ch_us :: e).
    split; [reflexivity|].
    assert (Hxc : forallb (xid_continue U) e = true).
    { pose proof (flat_esc_xc U F (gs_tail g n)) as Hx.
      assert (Hi : isid U (ch_us :: flat_map (esc_char U) (gs_tail g n)) = true).
      { rewrite isid_cons, N.eqb_refl, orb_true_r. exact Hx. }
      pose proof (isid_all_xc U F _ (nfkc_id_closed U F _ Hi)) as Ha.
      rewrite nfkc_us_cons in Ha. cbn [forallb] in Ha. apply andb_true_iff in Ha. exact (proj2 Ha). }
    apply (mangle_fixes_normal_identifiers U F).
    + change (gs_head ++ ch_us :: e) with (ch_us :: gs_word ++ e).
      rewrite isid_cons, N.eqb_refl, orb_true_r. cbn [andb]. rewrite forallb_app, Hxc, andb_true_r.
      apply forallb_xc_word. reflexivity.
    + rewrite nfkc_ascii_split by reflexivity. rewrite nfkc_us_cons. unfold e. rewrite (nfkc_idem U F). reflexivity.
Qed.

End Names.

(* the additional NFKC hypothesis is satisfiable together with unicode_facts *)
From HyV Require Import Mangle.Toy.

Lemma toy_ascii_split : forall a c t,
  forallb is_ascii a = true -> is_ascii c = true -> nfkc U_toy (a ++ c :: t) = a ++ nfkc U_toy (c :: t).
Proof.
  intros a c t Ha _. cbn [nfkc U_toy]. rewrite map_app. f_equal.
  induction a as [|x a IH]; [reflexivity|]. cbn [forallb] in Ha. apply andb_true_iff in Ha. destruct Ha as [H1 H2].
  cbn [map]. rewrite (IH H2). rewrite fold_us_ascii; [reflexivity|]. unfold is_ascii in H1. apply N.ltb_lt in H1. exact H1.
Qed.
