(* C03, part B: the operator macros agree with the hy.pyops functions on
   operand values, for EVERY interpretation of Python's operators; the
   comparison functions' eager evaluation; augmented assignment; the shadow
   fallback.  Generic lemmas + boolean checkers over the regenerated tables. *)
From HyV Require Import Ops.OpSyntax Gen.OpTables Ops.Operators Ops.OperatorsSyntaxProofs.
Close Scope string_scope.

(* ---------- decidable equality of defop bodies ---------- *)
Fixpoint hx_eqb (a b : hx) : bool :=
  match a, b with
  | XInt x, XInt y => Z.eqb x y
  | XTrue, XTrue | XNone, XNone => true
  | XVar x, XVar y => String.eqb x y
  | XIf a1 a2 a3, XIf b1 b2 b3 => hx_eqb a1 b1 && hx_eqb a2 b2 && hx_eqb a3 b3
  | XLenEq x n, XLenEq y k => String.eqb x y && Nat.eqb n k
  | XGet0 x, XGet0 y => String.eqb x y
  | XMacro1 n a1, XMacro1 k b1 => String.eqb n k && hx_eqb a1 b1
  | XMacro2 n a1 a2, XMacro2 k b1 b2 => String.eqb n k && hx_eqb a1 b1 && hx_eqb a2 b2
  | XReduce f a1, XReduce g b1 => opfn_eqb f g && hx_eqb a1 b1
  | XReduce3 f a1 a2, XReduce3 g b1 b2 => opfn_eqb f g && hx_eqb a1 b1 && hx_eqb a2 b2
  | XFoldr f a1, XFoldr g b1 => opfn_eqb f g && hx_eqb a1 b1
  | XTupCat1 a1 a2, XTupCat1 b1 b2 => hx_eqb a1 b1 && hx_eqb a2 b2
  | XTupCat2 a1 a2 a3, XTupCat2 b1 b2 b3 => hx_eqb a1 b1 && hx_eqb a2 b2 && hx_eqb a3 b3
  | XCompOp f a1 a2, XCompOp g b1 b2 => opfn_eqb f g && hx_eqb a1 b1 && hx_eqb a2 b2
  | _, _ => false
  end.

Ltac split_all H :=
  repeat match type of H with
         | (_ && _) = true => let H1 := fresh "E" in apply andb_true_iff in H; destruct H as [H H1]
         end.

Lemma hx_eqb_eq a b : hx_eqb a b = true -> a = b.
Proof.
  revert b; induction a; intros [] H; simpl in H; try discriminate; try reflexivity; split_all H;
    repeat match goal with
           | X : Z.eqb _ _ = true |- _ => apply Z.eqb_eq in X
           | X : String.eqb _ _ = true |- _ => apply String.eqb_eq in X
           | X : Nat.eqb _ _ = true |- _ => apply Nat.eqb_eq in X
           | X : opfn_eqb _ _ = true |- _ => apply opfn_eqb_eq in X
           | IH : forall b, hx_eqb ?a b = true -> ?a = b, X : hx_eqb ?a _ = true |- _ => apply IH in X
           end; congruence.
Qed.

Section SemProofs.
Variables val exn : Type.
Variable binop iop : mop -> val -> val -> out exn val.
Variable unop : uop -> val -> out exn val.
Variable cmpop : cop -> val -> val -> out exn val.
Variable truthy : val -> out exn bool.
Variable konst : pconst -> val.
Variable type_error : exn.
Variable iterate : val -> out exn (list val).

Local Notation pev := (peval val exn binop unop cmpop truthy konst).
Local Notation mvals := (macro_vals val exn binop unop cmpop truthy konst).
Local Notation hev := (heval val exn binop unop cmpop truthy konst type_error).
Local Notation cdef := (call_def val exn binop unop cmpop truthy konst type_error).
Local Notation cpy := (call_pyops val exn binop unop cmpop truthy konst type_error).
Local Notation appf := (apply_fn val exn binop cmpop).
Local Notation red := (reduce val exn type_error).
Local Notation redf := (reduce_from val exn).
Local Notation foldr := (foldr_py val exn type_error).
Local Notation compop := (comp_op val exn truthy konst type_error).
Local Notation pairw := (pairwise val exn).
Local Notation VAL := (@Val exn val).

(* ---------- the out monad ---------- *)
Lemma bind_val_r {A} (o : out exn A) : bind o (fun a => Val a) = o.
Proof. destruct o; reflexivity. Qed.
Lemma bind_assoc {A B C} (o : out exn A) (f : A -> out exn B) (g : B -> out exn C) :
  bind (bind o f) g = bind o (fun a => bind (f a) g).
Proof. destruct o; reflexivity. Qed.
Lemma bind_ext {A B} (o : out exn A) (f g : A -> out exn B) :
  (forall a, f a = g a) -> bind o f = bind o g.
Proof. intros H. destruct o; simpl; [apply H | reflexivity | reflexivity]. Qed.

(* ---------- evaluation of the folds on value operands ---------- *)
Lemma pev_bin_leaf_r {L} (leaf : L -> out exn val) a m x :
  fst (pev leaf (PBin a m (PLeaf x))) = bind (fst (pev leaf a)) (fun va => bind (leaf x) (binop m va)).
Proof. cbn [peval]. destruct (pev leaf a) as [ra ta]. destruct ra; reflexivity. Qed.

Lemma pev_bin_val_l m x (acc : pexpr val) :
  fst (pev VAL (PBin (PLeaf x) m acc)) = bind (fst (pev VAL acc)) (binop m x).
Proof. cbn [peval]. destruct (pev VAL acc) as [rb tb]. reflexivity. Qed.

Lemma pev_fold_left m vs : forall acc : pexpr val,
  fst (pev VAL (fold_left_bin m acc (map PLeaf vs))) = bind (fst (pev VAL acc)) (fun a => redf (binop m) a vs).
Proof.
  induction vs as [|x r IH]; intros acc; simpl.
  - symmetry. apply bind_val_r.
  - rewrite IH, pev_bin_leaf_r, bind_assoc. apply bind_ext. intros a. reflexivity.
Qed.

Lemma pev_fold_rev m vs : forall acc : pexpr val,
  fst (pev VAL (fold_rev_bin m acc (map PLeaf vs))) =
  bind (fst (pev VAL acc)) (fun a => redf (fun y x => binop m x y) a vs).
Proof.
  induction vs as [|x r IH]; intros acc; simpl.
  - symmetry. apply bind_val_r.
  - rewrite IH, pev_bin_val_l, bind_assoc. apply bind_ext. intros a. reflexivity.
Qed.

(* what the maths macro computes on one or more values *)
Definition maths_vals (name : string) (m : mop) (a : val) (rest : list val) : out exn val :=
  if String.eqb name right_assoc_root then foldr (binop m) (a :: rest) else redf (binop m) a rest.

Lemma maths_fold_vals name m ag a rest :
  lookup name m_ops = Some (m, ag) ->
  exists e, maths_fold name (map PLeaf (a :: rest)) = Some e /\ fst (pev VAL e) = maths_vals name m a rest.
Proof.
  intros Hm. unfold maths_fold, maths_vals. rewrite Hm.
  destruct (String.eqb name right_assoc_root).
  - rewrite <- map_rev. unfold foldr_py, reduce.
    pose proof (rev_cons_nonempty a rest) as Hne.
    destruct (rev (a :: rest)) as [|last r]; [congruence|].
    eexists. split; [reflexivity|]. simpl map. rewrite pev_fold_rev. reflexivity.
  - eexists. split; [reflexivity|]. simpl map. rewrite pev_fold_left. reflexivity.
Qed.

(* value of a documentation-row-shaped expression on one value *)
Definition row_val (row : dexpr) (v : val) : out exn val := fst (pev VAL (dinst (PLeaf v) row)).

(* ---------- the defop body templates ---------- *)
Definition t_variadic f k u args := XIf (XLenEq args 0) (XInt k) (XIf (XLenEq args 1) u (XReduce f (XVar args))).
Definition t_rest1_if f a1 r u := XIf (XVar r) (XReduce3 f (XVar r) (XVar a1)) u.
Definition t_rest1 f a1 r := XReduce3 f (XVar r) (XVar a1).
Definition t_rest2_left f a1 a2 r := XReduce3 f (XTupCat1 (XVar a2) (XVar r)) (XVar a1).
Definition t_rest2_right f a1 a2 r := XFoldr f (XTupCat2 (XVar a1) (XVar a2) (XVar r)).
Definition t_cmp1 f a1 r := XCompOp f (XVar a1) (XVar r).
Definition t_cmp2 f a1 a2 r := XCompOp f (XVar a1) (XTupCat1 (XVar a2) (XVar r)).

(* environments produced by binding *)
Lemma lookup_hd {A} k (v : A) E : lookup k ((k, v) :: E) = Some v.
Proof. simpl. rewrite String.eqb_refl. reflexivity. Qed.
Lemma lookup_tl {A} k k' (v : A) E : String.eqb k k' = false -> lookup k ((k', v) :: E) = lookup k E.
Proof. intros H. simpl. rewrite H. reflexivity. Qed.

Lemma as_val_DV (o : out exn val) : as_val val exn (bind o (fun r => Val (DV val r))) = o.
Proof. destruct o; reflexivity. Qed.

(* -- [#* args] -- *)
Lemma variadic_sem f k u args vs E :
  lookup args E = Some (DT val vs) ->
  as_val val exn (hev E (t_variadic f k u args)) =
  match vs with
  | [] => Val (konst (KInt k))
  | [_] => as_val val exn (hev E u)
  | a :: rest => redf (appf f) a rest
  end.
Proof.
  intros HE. unfold t_variadic. cbn [heval]. rewrite HE. cbn [bind dv_truthy].
  destruct vs as [|a [|b r]]; cbn [List.length Nat.eqb bind dv_truthy heval].
  - reflexivity.
  - reflexivity.
  - cbn [bind as_tup reduce]. apply as_val_DV.
Qed.

(* -- [a1 #* r] -- *)
Lemma rest1_if_sem f a1 r u v rest E :
  lookup a1 E = Some (DV val v) -> lookup r E = Some (DT val rest) ->
  as_val val exn (hev E (t_rest1_if f a1 r u)) =
  match rest with [] => as_val val exn (hev E u) | _ => redf (appf f) v rest end.
Proof.
  intros H1 Hr. unfold t_rest1_if. cbn [heval]. rewrite Hr. cbn [bind dv_truthy].
  rewrite ?H1. destruct rest as [|b r']; [reflexivity|].
  cbn [bind as_tup as_val reduce]. apply as_val_DV.
Qed.

Lemma rest1_sem f a1 r v rest E :
  lookup a1 E = Some (DV val v) -> lookup r E = Some (DT val rest) ->
  as_val val exn (hev E (t_rest1 f a1 r)) = redf (appf f) v rest.
Proof.
  intros H1 Hr. unfold t_rest1. cbn [heval]. rewrite Hr, H1. cbn [bind as_tup as_val reduce]. apply as_val_DV.
Qed.

(* -- [a1 a2 #* r] -- *)
Lemma rest2_left_sem f a1 a2 r v1 v2 rest E :
  lookup a1 E = Some (DV val v1) -> lookup a2 E = Some (DV val v2) -> lookup r E = Some (DT val rest) ->
  as_val val exn (hev E (t_rest2_left f a1 a2 r)) = redf (appf f) v1 (v2 :: rest).
Proof.
  intros H1 H2 Hr. unfold t_rest2_left. cbn [heval]. rewrite Hr, H1, H2.
  cbn [bind as_tup as_val reduce]. apply as_val_DV.
Qed.

Lemma rest2_right_sem f a1 a2 r v1 v2 rest E :
  lookup a1 E = Some (DV val v1) -> lookup a2 E = Some (DV val v2) -> lookup r E = Some (DT val rest) ->
  as_val val exn (hev E (t_rest2_right f a1 a2 r)) = foldr (appf f) (v1 :: v2 :: rest).
Proof.
  intros H1 H2 Hr. unfold t_rest2_right. cbn [heval]. rewrite Hr, H1, H2.
  cbn [bind as_tup as_val]. apply as_val_DV.
Qed.

(* -- comparisons -- *)
Lemma cmp1_sem f a1 r v rest E :
  lookup a1 E = Some (DV val v) -> lookup r E = Some (DT val rest) ->
  as_val val exn (hev E (t_cmp1 f a1 r)) = compop (appf f) v rest.
Proof.
  intros H1 Hr. unfold t_cmp1. cbn [heval]. rewrite Hr, H1. cbn [bind as_tup as_val]. apply as_val_DV.
Qed.
Lemma cmp2_sem f a1 a2 r v1 v2 rest E :
  lookup a1 E = Some (DV val v1) -> lookup a2 E = Some (DV val v2) -> lookup r E = Some (DT val rest) ->
  as_val val exn (hev E (t_cmp2 f a1 a2 r)) = compop (appf f) v1 (v2 :: rest).
Proof.
  intros H1 H2 Hr. unfold t_cmp2. cbn [heval]. rewrite Hr, H1, H2. cbn [bind as_tup as_val]. apply as_val_DV.
Qed.

(* -- bodies that call the macro itself -- *)
Lemma macro1_var_sem name x v E :
  lookup x E = Some (DV val v) -> as_val val exn (hev E (XMacro1 name (XVar x))) = mvals name [v].
Proof. intros H. cbn [heval]. rewrite H. cbn [bind as_val]. apply as_val_DV. Qed.
Lemma macro1_get0_sem name x v r E :
  lookup x E = Some (DT val (v :: r)) -> as_val val exn (hev E (XMacro1 name (XGet0 x))) = mvals name [v].
Proof. intros H. cbn [heval]. rewrite H. cbn [bind as_val]. apply as_val_DV. Qed.
Lemma macro2_vars_sem name x y v w E :
  lookup x E = Some (DV val v) -> lookup y E = Some (DV val w) ->
  as_val val exn (hev E (XMacro2 name (XVar x) (XVar y))) = mvals name [v; w].
Proof. intros H1 H2. cbn [heval]. rewrite H1, H2. cbn [bind as_val]. apply as_val_DV. Qed.
Lemma macro2_int_var_sem name z y w E :
  lookup y E = Some (DV val w) ->
  as_val val exn (hev E (XMacro2 name (XInt z) (XVar y))) = mvals name [konst (KInt z); w].
Proof. intros H2. cbn [heval]. rewrite H2. cbn [bind as_val]. apply as_val_DV. Qed.
Lemma var_sem x v E : lookup x E = Some (DV val v) -> as_val val exn (hev E (XVar x)) = Val v.
Proof. intros H. cbn [heval]. rewrite H. reflexivity. Qed.
Lemma get0_sem x v r E : lookup x E = Some (DT val (v :: r)) -> as_val val exn (hev E (XGet0 x)) = Val v.
Proof. intros H. cbn [heval]. rewrite H. reflexivity. Qed.


(* ---------- what the macros compute on values ---------- *)
Lemma mvals_maths name d m ag vs :
  find_decorator name = Some d -> d_handler d = HMaths -> arity_ok d (List.length vs) = true ->
  lookup name m_ops = Some (m, ag) ->
  mvals name vs =
  match vs with
  | [] => match lookup name identity_elements with Some z => Val (konst (KInt z)) | None => Stuck end
  | [a] => match macro_unary_row name m with Some row => row_val row a | None => Stuck end
  | a :: rest => maths_vals name m a rest
  end.
Proof.
  intros Hd Hh Har Hm. unfold macro_vals, compile_op. rewrite Hd, map_length, Har, Hh.
  destruct vs as [|a [|b r]].
  - cbn [map compile_maths]. destruct (lookup name identity_elements); reflexivity.
  - cbn [map]. rewrite (compile_maths_unary name m ag _ Hm). destruct (macro_unary_row name m); reflexivity.
  - change (compile_maths name (map PLeaf (a :: b :: r))) with (maths_fold name (map (@PLeaf val) (a :: b :: r))).
    destruct (maths_fold_vals name m ag a (b :: r) Hm) as [e [He Hv]]. rewrite He. exact Hv.
Qed.

(* the Compare node, with the chain as a named function *)
Fixpoint pchain {L} (leaf : L -> out exn val) (left : val) (rest : list (cop * pexpr L)) (t : list L)
  : out exn val * list L :=
  match rest with
  | [] => (Stuck, t)
  | (c, b) :: rest' =>
      let (rb, tb) := pev leaf b in
      match rb with
      | Val vb =>
          match cmpop c left vb with
          | Val r =>
              match rest' with
              | [] => (Val r, t ++ tb)
              | _ :: _ =>
                  match truthy r with
                  | Val true => pchain leaf vb rest' (t ++ tb)
                  | Val false => (Val r, t ++ tb)
                  | Exn e => (Exn e, t ++ tb)
                  | Stuck => (Stuck, t ++ tb)
                  end
              end
          | Exn e => (Exn e, t ++ tb)
          | Stuck => (Stuck, t ++ tb)
          end
      | Exn e => (Exn e, t ++ tb)
      | Stuck => (Stuck, t ++ tb)
      end
  end.

Lemma pev_cmp {L} (leaf : L -> out exn val) a rest :
  pev leaf (PCmp a rest) =
  let (ra, ta) := pev leaf a in
  match ra with
  | Val va => pchain leaf va rest ta
  | Exn e => (Exn e, ta)
  | Stuck => (Stuck, ta)
  end.
Proof.
  cbn [peval]. destruct (pev leaf a) as [ra ta]. destruct ra; try reflexivity.
  revert a0 ta. induction rest as [|[c b] r IH]; intros va ta; [reflexivity|].
  cbn [pchain]. destruct (pev leaf b) as [rb tb]. destruct rb; try reflexivity.
  destruct (cmpop c va a0); try reflexivity. destruct r as [|x r']; [reflexivity|].
  destruct (truthy a1) as [[|]| |]; try reflexivity. apply IH.
Qed.

(* Python's chained comparison on values: the first falsy comparison result, or the last *)
Fixpoint chain_vals (c : cop) (left : val) (rest : list val) : out exn val :=
  match rest with
  | [] => Stuck
  | b :: rest' =>
      bind (cmpop c left b) (fun r =>
        match rest' with
        | [] => Val r
        | _ :: _ => bind (truthy r) (fun t => if t then chain_vals c b rest' else Val r)
        end)
  end.

Lemma pchain_vals c rest : forall v t,
  fst (pchain VAL v (map (fun x => (c, PLeaf x)) rest) t) = chain_vals c v rest.
Proof.
  induction rest as [|b r IH]; intros v t; [reflexivity|].
  cbn [map pchain peval chain_vals]. destruct (cmpop c v b); try reflexivity. cbn [bind].
  destruct r as [|b' r']; [reflexivity|]. cbn [map].
  destruct (truthy a) as [[|]| |]; try reflexivity. cbn [bind]. apply (IH b).
Qed.

Lemma mvals_compare name d c v rest :
  find_decorator name = Some d -> d_handler d = HCompare -> arity_ok d (S (List.length rest)) = true ->
  lookup name c_ops = Some c ->
  mvals name (v :: rest) =
  match rest with [] => Val (konst compare_unary_result) | _ => chain_vals c v rest end.
Proof.
  intros Hd Hh Har Hc. unfold macro_vals, compile_op. rewrite Hd, map_length. cbn [List.length]. rewrite Har, Hh.
  destruct rest as [|b r]; [reflexivity|].
  cbn [map compile_compare]. rewrite Hc. rewrite pev_cmp. cbn [peval].
  rewrite map_map. exact (pchain_vals c (b :: r) v [v]).
Qed.

(* effectful operands: which are evaluated, and the outcome *)
Fixpoint chain_ref (c : cop) (left : val) (rest : list (out exn val)) : out exn val * nat :=
  match rest with
  | [] => (Stuck, 0)
  | o :: rest' =>
      match o with
      | Val b =>
          match cmpop c left b with
          | Val r =>
              match rest' with
              | [] => (Val r, 1)
              | _ :: _ =>
                  match truthy r with
                  | Val true => let (x, k) := chain_ref c b rest' in (x, S k)
                  | Val false => (Val r, 1)
                  | Exn e => (Exn e, 1)
                  | Stuck => (Stuck, 1)
                  end
              end
          | Exn e => (Exn e, 1)
          | Stuck => (Stuck, 1)
          end
      | Exn e => (Exn e, 1)
      | Stuck => (Stuck, 1)
      end
  end.

Lemma pchain_ref {L} (leaf : L -> out exn val) c rest : forall v t,
  pchain leaf v (map (fun x => (c, PLeaf x)) rest) t =
  let (x, k) := chain_ref c v (map leaf rest) in (x, t ++ firstn k rest).
Proof.
  induction rest as [|b r IH]; intros v t.
  - simpl. rewrite app_nil_r. reflexivity.
  - cbn [map pchain peval chain_ref]. destruct (leaf b); try reflexivity.
    destruct (cmpop c v a); try reflexivity.
    destruct r as [|b' r']; [reflexivity|]. cbn [map].
    destruct (truthy a0) as [[|]| |]; try reflexivity.
    change (leaf b' :: map leaf r') with (map leaf (b' :: r')).
    change ((c, PLeaf b') :: map (fun x => (c, PLeaf x)) r') with (map (fun x => (c, @PLeaf L x)) (b' :: r')).
    rewrite IH. destruct (chain_ref c a (map leaf (b' :: r'))) as [x k].
    rewrite <- app_assoc. reflexivity.
Qed.

Definition compare_ref (c : cop) (os : list (out exn val)) : out exn val * nat :=
  match os with
  | [] => (Stuck, 0)
  | o :: rest =>
      match o with
      | Val a => let (x, k) := chain_ref c a rest in (x, S k)
      | Exn e => (Exn e, 1)
      | Stuck => (Stuck, 1)
      end
  end.

Theorem compare_chain_effects {L} (leaf : L -> out exn val) c l0 l1 r :
  pev leaf (PCmp (PLeaf l0) (map (fun x => (c, PLeaf x)) (l1 :: r))) =
  let (x, k) := compare_ref c (map leaf (l0 :: l1 :: r)) in (x, firstn k (l0 :: l1 :: r)).
Proof.
  rewrite pev_cmp. cbn [peval map compare_ref]. destruct (leaf l0); try reflexivity.
  change (leaf l1 :: map leaf r) with (map leaf (l1 :: r)).
  change ((c, PLeaf l1) :: map (fun x => (c, PLeaf x)) r) with (map (fun x => (c, @PLeaf L x)) (l1 :: r)).
  rewrite pchain_ref. destruct (chain_ref c a (map leaf (l1 :: r))) as [x k]. reflexivity.
Qed.

(* ---------- comp-op against the chain ---------- *)
Fixpoint first_falsy_or_last (x : val) (rest : list val) : out exn val :=
  match rest with
  | [] => Val x
  | y :: r => bind (truthy x) (fun b => if b then first_falsy_or_last y r else Val x)
  end.

Local Notation and2' := (and2 val exn truthy).

Lemma and_fold_falsy x rest : truthy x = Val false -> redf and2' x rest = Val x.
Proof.
  intros H. induction rest as [|y r IH]; [reflexivity|].
  cbn [reduce_from]. unfold and2 at 1. rewrite H. cbn [bind]. exact IH.
Qed.

Lemma and_fold_ffl rest : forall x, redf and2' x rest = first_falsy_or_last x rest.
Proof.
  induction rest as [|y r IH]; intros x; [reflexivity|].
  cbn [reduce_from first_falsy_or_last]. unfold and2 at 1.
  destruct (truthy x) as [[|]| |] eqn:E; cbn [bind]; try reflexivity.
  - apply IH.
  - apply and_fold_falsy. exact E.
Qed.

Lemma and_fn_ffl x rest : and_fn val exn truthy konst type_error (x :: rest) = first_falsy_or_last x rest.
Proof. destruct rest as [|y r]; [reflexivity|]. unfold and_fn, reduce. apply and_fold_ffl. Qed.

Lemma chain_vals_ffl c rest : forall v cs,
  rest <> [] -> pairw (cmpop c) v rest = Val cs ->
  exists c0 cs', cs = c0 :: cs' /\ chain_vals c v rest = first_falsy_or_last c0 cs'.
Proof.
  induction rest as [|b r IH]; intros v cs Hne Hp; [congruence|].
  cbn [pairwise] in Hp. destruct (cmpop c v b) as [r0| |] eqn:Ec; try discriminate. cbn [bind] in Hp.
  destruct (pairw (cmpop c) b r) as [cs'| |] eqn:Ep; try discriminate. cbn [bind] in Hp.
  inversion Hp; subst cs. exists r0, cs'. split; [reflexivity|].
  cbn [chain_vals]. rewrite Ec. cbn [bind].
  destruct r as [|b' r'].
  - simpl in Ep. inversion Ep; subst. reflexivity.
  - destruct (IH b cs' ltac:(discriminate) Ep) as [c1 [cs'' [-> Hc]]].
    cbn [first_falsy_or_last]. apply bind_ext. intros [|]; [exact Hc | reflexivity].
Qed.

(* the function evaluates every comparison first; if none of them fails it returns what the chain returns *)
Theorem comp_op_exact c v rest : rest <> [] ->
  compop (cmpop c) v rest =
  match pairw (cmpop c) v rest with
  | Val _ => chain_vals c v rest
  | Exn e => Exn e
  | Stuck => Stuck
  end.
Proof.
  intros Hne. unfold comp_op. destruct rest as [|b r]; [congruence|].
  destruct (pairw (cmpop c) v (b :: r)) as [cs| |] eqn:Ep; try reflexivity. cbn [bind].
  destruct (chain_vals_ffl c (b :: r) v cs Hne Ep) as [c0 [cs' [-> Hc]]].
  rewrite and_fn_ffl. symmetry. exact Hc.
Qed.


(* ---------- the hy.pyops functions against the macros ---------- *)
Definition ident_row (name : string) (m : mop) : bool := opt_eqb dexpr_eqb (macro_unary_row name m) (Some DX).

Definition maths_fn_ok (name : string) : bool :=
  match find_decorator name, lookup name m_ops, find_def_in pyops_defs name with
  | Some d, Some (m, _), Some f =>
      let fb := FBin m in
      let body := f_body f in
      let rassoc := String.eqb name right_assoc_root in
      handler_eqb (d_handler d) HMaths && (d_lead d =? 0) &&
      match f_params f, f_rest f with
      | [], Some args =>
          (d_lo d =? 0) && opt_eqb Nat.eqb (d_hi d) None && negb rassoc &&
          match lookup name identity_elements with
          | Some k => hx_eqb body (t_variadic fb k (XMacro1 name (XGet0 args)) args)
                      || (ident_row name m && hx_eqb body (t_variadic fb k (XGet0 args) args))
          | None => false
          end
      | [a1], Some r =>
          (d_lo d =? 1) && opt_eqb Nat.eqb (d_hi d) None && negb rassoc && negb (String.eqb r a1) &&
          (hx_eqb body (t_rest1_if fb a1 r (XMacro1 name (XVar a1)))
           || (String.eqb name recip_root
               && hx_eqb body (t_rest1_if fb a1 r (XMacro2 name (XInt recip_numerator) (XVar a1))))
           || (ident_row name m && (hx_eqb body (t_rest1_if fb a1 r (XVar a1)) || hx_eqb body (t_rest1 fb a1 r))))
      | [a1; a2], Some r =>
          (d_lo d =? 2) && opt_eqb Nat.eqb (d_hi d) None
          && negb (String.eqb a2 a1) && negb (String.eqb r a1) && negb (String.eqb r a2) &&
          (if rassoc then hx_eqb body (t_rest2_right fb a1 a2 r) else hx_eqb body (t_rest2_left fb a1 a2 r))
      | [x; y], None =>
          (d_lo d =? 2) && opt_eqb Nat.eqb (d_hi d) (Some 2) && negb (String.eqb y x)
          && hx_eqb body (XMacro2 name (XVar x) (XVar y))
      | _, _ => false
      end
  | _, _, _ => false
  end.

Lemma arity_unfold d lo hi n :
  d_lead d = 0 -> d_lo d = lo -> d_hi d = hi ->
  arity_ok d n = (lo <=? n) && match hi with None => true | Some h => n <=? h end.
Proof. intros H1 H2 H3. unfold arity_ok. rewrite H1, H2, H3. reflexivity. Qed.

Lemma cpy_unfold name f vs : find_def_in pyops_defs name = Some f -> cpy name vs = cdef f vs.
Proof. intros H. unfold call_pyops, find_def. rewrite H. reflexivity. Qed.

Ltac eqs :=
  repeat match goal with
         | X : handler_eqb _ _ = true |- _ => apply handler_eqb_eq in X
         | X : Nat.eqb _ _ = true |- _ => apply Nat.eqb_eq in X
         | X : opt_eqb Nat.eqb _ _ = true |- _ => apply (opt_eqb_eq _ (fun x y => proj1 (Nat.eqb_eq x y))) in X
         | X : opt_eqb dexpr_eqb _ _ = true |- _ => apply (opt_eqb_eq _ dexpr_eqb_eq) in X
         | X : hx_eqb _ _ = true |- _ => apply hx_eqb_eq in X
         | X : negb _ = true |- _ => apply negb_true_iff in X
         | X : pconst_eqb _ _ = true |- _ => apply pconst_eqb_eq in X
         end.

Lemma row_val_DX v : row_val DX v = Val v.
Proof. reflexivity. Qed.

Theorem maths_fn_sound name d vs :
  maths_fn_ok name = true -> find_decorator name = Some d ->
  (arity_ok d (List.length vs) = true -> cpy name vs = mvals name vs) /\
  (arity_ok d (List.length vs) = false -> cpy name vs = Exn type_error).
Proof.
  intros Hok Hd. unfold maths_fn_ok in Hok. rewrite Hd in Hok.
  destruct (lookup name m_ops) as [[m ag]|] eqn:Hm; [|discriminate].
  destruct (find_def_in pyops_defs name) as [f|] eqn:Hf; [|discriminate].
  cbv zeta in Hok. rewrite (cpy_unfold name f vs Hf).
  apply andb_true_iff in Hok. destruct Hok as [Hok Hshape].
  apply andb_true_iff in Hok. destruct Hok as [Hh Hlead]. eqs.
  pose proof (fun H => mvals_maths name d m ag vs Hd Hh H Hm) as MV.
  unfold call_def.
  destruct (f_params f) as [|p1 [|p2 [|p3 ps]]] eqn:Hps; destruct (f_rest f) as [rest|] eqn:Hrest;
    try discriminate.
  - (* [#* args] *)
    split_all Hshape. eqs.
    pose proof (arity_unfold d 0 None (List.length vs) Hlead Hshape E1) as AU.
    split; [intros Har | intros Har; rewrite AU in Har; discriminate].
    rewrite (MV Har). clear MV.
    destruct (lookup name identity_elements) as [k|] eqn:Hk; [|discriminate].
    assert (HE : lookup rest [(rest, DT val vs)] = Some (DT val vs)) by apply lookup_hd.
    change (bind_params val [] (Some rest) vs) with (Some ([] ++ [(rest, DT val (skipn 0 vs))])).
    cbn [app skipn].
    apply orb_true_iff in E. destruct E as [E|E].
    + eqs. rewrite E, (variadic_sem _ _ _ _ vs _ HE).
      destruct vs as [|a [|b r]]; try reflexivity.
      * rewrite (macro1_get0_sem _ _ a [] _ HE).
        rewrite (mvals_maths name d m ag [a] Hd Hh Har Hm). reflexivity.
      * unfold maths_vals. rewrite E0. reflexivity.
    + apply andb_true_iff in E. destruct E as [Ei E]. unfold ident_row in Ei. eqs.
      rewrite E, (variadic_sem _ _ _ _ vs _ HE).
      destruct vs as [|a [|b r]]; try reflexivity.
      * rewrite (get0_sem _ a [] _ HE), Ei. reflexivity.
      * unfold maths_vals. rewrite E0. reflexivity.
  - (* [a1 #* r] *)
    split_all Hshape. eqs.
    pose proof (arity_unfold d 1 None (List.length vs) Hlead Hshape E2) as AU.
    destruct vs as [|v vs']; [split; [intros Har; rewrite AU in Har; discriminate | reflexivity]|].
    split; [intros Har | intros Har; rewrite AU in Har; discriminate]. rewrite (MV Har). clear MV.
    change (bind_params val [p1] (Some rest) (v :: vs')) with (Some [(p1, DV val v); (rest, DT val vs')]).
    assert (H1 : lookup p1 [(p1, DV val v); (rest, DT val vs')] = Some (DV val v)) by apply lookup_hd.
    assert (Hr : lookup rest [(p1, DV val v); (rest, DT val vs')] = Some (DT val vs')).
    { rewrite (lookup_tl _ _ _ _ E0). apply lookup_hd. }
    assert (Hfold : forall b r, redf (appf (FBin m)) v (b :: r) = maths_vals name m v (b :: r)).
    { intros b r. unfold maths_vals. rewrite E1. reflexivity. }
    apply orb_true_iff in E. destruct E as [E|E]; [apply orb_true_iff in E; destruct E as [E|E]|].
    + eqs. rewrite E, (rest1_if_sem _ _ _ _ v vs' _ H1 Hr).
      destruct vs' as [|b r]; [|apply Hfold].
      rewrite (macro1_var_sem _ _ v _ H1).
      rewrite (mvals_maths name d m ag [v] Hd Hh Har Hm). reflexivity.
    + apply andb_true_iff in E. destruct E as [Er E]. eqs.
      rewrite E, (rest1_if_sem _ _ _ _ v vs' _ H1 Hr).
      destruct vs' as [|b r]; [|apply Hfold].
      rewrite (macro2_int_var_sem _ _ _ v _ H1).
      assert (Har2 : arity_ok d (List.length [konst (KInt recip_numerator); v]) = true).
      { rewrite (arity_unfold d 1 None _ Hlead Hshape E2). reflexivity. }
      rewrite (mvals_maths name d m ag _ Hd Hh Har2 Hm).
      unfold maths_vals. rewrite E1. unfold macro_unary_row. rewrite Er.
      unfold row_val. cbn [dinst peval fst bind reduce_from]. apply bind_val_r.
    + apply andb_true_iff in E. destruct E as [Ei E]. unfold ident_row in Ei. eqs.
      apply orb_true_iff in E. destruct E as [E|E]; eqs; rewrite E.
      * rewrite (rest1_if_sem _ _ _ _ v vs' _ H1 Hr).
        destruct vs' as [|b r]; [|apply Hfold].
        rewrite (var_sem _ v _ H1), Ei. reflexivity.
      * rewrite (rest1_sem _ _ _ v vs' _ H1 Hr).
        destruct vs' as [|b r]; [|apply Hfold]. rewrite Ei. reflexivity.
  - (* [a1 a2 #* r] *)
    split_all Hshape. eqs.
    pose proof (arity_unfold d 2 None (List.length vs) Hlead Hshape E3) as AU.
    destruct vs as [|v1 [|v2 vs']]; try (split; [intros Har; rewrite AU in Har; discriminate | reflexivity]).
    split; [intros Har | intros Har; rewrite AU in Har; discriminate]. rewrite (MV Har). clear MV.
    change (bind_params val [p1; p2] (Some rest) (v1 :: v2 :: vs'))
      with (Some [(p1, DV val v1); (p2, DV val v2); (rest, DT val vs')]).
    set (EE := [(p1, DV val v1); (p2, DV val v2); (rest, DT val vs')]).
    assert (H1 : lookup p1 EE = Some (DV val v1)) by apply lookup_hd.
    assert (H2 : lookup p2 EE = Some (DV val v2)).
    { unfold EE. rewrite (lookup_tl _ _ _ _ E2). apply lookup_hd. }
    assert (Hr : lookup rest EE = Some (DT val vs')).
    { unfold EE. rewrite (lookup_tl _ _ _ _ E1), (lookup_tl _ _ _ _ E0). apply lookup_hd. }
    unfold maths_vals. destruct (String.eqb name right_assoc_root); eqs; rewrite E.
    + exact (rest2_right_sem (FBin m) _ _ _ v1 v2 vs' _ H1 H2 Hr).
    + exact (rest2_left_sem (FBin m) _ _ _ v1 v2 vs' _ H1 H2 Hr).
  - (* [x y] *)
    split_all Hshape. eqs.
    pose proof (arity_unfold d 2 (Some 2) (List.length vs) Hlead Hshape E1) as AU.
    destruct vs as [|v [|w [|z vs']]]; try (split; [intros Har; rewrite AU in Har; discriminate | reflexivity]).
    split; [intros _ | intros Har; rewrite AU in Har; discriminate].
    change (bind_params val [p1; p2] None [v; w]) with (Some [(p1, DV val v); (p2, DV val w)]).
    rewrite E. apply macro2_vars_sem; [apply lookup_hd | rewrite (lookup_tl _ _ _ _ E0); apply lookup_hd].
Qed.

(* not / bnot *)
Definition unary_fn_ok (name : string) : bool :=
  match find_decorator name, find_def_in pyops_defs name with
  | Some d, Some f =>
      handler_eqb (d_handler d) HUnary && (d_lead d =? 0) && (d_lo d =? 1) && opt_eqb Nat.eqb (d_hi d) (Some 1) &&
      match f_params f, f_rest f with
      | [x], None => hx_eqb (f_body f) (XMacro1 name (XVar x))
      | _, _ => false
      end
  | _, _ => false
  end.

Theorem unary_fn_sound name d vs :
  unary_fn_ok name = true -> find_decorator name = Some d ->
  (arity_ok d (List.length vs) = true -> cpy name vs = mvals name vs) /\
  (arity_ok d (List.length vs) = false -> cpy name vs = Exn type_error).
Proof.
  intros Hok Hd. unfold unary_fn_ok in Hok. rewrite Hd in Hok.
  destruct (find_def_in pyops_defs name) as [f|] eqn:Hf; [|discriminate].
  rewrite (cpy_unfold name f vs Hf). split_all Hok. eqs.
  destruct (f_params f) as [|p1 [|p2 ps]] eqn:Hps; try discriminate.
  destruct (f_rest f) eqn:Hrest; try discriminate. eqs.
  pose proof (arity_unfold d 1 (Some 1) (List.length vs) E2 E1 E0) as AU. unfold call_def. rewrite Hps, Hrest.
  destruct vs as [|v [|w vs']]; try (split; [intros Har; rewrite AU in Har; discriminate | reflexivity]).
  split; [intros _ | intros Har; rewrite AU in Har; discriminate].
  change (bind_params val [p1] None [v]) with (Some [(p1, DV val v)]).
  rewrite E. apply macro1_var_sem. apply lookup_hd.
Qed.

(* comparisons *)
Definition compare_fn_ok (name : string) : bool :=
  match find_decorator name, lookup name c_ops, find_def_in pyops_defs name with
  | Some d, Some c, Some f =>
      let fc := FCmp c in
      handler_eqb (d_handler d) HCompare && (d_lead d =? 0) && opt_eqb Nat.eqb (d_hi d) None &&
      match f_params f, f_rest f with
      | [a1], Some r =>
          (d_lo d =? 1) && negb (String.eqb r a1) && pconst_eqb compare_unary_result KTrue
          && hx_eqb (f_body f) (t_cmp1 fc a1 r)
      | [a1; a2], Some r =>
          (d_lo d =? 2) && negb (String.eqb a2 a1) && negb (String.eqb r a1) && negb (String.eqb r a2)
          && hx_eqb (f_body f) (t_cmp2 fc a1 a2 r)
      | _, _ => false
      end
  | _, _, _ => false
  end.

(* the function on v :: rest is comp-op over the consecutive pairs *)
Theorem compare_fn_sound name d c vs :
  compare_fn_ok name = true -> find_decorator name = Some d -> lookup name c_ops = Some c ->
  (arity_ok d (List.length vs) = true ->
     exists v rest, vs = v :: rest /\ cpy name vs = compop (cmpop c) v rest /\
       mvals name vs = match rest with [] => Val (konst KTrue) | _ => chain_vals c v rest end) /\
  (arity_ok d (List.length vs) = false -> cpy name vs = Exn type_error).
Proof.
  intros Hok Hd Hc. unfold compare_fn_ok in Hok. rewrite Hd, Hc in Hok.
  destruct (find_def_in pyops_defs name) as [f|] eqn:Hf; [|discriminate].
  cbv zeta in Hok. rewrite (cpy_unfold name f vs Hf).
  apply andb_true_iff in Hok. destruct Hok as [Hok Hshape]. split_all Hok. eqs.
  unfold call_def.
  destruct (f_params f) as [|p1 [|p2 [|p3 ps]]] eqn:Hps; destruct (f_rest f) as [rest|] eqn:Hrest;
    try discriminate.
  - split_all Hshape. eqs.
    pose proof (arity_unfold d 1 None (List.length vs) E0 Hshape E) as AU.
    destruct vs as [|v vs']; [split; [intros Har; rewrite AU in Har; discriminate | reflexivity]|].
    split; [intros Har | intros Har; rewrite AU in Har; discriminate]. exists v, vs'. split; [reflexivity|].
    assert (Har' : arity_ok d (S (List.length vs')) = true) by exact Har.
    rewrite (mvals_compare name d c v vs' Hd Hok Har' Hc), E2. split; [|reflexivity].
    change (bind_params val [p1] (Some rest) (v :: vs')) with (Some [(p1, DV val v); (rest, DT val vs')]).
    rewrite E1. apply (cmp1_sem (FCmp c) _ _ v vs').
    + apply lookup_hd.
    + rewrite (lookup_tl _ _ _ _ E3). apply lookup_hd.
  - split_all Hshape. eqs.
    pose proof (arity_unfold d 2 None (List.length vs) E0 Hshape E) as AU.
    destruct vs as [|v1 [|v2 vs']]; try (split; [intros Har; rewrite AU in Har; discriminate | reflexivity]).
    split; [intros Har | intros Har; rewrite AU in Har; discriminate]. exists v1, (v2 :: vs'). split; [reflexivity|].
    assert (Har' : arity_ok d (S (List.length (v2 :: vs'))) = true) by exact Har.
    rewrite (mvals_compare name d c v1 (v2 :: vs') Hd Hok Har' Hc). split; [|reflexivity].
    change (bind_params val [p1; p2] (Some rest) (v1 :: v2 :: vs'))
      with (Some [(p1, DV val v1); (p2, DV val v2); (rest, DT val vs')]).
    rewrite E1. apply (cmp2_sem (FCmp c) _ _ _ v1 v2 vs').
    + apply lookup_hd.
    + rewrite (lookup_tl _ _ _ _ E4). apply lookup_hd.
    + rewrite (lookup_tl _ _ _ _ E3), (lookup_tl _ _ _ _ E2). apply lookup_hd.
Qed.

End SemProofs.

(* ================================================================== *)
(* Per-run obligations over the regenerated tables, and the theorems  *)
(* ================================================================== *)

Lemma maths_fns_ok : forallb maths_fn_ok (names_of HMaths) = true.
Proof. vm_compute. reflexivity. Qed.
Lemma unary_fns_ok : forallb unary_fn_ok (names_of HUnary) = true.
Proof. vm_compute. reflexivity. Qed.
Lemma compare_fns_ok : forallb compare_fn_ok (names_of HCompare) = true.
Proof. vm_compute. reflexivity. Qed.
Lemma compare_names_have_ops : forallb (fun n => match lookup n c_ops with Some _ => true | None => false end)
                                       (names_of HCompare) = true.
Proof. vm_compute. reflexivity. Qed.

Section Theorems.
Variables val exn : Type.
Variable binop : mop -> val -> val -> out exn val.
Variable unop : uop -> val -> out exn val.
Variable cmpop : cop -> val -> val -> out exn val.
Variable truthy : val -> out exn bool.
Variable konst : pconst -> val.
Variable type_error : exn.
Variable iterate : val -> out exn (list val).

Local Notation pev := (peval val exn binop unop cmpop truthy konst).
Local Notation mvals := (macro_vals val exn binop unop cmpop truthy konst).
Local Notation cpy := (call_pyops val exn binop unop cmpop truthy konst type_error).

(* arithmetic, bitwise, unary operators: function = macro on every value list;
   outside the macro's arities the macro is a syntax error and the function raises TypeError *)
Theorem maths_macro_eq_pyops : forall name, In name (names_of HMaths ++ names_of HUnary) ->
  forall d vs, find_decorator name = Some d ->
  (arity_ok d (List.length vs) = true -> cpy name vs = mvals name vs) /\
  (arity_ok d (List.length vs) = false ->
     cpy name vs = Exn type_error /\ compile_op name (map (@PLeaf val) vs) = None).
Proof.
  intros name Hin d vs Hd.
  assert (H : (arity_ok d (List.length vs) = true -> cpy name vs = mvals name vs) /\
              (arity_ok d (List.length vs) = false -> cpy name vs = Exn type_error)).
  { apply in_app_or in Hin. destruct Hin as [Hin|Hin].
    - apply (maths_fn_sound val exn binop unop cmpop truthy konst type_error name d vs); [|exact Hd].
      exact (proj1 (forallb_forall _ _) maths_fns_ok name Hin).
    - apply (unary_fn_sound val exn binop unop cmpop truthy konst type_error name d vs); [|exact Hd].
      exact (proj1 (forallb_forall _ _) unary_fns_ok name Hin). }
  destruct H as [H1 H2]. split; [exact H1|]. intros Hf. split; [exact (H2 Hf)|].
  apply (macro_rejects_other_arities name _ d Hd). rewrite map_length. exact Hf.
Qed.

(* comparison operators: the function first evaluates EVERY comparison of consecutive
   operands; it agrees with the macro (Python's chained comparison) unless one of them fails *)
Theorem compare_pyops_exact : forall name, In name (names_of HCompare) ->
  forall d vs, find_decorator name = Some d -> arity_ok d (List.length vs) = true ->
  exists c v rest, lookup name c_ops = Some c /\ vs = v :: rest /\
    cpy name vs =
    match rest with
    | [] => mvals name vs
    | _ => match pairwise val exn (cmpop c) v rest with
           | Val _ => mvals name vs
           | Exn e => Exn e
           | Stuck => Stuck
           end
    end.
Proof.
  intros name Hin d vs Hd Har.
  pose proof (proj1 (forallb_forall _ _) compare_fns_ok name Hin) as Hok.
  pose proof (proj1 (forallb_forall _ _) compare_names_have_ops name Hin) as Hc. cbv beta in Hc.
  destruct (lookup name c_ops) as [c|] eqn:Ec; [|discriminate].
  destruct (compare_fn_sound val exn binop unop cmpop truthy konst type_error name d c vs Hok Hd Ec) as [H _].
  destruct (H Har) as [v [rest [-> [Hf Hm]]]].
  exists c, v, rest. split; [reflexivity|]. split; [reflexivity|].
  rewrite Hf, Hm. destruct rest as [|b r]; [reflexivity|].
  apply comp_op_exact. discriminate.
Qed.

Corollary compare_pyops_partial : forall name, In name (names_of HCompare) ->
  forall d c v rest cs, find_decorator name = Some d -> arity_ok d (S (List.length rest)) = true ->
  lookup name c_ops = Some c -> pairwise val exn (cmpop c) v rest = Val cs ->
  cpy name (v :: rest) = mvals name (v :: rest).
Proof.
  intros name Hin d c v rest cs Hd Har Hc Hp.
  destruct (compare_pyops_exact name Hin d (v :: rest) Hd Har) as [c' [v' [rest' [Hc' [Hvs H]]]]].
  inversion Hvs; subst v' rest'. rewrite Hc in Hc'. inversion Hc'; subst c'.
  rewrite H. destruct rest; [reflexivity|]. rewrite Hp. reflexivity.
Qed.

(* comparison macro = Python's chained comparison, operands with effects:
   outcome and exactly which operands get evaluated *)
Theorem compare_macro_chain {L} (leaf : L -> out exn val) : forall name, In name (names_of HCompare) ->
  forall d l0 l1 r, find_decorator name = Some d -> arity_ok d (List.length (l0 :: l1 :: r)) = true ->
  exists c e, lookup name c_ops = Some c /\ compile_op name (map PLeaf (l0 :: l1 :: r)) = Some e /\
    pev leaf e =
    let (x, k) := compare_ref val exn cmpop truthy c (map leaf (l0 :: l1 :: r)) in (x, firstn k (l0 :: l1 :: r)).
Proof.
  intros name Hin d l0 l1 r Hd Har.
  pose proof (proj1 (forallb_forall _ _) compare_fns_ok name Hin) as Hok.
  pose proof (proj1 (forallb_forall _ _) compare_names_have_ops name Hin) as Hc. cbv beta in Hc.
  destruct (lookup name c_ops) as [c|] eqn:Ec; [|discriminate].
  unfold compare_fn_ok in Hok. rewrite Hd, Ec in Hok.
  destruct (find_def_in pyops_defs name); [|discriminate]. cbv zeta in Hok.
  apply andb_true_iff in Hok. destruct Hok as [Hok _]. split_all Hok. apply handler_eqb_eq in Hok.
  exists c. eexists. split; [reflexivity|]. split.
  - unfold compile_op. rewrite Hd, map_length, Har, Hok. cbn [map compile_compare]. rewrite Ec. reflexivity.
  - rewrite map_map. exact (compare_chain_effects val exn binop unop cmpop truthy konst leaf c l0 l1 r).
Qed.

End Theorems.

(* the disagreement exists: an interpretation and three operands on which the macro
   returns the first (falsy) comparison while the function raises *)
Theorem compare_pyops_refuted :
  exists (val exn : Type) binop unop cmpop truthy konst (type_error : exn) name d (vs : list val),
    In name (names_of HCompare) /\ find_decorator name = Some d /\ arity_ok d (List.length vs) = true /\
    call_pyops val exn binop unop cmpop truthy konst type_error name vs
    <> macro_vals val exn binop unop cmpop truthy konst name vs.
Proof.
  exists nat, nat, (fun _ _ _ => Stuck), (fun _ _ => Stuck),
    (fun _ a b => if Nat.eqb b 2 then Exn 7 else Val 0), (fun v => Val (negb (Nat.eqb v 0))), (fun _ => 1), 9.
  exists "<"%string.
  destruct (find_decorator "<") as [d|] eqn:E; [|vm_compute in E; discriminate].
  exists d, [0; 1; 2]. split; [vm_compute; tauto|]. split; [reflexivity|].
  vm_compute in E. inversion E; subst d. split; [vm_compute; reflexivity|]. vm_compute. discriminate.
Qed.

(* ---------- augmented assignment ---------- *)
Definition aug_root (k : string) : string := String.append k aug_suffix.

Definition aug_ok (k : string) : bool :=
  match lookup k m_ops, lookup (aug_root k) a_ops, find_decorator (aug_root k) with
  | Some (m, agg), Some (m', agg'), Some d =>
      mop_eqb m m' && opt_eqb String.eqb agg agg' && handler_eqb (d_handler d) HAug
      && (d_lead d =? 1) && (d_lo d =? 1)
      && match agg with
         | None => opt_eqb Nat.eqb (d_hi d) (Some 1)
         | Some g =>
             opt_eqb Nat.eqb (d_hi d) None
             && existsb (String.eqb g) operator_macro_names
             && match find_decorator g with
                | Some dg => (d_lead dg + d_lo dg <=? 2) && opt_eqb Nat.eqb (d_hi dg) None
                | None => false
                end
         end
  | _, _, _ => false
  end.

(* the table's aggregator is the documented one *)
Definition aug_doc_ok (k : string) : bool :=
  match lookup k m_ops, find_def_in pyops_defs k with
  | Some (_, Some g), Some f => String.eqb g (match doc_agg (f_doc f) with Some a => a | None => k end)
  | Some (_, None), Some f => negb (doc_nary (f_doc f))
  | _, _ => false
  end.

(* operators whose table aggregator is NOT the documented one (see augassign_agg_refuted) *)
Definition aug_doc_exceptions : list string := ["//"%string].

Lemma aug_all_ok : forallb aug_ok (map fst m_ops) = true.
Proof. vm_compute. reflexivity. Qed.
Lemma aug_doc_all_ok :
  forallb (fun k => existsb (String.eqb k) aug_doc_exceptions || aug_doc_ok k) (map fst m_ops) = true.
Proof. vm_compute. reflexivity. Qed.
Lemma a_ops_from_m_ops : a_ops = map (fun kv => (aug_root (fst kv), snd kv)) m_ops.
Proof. vm_compute. reflexivity. Qed.

Lemma arity_ge2 dg n : (d_lead dg + d_lo dg <=? 2) = true -> d_hi dg = None -> 2 <= n -> arity_ok dg n = true.
Proof.
  intros H1 H2 Hn. unfold arity_ok. rewrite H2, andb_true_r. apply Nat.leb_le in H1. apply Nat.leb_le. lia.
Qed.

(* (op= target v) is AugAssign; (op= target v1 .. vn), n >= 2, is AugAssign of the aggregator macro
   applied to v1 .. vn -- a syntax error for the operators without an aggregator *)
Theorem augassign_shape {L} : forall k, In k (map fst m_ops) ->
  forall m agg, lookup k m_ops = Some (m, agg) ->
  forall (target : L) (values : list (pexpr L)),
  compile_aug (aug_root k) target values =
  match values, agg with
  | [], _ => None
  | [v], _ => Some (PAug target m v)
  | _, None => None
  | _, Some g => option_map (PAug target m) (compile_op g values)
  end.
Proof.
  intros k Hin m agg Hm target values.
  pose proof (proj1 (forallb_forall _ _) aug_all_ok k Hin) as Hok. unfold aug_ok in Hok. rewrite Hm in Hok.
  destruct (lookup (aug_root k) a_ops) as [[m' agg']|] eqn:Ha; [|discriminate].
  destruct (find_decorator (aug_root k)) as [d|] eqn:Hd; [|discriminate].
  apply andb_true_iff in Hok. destruct Hok as [Hok Hagg]. split_all Hok.
  apply mop_eqb_eq in Hok. apply (opt_eqb_eq _ string_eqb_eq) in E2. apply handler_eqb_eq in E1.
  apply Nat.eqb_eq in E0. apply Nat.eqb_eq in E. subst m' agg'.
  unfold compile_aug. rewrite Hd, E1, Ha. unfold arity_ok. rewrite E0, E.
  destruct agg as [g|].
  - split_all Hagg. apply (opt_eqb_eq _ (fun x y => proj1 (Nat.eqb_eq x y))) in Hagg. rewrite Hagg.
    destruct values as [|v [|w r]]; reflexivity.
  - apply (opt_eqb_eq _ (fun x y => proj1 (Nat.eqb_eq x y))) in Hagg. rewrite Hagg.
    destruct values as [|v [|w r]]; reflexivity.
Qed.

(* ... and, outside the listed exceptions, that aggregator is the documented one, so the value
   assigned is the documented Python expansion of (agg v1 .. vn) *)
Theorem augassign_agg {L} : forall k, In k (map fst m_ops) -> ~ In k aug_doc_exceptions ->
  forall m agg, lookup k m_ops = Some (m, agg) ->
  forall (target : L) (values : list (pexpr L)), 2 <= List.length values ->
  match agg with
  | Some g =>
      doc_aggregator k = Some g /\
      exists e, doc_expansion g values = Some e /\
                compile_aug (aug_root k) target values = Some (PAug target m e)
  | None =>
      compile_aug (aug_root k) target values = None /\
      exists f, find_def_in pyops_defs k = Some f /\ doc_nary (f_doc f) = false
  end.
Proof.
  intros k Hin Hex m agg Hm target values Hlen.
  rewrite (augassign_shape k Hin m agg Hm target values).
  pose proof (proj1 (forallb_forall _ _) aug_doc_all_ok k Hin) as Hdoc. cbv beta in Hdoc.
  apply orb_true_iff in Hdoc. destruct Hdoc as [Hdoc|Hdoc].
  { exfalso. apply Hex. apply existsb_exists in Hdoc. destruct Hdoc as [x [Hx1 Hx2]].
    apply String.eqb_eq in Hx2. subst x. exact Hx1. }
  unfold aug_doc_ok in Hdoc. rewrite Hm in Hdoc.
  destruct (find_def_in pyops_defs k) as [f|] eqn:Hf; [|destruct agg; discriminate].
  destruct values as [|v [|w r]]; try (simpl in Hlen; lia).
  destruct agg as [g|].
  - apply String.eqb_eq in Hdoc. split; [unfold doc_aggregator; rewrite Hf, <- Hdoc; reflexivity|].
    pose proof (proj1 (forallb_forall _ _) aug_all_ok k Hin) as Hok. unfold aug_ok in Hok. rewrite Hm in Hok.
    destruct (lookup (aug_root k) a_ops) as [[m' agg']|]; [|discriminate].
    destruct (find_decorator (aug_root k)); [|discriminate].
    apply andb_true_iff in Hok. destruct Hok as [_ Hagg]. split_all Hagg.
    destruct (find_decorator g) as [dg|] eqn:Hdg; [|discriminate].
    apply andb_true_iff in E. destruct E as [E3 E4].
    apply (opt_eqb_eq _ (fun x y => proj1 (Nat.eqb_eq x y))) in E4.
    apply existsb_exists in E0. destruct E0 as [g' [Hg1 Hg2]]. apply String.eqb_eq in Hg2. subst g'.
    destruct (macro_is_documented_expansion g Hg1 (v :: w :: r) dg Hdg) as [e [He1 He2]].
    { apply (arity_ge2 dg _ E3 E4). simpl. lia. }
    exists e. split; [exact He2|]. rewrite He1. reflexivity.
  - apply negb_true_iff in Hdoc. split; [reflexivity|]. exists f. split; [reflexivity | exact Hdoc].
Qed.

(* //= aggregates with * although the documentation of // names no aggregator (so: // itself) *)
Theorem augassign_agg_refuted :
  exists k m g, In k aug_doc_exceptions /\ lookup k m_ops = Some (m, Some g) /\ doc_aggregator k <> Some g /\
    exists e1 e2, compile_aug (aug_root k) 0 [PLeaf 1; PLeaf 2] = Some (PAug 0 m e1) /\
                  (forall k', doc_aggregator k = Some k' -> doc_expansion k' [PLeaf 1; PLeaf 2] = Some e2) /\
                  e1 <> e2.
Proof.
  exists "//"%string, FloorDiv, "*"%string. split; [left; reflexivity|]. split; [reflexivity|].
  split; [vm_compute; discriminate|].
  exists (PBin (PLeaf 1) Mult (PLeaf 2)), (PBin (PLeaf 1) FloorDiv (PLeaf 2)).
  split; [vm_compute; reflexivity|]. split; [|discriminate].
  intros k' H. vm_compute in H. inversion H; subst k'. vm_compute. reflexivity.
Qed.

(* ---------- the shadow fallback ---------- *)
Definition shadow_ok (name : string) : bool :=
  match find_decorator name, find_def_in pyops_defs name with
  | Some d, Some _ => d_shadow d && existsb (String.eqb name) pyops_all
  | _, _ => false
  end.
Lemma shadow_all_ok : forallb shadow_ok operator_macro_names = true.
Proof. vm_compute. reflexivity. Qed.
Lemma shadow_path_is : shadow_path = ["."; "hy"; "pyops"]%string.
Proof. reflexivity. Qed.

(* a call of an operator macro with an unpack-iterable argument anywhere expands to the
   call of hy.pyops.<name> with the same arguments; that function exists and is exported *)
Theorem shadow_fallback : forall name, In name operator_macro_names ->
  forall args, existsb (is_unpack "iterable") args = true ->
  expand_macro name args = Some (ExpandTo (FExpr (FExpr [FSym "."; FSym "hy"; FSym "pyops"; FSym name] :: args)))
  /\ In name pyops_all /\ exists f, find_def_in pyops_defs name = Some f.
Proof.
  intros name Hin args Hu.
  pose proof (proj1 (forallb_forall _ _) shadow_all_ok name Hin) as H. unfold shadow_ok in H.
  destruct (find_decorator name) as [d|] eqn:Hd; [|discriminate].
  destruct (find_def_in pyops_defs name) as [f|] eqn:Hf; [|discriminate].
  apply andb_true_iff in H. destruct H as [Hs Hall].
  split; [|split].
  - unfold expand_macro. rewrite Hd. cbn [option_map]. unfold wrapper. rewrite Hs, Hu. reflexivity.
  - apply existsb_exists in Hall. destruct Hall as [x [Hx1 Hx2]]. apply String.eqb_eq in Hx2. subst x. exact Hx1.
  - exists f. reflexivity.
Qed.

(* the value of that call, f(a, *b, ...): the documented macro semantics on the flattened arguments *)
Theorem shadow_fallback_value (val exn : Type) binop unop cmpop truthy konst (type_error : exn) iterate
  {L} (leaf : L -> out exn val) :
  forall name, In name (names_of HMaths ++ names_of HUnary) ->
  forall d (cargs : list (carg L)), find_decorator name = Some d ->
  bind (eval_cargs val exn iterate leaf cargs) (call_pyops val exn binop unop cmpop truthy konst type_error name) =
  bind (eval_cargs val exn iterate leaf cargs) (fun vs =>
    if arity_ok d (List.length vs) then macro_vals val exn binop unop cmpop truthy konst name vs
    else Exn type_error).
Proof.
  intros name Hin d cargs Hd. destruct (eval_cargs val exn iterate leaf cargs) as [vs| |]; try reflexivity.
  cbn [bind].
  destruct (maths_macro_eq_pyops val exn binop unop cmpop truthy konst type_error name Hin d vs Hd) as [H1 H2].
  destruct (arity_ok d (List.length vs)); [apply H1; reflexivity | apply H2; reflexivity].
Qed.

(* the function's arity is the macro's arity: stated once for all operator names *)
Theorem arity_agreement (val exn : Type) binop unop cmpop truthy konst (type_error : exn) :
  forall name, In name operator_macro_names ->
  forall d vs, find_decorator name = Some d -> arity_ok d (List.length vs) = false ->
  call_pyops val exn binop unop cmpop truthy konst type_error name vs = Exn type_error /\
  compile_op name (map (@PLeaf val) vs) = None.
Proof.
  intros name Hin d vs Hd Hf. split; [|apply (macro_rejects_other_arities name _ d Hd); rewrite map_length; exact Hf].
  unfold operator_macro_names in Hin. apply in_app_or in Hin. destruct Hin as [Hin|Hin].
  - apply (maths_macro_eq_pyops val exn binop unop cmpop truthy konst type_error name
             (in_or_app _ _ _ (or_introl Hin)) d vs Hd). exact Hf.
  - apply in_app_or in Hin. destruct Hin as [Hin|Hin].
    + pose proof (proj1 (forallb_forall _ _) compare_fns_ok name Hin) as Hok.
      pose proof (proj1 (forallb_forall _ _) compare_names_have_ops name Hin) as Hc. cbv beta in Hc.
      destruct (lookup name c_ops) as [c|] eqn:Ec; [|discriminate].
      apply (compare_fn_sound val exn binop unop cmpop truthy konst type_error name d c vs Hok Hd Ec). exact Hf.
    + apply (maths_macro_eq_pyops val exn binop unop cmpop truthy konst type_error name
               (in_or_app _ _ _ (or_intror Hin)) d vs Hd). exact Hf.
Qed.

(* ---------- the full-strength statements that do NOT hold, and their refutations ---------- *)
Definition compare_pyops_full : Prop :=
  forall (val exn : Type) binop unop cmpop truthy konst (type_error : exn),
  forall name, In name (names_of HCompare) ->
  forall d (vs : list val), find_decorator name = Some d -> arity_ok d (List.length vs) = true ->
  call_pyops val exn binop unop cmpop truthy konst type_error name vs
  = macro_vals val exn binop unop cmpop truthy konst name vs.

Theorem compare_pyops_full_refuted : ~ compare_pyops_full.
Proof.
  intros H. destruct compare_pyops_refuted as
    [val [exn [binop [unop [cmpop [truthy [konst [te [name [d [vs [H1 [H2 [H3 H4]]]]]]]]]]]]]].
  apply H4. exact (H val exn binop unop cmpop truthy konst te name H1 d vs H2 H3).
Qed.

Definition augassign_agg_full : Prop := forall (L : Type) k, In k (map fst m_ops) ->
  forall m agg, lookup k m_ops = Some (m, agg) ->
  forall (target : L) (values : list (pexpr L)), 2 <= List.length values ->
  match agg with
  | Some g =>
      doc_aggregator k = Some g /\
      exists e, doc_expansion g values = Some e /\
                compile_aug (aug_root k) target values = Some (PAug target m e)
  | None =>
      compile_aug (aug_root k) target values = None /\
      exists f, find_def_in pyops_defs k = Some f /\ doc_nary (f_doc f) = false
  end.

Theorem augassign_agg_full_refuted : ~ augassign_agg_full.
Proof.
  intros H. destruct augassign_agg_refuted as [k [m [g [Hin [Hm [Hne _]]]]]].
  assert (Hk : In k (map fst m_ops)).
  { destruct Hin as [<-|[]]. vm_compute. tauto. }
  pose proof (H nat k Hk m (Some g) Hm 0 [PLeaf 1; PLeaf 2] (le_n 2)) as [Hd _]. exact (Hne Hd).
Qed.
