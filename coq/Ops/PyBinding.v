(* Model of CPython's argument binding (ceval.c initialize_locals) for a function
   whose signature is an ast.arguments node, on a call that has already been
   flattened to positional values and (name, value) keywords.
   Values are abstract: V for call-time values, D for the (already evaluated)
   default expressions.  Validated against CPython by props/c05.py on every
   generated signature x call; the theorems of C05 are about this function. *)
From Coq Require Export List String Bool Arith Lia.
Export ListNotations.

Section Binding.
Variables V D : Type.

(* what a parameter ends up bound to *)
Inductive bval :=
| BGiven (v : V)                       (* an argument of the call *)
| BDefault (d : D)                     (* the parameter's default *)
| BTuple (l : list V)                  (* *args *)
| BDict (l : list (string * V)).       (* **kwargs, in call order *)

(* ast.arguments (annotations omitted: they do not take part in binding) *)
Record arguments := {
  posonlyargs : list string;
  args : list string;
  defaults : list D;                   (* right-aligned to posonlyargs ++ args *)
  vararg : option string;
  kwonlyargs : list string;
  kw_defaults : list (option D);       (* positional with kwonlyargs; None = required *)
  kwarg : option string }.

Record call := { c_pos : list V; c_kw : list (string * V) }.

Inductive bres :=
| Bound (m : list (string * bval))     (* positional parameters, keyword-only parameters, *args, **kwargs *)
| TypeErr
| BadAST.                              (* compile() rejects the node: more defaults than parameters, kw_defaults length *)

(* a slot is a parameter (key K: a name for Python, a Hy parameter for the reference) and what it holds so far *)
Section Slots.
Variable K : Type.
Variable kname : K -> string.

Definition slot := (K * option bval)%type.

(* positional arguments fill the positional slots left to right *)
Fixpoint fill_pos (ks : list K) (vs : list V) : list slot :=
  match ks, vs with
  | [], _ => []
  | k :: ks', [] => (k, None) :: fill_pos ks' []
  | k :: ks', v :: vs' => (k, Some (BGiven v)) :: fill_pos ks' vs'
  end.

Inductive setres := NotFound | AlreadySet | SetTo (s : list slot).

Fixpoint set_slot (name : string) (v : V) (s : list slot) : setres :=
  match s with
  | [] => NotFound
  | (k, cur) :: r =>
      if String.eqb name (kname k)
      then match cur with Some _ => AlreadySet | None => SetTo ((k, Some (BGiven v)) :: r) end
      else match set_slot name v r with
           | SetTo r' => SetTo ((k, cur) :: r')
           | NotFound => NotFound
           | AlreadySet => AlreadySet
           end
  end.

Definition has_key (name : string) (l : list (string * V)) : bool :=
  existsb (fun kv => String.eqb name (fst kv)) l.

(* keyword arguments: a parameter that may be passed by name, else **kwargs, else TypeError.
   [named] are the slots reachable by keyword (NOT the positional-only ones). *)
Fixpoint bind_kws (kws : list (string * V)) (named : list slot) (kwd : list (string * V)) (has_kwarg : bool)
  : option (list slot * list (string * V)) :=
  match kws with
  | [] => Some (named, kwd)
  | (k, v) :: r =>
      match set_slot k v named with
      | SetTo named' => bind_kws r named' kwd has_kwarg
      | AlreadySet => None
      | NotFound =>
          if has_kwarg then
            if has_key k kwd then None else bind_kws r named (kwd ++ [(k, v)]) has_kwarg
          else None
      end
  end.

(* fill every empty slot from [dflt], or fail if one has none *)
Fixpoint finish (dflt : K -> nat -> option D) (i : nat) (s : list slot) : option (list (string * bval)) :=
  match s with
  | [] => Some []
  | (k, cur) :: r =>
      match (match cur with Some b => Some b | None => option_map BDefault (dflt k i) end), finish dflt (S i) r with
      | Some b, Some r' => Some ((kname k, b) :: r')
      | _, _ => None
      end
  end.

(* the common skeleton: positional fill, keywords, surplus positionals, defaults, *args / **kwargs *)
Definition bind_with (posonly pos kwonly : list K) (va kwa : option string)
                     (dflt_pos dflt_kw : K -> nat -> option D) (c : call) : bres :=
  let npo := List.length posonly in
  let np := npo + List.length pos in
  let filled := fill_pos (posonly ++ pos) (c_pos c) in
  let extra := skipn np (c_pos c) in
  let s_po := firstn npo filled in
  let s_p := skipn npo filled in
  let s_k := map (fun k => (k, None)) kwonly in
  match bind_kws (c_kw c) (s_p ++ s_k) [] (match kwa with Some _ => true | None => false end) with
  | None => TypeErr
  | Some (named, kwd) =>
      match extra, va with
      | _ :: _, None => TypeErr
      | _, _ =>
          let s_p' := firstn (List.length pos) named in
          let s_k' := skipn (List.length pos) named in
          match finish dflt_pos 0 (s_po ++ s_p'), finish dflt_kw 0 s_k' with
          | Some bp, Some bk =>
              Bound (bp ++ bk
                     ++ match va with Some n => [(n, BTuple extra)] | None => [] end
                     ++ match kwa with Some n => [(n, BDict kwd)] | None => [] end)
          | _, _ => TypeErr
          end
      end
  end.
End Slots.

(* CPython: the i-th positional parameter without an argument takes defaults[i - m],
   m = (number of positional parameters) - len(defaults); the i-th keyword-only one takes kw_defaults[i] *)
Definition py_bind (a : arguments) (c : call) : bres :=
  let np := List.length (posonlyargs a) + List.length (args a) in
  if (np <? List.length (defaults a)) || negb (List.length (kw_defaults a) =? List.length (kwonlyargs a))
  then BadAST
  else
    let m := np - List.length (defaults a) in
    bind_with string (fun s => s) (posonlyargs a) (args a) (kwonlyargs a) (vararg a) (kwarg a)
      (fun _ i => if i <? m then None else nth_error (defaults a) (i - m))
      (fun _ i => match nth_error (kw_defaults a) i with Some (Some d) => Some d | _ => None end)
      c.

End Binding.

Arguments BGiven {V D} _.
Arguments BDefault {V D} _.
Arguments BTuple {V D} _.
Arguments BDict {V D} _.
Arguments Bound {V D} _.
Arguments TypeErr {V D}.
Arguments BadAST {V D}.
