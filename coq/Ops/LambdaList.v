(* C05 model: the lambda_list grammar, compile_lambda_list / compile_arguments_set,
   the reference binding of a call directly from the Hy parameter structure,
   _compile_collect on call arguments, and the function body (implicit return,
   docstring) of compile_function_node.  No proofs here. *)
From HyV Require Import Ops.PyBinding Gen.LambdaTables.
Close Scope string_scope.

(* ------------------------------------------------------------------ *)
(* 1. Tokens of a lambda list and the grammar                          *)
(* ------------------------------------------------------------------ *)

Section LL.
Variable D : Type.     (* default-value forms (opaque) *)

(* the elements of the [ ... ] list, as the grammar's leaf parsers see them; [ann] = wrapped in (annotate ...) *)
Inductive tok :=
| TArg (name : string) (dflt : option D) (ann : bool)    (* NASYM, or [NASYM FORM] *)
| TSlash                                                 (* the symbol / *)
| TStar                                                  (* the symbol * *)
| TUnpackIter (name : string) (ann : bool)               (* (unpack-iterable NASYM), i.e. #* name *)
| TUnpackMap (name : string) (ann : bool)                (* (unpack-mapping NASYM), i.e. #** name *)
| TOther.                                                (* anything no leaf parser accepts *)

Record param := { p_name : string; p_default : option D }.

Inductive restk := RNone | RBare | RVar (name : string).

(* the parse tree (posonly, args, rest, kwonly, kwargs) *)
Record rawll := {
  r_posonly : option (list param);     (* None: no "/" ; Some []: "/" with nothing before it *)
  r_args : list param;
  r_rest : restk;
  r_kwonly : list param;
  r_kwargs : option string }.

(* many(argument) *)
Fixpoint span_args (ts : list tok) : list param * list tok :=
  match ts with
  | TArg n d _ :: r => let (ps, r') := span_args r in ({| p_name := n; p_default := d |} :: ps, r')
  | _ => ([], ts)
  end.

(* brackets(maybe(many(argument) + sym("/")), many(argument), maybe(kwonly_delim | varargs(iter)),
            many(argument), maybe(varargs(mapping)))  followed by end of input *)
Definition parse_ll (ts : list tok) : option rawll :=
  let (a1, r1) := span_args ts in
  let '(po, a2, r2) :=
    match r1 with
    | TSlash :: r1' => let (a2, r2) := span_args r1' in (Some a1, a2, r2)
    | _ => (None, a1, r1)
    end in
  let (rest, r3) :=
    match r2 with
    | TStar :: r => (RBare, r)
    | TUnpackIter n _ :: r => (RVar n, r)
    | _ => (RNone, r2)
    end in
  let (kw, r4) := span_args r3 in
  let (kwa, r5) :=
    match r4 with
    | TUnpackMap n _ :: r => (Some n, r)
    | _ => (None, r4)
    end in
  match r5 with
  | [] => Some {| r_posonly := po; r_args := a2; r_rest := rest; r_kwonly := kw; r_kwargs := kwa |}
  | _ => None
  end.

(* ------------------------------------------------------------------ *)
(* 2. compile_lambda_list                                              *)
(* ------------------------------------------------------------------ *)

Inductive llerr := ENothingBeforeSlash | ENonDefaultAfterDefault | EBareStarNeedsNamed.

Definition llerr_message (e : llerr) : string :=
  match e with
  | ENothingBeforeSlash => msg_nothing_before_slash
  | ENonDefaultAfterDefault => msg_non_default_after_default
  | EBareStarNeedsNamed => msg_bare_star
  end.

Definition no_default (p : param) : bool := match p_default p with None => true | Some _ => false end.

(* itertools.dropwhile *)
Fixpoint dropwhile {A} (f : A -> bool) (l : list A) : list A :=
  match l with
  | [] => []
  | x :: r => if f x then dropwhile f r else l
  end.

(* next((arg for arg in dropwhile(is_positional_arg, params) if is_positional_arg(arg)), None) *)
Definition invalid_non_default (ps : list param) : option param :=
  find no_default (dropwhile no_default ps).

(* compile_arguments_set: names, and the defaults list *)
Definition names_of (ps : list param) : list string := map p_name ps.
Fixpoint pos_defaults (ps : list param) : list D :=
  match ps with
  | [] => []
  | p :: r => match p_default p with Some d => d :: pos_defaults r | None => pos_defaults r end
  end.
Definition kw_defaults_of (ps : list param) : list (option D) := map p_default ps.

Definition compile_ll (r : rawll) : llerr + arguments D :=
  match r_posonly r with
  | Some [] => inl ENothingBeforeSlash
  | _ =>
      let po := match r_posonly r with Some l => l | None => [] end in
      match invalid_non_default (po ++ r_args r) with
      | Some _ => inl ENonDefaultAfterDefault
      | None =>
          match r_rest r, r_kwonly r with
          | RBare, [] => inl EBareStarNeedsNamed
          | _, _ =>
              inr {| posonlyargs := names_of po;
                     args := names_of (r_args r);
                     defaults := pos_defaults po ++ pos_defaults (r_args r);
                     vararg := match r_rest r with RVar n => Some n | _ => None end;
                     kwonlyargs := names_of (r_kwonly r);
                     kw_defaults := kw_defaults_of (r_kwonly r);
                     kwarg := r_kwargs r |}
          end
      end
  end.

(* ------------------------------------------------------------------ *)
(* 3. Python's rules for the equivalent def, and the reference binding *)
(* ------------------------------------------------------------------ *)

(* def f(<posonly>, /, <args>, *|*rest, <kwonly>, **kwargs): what CPython's parser rejects *)
Definition some_default_before_plain (ps : list param) : bool :=
  (fix go (seen : bool) (l : list param) : bool :=
     match l with
     | [] => false
     | p :: r => if no_default p then (seen || go seen r) else go true r
     end) false ps.

Definition py_def_rejects (r : rawll) : bool :=
  match r_posonly r with Some [] => true | _ => false end
  || some_default_before_plain (match r_posonly r with Some l => l | None => [] end ++ r_args r)
  || match r_rest r, r_kwonly r with RBare, [] => true | _, _ => false end.

Variable V : Type.

(* binding straight from the Hy parameters: every parameter carries its own default *)
Definition hy_bind_ref (r : rawll) (c : call V) : bres V D :=
  let po := match r_posonly r with Some l => l | None => [] end in
  bind_with V D param p_name po (r_args r) (r_kwonly r)
    (match r_rest r with RVar n => Some n | _ => None end) (r_kwargs r)
    (fun p _ => p_default p) (fun p _ => p_default p) c.

End LL.

Arguments TArg {D} _ _ _.
Arguments TSlash {D}.
Arguments TStar {D}.
Arguments TUnpackIter {D} _ _.
Arguments TUnpackMap {D} _ _.
Arguments TOther {D}.

(* ------------------------------------------------------------------ *)
(* 4. _compile_collect(exprs, with_kwargs=True): the arguments of a call *)
(* ------------------------------------------------------------------ *)

Section Collect.
Variable E : Type.    (* compiled expressions (opaque) *)

(* the forms of a call's argument list *)
Inductive aform :=
| AKeyword (name : string)       (* a Keyword object; name = "" for the empty keyword *)
| AUnpackMap (e : E)             (* #** e *)
| AOther (e : E).                (* anything else, including #* e *)

Inductive kwarg_ast := KwNamed (name : string) (e : E) | KwUnpack (e : E).
Inductive collect_err := CNeedsValue | CEmptyKeyword.

Definition form_expr (a : aform) (kw_obj : string -> E) : E :=
  match a with AKeyword n => kw_obj n | AUnpackMap e => e | AOther e => e end.

(* kw_obj: what compiling a Keyword object standing in value position gives *)
Variable kw_obj : string -> E.
Variable mangle : string -> string.

Fixpoint collect (l : list aform) : collect_err + (list E * list kwarg_ast) :=
  match l with
  | [] => inr ([], [])
  | AUnpackMap e :: r =>
      match collect r with
      | inr (ps, ks) => inr (ps, KwUnpack e :: ks)
      | inl x => inl x
      end
  | AKeyword n :: r =>
      match r with
      | [] => inl CNeedsValue
      | v :: r' =>
          if String.eqb n EmptyString then inl CEmptyKeyword
          else match collect r' with
               | inr (ps, ks) => inr (ps, KwNamed (mangle n) (form_expr v kw_obj) :: ks)
               | inl x => inl x
               end
      end
  | AOther e :: r =>
      match collect r with
      | inr (ps, ks) => inr (e :: ps, ks)
      | inl x => inl x
      end
  end.

(* specification: classify every position, then take the two order-preserving sub-lists *)
Inductive role := RPos (e : E) | RKw (k : kwarg_ast) | RSkip.   (* RSkip: a keyword marker, consumed with its value *)

Fixpoint roles (l : list aform) : list role :=
  match l with
  | [] => []
  | AUnpackMap e :: r => RKw (KwUnpack e) :: roles r
  | AKeyword n :: v :: r' => RSkip :: RKw (KwNamed (mangle n) (form_expr v kw_obj)) :: roles r'
  | AKeyword n :: [] => [RSkip]
  | AOther e :: r => RPos e :: roles r
  end.

Definition positionals (rs : list role) : list E :=
  flat_map (fun r => match r with RPos e => [e] | _ => [] end) rs.
Definition keywords (rs : list role) : list kwarg_ast :=
  flat_map (fun r => match r with RKw k => [k] | _ => [] end) rs.

End Collect.

Arguments AKeyword {E} _.
Arguments AUnpackMap {E} _.
Arguments AOther {E} _.
Arguments KwNamed {E} _ _.
Arguments KwUnpack {E} _.
Arguments RPos {E} _.
Arguments RKw {E} _.
Arguments RSkip {E}.

(* ------------------------------------------------------------------ *)
(* 5. The body of a function: _compile_branch + compile_function_node  *)
(* ------------------------------------------------------------------ *)

(* what a body form compiles to, as far as return value and docstring are concerned *)
Inductive bexpr := EStr (s : string) | EName (n : nat) | EOtherExpr (n : nat).
Inductive bstmt :=
| SExpr (e : bexpr)         (* Expr(value=e) *)
| SReturn (e : bexpr)
| SPass
| SOther (n : nat).         (* any other statement *)

Record result := { r_stmts : list bstmt; r_expr : option bexpr }.

(* a body form: its source kind and the Result the compiler produces for it *)
Inductive bform :=
| BStrLit (s : string)          (* a string literal: compiles to Constant(s) *)
| BForm (res : result).         (* any form that is NOT a string literal, with what it compiles to *)

Definition compile_bform (f : bform) : result :=
  match f with
  | BStrLit s => {| r_stmts := []; r_expr := Some (EStr s) |}
  | BForm res => res
  end.

(* Result.expr_as_stmt: a bare Name after statements is dropped *)
Definition expr_as_stmt (r : result) : list bstmt :=
  match r_expr r with
  | Some (EName n) => match r_stmts r with [] => [SExpr (EName n)] | _ => [] end
  | Some e => [SExpr e]
  | None => []
  end.

(* _compile_branch: every form but the last is forced to a statement.
   Note that Result.__add__ keeps the statements of both and the expression of the right operand,
   and that last.expr_as_stmt() looks at the statements of `last` alone. *)
Fixpoint compile_branch (body : list bform) : result :=
  match body with
  | [] => {| r_stmts := []; r_expr := None |}
  | [f] => compile_bform f
  | f :: rest =>
      let r := compile_bform f in
      let tl := compile_branch rest in
      {| r_stmts := r_stmts r ++ expr_as_stmt r ++ r_stmts tl; r_expr := r_expr tl |}
  end.

(* compile_function_node: Return of the final expression (Expr for an async generator), Pass if empty *)
Definition function_body (async_gen : bool) (body : list bform) : list bstmt :=
  let b := compile_branch body in
  let stmts := r_stmts b ++ match r_expr b with
                            | Some e => [if async_gen then SExpr e else SReturn e]
                            | None => []
                            end in
  match stmts with [] => [SPass] | _ => stmts end.

(* Python: the docstring of a def is its first statement if that is a string constant expression *)
Definition py_docstring (stmts : list bstmt) : option string :=
  match stmts with SExpr (EStr s) :: _ => Some s | _ => None end.

(* the property's rule: a string LITERAL followed by more forms *)
Definition doc_rule (body : list bform) : option string :=
  match body with
  | BStrLit s :: _ :: _ => Some s
  | _ => None
  end.
