(* PEP 634 semantics of match patterns (ast.pattern nodes) over an abstract value
   domain, as semantic combinators on "matchers" so that the same combinators give
   the reference semantics of Hy's pattern sublanguage (Ops/Pattern.v).
   Validated against CPython's match statement by props/c08.py on every generated
   pattern x subject; nothing about CPython is proved here. *)
From Coq Require Export List String ZArith Bool Arith Lia.
Export ListNotations.

(* literals a pattern can contain *)
Inductive lit := LInt (z : Z) | LStr (s : string) | LBytes (s : string) | LFloat (id : nat) | LComplex (id : nat).
Inductive sing := SNone | STrue | SFalse.

(* the expression of a value pattern: a constant or a dotted name *)
Inductive vexpr := VEConst (l : lit) | VEDotted (path : list string).

(* MatchSingleton holds a constant; anything but None/True/False is rejected by compile() *)
Inductive singv := SOk (s : sing) | SBadStr (s : string).

Inductive ppat :=
| PMatchValue (e : vexpr)
| PMatchSingleton (s : singv)
| PMatchSequence (ps : list ppat)
| PMatchStar (name : option string)
| PMatchMapping (keys : list vexpr) (ps : list ppat) (rest : option string)
| PMatchClass (cls : list string) (ps : list ppat) (kwd_attrs : list string) (kwd_ps : list ppat)
| PMatchAs (p : option ppat) (name : option string)
| PMatchOr (ps : list ppat).

Section Sem.
Variable value : Type.

(* the observations PEP 634 makes of a subject *)
Variable veval : vexpr -> value.                         (* value of a constant / dotted name *)
Variable veq : value -> value -> bool.                   (* subject == value *)
Variable is_sing : sing -> value -> bool.                (* subject is None / True / False *)
Variable as_seq : value -> option (list value).          (* Some items iff the subject is a sequence (not str/bytes) *)
Variable as_map : value -> option (list (value * value)).   (* Some items iff the subject is a mapping *)
Variable of_list : list value -> value.                  (* what a star name is bound to *)
Variable of_dict : list (value * value) -> value.        (* what **rest is bound to *)
Variable isinst : value -> list string -> bool.          (* isinstance(subject, <class named by the dotted path>) *)
(* __match_args__ of the class: None = a builtin that matches one positional sub-pattern against the subject itself *)
Variable margs : list string -> option (list string).
Variable getattr : value -> string -> option value.

Definition bindings := list (string * value).
Inductive mres := MNo | MYes (b : bindings) | MErr.      (* MErr: TypeError while matching *)
Definition matcher := value -> mres.

Definition m_and (a : mres) (k : bindings -> mres) : mres :=
  match a with MYes b => k b | MNo => MNo | MErr => MErr end.

Definition lit_sem (c : value) : matcher := fun v => if veq v c then MYes [] else MNo.
Definition sing_sem (s : sing) : matcher := fun v => if is_sing s v then MYes [] else MNo.
Definition wild_sem : matcher := fun _ => MYes [].
Definition capture_sem (n : string) : matcher := fun v => MYes [(n, v)].
Definition as_sem (m : matcher) (n : string) : matcher :=
  fun v => m_and (m v) (fun b => MYes (b ++ [(n, v)])).

Fixpoint or_sem (ms : list matcher) : matcher :=
  fun v => match ms with
           | [] => MNo
           | m :: r => match m v with MNo => or_sem r v | x => x end
           end.

(* sub-patterns against sub-values, left to right *)
Fixpoint all2 (ms : list matcher) (vs : list value) : mres :=
  match ms, vs with
  | [], [] => MYes []
  | m :: ms', v :: vs' => m_and (m v) (fun b => m_and (all2 ms' vs') (fun b' => MYes (b ++ b')))
  | _, _ => MNo
  end.

(* an element of a sequence pattern *)
Inductive seqitem := SItem (m : matcher) | SStar (name : option string).

Fixpoint split_star (items : list seqitem) : list matcher * option (option string * list seqitem) :=
  match items with
  | [] => ([], None)
  | SItem m :: r => let (pre, st) := split_star r in (m :: pre, st)
  | SStar n :: r => ([], Some (n, r))
  end.
Fixpoint plain_items (items : list seqitem) : option (list matcher) :=
  match items with
  | [] => Some []
  | SItem m :: r => option_map (cons m) (plain_items r)
  | SStar _ :: _ => None
  end.

Definition seq_sem (items : list seqitem) : matcher :=
  fun v =>
    match as_seq v with
    | None => MNo
    | Some l =>
        match split_star items with
        | (pre, None) => if Nat.eqb (List.length l) (List.length pre) then all2 pre l else MNo
        | (pre, Some (n, post_items)) =>
            match plain_items post_items with
            | None => MErr        (* two starred names: rejected by compile() *)
            | Some post =>
                let np := List.length pre in
                let nq := List.length post in
                if Nat.leb (np + nq) (List.length l) then
                  let mid := firstn (List.length l - np - nq) (skipn np l) in
                  m_and (all2 pre (firstn np l)) (fun b1 =>
                  m_and (all2 post (skipn (List.length l - nq) l)) (fun b3 =>
                    MYes (b1 ++ match n with Some x => [(x, of_list mid)] | None => [] end ++ b3)))
                else MNo
            end
        end
    end.

Fixpoint lookup_key (k : value) (items : list (value * value)) : option value :=
  match items with
  | [] => None
  | (k', x) :: r => if veq k' k then Some x else lookup_key k r
  end.
Definition without_keys (ks : list value) (items : list (value * value)) : list (value * value) :=
  filter (fun kv => negb (existsb (fun k => veq (fst kv) k) ks)) items.

Fixpoint map_items (kms : list (value * matcher)) (items : list (value * value)) : mres :=
  match kms with
  | [] => MYes []
  | (k, m) :: r =>
      match lookup_key k items with
      | None => MNo
      | Some x => m_and (m x) (fun b => m_and (map_items r items) (fun b' => MYes (b ++ b')))
      end
  end.

Definition map_sem (kms : list (value * matcher)) (rest : option string) : matcher :=
  fun v =>
    match as_map v with
    | None => MNo
    | Some items =>
        m_and (map_items kms items) (fun b =>
          MYes (b ++ match rest with
                     | Some n => [(n, of_dict (without_keys (map fst kms) items))]
                     | None => []
                     end))
    end.

(* attribute sub-patterns, in order *)
Fixpoint attr_items (ams : list (string * matcher)) (v : value) : mres :=
  match ams with
  | [] => MYes []
  | (a, m) :: r =>
      match getattr v a with
      | None => MNo
      | Some x => m_and (m x) (fun b => m_and (attr_items r v) (fun b' => MYes (b ++ b')))
      end
  end.

Fixpoint zip_names (names : list string) (ms : list matcher) : option (list (string * matcher)) :=
  match ms, names with
  | [], _ => Some []
  | m :: ms', n :: names' => option_map (cons (n, m)) (zip_names names' ms')
  | _ :: _, [] => None
  end.

Definition class_sem (cls : list string) (pos : list matcher) (kws : list (string * matcher)) : matcher :=
  fun v =>
    if isinst v cls then
      match margs cls with
      | None =>
          match pos with
          | [] => attr_items kws v
          | [m] => m_and (m v) (fun b => m_and (attr_items kws v) (fun b' => MYes (b ++ b')))
          | _ => MErr
          end
      | Some names =>
          match zip_names names pos with
          | None => MErr          (* more positional sub-patterns than __match_args__ *)
          | Some pas => attr_items (pas ++ kws) v
          end
      end
    else MNo.

Definition no_sem : matcher := fun _ => MErr.

(* ---- the patterns ---- *)
Fixpoint pmatch (p : ppat) : matcher :=
  match p with
  | PMatchValue e => lit_sem (veval e)
  | PMatchSingleton (SOk s) => sing_sem s
  | PMatchSingleton (SBadStr _) => no_sem
  | PMatchSequence ps =>
      seq_sem (map (fun q => match q with PMatchStar n => SStar n | _ => SItem (pmatch q) end) ps)
  | PMatchStar _ => no_sem
  | PMatchMapping keys ps rest => map_sem (combine (map veval keys) (map pmatch ps)) rest
  | PMatchClass cls ps attrs kps => class_sem cls (map pmatch ps) (combine attrs (map pmatch kps))
  | PMatchAs None None => wild_sem
  | PMatchAs None (Some n) => capture_sem n
  | PMatchAs (Some q) (Some n) => as_sem (pmatch q) n
  | PMatchAs (Some _) None => no_sem
  | PMatchOr ps => or_sem (map pmatch ps)
  end.

(* ---- what compile() accepts (the part of CPython's validation that the Hy compiler can violate) ---- *)
Definition name_ok (n : option string) : bool :=
  match n with Some s => negb (String.eqb s "_") | None => true end.

Fixpoint valid (in_seq : bool) (p : ppat) : bool :=
  match p with
  | PMatchValue (VEConst _) => true
  | PMatchValue (VEDotted path) => Nat.leb 2 (List.length path)   (* a bare name is not a value pattern: "patterns may only match literals and attribute lookups" *)
  | PMatchSingleton (SOk _) => true
  | PMatchSingleton (SBadStr _) => false
  | PMatchSequence ps =>
      forallb (valid true) ps
      && Nat.leb (List.length (filter (fun q => match q with PMatchStar _ => true | _ => false end) ps)) 1
  | PMatchStar n => in_seq && name_ok n
  | PMatchMapping keys ps rest =>
      Nat.eqb (List.length keys) (List.length ps) && forallb (valid false) ps && name_ok rest
  | PMatchClass _ ps attrs kps =>
      Nat.eqb (List.length attrs) (List.length kps) && forallb (valid false) ps && forallb (valid false) kps
  | PMatchAs None n => name_ok n
  | PMatchAs (Some q) (Some n) => valid false q && name_ok (Some n)
  | PMatchAs (Some _) None => false
  | PMatchOr ps => Nat.leb 2 (List.length ps) && forallb (valid false) ps
  end.

End Sem.

Arguments MNo {value}.
Arguments MYes {value} _.
Arguments MErr {value}.
