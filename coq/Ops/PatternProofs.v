(* C08 proofs: compile_pattern against the reference semantics of Hy patterns
   (induction on the pattern, any depth; every value domain), validity of the
   emitted node, the match expression with lifted guards, and the refutations. *)
From HyV Require Import Ops.PyMatch Gen.MatchTables Ops.Pattern.
Open Scope list_scope.

(* ---------- the regenerated constants are the documented ones ---------- *)
Lemma singleton_names_eq : singleton_names = ["None"; "True"; "False"].
Proof. reflexivity. Qed.
Lemma wildcard_name_eq : wildcard_name = "_".
Proof. reflexivity. Qed.
Lemma star_wildcard_name_eq : star_wildcard_name = "_".
Proof. reflexivity. Qed.
Lemma keyword_class_path_eq : keyword_class_path = ["hy"; "models"; "Keyword"].
Proof. reflexivity. Qed.

(* ---------- induction on patterns ---------- *)
Section HpatInd.
Variable Q : hpat -> Prop.
Hypothesis H_lit : forall l, Q (HLit l).
Hypothesis H_sym : forall s, Q (HSym s).
Hypothesis H_or : forall ps, Forall Q ps -> Q (HOr ps).
Hypothesis H_value : forall p, Q (HValue p).
Hypothesis H_seq : forall ps, Forall Q ps -> Q (HSeq ps).
Hypothesis H_star : forall n, Q (HStar n).
Hypothesis H_map : forall ks ps r, Forall Q ps -> Q (HMap ks ps r).
Hypothesis H_class : forall c ps kws kps, Forall Q ps -> Forall Q kps -> Q (HClass c ps kws kps).
Hypothesis H_kw : forall n, Q (HKeyword n).
Hypothesis H_as : forall p n, Q p -> Q (HAs p n).

Fixpoint hpat_ind' (h : hpat) : Q h :=
  let all := fix all (l : list hpat) : Forall Q l :=
               match l with
               | [] => Forall_nil Q
               | x :: r => Forall_cons x (hpat_ind' x) (all r)
               end in
  match h with
  | HLit l => H_lit l
  | HSym s => H_sym s
  | HOr ps => H_or ps (all ps)
  | HValue p => H_value p
  | HSeq ps => H_seq ps (all ps)
  | HStar n => H_star n
  | HMap ks ps r => H_map ks ps r (all ps)
  | HClass c ps kws kps => H_class c ps kws kps (all ps) (all kps)
  | HKeyword n => H_kw n
  | HAs p n => H_as p n (hpat_ind' p)
  end.
End HpatInd.

(* ---------- the combinators respect pointwise equality of matchers ---------- *)
Section Ext.
Variable value : Type.
Variable veq : value -> value -> bool.
Variable as_seq : value -> option (list value).
Variable as_map : value -> option (list (value * value)).
Variable of_list : list value -> value.
Variable of_dict : list (value * value) -> value.
Variable isinst : value -> list string -> bool.
Variable margs : list string -> option (list string).
Variable getattr : value -> string -> option value.

Local Notation matcher := (matcher value).
Definition meq (a b : matcher) : Prop := forall v, a v = b v.

Lemma or_sem_ext a b : Forall2 meq a b -> meq (or_sem value a) (or_sem value b).
Proof. intros H v. induction H as [|x y a b Hxy _ IH]; [reflexivity|]. simpl. rewrite Hxy, IH. reflexivity. Qed.

Lemma all2_ext a b : Forall2 meq a b -> forall vs, all2 value a vs = all2 value b vs.
Proof.
  intros H. induction H as [|x y a b Hxy _ IH]; intros vs; [reflexivity|].
  destruct vs as [|v vs]; [reflexivity|]. simpl. rewrite Hxy, IH. reflexivity.
Qed.

Lemma Forall2_length {A B} (R : A -> B -> Prop) a b : Forall2 R a b -> List.length a = List.length b.
Proof. induction 1; simpl; congruence. Qed.

Definition sieq (a b : seqitem value) : Prop :=
  match a, b with
  | SItem _ x, SItem _ y => meq x y
  | SStar _ n, SStar _ n' => n = n'
  | _, _ => False
  end.

Lemma plain_items_ext a b : Forall2 sieq a b ->
  match plain_items value a, plain_items value b with
  | Some x, Some y => Forall2 meq x y
  | None, None => True
  | _, _ => False
  end.
Proof.
  induction 1 as [|x y a b Hxy _ IH]; [constructor|].
  destruct x, y; simpl in *; try contradiction; [|exact I].
  destruct (plain_items value a), (plain_items value b); simpl; try contradiction; [|exact I].
  constructor; assumption.
Qed.

Lemma split_star_ext a b : Forall2 sieq a b ->
  Forall2 meq (fst (split_star value a)) (fst (split_star value b)) /\
  match snd (split_star value a), snd (split_star value b) with
  | Some (n, ra), Some (n', rb) => n = n' /\ Forall2 sieq ra rb
  | None, None => True
  | _, _ => False
  end.
Proof.
  induction 1 as [|x y a b Hxy Hab IH]; [split; [constructor | exact I]|].
  destruct x, y; simpl in *; try contradiction.
  - destruct (split_star value a) as [pa sa], (split_star value b) as [pb sb]. simpl in *.
    destruct IH as [IH1 IH2]. split; [constructor; assumption | exact IH2].
  - subst. split; [constructor | split; [reflexivity | exact Hab]].
Qed.

Lemma seq_sem_ext a b : Forall2 sieq a b ->
  meq (seq_sem value as_seq of_list a) (seq_sem value as_seq of_list b).
Proof.
  intros H v. unfold seq_sem. destruct (as_seq v) as [l|]; [|reflexivity].
  destruct (split_star_ext a b H) as [H1 H2].
  destruct (split_star value a) as [pa sa], (split_star value b) as [pb sb]. simpl in *.
  destruct sa as [[n ra]|], sb as [[n' rb]|]; try contradiction.
  - destruct H2 as [-> H2]. pose proof (plain_items_ext ra rb H2) as H3.
    destruct (plain_items value ra) as [qa|], (plain_items value rb) as [qb|]; try contradiction; [|reflexivity].
    rewrite (Forall2_length _ _ _ H1), (Forall2_length _ _ _ H3).
    destruct (Nat.leb _ _); [|reflexivity].
    rewrite (all2_ext _ _ H1), (all2_ext _ _ H3). reflexivity.
  - rewrite (Forall2_length _ _ _ H1). destruct (Nat.eqb _ _); [|reflexivity]. apply all2_ext. exact H1.
Qed.

Definition kmeq {K} (a b : K * matcher) : Prop := fst a = fst b /\ meq (snd a) (snd b).

Lemma map_items_ext a b : Forall2 kmeq a b ->
  forall items, map_items value veq a items = map_items value veq b items.
Proof.
  induction 1 as [|[k m] [k' m'] a b Hkm _ IH]; intros items; [reflexivity|].
  unfold kmeq in Hkm. destruct Hkm as [Hk Hm]. simpl in *. subst k'. destruct (lookup_key value veq k items); [|reflexivity]. rewrite Hm, IH. reflexivity.
Qed.

Lemma Forall2_kmeq_fst {K} (a b : list (K * matcher)) : Forall2 kmeq a b -> map fst a = map fst b.
Proof.
  induction 1 as [|x y a b Hxy _ IH]; [reflexivity|]. unfold kmeq in Hxy. destruct Hxy as [H1 _].
  simpl. rewrite H1, IH. reflexivity.
Qed.

Lemma map_sem_ext a b rest : Forall2 kmeq a b ->
  meq (map_sem value veq as_map of_dict a rest) (map_sem value veq as_map of_dict b rest).
Proof.
  intros H v. unfold map_sem. destruct (as_map v); [|reflexivity].
  rewrite (map_items_ext a b H), (Forall2_kmeq_fst a b H). reflexivity.
Qed.

Lemma attr_items_ext a b : Forall2 kmeq a b -> forall v, attr_items value getattr a v = attr_items value getattr b v.
Proof.
  induction 1 as [|[k m] [k' m'] a b Hkm _ IH]; intros v; [reflexivity|].
  unfold kmeq in Hkm. destruct Hkm as [Hk Hm]. simpl in *. subst k'. destruct (getattr v k); [|reflexivity]. rewrite Hm, IH. reflexivity.
Qed.

Lemma zip_names_ext names a b : Forall2 meq a b ->
  match zip_names value names a, zip_names value names b with
  | Some x, Some y => Forall2 kmeq x y
  | None, None => True
  | _, _ => False
  end.
Proof.
  intros H. revert names. induction H as [|x y a b Hxy _ IH]; intros names; [destruct names; simpl; constructor|].
  destruct names as [|n names]; [exact I|]. simpl. specialize (IH names).
  destruct (zip_names value names a), (zip_names value names b); simpl; try contradiction; [|exact I].
  constructor; [split; [reflexivity | exact Hxy] | exact IH].
Qed.

Lemma Forall2_app {A B} (R : A -> B -> Prop) a b c d : Forall2 R a b -> Forall2 R c d -> Forall2 R (a ++ c) (b ++ d).
Proof. induction 1; simpl; [auto | constructor; auto]. Qed.

Lemma class_sem_ext cls pa pb ka kb : Forall2 meq pa pb -> Forall2 kmeq ka kb ->
  meq (class_sem value isinst margs getattr cls pa ka) (class_sem value isinst margs getattr cls pb kb).
Proof.
  intros Hp Hk v. unfold class_sem. destruct (isinst v cls); [|reflexivity].
  destruct (margs cls) as [names|].
  - pose proof (zip_names_ext names pa pb Hp) as Hz.
    destruct (zip_names value names pa), (zip_names value names pb); try contradiction; [|reflexivity].
    apply attr_items_ext. apply Forall2_app; assumption.
  - destruct Hp as [|x y pa pb Hxy Hp]; [apply attr_items_ext; exact Hk|].
    destruct Hp as [|x2 y2 pa pb _ _]; [|reflexivity].
    rewrite Hxy, (attr_items_ext ka kb Hk). reflexivity.
Qed.

Lemma as_sem_ext a b n : meq a b -> meq (as_sem value a n) (as_sem value b n).
Proof. intros H v. unfold as_sem. rewrite H. reflexivity. Qed.

Lemma Forall2_map_l {A B} (R : B -> B -> Prop) (f g : A -> B) l :
  Forall (fun x => R (f x) (g x)) l -> Forall2 R (map f l) (map g l).
Proof. induction 1; simpl; constructor; auto. Qed.

Lemma Forall2_combine {K} (ks : list K) a b : Forall2 meq a b -> Forall2 kmeq (combine ks a) (combine ks b).
Proof.
  intros H. revert ks. induction H as [|x y a b Hxy _ IH]; intros [|k ks]; simpl; try constructor.
  - split; [reflexivity | exact Hxy].
  - apply IH.
Qed.
End Ext.

(* ================================================================== *)
(* pattern_correct                                                     *)
(* ================================================================== *)
Section Correct.
Variable mangle : string -> string.

Definition kwd_ok (k : string) : bool := kwd_attrs_mangled || String.eqb (mangle k) k.

(* the only condition left: the attribute name of a class-pattern keyword is its mangled name
   (true of every pattern when the regenerated compile_pattern mangles it) *)
Fixpoint supported (h : hpat) : bool :=
  match h with
  | HLit _ | HSym _ | HValue _ | HKeyword _ | HStar _ => true
  | HOr ps | HSeq ps | HMap _ ps _ => forallb supported ps
  | HClass _ ps kws kps => forallb kwd_ok kws && forallb supported ps && forallb supported kps
  | HAs p _ => supported p
  end.

Variable value : Type.
Variable veval : vexpr -> value.
Variable veq : value -> value -> bool.
Variable is_sing : sing -> value -> bool.
Variable as_seq : value -> option (list value).
Variable as_map : value -> option (list (value * value)).
Variable of_list : list value -> value.
Variable of_dict : list (value * value) -> value.
Variable isinst : value -> list string -> bool.
Variable margs : list string -> option (list string).
Variable getattr : value -> string -> option value.

Local Notation pm := (pmatch value veval veq is_sing as_seq as_map of_list of_dict isinst margs getattr).
Local Notation hm := (hmatch mangle value veval veq is_sing as_seq as_map of_list of_dict isinst margs getattr).
Local Notation cp := (compile mangle).
Local Notation meq := (meq value).

Definition is_hstar (q : hpat) : bool := match q with HStar _ => true | _ => false end.

Lemma compile_not_star q : is_hstar q = false -> forall (A : Type) (f : option string -> A) (d : A),
  match cp q with PMatchStar n => f n | _ => d end = d.
Proof.
  intros Hq A f d. destruct q; try discriminate; cbn [compile]; try reflexivity.
  destruct (mem s singleton_names); [reflexivity|]. destruct (String.eqb s wildcard_name); reflexivity.
Qed.

Lemma IH_to_Forall2 ps :
  Forall (fun p => supported p = true -> meq (pm (cp p)) (hm p)) ps -> forallb supported ps = true ->
  Forall2 meq (map pm (map cp ps)) (map hm ps).
Proof.
  intros H S. rewrite map_map. apply Forall2_map_l. rewrite Forall_forall in *. intros x Hx.
  apply H; [exact Hx|]. exact (proj1 (forallb_forall _ _) S x Hx).
Qed.

Lemma kw_attr_ok kws : forallb kwd_ok kws = true -> map (kw_attr mangle) kws = map mangle kws.
Proof.
  intros H. apply map_ext_in. intros k Hk. pose proof (proj1 (forallb_forall _ _) H k Hk) as E.
  unfold kwd_ok in E. unfold kw_attr. destruct kwd_attrs_mangled; [reflexivity|].
  simpl in E. apply String.eqb_eq in E. symmetry. exact E.
Qed.

Theorem pattern_correct_partial : forall h, supported h = true -> forall v, pm (cp h) v = hm h v.
Proof.
  induction h using hpat_ind'; intros S.
  - (* literal *)
    intros v. reflexivity.
  - (* symbol *)
    intros v. cbn [compile hmatch]. rewrite singleton_names_eq, wildcard_name_eq. unfold mem. cbn [existsb].
    unfold singleton_of.
    destruct (String.eqb s "None") eqn:E1; [reflexivity|].
    destruct (String.eqb s "True") eqn:E2; [reflexivity|].
    destruct (String.eqb s "False") eqn:E3; [reflexivity|].
    cbn [orb]. destruct (String.eqb s "_"); reflexivity.
  - (* or *)
    cbn [supported] in S. cbn [compile pmatch hmatch]. apply or_sem_ext. apply IH_to_Forall2; assumption.
  - intros v. reflexivity.
  - (* sequence *)
    cbn [supported] in S. cbn [compile pmatch hmatch]. apply seq_sem_ext. rewrite map_map.
    apply Forall2_map_l. rewrite Forall_forall in *. intros q Hq.
    pose proof (proj1 (forallb_forall _ _) S q Hq) as Sq.
    destruct (is_hstar q) eqn:Eq.
    + destruct q; try discriminate. cbn [compile sieq]. rewrite star_wildcard_name_eq.
      destruct (String.eqb name "_"); reflexivity.
    + rewrite (compile_not_star q Eq). destruct q; try discriminate; exact (H _ Hq Sq).
  - (* a star outside a sequence *)
    intros v. reflexivity.
  - (* mapping *)
    cbn [supported] in S. cbn [compile pmatch hmatch]. rewrite map_map.
    apply map_sem_ext. apply Forall2_combine. apply IH_to_Forall2; assumption.
  - (* class *)
    cbn [supported] in S. apply andb_true_iff in S. destruct S as [S S3]. apply andb_true_iff in S. destruct S as [S1 S2].
    cbn [compile pmatch hmatch]. rewrite (kw_attr_ok kws S1).
    apply class_sem_ext; [apply IH_to_Forall2; assumption | apply Forall2_combine; apply IH_to_Forall2; assumption].
  - (* keyword object *)
    intros v. cbn [compile pmatch hmatch map combine]. rewrite keyword_class_path_eq. reflexivity.
  - (* :as *)
    cbn [supported] in S. cbn [compile pmatch hmatch]. apply as_sem_ext. exact (IHh S).
Qed.

(* ---------- the match expression ---------- *)
Variable geval : nat -> bindings value -> bool.
Variable beval : nat -> bindings value -> value.

Local Notation hym := (hy_match mangle value veval veq is_sing as_seq as_map of_list of_dict isinst margs getattr geval beval).
Local Notation execc := (exec_cases value veval veq is_sing as_seq as_map of_list of_dict isinst margs getattr geval beval).

Lemma compile_cases_names cs : forall ctr ds pcs ctr',
  compile_cases mangle cs ctr = (ds, pcs, ctr') ->
  ctr <= ctr' /\ Forall (fun d => ctr < fst d /\ fst d <= ctr') ds.
Proof.
  induction cs as [|c r IH]; intros ctr ds pcs ctr' H.
  - inversion H. split; [lia | constructor].
  - cbn [compile_cases] in H.
    destruct (hc_guard c) as [g|]; [destruct (g_stmts g)|];
      (destruct (compile_cases mangle r _) as [[ds' pcs'] c''] eqn:E; inversion H; subst;
       destruct (IH _ _ _ _ E) as [L F]; split; [lia|]);
      try (constructor; [simpl; lia|]); (eapply Forall_impl; [|exact F]); simpl; intros; lia.
Qed.

Lemma lookup_def_fresh pre f g post :
  Forall (fun d => fst d < f) pre -> Forall (fun d => f < fst d) post ->
  lookup_def f (pre ++ (f, g) :: post) = Some g.
Proof.
  intros Hpre Hpost. unfold lookup_def. rewrite rev_app_distr. simpl rev. rewrite <- app_assoc.
  assert (Hp : forall l : list (nat * nat), Forall (fun d => f < fst d) l -> forall tl,
             find (fun d : nat * nat => Nat.eqb (fst d) f) (rev l ++ tl) = find (fun d : nat * nat => Nat.eqb (fst d) f) tl).
  { induction l as [|x l IHl]; intros Hl tl; [reflexivity|]. inversion Hl; subst. simpl rev. rewrite <- app_assoc.
    rewrite (IHl H2). simpl. replace (Nat.eqb (fst x) f) with false; [reflexivity|]. symmetry. apply Nat.eqb_neq. lia. }
  rewrite (Hp post Hpost). simpl. rewrite Nat.eqb_refl. reflexivity.
Qed.

Lemma exec_cases_correct cs : forall ctr ds pcs ctr' pre v,
  Forall (fun c => supported (hc_pat c) = true) cs ->
  compile_cases mangle cs ctr = (ds, pcs, ctr') ->
  Forall (fun d => fst d <= ctr) pre ->
  execc (pre ++ ds) pcs v = hym cs v.
Proof.
  induction cs as [|c r IH]; intros ctr ds pcs ctr' pre v Hs H Hpre.
  - inversion H. reflexivity.
  - inversion Hs as [|? ? Hc Hr]; subst. cbn [compile_cases] in H. cbn [hy_match].
    destruct (hc_guard c) as [g|] eqn:Eg; [destruct (g_stmts g) eqn:Est|].
    + (* lifted guard *)
      destruct (compile_cases mangle r (S ctr)) as [[ds' pcs'] c''] eqn:E. inversion H; subst. clear H.
      cbn [exec_cases pc_pat pc_guard pc_body app]. rewrite (pattern_correct_partial _ Hc).
      destruct (compile_cases_names r _ _ _ _ E) as [_ F].
      assert (Hl : lookup_def (S ctr) (pre ++ (S ctr, g_id g) :: ds') = Some (g_id g)).
      { apply lookup_def_fresh.
        - eapply Forall_impl; [|exact Hpre]. simpl. intros. lia.
        - eapply Forall_impl; [|exact F]. simpl. intros. lia. }
      assert (Hrec : execc (pre ++ (S ctr, g_id g) :: ds') pcs' v = hym r v).
      { change (pre ++ (S ctr, g_id g) :: ds') with (pre ++ [(S ctr, g_id g)] ++ ds'). rewrite app_assoc. apply (IH (S ctr) ds' pcs' _ (pre ++ [(S ctr, g_id g)]) v Hr E).
        apply Forall_app. split; [eapply Forall_impl; [|exact Hpre]; simpl; intros; lia | constructor; [simpl; lia | constructor]]. }
      destruct (hm (hc_pat c) v) as [|b|]; [exact Hrec| |reflexivity].
      rewrite Hl. cbn [option_map]. destruct (geval (g_id g) b); [reflexivity | exact Hrec].
    + destruct (compile_cases mangle r ctr) as [[ds' pcs'] c''] eqn:E. inversion H; subst. clear H.
      cbn [exec_cases pc_pat pc_guard pc_body app]. rewrite (pattern_correct_partial _ Hc).
      pose proof (IH ctr _ _ _ pre v Hr E Hpre) as Hrec.
      destruct (hm (hc_pat c) v) as [|b|]; [exact Hrec| |reflexivity].
      destruct (geval (g_id g) b); [reflexivity | exact Hrec].
    + destruct (compile_cases mangle r ctr) as [[ds' pcs'] c''] eqn:E. inversion H; subst. clear H.
      cbn [exec_cases pc_pat pc_guard pc_body app]. rewrite (pattern_correct_partial _ Hc).
      pose proof (IH ctr _ _ _ pre v Hr E Hpre) as Hrec.
      destruct (hm (hc_pat c) v) as [|b|]; [exact Hrec|reflexivity|reflexivity].
Qed.

(* the compiled match form evaluates to the result of the first case whose pattern matches and whose
   guard holds, None if there is none; lifted guards are called by their own case *)
Theorem match_correct cs ctr v :
  Forall (fun c => supported (hc_pat c) = true) cs ->
  exec_match value veval veq is_sing as_seq as_map of_list of_dict isinst margs getattr geval beval
    (compile_match mangle cs ctr) v = hym cs v.
Proof.
  intros Hs. unfold exec_match, compile_match.
  destruct (compile_cases mangle cs (S ctr)) as [[ds pcs] c'] eqn:E. cbn [cm_defs cm_cases].
  exact (exec_cases_correct cs (S ctr) ds pcs c' [] v Hs E (Forall_nil _)).
Qed.

Theorem match_none v ctr :
  exec_match value veval veq is_sing as_seq as_map of_list of_dict isinst margs getattr geval beval
    (compile_match mangle [] ctr) v = ONone.
Proof. reflexivity. Qed.
End Correct.

(* ================================================================== *)
(* validity of the emitted node                                        *)
(* ================================================================== *)
Section Valid.
Variable mangle : string -> string.

(* what compile_pattern does not check itself: stars only in sequences and at most one, equally many
   keys/sub-patterns, names that do not mangle to "_" (the alternatives of an or-pattern, the attribute of
   a value pattern and the literal `:as _` are compile_pattern's own syntax errors: [accepted]) *)
Definition hname_ok (n : string) : bool := negb (String.eqb (mangle n) "_").

Fixpoint hwf (in_seq : bool) (h : hpat) : bool :=
  match h with
  | HLit _ | HValue _ | HKeyword _ => true
  | HSym s => mem s singleton_names || String.eqb s wildcard_name || hname_ok s
  | HStar n => in_seq && (String.eqb n star_wildcard_name || hname_ok n)
  | HOr ps => forallb (hwf false) ps
  | HSeq ps => forallb (hwf true) ps
               && Nat.leb (List.length (filter (fun q => match q with HStar _ => true | _ => false end) ps)) 1
  | HMap ks ps r => Nat.eqb (List.length ks) (List.length ps) && forallb (hwf false) ps
                    && match r with Some n => hname_ok n | None => true end
  | HClass _ ps kws kps => Nat.eqb (List.length kws) (List.length kps) && forallb (hwf false) ps && forallb (hwf false) kps
  | HAs p n => hwf false p
  end.

Lemma forallb_map {A B} (f : B -> bool) (g : A -> B) l : forallb f (map g l) = forallb (fun x => f (g x)) l.
Proof. induction l as [|x l IH]; [reflexivity|]. simpl. rewrite IH. reflexivity. Qed.

Lemma star_filter_compile ps :
  filter (fun q => match q with PMatchStar _ => true | _ => false end) (map (compile mangle) ps)
  = map (compile mangle) (filter (fun q => match q with HStar _ => true | _ => false end) ps).
Proof.
  induction ps as [|q ps IH]; [reflexivity|]. cbn [map filter].
  destruct (is_hstar q) eqn:E.
  - destruct q; try discriminate. cbn [compile map]. rewrite IH. reflexivity.
  - rewrite (compile_not_star mangle q E).
    replace (match q with HStar _ => true | _ => false end) with false by (destruct q; try reflexivity; discriminate).
    exact IH.
Qed.

(* obligations on the regenerated thresholds: they are the ones compile() itself applies *)
Lemma or_min_is_two : or_min_alternatives = 2.
Proof. reflexivity. Qed.
Lemma value_min_is_two : value_min_symbols = 2.
Proof. reflexivity. Qed.
Lemma as_forbidden_is_underscore : as_forbidden_mangled = "_".
Proof. reflexivity. Qed.

Lemma forallb_In {A} (f : A -> bool) l x : forallb f l = true -> In x l -> f x = true.
Proof. intros H Hx. exact (proj1 (forallb_forall _ _) H x Hx). Qed.

(* a pattern compile_pattern accepts compiles to a node compile() accepts (given what compile_pattern
   leaves unchecked: hwf) *)
Theorem compile_valid : forall h b, supported mangle h = true -> accepted mangle h = true -> hwf b h = true ->
  valid b (compile mangle h) = true.
Proof.
  induction h using hpat_ind'; intros b S A W.
  - reflexivity.
  - cbn [compile]. cbn [hwf] in W. rewrite singleton_names_eq in *. unfold mem in *. cbn [existsb] in *.
    unfold singleton_of.
    destruct (String.eqb s "None") eqn:E1; [reflexivity|].
    destruct (String.eqb s "True") eqn:E2; [reflexivity|].
    destruct (String.eqb s "False") eqn:E3; [reflexivity|]. cbn [orb] in *.
    destruct (String.eqb s wildcard_name); [reflexivity|]. cbn [orb] in W. exact W.
  - cbn [supported hwf accepted] in *. rewrite or_min_is_two in A. apply andb_true_iff in A. destruct A as [A1 A2].
    cbn [compile valid]. rewrite map_length, A1. cbn [andb]. rewrite forallb_map. apply forallb_forall. intros x Hx.
    rewrite Forall_forall in H. apply H; [exact Hx | exact (forallb_In _ _ _ S Hx) | exact (forallb_In _ _ _ A2 Hx)
                                         | exact (forallb_In _ _ _ W Hx)].
  - cbn [accepted] in A. rewrite value_min_is_two in A. cbn [compile valid]. rewrite map_length. exact A.
  - cbn [supported hwf accepted] in *. apply andb_true_iff in W. destruct W as [W1 W2]. cbn [compile valid].
    rewrite star_filter_compile, map_length, W2, andb_true_r. rewrite forallb_map. apply forallb_forall. intros x Hx.
    rewrite Forall_forall in H. apply H; [exact Hx | exact (forallb_In _ _ _ S Hx) | exact (forallb_In _ _ _ A Hx)
                                         | exact (forallb_In _ _ _ W1 Hx)].
  - cbn [hwf] in W. cbn [compile valid]. apply andb_true_iff in W. destruct W as [W1 W2]. rewrite W1. cbn [andb].
    destruct (String.eqb n star_wildcard_name); [reflexivity|]. exact W2.
  - cbn [supported hwf accepted] in *. apply andb_true_iff in W. destruct W as [W W3]. apply andb_true_iff in W. destruct W as [W1 W2].
    cbn [compile valid]. rewrite !map_length, W1. cbn [andb].
    assert (G : forallb (valid false) (map (compile mangle) ps) = true).
    { rewrite forallb_map. apply forallb_forall. intros x Hx. rewrite Forall_forall in H.
      apply H; [exact Hx | exact (forallb_In _ _ _ S Hx) | exact (forallb_In _ _ _ A Hx) | exact (forallb_In _ _ _ W2 Hx)]. }
    rewrite G. cbn [andb]. destruct r; [exact W3 | reflexivity].
  - cbn [supported hwf accepted] in *. apply andb_true_iff in S. destruct S as [S S3]. apply andb_true_iff in S. destruct S as [_ S2].
    apply andb_true_iff in A. destruct A as [A2 A3].
    apply andb_true_iff in W. destruct W as [W W3]. apply andb_true_iff in W. destruct W as [W1 W2].
    cbn [compile valid]. rewrite !map_length, W1. cbn [andb]. rewrite !forallb_map.
    apply andb_true_iff. split; apply forallb_forall; intros x Hx.
    + rewrite Forall_forall in H. apply H; [exact Hx | exact (forallb_In _ _ _ S2 Hx) | exact (forallb_In _ _ _ A2 Hx)
                                           | exact (forallb_In _ _ _ W2 Hx)].
    + rewrite Forall_forall in H0. apply H0; [exact Hx | exact (forallb_In _ _ _ S3 Hx) | exact (forallb_In _ _ _ A3 Hx)
                                             | exact (forallb_In _ _ _ W3 Hx)].
  - reflexivity.
  - cbn [supported hwf accepted] in *. rewrite as_forbidden_is_underscore in A.
    apply andb_true_iff in A. destruct A as [A1 A2]. cbn [compile valid].
    rewrite (IHh false S A2 W). exact A1.
Qed.

(* the converse for the three checks: a pattern compile_pattern rejects would have compiled to a node
   compile() rejects -- no well-formed input is lost to the new syntax errors *)
Theorem rejected_would_be_invalid : forall h b, supported mangle h = true ->
  accepted mangle h = false -> valid b (compile mangle h) = false.
Proof.
  induction h using hpat_ind'; intros b S A; try discriminate.
  - cbn [supported accepted] in *. rewrite or_min_is_two in A. cbn [compile valid]. rewrite map_length.
    destruct (Nat.leb 2 (List.length ps)); [|reflexivity]. cbn [andb] in *.
    rewrite forallb_map. clear - H S A. induction H as [|x r Hx _ IH]; [discriminate|].
    cbn [forallb] in *. apply andb_true_iff in S. destruct S as [S1 S2].
    destruct (accepted mangle x) eqn:E; [cbn [andb] in A; rewrite (IH S2 A); apply andb_false_r|].
    rewrite (Hx false S1 eq_refl). reflexivity.
  - cbn [accepted] in A. rewrite value_min_is_two in A. cbn [compile valid]. rewrite map_length. exact A.
  - cbn [supported accepted] in *. cbn [compile valid]. rewrite forallb_map.
    assert (G : forallb (fun x => valid true (compile mangle x)) ps = false).
    { clear - H S A. induction H as [|x r Hx _ IH]; [discriminate|].
      cbn [forallb] in *. apply andb_true_iff in S. destruct S as [S1 S2].
      destruct (accepted mangle x) eqn:E; [cbn [andb] in A; rewrite (IH S2 A); apply andb_false_r|].
      rewrite (Hx true S1 eq_refl). reflexivity. }
    rewrite G. reflexivity.
  - cbn [supported accepted] in *. cbn [compile valid]. rewrite forallb_map.
    assert (G : forallb (fun x => valid false (compile mangle x)) ps = false).
    { clear - H S A. induction H as [|x r Hx _ IH]; [discriminate|].
      cbn [forallb] in *. apply andb_true_iff in S. destruct S as [S1 S2].
      destruct (accepted mangle x) eqn:E; [cbn [andb] in A; rewrite (IH S2 A); apply andb_false_r|].
      rewrite (Hx false S1 eq_refl). reflexivity. }
    rewrite G. rewrite andb_false_r. reflexivity.
  - cbn [supported accepted] in *. apply andb_true_iff in S. destruct S as [S S3]. apply andb_true_iff in S. destruct S as [_ S2].
    cbn [compile valid]. rewrite !forallb_map.
    assert (G : forall l, Forall (fun h => forall b, supported mangle h = true ->
                                   accepted mangle h = false -> valid b (compile mangle h) = false) l ->
                forallb (supported mangle) l = true -> forallb (accepted mangle) l = false ->
                forallb (fun x => valid false (compile mangle x)) l = false).
    { clear. intros l Hl. induction Hl as [|x r Hx _ IH]; intros S A; [discriminate|].
      cbn [forallb] in *. apply andb_true_iff in S. destruct S as [S1 S2].
      destruct (accepted mangle x) eqn:E; [cbn [andb] in A; rewrite (IH S2 A); apply andb_false_r|].
      rewrite (Hx false S1 eq_refl). reflexivity. }
    destruct (forallb (accepted mangle) ps) eqn:E1.
    + cbn [andb] in A. rewrite (G kps H0 S3 A). apply andb_false_r.
    + rewrite (G ps H S2 E1). rewrite andb_false_r. reflexivity.
  - cbn [supported accepted] in *. cbn [compile valid].
    rewrite as_forbidden_is_underscore in A.
    destruct (String.eqb (mangle n) "_") eqn:E.
    + cbn [name_ok]. rewrite E. apply andb_false_r.
    + cbn [negb andb] in A. rewrite (IHh false S A). reflexivity.
Qed.
End Valid.

(* ================================================================== *)
(* the full statement                                                  *)
(* ================================================================== *)
Lemma kwd_attrs_mangled_true : kwd_attrs_mangled = true.
Proof. reflexivity. Qed.

(* compile_cases treats every guard a clause has as a guard ([hc_guard = Some g]); that is what
   compile_match_expression does iff it tests `guard is not None` rather than the truth value of the
   guard's model (fb0bfe7: `:if 0`, `:if ""`, `:if []` used to be dropped) *)
Lemma guard_kept_when_falsy_true : guard_kept_when_falsy = true.
Proof. reflexivity. Qed.

(* exec_match takes the subject as a value read before anything of the compiled form runs, and cm_result_var
   is the form's own fresh variable; that is the emitted code only if the variable is not handed to
   Result.rename (7b4f7e5: otherwise (setv x (match x ...)) presets x = None before the subject is read) *)
Lemma result_var_not_renamable : result_var_renamable = false.
Proof. reflexivity. Qed.

Lemma supported_all mangle : forall h, supported mangle h = true.
Proof.
  assert (K : forall kws, forallb (kwd_ok mangle) kws = true).
  { intros kws. apply forallb_forall. intros k _. unfold kwd_ok. rewrite kwd_attrs_mangled_true. reflexivity. }
  assert (F : forall ps, Forall (fun p => supported mangle p = true) ps -> forallb (supported mangle) ps = true).
  { intros ps H. apply forallb_forall. rewrite Forall_forall in H. exact H. }
  induction h using hpat_ind'; cbn [supported]; try reflexivity; auto.
  rewrite K, (F _ H), (F _ H0). reflexivity.
Qed.

Theorem pattern_correct :
  forall (mangle : string -> string) (value : Type) veval veq is_sing as_seq as_map of_list of_dict isinst margs getattr,
  forall h v,
    pmatch value veval veq is_sing as_seq as_map of_list of_dict isinst margs getattr (compile mangle h) v
    = hmatch mangle value veval veq is_sing as_seq as_map of_list of_dict isinst margs getattr h v.
Proof. intros. apply pattern_correct_partial. apply supported_all. Qed.

Theorem match_correct_all :
  forall (mangle : string -> string) (value : Type) veval veq is_sing as_seq as_map of_list of_dict isinst margs getattr
         (geval : nat -> bindings value -> bool) (beval : nat -> bindings value -> value) cs ctr v,
  exec_match value veval veq is_sing as_seq as_map of_list of_dict isinst margs getattr geval beval
    (compile_match mangle cs ctr) v
  = hy_match mangle value veval veq is_sing as_seq as_map of_list of_dict isinst margs getattr geval beval cs v.
Proof.
  intros. apply match_correct. apply Forall_forall. intros c _. apply supported_all.
Qed.

Theorem compile_valid_all : forall (mangle : string -> string) h b,
  accepted mangle h = true -> hwf mangle b h = true -> valid b (compile mangle h) = true.
Proof. intros. apply compile_valid; [apply supported_all | assumption | assumption]. Qed.

Theorem rejected_would_be_invalid_all : forall (mangle : string -> string) h b,
  accepted mangle h = false -> valid b (compile mangle h) = false.
Proof. intros. apply rejected_would_be_invalid; [apply supported_all | assumption]. Qed.

(* a toy value domain for the examples: the three constructs that used to be miscompiled *)
Inductive tval := TStr (s : string) | TList (l : list tval) | TObj (attrs : list (string * tval)).
Definition t_veval (e : vexpr) : tval := match e with VEConst (LStr s) => TStr s | _ => TStr "?" end.
Definition t_veq (a b : tval) : bool := match a, b with TStr x, TStr y => String.eqb x y | _, _ => false end.
Definition t_as_seq (v : tval) : option (list tval) := match v with TList l => Some l | _ => None end.
Definition t_getattr (v : tval) (a : string) : option tval :=
  match v with TObj attrs => option_map snd (find (fun kv => String.eqb (fst kv) a) attrs) | _ => None end.
Definition t_pm := pmatch tval t_veval t_veq (fun _ _ => false) t_as_seq (fun _ => None) TList (fun _ => TList [])
                          (fun v _ => match v with TObj _ => true | _ => false end) (fun _ => Some []) t_getattr.
Definition t_hm (mangle : string -> string) :=
  hmatch mangle tval t_veval t_veq (fun _ _ => false) t_as_seq (fun _ => None) TList (fun _ => TList [])
         (fun v _ => match v with TObj _ => true | _ => false end) (fun _ => Some []) t_getattr.
Definition t_mangle (s : string) : string := if String.eqb s "a-b" then "a_b" else s.

Example example_string_literal :
  t_pm (compile t_mangle (HLit (LStr "None"))) (TStr "None") = MYes []
  /\ valid false (compile t_mangle (HLit (LStr "None"))) = true.
Proof. split; vm_compute; reflexivity. Qed.

Example example_star_wildcard :
  t_pm (compile t_mangle (HSeq [HSym "x"; HStar "_"])) (TList [TStr "a"; TStr "b"]) = MYes [("x", TStr "a")]
  /\ valid false (compile t_mangle (HSeq [HSym "x"; HStar "_"])) = true.
Proof. split; vm_compute; reflexivity. Qed.

Example example_class_keyword :
  t_pm (compile t_mangle (HClass ["C"] [] ["a-b"] [HLit (LStr "v")])) (TObj [("a_b", TStr "v")]) = MYes [].
Proof. vm_compute. reflexivity. Qed.
