(* C05 proofs: the ast.arguments encoding of a lambda list binds every call as
   the Hy structure says; the syntax errors; _compile_collect; function bodies. *)
From HyV Require Import Ops.PyBinding Gen.LambdaTables Ops.LambdaList.
Close Scope string_scope.

(* ================================================================== *)
(* 1. bind_with is natural in the slot keys                            *)
(* ================================================================== *)
Section Natural.
Variables V D K1 K2 : Type.
Variable kname1 : K1 -> string.
Variable kname2 : K2 -> string.
Variable g : K1 -> K2.
Hypothesis g_name : forall k, kname2 (g k) = kname1 k.

Definition gs (s : slot V D K1) : slot V D K2 := (g (fst s), snd s).

Lemma fill_pos_map ks vs : fill_pos V D K2 (map g ks) vs = map gs (fill_pos V D K1 ks vs).
Proof.
  revert vs. induction ks as [|k ks IH]; intros vs; [reflexivity|].
  destruct vs as [|v vs]; simpl; rewrite IH; reflexivity.
Qed.

Lemma fill_pos_keys (K : Type) (ks : list K) vs : map fst (fill_pos V D K ks vs) = ks.
Proof.
  revert vs. induction ks as [|k ks IH]; intros vs; [reflexivity|].
  destruct vs as [|v vs]; simpl; rewrite IH; reflexivity.
Qed.

Definition map_setres (r : setres V D K1) : setres V D K2 :=
  match r with
  | NotFound _ _ _ => NotFound _ _ _
  | AlreadySet _ _ _ => AlreadySet _ _ _
  | SetTo _ _ _ s => SetTo _ _ _ (map gs s)
  end.

Lemma set_slot_map name v s :
  set_slot V D K2 kname2 name v (map gs s) = map_setres (set_slot V D K1 kname1 name v s).
Proof.
  induction s as [|[k cur] r IH]; [reflexivity|].
  simpl. rewrite g_name. destruct (String.eqb name (kname1 k)).
  - destruct cur; reflexivity.
  - rewrite IH. destruct (set_slot V D K1 kname1 name v r); reflexivity.
Qed.

Lemma set_slot_keys (K : Type) (kn : K -> string) name v s s' :
  set_slot V D K kn name v s = SetTo _ _ _ s' -> map fst s' = map fst s.
Proof.
  revert s'. induction s as [|[k cur] r IH]; intros s' H; [discriminate|].
  simpl in H. destruct (String.eqb name (kn k)).
  - destruct cur; [discriminate|]. inversion H. reflexivity.
  - destruct (set_slot V D K kn name v r) as [| |s0] eqn:E; try discriminate. inversion H. simpl. rewrite (IH s0); reflexivity.
Qed.

Lemma bind_kws_map kws : forall named kwd hk,
  bind_kws V D K2 kname2 kws (map gs named) kwd hk =
  option_map (fun p => (map gs (fst p), snd p)) (bind_kws V D K1 kname1 kws named kwd hk).
Proof.
  induction kws as [|[k v] r IH]; intros named kwd hk; [reflexivity|].
  simpl. rewrite set_slot_map. destruct (set_slot V D K1 kname1 k v named); simpl.
  - destruct hk; [|reflexivity]. destruct (has_key V k kwd); [reflexivity | apply IH].
  - reflexivity.
  - apply IH.
Qed.

Lemma bind_kws_keys (K : Type) (kn : K -> string) kws : forall named kwd hk named' kwd',
  bind_kws V D K kn kws named kwd hk = Some (named', kwd') -> map fst named' = map fst named.
Proof.
  induction kws as [|[k v] r IH]; intros named kwd hk named' kwd' H.
  - inversion H. reflexivity.
  - simpl in H. destruct (set_slot V D K kn k v named) as [| |s] eqn:E.
    + destruct hk; [|discriminate]. destruct (has_key V k kwd); [discriminate|]. exact (IH _ _ _ _ _ H).
    + discriminate.
    + rewrite (IH _ _ _ _ _ H). exact (set_slot_keys K kn k v named s E).
Qed.

Lemma finish_map (d1 : K1 -> nat -> option D) (d2 : K2 -> nat -> option D) s : forall i,
  (forall j k, nth_error (map fst s) j = Some k -> d2 (g k) (i + j) = d1 k (i + j)) ->
  finish V D K2 kname2 d2 i (map gs s) = finish V D K1 kname1 d1 i s.
Proof.
  induction s as [|[k cur] r IH]; intros i H; [reflexivity|].
  simpl. rewrite g_name.
  assert (H0 : d2 (g k) i = d1 k i).
  { specialize (H 0 k eq_refl). rewrite Nat.add_0_r in H. exact H. }
  rewrite H0. rewrite (IH (S i)); [reflexivity|].
  intros j k' Hj. specialize (H (S j) k' Hj). rewrite <- plus_n_Sm in H. exact H.
Qed.

Lemma firstn_map {A B} (f : A -> B) n l : firstn n (map f l) = map f (firstn n l).
Proof. revert l. induction n; intros [|x l]; simpl; try reflexivity. rewrite IHn. reflexivity. Qed.
Lemma skipn_map {A B} (f : A -> B) n l : skipn n (map f l) = map f (skipn n l).
Proof. revert l. induction n; intros [|x l]; simpl; try reflexivity. apply IHn. Qed.

Theorem bind_with_natural posonly pos kwonly va kwa
        (dp1 dk1 : K1 -> nat -> option D) (dp2 dk2 : K2 -> nat -> option D) c :
  (forall i k, nth_error (posonly ++ pos) i = Some k -> dp2 (g k) i = dp1 k i) ->
  (forall i k, nth_error kwonly i = Some k -> dk2 (g k) i = dk1 k i) ->
  bind_with V D K2 kname2 (map g posonly) (map g pos) (map g kwonly) va kwa dp2 dk2 c =
  bind_with V D K1 kname1 posonly pos kwonly va kwa dp1 dk1 c.
Proof.
  intros Hp Hk. unfold bind_with. rewrite !map_length, <- map_app, fill_pos_map.
  rewrite firstn_map, skipn_map.
  set (filled := fill_pos V D K1 (posonly ++ pos) (c_pos V c)).
  replace (map (fun k : K2 => (k, @None (bval V D))) (map g kwonly))
    with (map gs (map (fun k : K1 => (k, @None (bval V D))) kwonly)) by (rewrite !map_map; reflexivity).
  rewrite <- map_app, bind_kws_map.
  destruct (bind_kws V D K1 kname1 (c_kw V c)
              (skipn (List.length posonly) filled ++ map (fun k => (k, None)) kwonly) []
              match kwa with Some _ => true | None => false end) as [[named kwd]|] eqn:Ekw; [|reflexivity].
  cbn [option_map fst snd]. unfold slot in *.
  assert (Hkeys : map fst named = pos ++ kwonly).
  { rewrite (bind_kws_keys K1 kname1 _ _ _ _ _ _ Ekw), map_app, map_map. cbn [fst]. rewrite map_id.
    rewrite <- skipn_map. unfold filled, slot. rewrite fill_pos_keys.
    rewrite skipn_app, Nat.sub_diag, skipn_all. reflexivity. }
  assert (Hfilled : map fst (firstn (List.length posonly) filled) = posonly).
  { rewrite <- firstn_map. unfold filled, slot. rewrite fill_pos_keys, firstn_app, Nat.sub_diag, firstn_all.
    cbn [firstn]. apply app_nil_r. }
  rewrite firstn_map, skipn_map, <- map_app.
  rewrite (finish_map dp1 dp2); [rewrite (finish_map dk1 dk2); [reflexivity|]|].
  - intros j k Hj. cbn [Nat.add]. apply Hk.
    rewrite <- skipn_map, Hkeys in Hj. rewrite skipn_app, Nat.sub_diag, skipn_all in Hj. exact Hj.
  - intros j k Hj. cbn [Nat.add]. apply Hp.
    rewrite map_app, Hfilled, <- firstn_map, Hkeys, firstn_app, Nat.sub_diag, firstn_all in Hj.
    cbn [firstn] in Hj. rewrite app_nil_r in Hj. exact Hj.
Qed.
End Natural.

(* ================================================================== *)
(* 2. The defaults alignment                                           *)
(* ================================================================== *)
Section Align.
Variable D : Type.
Local Notation param := (param D).
Local Notation no_default := (no_default D).
Local Notation pos_defaults := (pos_defaults D).

Lemma pos_defaults_app a b : pos_defaults (a ++ b) = pos_defaults a ++ pos_defaults b.
Proof.
  induction a as [|p a IH]; [reflexivity|]. simpl. destruct (p_default D p); simpl; rewrite IH; reflexivity.
Qed.

Lemma pos_defaults_length ps : List.length (pos_defaults ps) <= List.length ps.
Proof. induction ps as [|p ps IH]; simpl; [lia|]. destruct (p_default D p); simpl; lia. Qed.

(* the accepted positional parameters are: some without default, then only ones with a default *)
Lemma accepted_split ps : invalid_non_default D ps = None ->
  exists n d, ps = n ++ d /\ forallb no_default n = true /\ forallb (fun p => negb (no_default p)) d = true.
Proof.
  unfold invalid_non_default. induction ps as [|p ps IH]; intros H.
  - exists [], []. repeat split.
  - simpl in H. destruct (no_default p) eqn:E.
    + destruct (IH H) as [n [d [-> [Hn Hd]]]]. exists (p :: n), d. simpl. rewrite E, Hn. repeat split. exact Hd.
    + exists [], (p :: ps). split; [reflexivity|]. split; [reflexivity|].
      simpl in H. rewrite E in H. simpl. rewrite E. simpl.
      clear IH E. induction ps as [|q ps IH]; [reflexivity|].
      simpl in H. destruct (no_default q) eqn:Eq; [discriminate|]. simpl. rewrite Eq. simpl. exact (IH H).
Qed.

Lemma pos_defaults_none n : forallb no_default n = true -> pos_defaults n = [].
Proof.
  induction n as [|p n IH]; [reflexivity|]. simpl. unfold LambdaList.no_default at 1.
  destruct (p_default D p); simpl; [discriminate|]. exact IH.
Qed.

Lemma pos_defaults_all d : forallb (fun p => negb (no_default p)) d = true ->
  List.length (pos_defaults d) = List.length d /\
  forall i p, nth_error d i = Some p -> option_map Some (nth_error (pos_defaults d) i) = Some (p_default D p).
Proof.
  induction d as [|q d IH]; intros H.
  - split; [reflexivity|]. intros [|i] p Hp; discriminate.
  - simpl in H. unfold LambdaList.no_default in H at 1. destruct (p_default D q) as [x|] eqn:E; [|discriminate].
    simpl in H. destruct (IH H) as [L N]. simpl. rewrite E. simpl. split; [lia|].
    intros [|i] p Hp; simpl in *.
    + inversion Hp; subst. rewrite E. reflexivity.
    + exact (N i p Hp).
Qed.

(* CPython's rule "defaults[i - m]" recovers each parameter's own default *)
Theorem defaults_alignment ps : invalid_non_default D ps = None ->
  forall i p, nth_error ps i = Some p ->
  (if i <? List.length ps - List.length (pos_defaults ps) then None
   else nth_error (pos_defaults ps) (i - (List.length ps - List.length (pos_defaults ps)))) = p_default D p.
Proof.
  intros H i p Hp. destruct (accepted_split ps H) as [n [d [-> [Hn Hd]]]].
  rewrite pos_defaults_app, (pos_defaults_none n Hn). cbn [app].
  destruct (pos_defaults_all d Hd) as [L N]. rewrite app_length, L.
  replace (List.length n + List.length d - List.length d) with (List.length n) by lia.
  destruct (i <? List.length n) eqn:E.
  - apply Nat.ltb_lt in E. rewrite nth_error_app1 in Hp by exact E.
    assert (Hin : In p n) by (eapply nth_error_In; exact Hp).
    pose proof (proj1 (forallb_forall _ _) Hn p Hin) as Hnd. unfold LambdaList.no_default in Hnd.
    destruct (p_default D p); [discriminate | reflexivity].
  - apply Nat.ltb_ge in E. rewrite nth_error_app2 in Hp by exact E.
    specialize (N _ _ Hp). destruct (nth_error (pos_defaults d) (i - List.length n)); simpl in N; [|discriminate].
    inversion N. reflexivity.
Qed.
End Align.

(* ================================================================== *)
(* 3. ll_encoding_correct                                              *)
(* ================================================================== *)
Section Encoding.
Variables V D : Type.

Theorem ll_encoding_correct (r : rawll D) (a : arguments D) :
  compile_ll D r = inr a -> forall c : call V, py_bind V D a c = hy_bind_ref D V r c.
Proof.
  intros H c. unfold compile_ll in H.
  set (po := match r_posonly D r with Some l => l | None => [] end) in *.
  assert (Hpo : match r_posonly D r with Some [] => False | _ => True end).
  { destruct (r_posonly D r) as [[|x l]|]; [discriminate | exact I | exact I]. }
  assert (H' : match invalid_non_default D (po ++ r_args D r) with
               | Some _ => inl ENonDefaultAfterDefault
               | None => match r_rest D r, r_kwonly D r with
                         | RBare, [] => inl EBareStarNeedsNamed
                         | _, _ => inr {| posonlyargs := names_of D po; args := names_of D (r_args D r);
                                          defaults := pos_defaults D po ++ pos_defaults D (r_args D r);
                                          vararg := match r_rest D r with RVar n => Some n | _ => None end;
                                          kwonlyargs := names_of D (r_kwonly D r);
                                          kw_defaults := kw_defaults_of D (r_kwonly D r);
                                          kwarg := r_kwargs D r |}
                         end
               end = inr a).
  { destruct (r_posonly D r) as [[|x l]|]; [contradiction | exact H | exact H]. }
  clear H. destruct (invalid_non_default D (po ++ r_args D r)) eqn:Einv; [discriminate|].
  assert (Ha : a = {| posonlyargs := names_of D po; args := names_of D (r_args D r);
                      defaults := pos_defaults D po ++ pos_defaults D (r_args D r);
                      vararg := match r_rest D r with RVar n => Some n | _ => None end;
                      kwonlyargs := names_of D (r_kwonly D r);
                      kw_defaults := kw_defaults_of D (r_kwonly D r);
                      kwarg := r_kwargs D r |}).
  { destruct (r_rest D r); destruct (r_kwonly D r); try discriminate; inversion H'; reflexivity. }
  clear H'. subst a. unfold py_bind, hy_bind_ref. cbn [posonlyargs args defaults kwonlyargs kw_defaults vararg kwarg].
  fold po. unfold names_of, kw_defaults_of. rewrite !map_length, <- pos_defaults_app, <- app_length.
  pose proof (pos_defaults_length D (po ++ r_args D r)) as Hlen.
  replace (List.length (po ++ r_args D r) <? List.length (pos_defaults D (po ++ r_args D r))) with false
    by (symmetry; apply Nat.ltb_ge; exact Hlen).
  rewrite Nat.eqb_refl. cbn [orb negb].
  apply (bind_with_natural V D (param D) string (p_name D) (fun s => s) (p_name D) (fun _ => eq_refl)).
  - intros i k Hk. exact (defaults_alignment D _ Einv i k Hk).
  - intros i k Hk. rewrite nth_error_map, Hk. cbn [option_map]. destruct (p_default D k); reflexivity.
Qed.

(* a list that compiles yields a well-formed node: never BadAST *)
Theorem compiled_arguments_wellformed (r : rawll D) (a : arguments D) :
  compile_ll D r = inr a -> forall c : call V, py_bind V D a c <> BadAST.
Proof.
  intros H c. rewrite (ll_encoding_correct r a H c). unfold hy_bind_ref, bind_with.
  repeat match goal with
         | |- context [match ?x with _ => _ end] => destruct x
         end; discriminate.
Qed.
End Encoding.

(* ================================================================== *)
(* 4. ll_rejects                                                       *)
(* ================================================================== *)
Section Rejects.
Variable D : Type.

Lemma go_true l :
  (fix go (seen : bool) (l : list (param D)) : bool :=
     match l with [] => false | p :: r => if no_default D p then (seen || go seen r) else go true r end) true l
  = existsb (no_default D) l.
Proof. induction l as [|p r IH]; [reflexivity|]. simpl. destruct (no_default D p); [reflexivity | exact IH]. Qed.

Lemma find_existsb {A} (f : A -> bool) l : (match find f l with Some _ => true | None => false end) = existsb f l.
Proof. induction l as [|x r IH]; [reflexivity|]. simpl. destruct (f x); [reflexivity | exact IH]. Qed.

Lemma invalid_iff ps :
  (match invalid_non_default D ps with Some _ => true | None => false end) = some_default_before_plain D ps.
Proof.
  unfold invalid_non_default, some_default_before_plain. induction ps as [|p r IH]; [reflexivity|].
  simpl. destruct (no_default D p) eqn:E.
  - exact IH.
  - rewrite go_true. simpl. rewrite E. apply find_existsb.
Qed.

(* a syntax error is raised exactly when Python rejects the equivalent def *)
Theorem ll_rejects (r : rawll D) :
  (exists e, compile_ll D r = inl e) <-> py_def_rejects D r = true.
Proof.
  unfold compile_ll, py_def_rejects.
  set (po := match r_posonly D r with Some l => l | None => [] end).
  rewrite <- invalid_iff. fold po.
  destruct (r_posonly D r) as [[|x l]|] eqn:Epo.
  - split; [reflexivity | intros _; eexists; reflexivity].
  - cbn [orb]. destruct (invalid_non_default D (po ++ r_args D r)).
    + split; [reflexivity | intros _; eexists; reflexivity].
    + cbn [orb]. destruct (r_rest D r); destruct (r_kwonly D r); split;
        first [reflexivity | intros [e He]; discriminate | intros Hf; discriminate | intros _; eexists; reflexivity].
  - cbn [orb]. destruct (invalid_non_default D (po ++ r_args D r)).
    + split; [reflexivity | intros _; eexists; reflexivity].
    + cbn [orb]. destruct (r_rest D r); destruct (r_kwonly D r); split;
        first [reflexivity | intros [e He]; discriminate | intros Hf; discriminate | intros _; eexists; reflexivity].
Qed.

(* which error, with the compiler's precedence *)
Theorem ll_rejects_which (r : rawll D) (e : llerr) :
  compile_ll D r = inl e ->
  match e with
  | ENothingBeforeSlash => r_posonly D r = Some []
  | ENonDefaultAfterDefault =>
      some_default_before_plain D (match r_posonly D r with Some l => l | None => [] end ++ r_args D r) = true
  | EBareStarNeedsNamed => r_rest D r = RBare /\ r_kwonly D r = []
  end.
Proof.
  unfold compile_ll. rewrite <- invalid_iff.
  destruct (r_posonly D r) as [[|x l]|]; intros H.
  - inversion H. reflexivity.
  - destruct (invalid_non_default D _); [inversion H; reflexivity|].
    destruct (r_rest D r); destruct (r_kwonly D r); try discriminate. inversion H. split; reflexivity.
  - destruct (invalid_non_default D _); [inversion H; reflexivity|].
    destruct (r_rest D r); destruct (r_kwonly D r); try discriminate. inversion H. split; reflexivity.
Qed.
End Rejects.

(* ================================================================== *)
(* 5. The grammar: what parse_ll accepts, and that it inverts printing *)
(* ================================================================== *)
Section Grammar.
Variable D : Type.

Definition param_tok (p : param D) : tok D := TArg (p_name D p) (p_default D p) false.

(* the token list a parse tree is written as *)
Definition unparse (r : rawll D) : list (tok D) :=
  match r_posonly D r with Some l => map param_tok l ++ [TSlash] | None => [] end
  ++ map param_tok (r_args D r)
  ++ match r_rest D r with RNone => [] | RBare => [TStar] | RVar n => [TUnpackIter n false] end
  ++ map param_tok (r_kwonly D r)
  ++ match r_kwargs D r with Some n => [TUnpackMap n false] | None => [] end.

Lemma span_args_params ps rest :
  match rest with TArg _ _ _ :: _ => False | _ => True end ->
  span_args D (map param_tok ps ++ rest) = (ps, rest).
Proof.
  intros H. induction ps as [|p ps IH].
  - simpl. destruct rest as [|[] rest]; try reflexivity. contradiction.
  - simpl. rewrite IH. destruct p; reflexivity.
Qed.

(* every parse tree without keyword-only parameters after "no rest" is read back from its own text *)
Theorem parse_unparse (r : rawll D) :
  (r_rest D r = RNone -> r_kwonly D r = []) -> parse_ll D (unparse r) = Some r.
Proof.
  intros Hk. unfold parse_ll, unparse. destruct r as [po ar re kw kwa]. cbn [r_posonly r_args r_rest r_kwonly r_kwargs] in *.
  assert (Tail : forall pre, span_args D (map param_tok pre ++
            match kwa with Some n => [TUnpackMap n false] | None => [] end) =
            (pre, match kwa with Some n => [TUnpackMap n false] | None => [] end)).
  { intros pre. apply span_args_params. destruct kwa; exact I. }
  assert (Mid : forall pre, span_args D (map param_tok pre ++
            match re with RNone => [] | RBare => [TStar] | RVar n => [TUnpackIter n false] end ++
            map param_tok kw ++ match kwa with Some n => [TUnpackMap n false] | None => [] end) =
            (match re with RNone => pre ++ kw | _ => pre end,
             match re with RNone => [] | RBare => [TStar] | RVar n => [TUnpackIter n false] end ++
             match re with RNone => [] | _ => map param_tok kw end ++
             match kwa with Some n => [TUnpackMap n false] | None => [] end)).
  { intros pre. destruct re.
    - cbn [app]. rewrite app_assoc, <- map_app. apply Tail.
    - apply span_args_params. exact I.
    - apply span_args_params. exact I. }
  destruct po as [po|].
  - rewrite <- app_assoc. rewrite span_args_params by exact I. cbn [app]. rewrite Mid.
    destruct re.
    + rewrite (Hk eq_refl), app_nil_r. cbn [app]. destruct kwa; reflexivity.
    + cbn [app]. rewrite Tail. destruct kwa; reflexivity.
    + cbn [app]. rewrite Tail. destruct kwa; reflexivity.
  - cbn [app]. rewrite Mid. destruct re.
    + rewrite (Hk eq_refl), app_nil_r. cbn [app]. destruct kwa; reflexivity.
    + cbn [app]. rewrite Tail. destruct kwa; reflexivity.
    + cbn [app]. rewrite Tail. destruct kwa; reflexivity.
Qed.
End Grammar.

(* ================================================================== *)
(* 6. _compile_collect                                                 *)
(* ================================================================== *)
Section CollectProofs.
Variable E : Type.
Variable kw_obj : string -> E.
Variable mangle : string -> string.
Local Notation collect := (collect E kw_obj mangle).
Local Notation roles := (roles E kw_obj mangle).

(* no dangling keyword at the end and no empty keyword *)
Fixpoint well_formed (l : list (aform E)) : bool :=
  match l with
  | [] => true
  | AKeyword n :: r =>
      match r with
      | [] => false
      | _ :: r' => negb (String.eqb n EmptyString) && well_formed r'
      end
  | _ :: r => well_formed r
  end.

Lemma collect_ind (P : list (aform E) -> Prop) :
  P [] ->
  (forall e r, P r -> P (AUnpackMap e :: r)) ->
  (forall e r, P r -> P (AOther e :: r)) ->
  (forall n, P [AKeyword n]) ->
  (forall n v r, P r -> P (AKeyword n :: v :: r)) ->
  forall l, P l.
Proof.
  intros H0 H1 H2 H3 H4 l.
  assert (G : forall n l, List.length l <= n -> P l).
  { induction n as [|n IH]; intros [|a r] Hl; try exact H0; try (simpl in Hl; lia).
    destruct a.
    - destruct r as [|v r']; [apply H3 | apply H4; apply IH; simpl in Hl; lia].
    - apply H1. apply IH. simpl in Hl. lia.
    - apply H2. apply IH. simpl in Hl. lia. }
  exact (G (List.length l) l (le_n _)).
Qed.

(* positional expressions and keywords are the two order-preserving sub-lists of the argument forms *)
Theorem collect_stable_partition l :
  match collect l with
  | inr (ps, ks) => well_formed l = true /\ ps = positionals E (roles l) /\ ks = keywords E (roles l)
  | inl _ => well_formed l = false
  end.
Proof.
  induction l using collect_ind.
  - simpl. repeat split.
  - simpl. destruct (collect l) as [x|[ps ks]]; [exact IHl|].
    destruct IHl as [W [-> ->]]. repeat split. exact W.
  - simpl. destruct (collect l) as [x|[ps ks]]; [exact IHl|].
    destruct IHl as [W [-> ->]]. repeat split. exact W.
  - reflexivity.
  - cbn [LambdaList.collect well_formed LambdaList.roles]. destruct (String.eqb n EmptyString); [reflexivity|].
    cbn [negb andb]. destruct (collect l) as [x|[ps ks]]; [exact IHl|].
    destruct IHl as [W [-> ->]]. repeat split. exact W.
Qed.

(* every form is accounted for: positional, keyword (with its value), or the keyword marker itself *)
Theorem roles_cover l : well_formed l = true -> List.length (roles l) = List.length l.
Proof.
  induction l using collect_ind; intros W; simpl in *; try discriminate; try reflexivity.
  - rewrite IHl; [reflexivity | exact W].
  - rewrite IHl; [reflexivity | exact W].
  - apply andb_true_iff in W. rewrite IHl; [reflexivity | apply W].
Qed.
End CollectProofs.

(* ================================================================== *)
(* 7. Function bodies                                                  *)
(* ================================================================== *)

(* the statements the forms before the last one contribute *)
Fixpoint branch_prefix (body : list bform) : list bstmt :=
  match body with
  | [] => []
  | f :: rest => r_stmts (compile_bform f) ++ expr_as_stmt (compile_bform f) ++ branch_prefix rest
  end.

Lemma compile_branch_snoc body f :
  compile_branch (body ++ [f]) =
  {| r_stmts := branch_prefix body ++ r_stmts (compile_bform f); r_expr := r_expr (compile_bform f) |}.
Proof.
  induction body as [|g body IH].
  - simpl. destruct (compile_bform f). reflexivity.
  - cbn [app]. change (compile_branch (g :: body ++ [f])) with
      (match body ++ [f] with
       | [] => compile_bform g
       | _ :: _ => {| r_stmts := r_stmts (compile_bform g) ++ expr_as_stmt (compile_bform g)
                                 ++ r_stmts (compile_branch (body ++ [f]));
                      r_expr := r_expr (compile_branch (body ++ [f])) |}
       end).
    destruct (body ++ [f]) eqn:E; [destruct body; discriminate|].
    rewrite IH. cbn [r_stmts r_expr branch_prefix]. rewrite <- !app_assoc. reflexivity.
Qed.

(* implicit return: the body ends in Return(<expression of the last form>) -- Expr(...) in an async generator --
   after the statements of every form in order *)
Theorem implicit_return async_gen body f :
  function_body async_gen (body ++ [f]) =
  match branch_prefix body ++ r_stmts (compile_bform f)
        ++ match r_expr (compile_bform f) with
           | Some e => [if async_gen then SExpr e else SReturn e]
           | None => []
           end with
  | [] => [SPass]
  | s => s
  end.
Proof.
  unfold function_body. rewrite compile_branch_snoc. cbn [r_stmts r_expr]. rewrite <- app_assoc.
  match goal with |- match ?x with _ => _ end = _ => destruct x end; reflexivity.
Qed.

Theorem empty_body async_gen : function_body async_gen [] = [SPass].
Proof. reflexivity. Qed.

Definition is_str_expr (s : bstmt) : bool := match s with SExpr (EStr _) => true | _ => false end.

(* a first form is "clean" if it is a string literal, or the first statement it gives rise to is not a bare string *)
Definition clean_first (f : bform) : bool :=
  match f with
  | BStrLit _ => true
  | BForm res =>
      match r_stmts res ++ expr_as_stmt res with
      | s :: _ => negb (is_str_expr s)
      | [] => false
      end
  end.

Definition docstring_rule_full : Prop :=
  forall body, py_docstring (function_body false body) = doc_rule body.

Lemma function_body_cons ag f g rest :
  exists tl, function_body ag (f :: g :: rest) = r_stmts (compile_bform f) ++ expr_as_stmt (compile_bform f) ++ tl.
Proof.
  unfold function_body.
  change (compile_branch (f :: g :: rest)) with
    {| r_stmts := r_stmts (compile_bform f) ++ expr_as_stmt (compile_bform f) ++ r_stmts (compile_branch (g :: rest));
       r_expr := r_expr (compile_branch (g :: rest)) |}.
  cbn [r_stmts r_expr].
  set (tail := match r_expr (compile_branch (g :: rest)) with Some e => [if ag then SExpr e else SReturn e] | None => [] end).
  destruct ((r_stmts (compile_bform f) ++ expr_as_stmt (compile_bform f) ++ r_stmts (compile_branch (g :: rest))) ++ tail) eqn:E.
  - apply app_eq_nil in E. destruct E as [E1 _]. apply app_eq_nil in E1. destruct E1 as [E1 E2].
    apply app_eq_nil in E2. destruct E2 as [E2 _]. rewrite E1, E2. exists [SPass]. reflexivity.
  - rewrite <- E. exists (r_stmts (compile_branch (g :: rest)) ++ tail). rewrite <- !app_assoc. reflexivity.
Qed.

Theorem docstring_rule_partial ag f rest :
  clean_first f = true -> (ag = false \/ rest <> []) ->
  py_docstring (function_body ag (f :: rest)) = doc_rule (f :: rest).
Proof.
  intros Hc Hag. destruct rest as [|g rest].
  - (* a single form: it is returned, never a docstring *)
    destruct Hag as [->|Hne]; [|congruence].
    unfold function_body. cbn [compile_branch]. destruct f as [s|res].
    + reflexivity.
    + cbn [compile_bform doc_rule]. unfold clean_first in Hc. unfold expr_as_stmt in Hc.
      destruct res as [st ex]. cbn [r_stmts r_expr] in *.
      destruct st as [|s0 st].
      * destruct ex as [[s| n| n]|]; try reflexivity; cbn in Hc; discriminate.
      * cbn [app] in Hc. destruct ex; cbn [app]; destruct s0 as [[]| | |]; try reflexivity; discriminate.
  - destruct (function_body_cons ag f g rest) as [tl ->].
    destruct f as [s|res].
    + reflexivity.
    + cbn [compile_bform doc_rule]. unfold clean_first in Hc. rewrite app_assoc.
      destruct (r_stmts res ++ expr_as_stmt res) as [|s0 l]; [discriminate|].
      cbn [app]. destruct s0 as [[]| | |]; try reflexivity. discriminate.
Qed.

(* (defn f [] (do "x") 1): the first form is not a string literal, yet the function gets a docstring *)
Theorem docstring_rule_refuted : ~ docstring_rule_full.
Proof.
  intros H.
  specialize (H [BForm {| r_stmts := []; r_expr := Some (EStr "x") |};
                 BForm {| r_stmts := []; r_expr := Some (EOtherExpr 0) |}]).
  vm_compute in H. discriminate.
Qed.
