(* C03 correspondence instance: a SYMBOLIC interpretation of Python's operators
   (results are the terms that were computed; chosen terms raise, chosen terms
   are falsy).  props/c03.py runs the model under this interpretation with
   Eval vm_compute and runs the real macros / hy.pyops functions on Python
   objects that implement the same interpretation; the outputs must coincide.
   Nothing here is used by the theorems. *)
From HyV Require Import Ops.OpSyntax Gen.OpTables Ops.Operators.
Close Scope string_scope.

Inductive sterm :=
| SLeaf (n : nat)
| SConst (k : pconst)
| SBin (m : mop) (a b : sterm)
| SUn (u : uop) (a : sterm)
| SCmp (c : cop) (a b : sterm).

Fixpoint sterm_eqb (x y : sterm) : bool :=
  match x, y with
  | SLeaf a, SLeaf b => Nat.eqb a b
  | SConst a, SConst b => pconst_eqb a b
  | SBin m a1 a2, SBin n b1 b2 => mop_eqb m n && sterm_eqb a1 b1 && sterm_eqb a2 b2
  | SUn u a, SUn v b => uop_eqb u v && sterm_eqb a b
  | SCmp c a1 a2, SCmp d b1 b2 => cop_eqb c d && sterm_eqb a1 b1 && sterm_eqb a2 b2
  | _, _ => false
  end.

Fixpoint index_of (t : sterm) (l : list sterm) (i : nat) : option nat :=
  match l with
  | [] => None
  | x :: r => if sterm_eqb t x then Some i else index_of t r (S i)
  end.

Section Sym.
Variable bad : list sterm.     (* computing the i-th of these raises exception number i *)
Variable falsy : list sterm.   (* these are falsy; every other symbolic term is truthy *)

Definition mk (t : sterm) : out nat sterm :=
  match index_of t bad 0 with Some i => Exn i | None => Val t end.

Definition s_truthy (t : sterm) : out nat bool :=
  match t with
  | SConst KTrue => Val true
  | SConst KFalse => Val false
  | SConst KNone => Val false
  | SConst (KInt z) => Val (negb (Z.eqb z 0))
  | _ => Val (negb (existsb (sterm_eqb t) falsy))
  end.

Definition s_bool (b : bool) : sterm := SConst (if b then KTrue else KFalse).

Definition s_binop (m : mop) (a b : sterm) : out nat sterm := mk (SBin m a b).
(* not x is bool-valued; the other unary operators are overloaded *)
Definition s_unop (u : uop) (a : sterm) : out nat sterm :=
  match u with
  | Not => bind (s_truthy a) (fun t => Val (s_bool (negb t)))
  | _ => mk (SUn u a)
  end.
(* is / is not: identity of the operand objects (distinct leaves are distinct objects);
   in / not in: bool(container.__contains__(item)); the six rich comparisons are overloaded *)
Definition s_cmpop (c : cop) (a b : sterm) : out nat sterm :=
  match c with
  | CIs => Val (s_bool (sterm_eqb a b))
  | CIsNot => Val (s_bool (negb (sterm_eqb a b)))
  | CIn => bind (mk (SCmp CIn a b)) (fun t => bind (s_truthy t) (fun v => Val (s_bool v)))
  | CNotIn => bind (mk (SCmp CIn a b)) (fun t => bind (s_truthy t) (fun v => Val (s_bool (negb v))))
  | _ => mk (SCmp c a b)
  end.

Definition sym_macro (name : string) (vs : list sterm) : out nat sterm :=
  macro_vals sterm nat s_binop s_unop s_cmpop s_truthy SConst name vs.
(* exception number 999 = TypeError of a call with the wrong number of arguments *)
Definition sym_call (name : string) (vs : list sterm) : out nat sterm :=
  call_pyops sterm nat s_binop s_unop s_cmpop s_truthy SConst 999 name vs.
Definition sym_doc (name : string) (vs : list sterm) : out nat sterm :=
  match doc_expansion name (map PLeaf vs) with
  | Some e => fst (peval sterm nat s_binop s_unop s_cmpop s_truthy SConst Val e)
  | None => Stuck
  end.
End Sym.
