(* C03 model: the operator macros of hy/core/result_macros.py over the
   regenerated tables, the pattern_macro wrapper with its shadow fallback,
   the hy.pyops functions (interpreter for the regenerated defop bodies),
   the documented Python expansions, and Python's evaluation of the emitted
   expressions for an ABSTRACT interpretation of the operators.
   No proofs here (Ops/OperatorsProofs.v). *)
From HyV Require Import Ops.OpSyntax Gen.OpTables.
Close Scope string_scope.

(* ------------------------------------------------------------------ *)
(* 1. The macro compilers (result_macros.py)                           *)
(* ------------------------------------------------------------------ *)

(* install_macro overwrites: the decorator installed last under a name wins *)
Definition has_name (name : string) (d : decorator) : bool := existsb (String.eqb name) (d_names d).
Definition find_decorator_in (ds : list decorator) (name : string) : option decorator :=
  fold_left (fun acc d => if has_name name d then Some d else acc) ds None.
Definition find_decorator := find_decorator_in decorators.

(* whole([FORM ..., rep(FORM)]) accepts n forms *)
Definition arity_ok (d : decorator) (n : nat) : bool :=
  (d_lead d + d_lo d <=? n) && match d_hi d with None => true | Some h => n <=? d_lead d + h end.

Section Compile.
Context {L : Type}.

(* for child in args[1:]: ret = BinOp(ret, op, child) *)
Fixpoint fold_left_bin (m : mop) (acc : pexpr L) (rest : list (pexpr L)) : pexpr L :=
  match rest with
  | [] => acc
  | x :: r => fold_left_bin m (PBin acc m x) r
  end.
(* ret = args[-1]; for child in args[-2::-1]: ret = BinOp(child, op, ret) *)
Fixpoint fold_rev_bin (m : mop) (acc : pexpr L) (rev_rest : list (pexpr L)) : pexpr L :=
  match rev_rest with
  | [] => acc
  | x :: r => fold_rev_bin m (PBin x m acc) r
  end.

Definition maths_fold (root : string) (args : list (pexpr L)) : option (pexpr L) :=
  match lookup root m_ops with
  | None => None
  | Some (m, _) =>
      if String.eqb root right_assoc_root
      then match rev args with last :: r => Some (fold_rev_bin m last r) | [] => None end
      else match args with first :: r => Some (fold_left_bin m first r) | [] => None end
  end.

Definition compile_maths (root : string) (args : list (pexpr L)) : option (pexpr L) :=
  match args with
  | [] => option_map (fun z => PConst (KInt z)) (lookup root identity_elements)
  | [a] =>
      if String.eqb root recip_root then maths_fold root [PConst (KInt recip_numerator); a]
      else if existsb (String.eqb root) unary_root_names
           then option_map (fun u => PUn u a) (lookup root unary_root_ops)
           else Some a
  | _ => maths_fold root args
  end.

(* one argument: the argument's expression is replaced by the constant *)
Definition compile_compare (root : string) (args : list (pexpr L)) : option (pexpr L) :=
  match args with
  | [] => None
  | [_] => Some (PConst compare_unary_result)
  | a :: rest =>
      match lookup root c_ops with
      | Some c => Some (PCmp a (map (fun x => (c, x)) rest))
      | None => None
      end
  end.

(* (chainc a op1 b op2 c ...): the pattern is [FORM, oneplus(SYM + FORM)], so a call with no
   operator-operand pair is a syntax error *)
Definition compile_chainc (a : pexpr L) (rest : list (string * pexpr L)) : option (pexpr L) :=
  match rest with [] => None | _ =>
  (fix go (rest : list (string * pexpr L)) (acc : list (cop * pexpr L)) : option (pexpr L) :=
     match rest with
     | [] => Some (PCmp a (rev acc))
     | (s, e) :: r => match lookup s c_ops with Some c => go r ((c, e) :: acc) | None => None end
     end) rest []
  end.

Definition compile_unary (root : string) (a : pexpr L) : option (pexpr L) :=
  option_map (fun u => PUn u a) (lookup root unary_operator_ops).

(* the macro `name` applied to compiled operands (no unpacking among them):
   None = syntax error (pattern does not parse) or an internal lookup failure *)
Definition compile_op (name : string) (args : list (pexpr L)) : option (pexpr L) :=
  match find_decorator name with
  | None => None
  | Some d =>
      if arity_ok d (List.length args) then
        match d_handler d with
        | HUnary => match args with [a] => compile_unary name a | _ => None end
        | HCompare => compile_compare name args
        | HMaths => compile_maths name args
        | HAug => None
        end
      else None
  end.

(* (op= target v1 .. vn): n > 1 re-enters with (op= target (agg v1 .. vn)) *)
Definition compile_aug (root : string) (target : L) (values : list (pexpr L)) : option (pstmt L) :=
  match find_decorator root with
  | Some d =>
      match d_handler d with
      | HAug =>
          if arity_ok d (1 + List.length values) then
            match lookup root a_ops, values with
            | Some (m, _), [v] => Some (PAug target m v)
            | Some (m, Some agg), _ :: _ :: _ => option_map (PAug target m) (compile_op agg values)
            | _, _ => None
            end
          else None
      | _ => None
      end
  | None => None
  end.

End Compile.

(* ------------------------------------------------------------------ *)
(* 2. The pattern_macro wrapper on Hy forms (macros.py)                *)
(* ------------------------------------------------------------------ *)

Inductive form := FSym (s : string) | FOperand (i : nat) | FExpr (items : list form).

(* is_unpack(kind, x) *)
Definition is_unpack (kind : string) (f : form) : bool :=
  match f with
  | FExpr (FSym s :: _) => String.eqb s (String.append "unpack-"%string kind)
  | _ => false
  end.

Inductive expansion :=
| ExpandTo (f : form)                                   (* the wrapper returned a model: expanded again *)
| Handle (h : handler) (name : string) (args : list form)   (* pattern parsed; fn(compiler, expr, name, *parse_tree) *)
| SyntaxErr.

Definition wrapper (d : decorator) (name : string) (args : list form) : expansion :=
  if d_shadow d && existsb (is_unpack "iterable"%string) args
  then ExpandTo (FExpr (FExpr (map FSym (shadow_path ++ [name])) :: args))
  else if arity_ok d (List.length args) then Handle (d_handler d) name args else SyntaxErr.

Definition expand_macro (name : string) (args : list form) : option expansion :=
  option_map (fun d => wrapper d name args) (find_decorator name).

(* ------------------------------------------------------------------ *)
(* 3. Evaluation, for an abstract interpretation of the operators      *)
(* ------------------------------------------------------------------ *)

Section Sem.
Variable val exn : Type.

Inductive out (A : Type) := Val (a : A) | Exn (e : exn) | Stuck.
Arguments Val {A} _.
Arguments Exn {A} _.
Arguments Stuck {A}.

Definition bind {A B} (o : out A) (f : A -> out B) : out B :=
  match o with Val a => f a | Exn e => Exn e | Stuck => Stuck end.

Variable binop : mop -> val -> val -> out val.      (* BinOp; operator.add ... *)
Variable iop : mop -> val -> val -> out val.        (* AugAssign's in-place operation *)
Variable unop : uop -> val -> out val.
Variable cmpop : cop -> val -> val -> out val.      (* one comparison; operator.lt ...; x in y *)
Variable truthy : val -> out bool.
Variable konst : pconst -> val.
Variable type_error : exn.                          (* wrong number of arguments; reduce() of an empty sequence *)
Variable iterate : val -> out (list val).           (* what * unpacking of a value yields *)

(* Python evaluation of a macro's output; the trace lists the leaves evaluated, in order *)
Section PEval.
Context {L : Type}.
Variable leaf : L -> out val.

Fixpoint peval (e : pexpr L) : out val * list L :=
  match e with
  | PLeaf l => (leaf l, [l])
  | PConst k => (Val (konst k), [])
  | PUn u a => let (r, t) := peval a in (bind r (unop u), t)
  | PBin a m b =>
      let (ra, ta) := peval a in
      match ra with
      | Val va => let (rb, tb) := peval b in (bind rb (binop m va), ta ++ tb)
      | Exn e => (Exn e, ta)
      | Stuck => (Stuck, ta)
      end
  | PCmp a rest =>
      let (ra, ta) := peval a in
      match ra with
      | Val va =>
          (fix chain (left : val) (rest : list (cop * pexpr L)) (t : list L) : out val * list L :=
             match rest with
             | [] => (Stuck, t)
             | (c, b) :: rest' =>
                 let (rb, tb) := peval b in
                 match rb with
                 | Val vb =>
                     match cmpop c left vb with
                     | Val r =>
                         match rest' with
                         | [] => (Val r, t ++ tb)
                         | _ :: _ =>
                             match truthy r with
                             | Val true => chain vb rest' (t ++ tb)
                             | Val false => (Val r, t ++ tb)
                             | Exn e => (Exn e, t ++ tb)
                             | Stuck => (Stuck, t ++ tb)
                             end
                         end
                     | Exn e => (Exn e, t ++ tb)
                     | Stuck => (Stuck, t ++ tb)
                     end
                 | Exn e => (Exn e, t ++ tb)
                 | Stuck => (Stuck, t ++ tb)
                 end
             end) va rest ta
      | Exn e => (Exn e, ta)
      | Stuck => (Stuck, ta)
      end
  end.

(* x op= value for a name target: load, evaluate the value, in-place operation *)
Definition aug_exec (load : L -> out val) (s : pstmt L) : out val * list L :=
  match s with
  | PAug t m e =>
      match load t with
      | Val old => let (r, tr) := peval e in (bind r (iop m old), tr)
      | Exn x => (Exn x, [])
      | Stuck => (Stuck, [])
      end
  end.
End PEval.

(* the macro `name` applied to operands that are values *)
Definition macro_vals (name : string) (vs : list val) : out val :=
  match compile_op name (map PLeaf vs) with
  | Some e => fst (peval Val e)
  | None => Stuck
  end.

(* ---- the hy.pyops functions ---- *)

Definition apply_fn (f : opfn) (a b : val) : out val :=
  match f with FBin m => binop m a b | FCmp c => cmpop c a b end.

(* functools.reduce *)
Fixpoint reduce_from (f : val -> val -> out val) (acc : val) (xs : list val) : out val :=
  match xs with
  | [] => Val acc
  | x :: r => bind (f acc x) (fun a => reduce_from f a r)
  end.
Definition reduce (f : val -> val -> out val) (xs : list val) (init : option val) : out val :=
  match init, xs with
  | Some i, _ => reduce_from f i xs
  | None, x :: r => reduce_from f x r
  | None, [] => Exn type_error
  end.
(* (defn _foldr [f xs] (reduce (fn [x y] (f y x)) (cut xs None None -1))) *)
Definition foldr_py (f : val -> val -> out val) (xs : list val) : out val :=
  reduce (fun x y => f y x) (rev xs) None.

(* the generator of comp-op, fully unpacked by #* before `and` sees anything *)
Fixpoint pairwise (f : val -> val -> out val) (left : val) (rest : list val) : out (list val) :=
  match rest with
  | [] => Val []
  | x :: r => bind (f left x) (fun c => bind (pairwise f x r) (fun cs => Val (c :: cs)))
  end.
(* hy.pyops.and on one or more values: (reduce (fn [x y] (and x y)) args) *)
Definition and2 (x y : val) : out val := bind (truthy x) (fun b => Val (if b then y else x)).
Definition and_fn (args : list val) : out val :=
  match args with
  | [] => Val (konst KTrue)
  | [x] => Val x
  | _ => reduce and2 args None
  end.
(* (if a-rest (and #* (gfor #(x y) (zip (+ #(a1) a-rest) a-rest) (op x y))) True) *)
Definition comp_op (f : val -> val -> out val) (a1 : val) (rest : list val) : out val :=
  match rest with
  | [] => Val (konst KTrue)
  | _ => bind (pairwise f a1 rest) and_fn
  end.

(* values of the body language: a Python value, a tuple of them, a length test's result *)
Inductive dv := DV (v : val) | DT (l : list val) | DB (b : bool).
Definition henv := list (string * dv).

Definition as_val (o : out dv) : out val :=
  bind o (fun d => match d with DV v => Val v | _ => Stuck end).
Definition as_tup (o : out dv) : out (list val) :=
  bind o (fun d => match d with DT l => Val l | _ => Stuck end).
Definition dv_truthy (d : dv) : out bool :=
  match d with
  | DV v => truthy v
  | DT l => Val (match l with [] => false | _ => true end)
  | DB b => Val b
  end.

Fixpoint heval (E : henv) (e : hx) : out dv :=
  match e with
  | XInt z => Val (DV (konst (KInt z)))
  | XTrue => Val (DV (konst KTrue))
  | XNone => Val (DV (konst KNone))
  | XVar x => match lookup x E with Some d => Val d | None => Stuck end
  | XIf c t f =>
      bind (heval E c) (fun d => bind (dv_truthy d) (fun b => if b then heval E t else heval E f))
  | XLenEq x n =>
      match lookup x E with Some (DT l) => Val (DB (Nat.eqb (List.length l) n)) | _ => Stuck end
  | XGet0 x =>
      match lookup x E with Some (DT (v :: _)) => Val (DV v) | _ => Stuck end
  | XMacro1 name a =>
      bind (as_val (heval E a)) (fun va => bind (macro_vals name [va]) (fun r => Val (DV r)))
  | XMacro2 name a b =>
      bind (as_val (heval E a)) (fun va => bind (as_val (heval E b)) (fun vb =>
        bind (macro_vals name [va; vb]) (fun r => Val (DV r))))
  | XReduce f xs =>
      bind (as_tup (heval E xs)) (fun l => bind (reduce (apply_fn f) l None) (fun r => Val (DV r)))
  | XReduce3 f xs i =>
      bind (as_tup (heval E xs)) (fun l => bind (as_val (heval E i)) (fun vi =>
        bind (reduce (apply_fn f) l (Some vi)) (fun r => Val (DV r))))
  | XFoldr f xs =>
      bind (as_tup (heval E xs)) (fun l => bind (foldr_py (apply_fn f) l) (fun r => Val (DV r)))
  | XTupCat1 a rest =>
      bind (as_val (heval E a)) (fun va => bind (as_tup (heval E rest)) (fun l => Val (DT (va :: l))))
  | XTupCat2 a b rest =>
      bind (as_val (heval E a)) (fun va => bind (as_val (heval E b)) (fun vb =>
        bind (as_tup (heval E rest)) (fun l => Val (DT (va :: vb :: l)))))
  | XCompOp f a1 rest =>
      bind (as_val (heval E a1)) (fun va => bind (as_tup (heval E rest)) (fun l =>
        bind (comp_op (apply_fn f) va l) (fun r => Val (DV r))))
  end.

(* binding of a positional call to [p1 .. pk] / [p1 .. pk #* rest] *)
Definition bind_params (ps : list string) (rest : option string) (vs : list val) : option henv :=
  if List.length vs <? List.length ps then None
  else
    let front := firstn (List.length ps) vs in
    let back := skipn (List.length ps) vs in
    match rest, back with
    | None, _ :: _ => None
    | None, [] => Some (combine ps (map DV front))
    | Some r, _ => Some (combine ps (map DV front) ++ [(r, DT back)])
    end.

Definition call_def (d : defop) (vs : list val) : out val :=
  match bind_params (f_params d) (f_rest d) vs with
  | None => Exn type_error
  | Some E => as_val (heval E (f_body d))
  end.

Definition find_def_in (ds : list defop) (name : string) : option defop :=
  find (fun d => String.eqb name (f_name d)) ds.
Definition find_def := find_def_in pyops_defs.

Definition call_pyops (name : string) (vs : list val) : out val :=
  match find_def name with Some d => call_def d vs | None => Stuck end.

(* a function call f(a, *b, c): arguments left to right, starred ones iterated *)
Inductive carg (L : Type) := CPlain (l : L) | CStar (l : L).
Arguments CPlain {L} _.
Arguments CStar {L} _.
Fixpoint eval_cargs {L} (leaf : L -> out val) (args : list (carg L)) : out (list val) :=
  match args with
  | [] => Val []
  | CPlain l :: r => bind (leaf l) (fun v => bind (eval_cargs leaf r) (fun vs => Val (v :: vs)))
  | CStar l :: r => bind (leaf l) (fun v => bind (iterate v) (fun xs =>
                      bind (eval_cargs leaf r) (fun vs => Val (xs ++ vs))))
  end.

End Sem.

Arguments Val {exn A} _.
Arguments Exn {exn A} _.
Arguments Stuck {exn A}.
Arguments bind {exn A B} _ _.

(* ------------------------------------------------------------------ *)
(* 4. The documented Python expansion                                  *)
(* ------------------------------------------------------------------ *)

(* Python's grammar: ** associates to the right, every other binary operator
   to the left; a sequence of comparisons is one Compare node *)
Definition py_right_assoc (m : mop) : bool := match m with Pow => true | _ => false end.

Section Doc.
Context {L : Type}.

Fixpoint py_right (m : mop) (a : pexpr L) (rest : list (pexpr L)) : pexpr L :=
  match rest with
  | [] => a
  | b :: r => PBin a m (py_right m b r)
  end.
Definition py_left (m : mop) (a : pexpr L) (rest : list (pexpr L)) : pexpr L :=
  fold_left (fun acc x => PBin acc m x) rest a.

(* the parse of "a1 op a2 op ... op an" *)
Definition py_nary (f : opfn) (args : list (pexpr L)) : option (pexpr L) :=
  match args with
  | [] => None
  | a :: rest =>
      Some (match f with
            | FBin m => if py_right_assoc m then py_right m a rest else py_left m a rest
            | FCmp c => match rest with [] => a | _ => PCmp a (map (fun x => (c, x)) rest) end
            end)
  end.

(* the expansion the docstring of hy.pyops.<name> gives for these operands:
   the nullary / unary row where there is one, else the fold *)
Definition doc_expansion_of (d : docrow) (args : list (pexpr L)) : option (pexpr L) :=
  match args with
  | [] => option_map (dinst (PConst KNone)) (doc_nullary d)
  | [a] => match doc_unary d with
           | Some u => Some (dinst a u)
           | None => if doc_nary d then match doc_pyop d with Some f => py_nary f args | None => None end else None
           end
  | [_; _] => if doc_binary d then match doc_pyop d with Some f => py_nary f args | None => None end else None
  | _ => if doc_nary d then match doc_pyop d with Some f => py_nary f args | None => None end else None
  end.

End Doc.

Definition doc_expansion {L} (name : string) (args : list (pexpr L)) : option (pexpr L) :=
  match find_def_in pyops_defs name with
  | Some d => doc_expansion_of (f_doc d) args
  | None => None
  end.

(* the aggregator the documentation names for `name`=: the :agg row, else the operator itself *)
Definition doc_aggregator (name : string) : option string :=
  match find_def_in pyops_defs name with
  | Some d => Some (match doc_agg (f_doc d) with Some a => a | None => name end)
  | None => None
  end.
