(* C08 correspondence instance: a concrete value domain (ints, strings, bytes, floats,
   None/True/False, lists, tuples, dicts, instances of two user classes, Keyword objects)
   and the observations PEP 634 makes of it.  props/c08.py evaluates pmatch / hmatch /
   exec_match here and runs CPython's match statement on the same Python values.
   Nothing here is used by the theorems. *)
From HyV Require Import Ops.PyMatch Gen.MatchTables Ops.Pattern.

Inductive cval :=
| CInt (z : Z) | CStr (s : string) | CBytes (s : string) | CFloat (id : nat) | CComplex (id : nat)
| CNone | CTrue | CFalse
| CList (l : list cval) | CTuple (l : list cval)
| CDict (l : list (cval * cval))
| CObj (cls : list string) (attrs : list (string * cval))
| CKw (name : string).

(* Python's == on this domain: True == 1, False == 0; containers element-wise (dicts compared as written) *)
Fixpoint ceq (a b : cval) : bool :=
  let num x := match x with CInt z => Some z | CTrue => Some 1%Z | CFalse => Some 0%Z | _ => None end in
  match num a, num b with
  | Some x, Some y => Z.eqb x y
  | Some _, None | None, Some _ => false
  | None, None =>
      match a, b with
      | CStr x, CStr y => String.eqb x y
      | CBytes x, CBytes y => String.eqb x y
      | CFloat x, CFloat y => Nat.eqb x y
      | CComplex x, CComplex y => Nat.eqb x y
      | CNone, CNone => true
      | CList x, CList y | CTuple x, CTuple y =>
          (fix go (x y : list cval) : bool :=
             match x, y with
             | [], [] => true
             | p :: x', q :: y' => ceq p q && go x' y'
             | _, _ => false
             end) x y
      | CDict x, CDict y =>
          (fix go (x y : list (cval * cval)) : bool :=
             match x, y with
             | [], [] => true
             | (k, p) :: x', (k', q) :: y' => ceq k k' && ceq p q && go x' y'
             | _, _ => false
             end) x y
      | CKw x, CKw y => String.eqb x y
      | _, _ => false
      end
  end.

Section Inst.
(* values of the dotted names that value patterns mention *)
Variable names : list (list string * cval).

Definition path_eqb (a b : list string) : bool :=
  (fix go (a b : list string) : bool :=
     match a, b with
     | [], [] => true
     | x :: a', y :: b' => String.eqb x y && go a' b'
     | _, _ => false
     end) a b.

Definition c_veval (e : vexpr) : cval :=
  match e with
  | VEConst (LInt z) => CInt z
  | VEConst (LStr s) => CStr s
  | VEConst (LBytes s) => CBytes s
  | VEConst (LFloat i) => CFloat i
  | VEConst (LComplex i) => CComplex i
  | VEDotted p =>
      match find (fun kv => path_eqb (fst kv) p) names with Some kv => snd kv | None => CNone end
  end.

Definition c_is_sing (s : sing) (v : cval) : bool :=
  match s, v with SNone, CNone | STrue, CTrue | SFalse, CFalse => true | _, _ => false end.
Definition c_as_seq (v : cval) : option (list cval) :=
  match v with CList l | CTuple l => Some l | _ => None end.
Definition c_as_map (v : cval) : option (list (cval * cval)) :=
  match v with CDict l => Some l | _ => None end.

(* the classes the generated patterns name *)
Definition c_isinst (v : cval) (cls : list string) : bool :=
  match cls with
  | ["int"] => match v with CInt _ | CTrue | CFalse => true | _ => false end
  | ["bool"] => match v with CTrue | CFalse => true | _ => false end
  | ["str"] => match v with CStr _ => true | _ => false end
  | ["bytes"] => match v with CBytes _ => true | _ => false end
  | ["float"] => match v with CFloat _ => true | _ => false end
  | ["list"] => match v with CList _ => true | _ => false end
  | ["tuple"] => match v with CTuple _ => true | _ => false end
  | ["dict"] => match v with CDict _ => true | _ => false end
  | ["hy"; "models"; "Keyword"] => match v with CKw _ => true | _ => false end
  | _ => match v with CObj c _ => path_eqb c [last cls ""] | _ => false end
  end.
Definition c_margs (cls : list string) : option (list string) :=
  match cls with
  | ["int"] | ["bool"] | ["str"] | ["bytes"] | ["float"] | ["list"] | ["tuple"] | ["dict"] => None
  | ["hy"; "models"; "Keyword"] => Some ["name"]
  | ["Pt"] | ["mm"; "Pt"] => Some ["p"; "q"]
  | _ => Some []
  end.
Definition c_getattr (v : cval) (a : string) : option cval :=
  match v with
  | CObj _ attrs => option_map snd (find (fun kv => String.eqb (fst kv) a) attrs)
  | CKw n => if String.eqb a "name" then Some (CStr n) else None
  | _ => None
  end.

Definition c_pmatch := pmatch cval c_veval ceq c_is_sing c_as_seq c_as_map CList CDict c_isinst c_margs c_getattr.
Definition c_hmatch (mangle : string -> string) :=
  hmatch mangle cval c_veval ceq c_is_sing c_as_seq c_as_map CList CDict c_isinst c_margs c_getattr.
End Inst.
