(* C03, part A: what the operator macros emit IS the documented Python
   expansion (syntactic identity of the emitted expression with the parse of
   the documented one), for every operand list of an allowed length.
   Generic lemmas over arbitrary table contents + boolean checkers; the only
   facts about the regenerated tables are [forallb checker names = true]. *)
From HyV Require Import Ops.OpSyntax Gen.OpTables Ops.Operators.
Close Scope string_scope.

(* ---------- decidable equalities used by the checkers ---------- *)
Fixpoint dexpr_eqb (a b : dexpr) : bool :=
  match a, b with
  | DX, DX => true
  | DConst x, DConst y => pconst_eqb x y
  | DUn u x, DUn v y => uop_eqb u v && dexpr_eqb x y
  | DBin a1 m a2, DBin b1 n b2 => dexpr_eqb a1 b1 && mop_eqb m n && dexpr_eqb a2 b2
  | _, _ => false
  end.
Lemma dexpr_eqb_eq a b : dexpr_eqb a b = true -> a = b.
Proof.
  revert b; induction a; intros [] H; simpl in H; try discriminate; try reflexivity.
  - apply pconst_eqb_eq in H. congruence.
  - apply andb_true_iff in H. destruct H as [H1 H2]. apply uop_eqb_eq in H1. apply IHa in H2. congruence.
  - apply andb_true_iff in H. destruct H as [H12 H3]. apply andb_true_iff in H12. destruct H12 as [H1 H2].
    apply IHa1 in H1. apply IHa2 in H3. apply mop_eqb_eq in H2. congruence.
Qed.

Definition opt_eqb {A} (eqb : A -> A -> bool) (a b : option A) : bool :=
  match a, b with
  | Some x, Some y => eqb x y
  | None, None => true
  | _, _ => false
  end.
Lemma opt_eqb_eq {A} (eqb : A -> A -> bool) (H : forall x y, eqb x y = true -> x = y) a b :
  opt_eqb eqb a b = true -> a = b.
Proof. destruct a, b; simpl; intros E; try discriminate; try reflexivity. apply H in E. congruence. Qed.

Definition handler_eqb (a b : handler) : bool :=
  match a, b with
  | HUnary, HUnary | HCompare, HCompare | HMaths, HMaths | HAug, HAug => true
  | _, _ => false
  end.
Lemma handler_eqb_eq a b : handler_eqb a b = true -> a = b.
Proof. destruct a, b; simpl; intro H; try reflexivity; discriminate. Qed.

Lemma string_eqb_eq a b : String.eqb a b = true -> a = b.
Proof. apply String.eqb_eq. Qed.

(* ---------- Python's parse of a1 op a2 ... vs the macro's folds ---------- *)
Section Folds.
Context {L : Type}.

Lemma fold_left_bin_py_left m (a : pexpr L) rest : fold_left_bin m a rest = py_left m a rest.
Proof. unfold py_left. revert a. induction rest as [|x r IH]; intros a; simpl; [reflexivity | apply IH]. Qed.

Lemma fold_rev_bin_app m (acc : pexpr L) xs ys :
  fold_rev_bin m acc (xs ++ ys) = fold_rev_bin m (fold_rev_bin m acc xs) ys.
Proof. revert acc. induction xs as [|x r IH]; intros acc; simpl; [reflexivity | apply IH]. Qed.

(* ret = last; for child in reversed(init): ret = BinOp(child, op, ret)  ==  a ** (b ** (... ** last)) *)
Lemma fold_rev_bin_py_right m (a : pexpr L) rest :
  match rev (a :: rest) with
  | last :: r => fold_rev_bin m last r = py_right m a rest
  | [] => False
  end.
Proof.
  revert a. induction rest as [|b r IH]; intros a.
  - simpl. reflexivity.
  - specialize (IH b). change (rev (a :: b :: r)) with (rev (b :: r) ++ [a]).
    destruct (rev (b :: r)) as [|last r'] eqn:E; [contradiction|].
    simpl. rewrite fold_rev_bin_app. simpl. rewrite IH. reflexivity.
Qed.

Lemma rev_cons_nonempty {A} (a : A) l : rev (a :: l) <> [].
Proof. simpl. destruct (rev l); discriminate. Qed.

(* maths_fold on at least one operand, given the operator's table row *)
Lemma maths_fold_py root m ag (a : pexpr L) rest :
  lookup root m_ops = Some (m, ag) ->
  Bool.eqb (String.eqb root right_assoc_root) (py_right_assoc m) = true ->
  maths_fold root (a :: rest) = py_nary (FBin m) (a :: rest).
Proof.
  intros Hm Hr. unfold maths_fold. rewrite Hm. apply eqb_prop in Hr. rewrite Hr.
  unfold py_nary. destruct (py_right_assoc m).
  - pose proof (fold_rev_bin_py_right m a rest) as H.
    destruct (rev (a :: rest)) as [|last r]; [contradiction|]. rewrite H. reflexivity.
  - rewrite fold_left_bin_py_left. reflexivity.
Qed.
End Folds.

(* ---------- the macro's one-operand form as a documentation row ---------- *)
Definition macro_unary_row (name : string) (m : mop) : option dexpr :=
  if String.eqb name recip_root then Some (DBin (DConst (KInt recip_numerator)) m DX)
  else if existsb (String.eqb name) unary_root_names
       then option_map (fun u => DUn u DX) (lookup name unary_root_ops)
       else Some DX.

Lemma compile_maths_unary {L} name m ag (a : pexpr L) :
  lookup name m_ops = Some (m, ag) ->
  compile_maths name [a] = option_map (dinst a) (macro_unary_row name m).
Proof.
  intros Hm. unfold compile_maths, macro_unary_row.
  destruct (String.eqb name recip_root).
  - unfold maths_fold. rewrite Hm. destruct (String.eqb name right_assoc_root); reflexivity.
  - destruct (existsb (String.eqb name) unary_root_names); [|reflexivity].
    destruct (lookup name unary_root_ops); reflexivity.
Qed.

(* ---------- checkers ---------- *)
Definition allows_ge3 (d : decorator) : bool :=
  match d_hi d with None => true | Some h => 3 <=? d_lead d + h end.

Lemma arity_ge3 d n : arity_ok d n = true -> 3 <= n -> allows_ge3 d = true.
Proof.
  unfold arity_ok, allows_ge3. intros H Hn. apply andb_true_iff in H. destruct H as [_ H].
  destruct (d_hi d); [|reflexivity]. apply Nat.leb_le in H. apply Nat.leb_le. lia.
Qed.

Definition unary_doc_ok (doc : docrow) (row : option dexpr) : bool :=
  match doc_unary doc with
  | Some r => opt_eqb dexpr_eqb row (Some r)
  | None => opt_eqb dexpr_eqb row (Some DX) && doc_nary doc
  end.

Definition maths_ok (name : string) : bool :=
  match find_decorator name, lookup name m_ops, find_def_in pyops_defs name with
  | Some d, Some (m, _), Some f =>
      let doc := f_doc f in
      handler_eqb (d_handler d) HMaths && (d_lead d =? 0)
      && opt_eqb opfn_eqb (doc_pyop doc) (Some (FBin m))
      && Bool.eqb (String.eqb name right_assoc_root) (py_right_assoc m)
      && (if arity_ok d 0
          then match lookup name identity_elements with
               | Some z => opt_eqb dexpr_eqb (doc_nullary doc) (Some (DConst (KInt z)))
               | None => false
               end
          else true)
      && (if arity_ok d 1 then unary_doc_ok doc (macro_unary_row name m) else true)
      && (if arity_ok d 2 then doc_binary doc else true)
      && (if allows_ge3 d then doc_nary doc else true)
  | _, _, _ => false
  end.

Definition compare_ok (name : string) : bool :=
  match find_decorator name, lookup name c_ops, find_def_in pyops_defs name with
  | Some d, Some c, Some f =>
      let doc := f_doc f in
      handler_eqb (d_handler d) HCompare && (d_lead d =? 0)
      && opt_eqb opfn_eqb (doc_pyop doc) (Some (FCmp c))
      && negb (arity_ok d 0)
      && (if arity_ok d 1 then opt_eqb dexpr_eqb (doc_unary doc) (Some (DConst compare_unary_result)) else true)
      && (if arity_ok d 2 then doc_binary doc else true)
      && (if allows_ge3 d then doc_nary doc else true)
  | _, _, _ => false
  end.

Definition unary_ok (name : string) : bool :=
  match find_decorator name, lookup name unary_operator_ops, find_def_in pyops_defs name with
  | Some d, Some u, Some f =>
      let doc := f_doc f in
      handler_eqb (d_handler d) HUnary && (d_lead d =? 0) && (d_lo d =? 1)
      && opt_eqb Nat.eqb (d_hi d) (Some 1)
      && opt_eqb dexpr_eqb (doc_unary doc) (Some (DUn u DX))
  | _, _, _ => false
  end.

Definition names_of (h : handler) : list string :=
  flat_map (fun d => if handler_eqb (d_handler d) h then d_names d else []) decorators.

(* ---------- soundness of the checkers ---------- *)
Ltac split_ands H :=
  repeat match type of H with
         | (_ && _) = true => let H1 := fresh "C" in apply andb_true_iff in H; destruct H as [H H1]
         end.

Lemma doc_fold_arity2 {L} (doc : docrow) f (a b : pexpr L) :
  doc_binary doc = true -> doc_pyop doc = Some f ->
  doc_expansion_of doc [a; b] = py_nary f [a; b].
Proof. intros H1 H2. unfold doc_expansion_of. rewrite H1, H2. reflexivity. Qed.

Lemma doc_fold_arity3 {L} (doc : docrow) f (a b c : pexpr L) r :
  doc_nary doc = true -> doc_pyop doc = Some f ->
  doc_expansion_of doc (a :: b :: c :: r) = py_nary f (a :: b :: c :: r).
Proof. intros H1 H2. unfold doc_expansion_of. rewrite H1, H2. reflexivity. Qed.

Theorem maths_macro_is_doc {L} name (args : list (pexpr L)) d :
  maths_ok name = true -> find_decorator name = Some d -> arity_ok d (List.length args) = true ->
  exists e, compile_op name args = Some e /\ doc_expansion name args = Some e.
Proof.
  intros Hok Hd Har. unfold maths_ok in Hok. rewrite Hd in Hok.
  destruct (lookup name m_ops) as [[m ag]|] eqn:Hm; [|discriminate].
  destruct (find_def_in pyops_defs name) as [f|] eqn:Hf; [|discriminate].
  cbv zeta in Hok. split_ands Hok.
  apply handler_eqb_eq in Hok.
  apply (opt_eqb_eq _ (fun x y => proj1 (opfn_eqb_eq x y))) in C4.
  unfold compile_op, doc_expansion. rewrite Hd, Har, Hok, Hf.
  destruct args as [|a [|b [|c r]]].
  - (* nullary *)
    simpl in Har. rewrite Har in C2.
    destruct (lookup name identity_elements) as [z|] eqn:Hz; [|discriminate].
    apply (opt_eqb_eq _ dexpr_eqb_eq) in C2.
    exists (PConst (KInt z)). unfold compile_maths. rewrite Hz. split; [reflexivity|].
    unfold doc_expansion_of. rewrite C2. reflexivity.
  - (* unary *)
    simpl in Har. rewrite Har in C1. rewrite (compile_maths_unary name m ag a Hm).
    unfold unary_doc_ok in C1. unfold doc_expansion_of.
    destruct (doc_unary (f_doc f)) as [row|] eqn:Hu.
    + apply (opt_eqb_eq _ dexpr_eqb_eq) in C1. rewrite C1. exists (dinst a row). split; reflexivity.
    + apply andb_true_iff in C1. destruct C1 as [C1 C1'].
      apply (opt_eqb_eq _ dexpr_eqb_eq) in C1. rewrite C1, C1', C4. exists a. split; [reflexivity|].
      unfold py_nary. destruct (py_right_assoc m); reflexivity.
  - (* binary *)
    simpl in Har. rewrite Har in C0.
    rewrite (doc_fold_arity2 _ _ a b C0 C4).
    change (compile_maths name [a; b]) with (maths_fold name [a; b]).
    rewrite (maths_fold_py name m ag a [b] Hm C3). eexists. split; reflexivity.
  - (* three or more *)
    assert (G : allows_ge3 d = true) by (apply (arity_ge3 d _ Har); simpl; lia).
    rewrite G in C.
    rewrite (doc_fold_arity3 _ _ a b c r C C4).
    change (compile_maths name (a :: b :: c :: r)) with (maths_fold name (a :: b :: c :: r)).
    rewrite (maths_fold_py name m ag a (b :: c :: r) Hm C3). eexists. split; reflexivity.
Qed.

Theorem compare_macro_is_doc {L} name (args : list (pexpr L)) d :
  compare_ok name = true -> find_decorator name = Some d -> arity_ok d (List.length args) = true ->
  exists e, compile_op name args = Some e /\ doc_expansion name args = Some e.
Proof.
  intros Hok Hd Har. unfold compare_ok in Hok. rewrite Hd in Hok.
  destruct (lookup name c_ops) as [c|] eqn:Hc; [|discriminate].
  destruct (find_def_in pyops_defs name) as [f|] eqn:Hf; [|discriminate].
  cbv zeta in Hok. split_ands Hok.
  apply handler_eqb_eq in Hok.
  apply (opt_eqb_eq _ (fun x y => proj1 (opfn_eqb_eq x y))) in C3.
  unfold compile_op, doc_expansion. rewrite Hd, Har, Hok, Hf.
  destruct args as [|a [|b [|c' r]]].
  - simpl in Har. rewrite Har in C2. discriminate.
  - simpl in Har. rewrite Har in C1. apply (opt_eqb_eq _ dexpr_eqb_eq) in C1.
    unfold doc_expansion_of. rewrite C1. eexists. split; reflexivity.
  - simpl in Har. rewrite Har in C0.
    rewrite (doc_fold_arity2 _ _ a b C0 C3). unfold compile_compare. rewrite Hc. eexists. split; reflexivity.
  - assert (G : allows_ge3 d = true) by (apply (arity_ge3 d _ Har); simpl; lia).
    rewrite G in C.
    rewrite (doc_fold_arity3 _ _ a b c' r C C3). unfold compile_compare. rewrite Hc. eexists. split; reflexivity.
Qed.

Lemma arity_exactly_one d n :
  d_lead d = 0 -> d_lo d = 1 -> d_hi d = Some 1 -> arity_ok d n = true -> n = 1.
Proof.
  unfold arity_ok. intros -> -> -> H. apply andb_true_iff in H. destruct H as [H1 H2].
  apply Nat.leb_le in H1. apply Nat.leb_le in H2. lia.
Qed.

Theorem unary_macro_is_doc {L} name (args : list (pexpr L)) d :
  unary_ok name = true -> find_decorator name = Some d -> arity_ok d (List.length args) = true ->
  exists e, compile_op name args = Some e /\ doc_expansion name args = Some e.
Proof.
  intros Hok Hd Har. unfold unary_ok in Hok. rewrite Hd in Hok.
  destruct (lookup name unary_operator_ops) as [u|] eqn:Hu; [|discriminate].
  destruct (find_def_in pyops_defs name) as [f|] eqn:Hf; [|discriminate].
  cbv zeta in Hok. split_ands Hok.
  apply handler_eqb_eq in Hok. apply Nat.eqb_eq in C2. apply Nat.eqb_eq in C1.
  apply (opt_eqb_eq _ (fun x y => proj1 (Nat.eqb_eq x y))) in C0.
  apply (opt_eqb_eq _ dexpr_eqb_eq) in C.
  pose proof (arity_exactly_one d _ C2 C1 C0 Har) as Hn.
  destruct args as [|a [|b r]]; try discriminate.
  unfold compile_op, doc_expansion. rewrite Hd, Har, Hok, Hf. unfold compile_unary. rewrite Hu.
  unfold doc_expansion_of. rewrite C. eexists. split; reflexivity.
Qed.

(* ---------- the per-run obligations over the regenerated tables ---------- *)
Lemma maths_names_ok : forallb maths_ok (names_of HMaths) = true.
Proof. vm_compute. reflexivity. Qed.
Lemma compare_names_ok : forallb compare_ok (names_of HCompare) = true.
Proof. vm_compute. reflexivity. Qed.
Lemma unary_names_ok : forallb unary_ok (names_of HUnary) = true.
Proof. vm_compute. reflexivity. Qed.

(* every installed operator macro is covered by one of the three checkers *)
Definition operator_macro_names : list string := names_of HMaths ++ names_of HCompare ++ names_of HUnary.

Definition op_ok (name : string) : bool := maths_ok name || compare_ok name || unary_ok name.

Lemma operator_names_ok : forallb op_ok operator_macro_names = true.
Proof. vm_compute. reflexivity. Qed.

Theorem macro_is_documented_expansion {L} : forall name, In name operator_macro_names ->
  forall (args : list (pexpr L)) d, find_decorator name = Some d -> arity_ok d (List.length args) = true ->
  exists e, compile_op name args = Some e /\ doc_expansion name args = Some e.
Proof.
  intros name Hin args d Hd Har.
  pose proof (proj1 (forallb_forall _ _) operator_names_ok name Hin) as H.
  unfold op_ok in H. apply orb_true_iff in H. destruct H as [H|H]; [apply orb_true_iff in H; destruct H as [H|H]|].
  - exact (maths_macro_is_doc name args d H Hd Har).
  - exact (compare_macro_is_doc name args d H Hd Har).
  - exact (unary_macro_is_doc name args d H Hd Har).
Qed.

(* every name a non-augmented operator decorator installs is found again, under an operator handler *)
Lemma operator_names_installed : forallb (fun n => match find_decorator n with
                                                     | Some d => negb (handler_eqb (d_handler d) HAug)
                                                     | None => false end) operator_macro_names = true.
Proof. vm_compute. reflexivity. Qed.

(* outside the allowed arities the macro call is a syntax error *)
Theorem macro_rejects_other_arities {L} name (args : list (pexpr L)) d :
  find_decorator name = Some d -> arity_ok d (List.length args) = false -> compile_op name args = None.
Proof. intros Hd H. unfold compile_op. rewrite Hd, H. reflexivity. Qed.
