(* C08 model: Hy's match sublanguage (the parse trees of the _pattern grammar),
   compile_pattern, the reference semantics of Hy patterns, and
   compile_match_expression with its lifted guards.  No proofs here. *)
From HyV Require Import Ops.PyMatch Gen.MatchTables.

(* the parse tree of _pattern; HStar only occurs as an element of HSeq *)
Inductive hpat :=
| HLit (l : lit)                         (* String, Integer, Float, Complex, Bytes *)
| HSym (s : string)                      (* a symbol: None / True / False, _, or a capture *)
| HOr (ps : list hpat)                   (* (| p ...) *)
| HValue (path : list string)            (* (. a b c), what a.b.c reads as *)
| HSeq (ps : list hpat)                  (* [p ...] or #(p ...) *)
| HStar (name : string)                  (* #* name *)
| HMap (keys : list lit) (ps : list hpat) (rest : option string)   (* {k p ... #** rest} *)
| HClass (cls : list string) (ps : list hpat) (kws : list string) (kps : list hpat)   (* (C p ... :k p ...) *)
| HKeyword (name : string)               (* :name *)
| HAs (p : hpat) (name : string).        (* p :as name *)

Definition mem (s : string) (l : list string) : bool := existsb (String.eqb s) l.

Section Compile.
Variable mangle : string -> string.

(* kwd_attrs=[kwd.name for kwd in keywords]  (or mangle(kwd.name), as regenerated) *)
Definition kw_attr (k : string) : string := if kwd_attrs_mangled then mangle k else k.

Definition singleton_of (s : string) : singv :=
  if String.eqb s "None" then SOk SNone
  else if String.eqb s "True" then SOk STrue
  else if String.eqb s "False" then SOk SFalse
  else SBadStr s.

Fixpoint compile (h : hpat) : ppat :=
  match h with
  | HAs p n => PMatchAs (Some (compile p)) (Some (mangle n))
  | HLit l => PMatchValue (VEConst l)
  | HSym s =>
      if mem s singleton_names then PMatchSingleton (singleton_of s)
      else if String.eqb s wildcard_name then PMatchAs None None
      else PMatchAs None (Some (mangle s))
  | HOr ps => PMatchOr (map compile ps)
  | HValue path => PMatchValue (VEDotted (map mangle path))
  | HSeq ps => PMatchSequence (map compile ps)
  | HStar n => PMatchStar (if String.eqb n star_wildcard_name then None else Some (mangle n))
  | HMap keys ps rest => PMatchMapping (map VEConst keys) (map compile ps) (option_map mangle rest)
  | HClass cls ps kws kps => PMatchClass (map mangle cls) (map compile ps) (map kw_attr kws) (map compile kps)
  | HKeyword n => PMatchClass keyword_class_path [PMatchValue (VEConst (LStr n))] [] []
  end.

(* the user errors of compile_pattern: `p :as n` for every n that mangles to "_", (| ...) with fewer than two alternatives,
   (. ...) without an attribute -- raised wherever they occur in the pattern *)
Fixpoint accepted (h : hpat) : bool :=
  match h with
  | HLit _ | HSym _ | HStar _ | HKeyword _ => true
  | HOr ps => Nat.leb or_min_alternatives (List.length ps) && forallb accepted ps
  | HValue path => Nat.leb value_min_symbols (List.length path)
  | HSeq ps => forallb accepted ps
  | HMap _ ps _ => forallb accepted ps
  | HClass _ ps _ kps => forallb accepted ps && forallb accepted kps
  | HAs p n => negb (String.eqb (mangle n) as_forbidden_mangled) && accepted p
  end.

(* compile_pattern as a partial function: None = HySyntaxError *)
Definition compile_checked (h : hpat) : option ppat := if accepted h then Some (compile h) else None.

(* ---- the reference: what each Hy pattern means (Python's pattern of the same kind, names as Python sees them) ---- *)
Section Ref.
Variable value : Type.
Variable veval : vexpr -> value.
Variable veq : value -> value -> bool.
Variable is_sing : sing -> value -> bool.
Variable as_seq : value -> option (list value).
Variable as_map : value -> option (list (value * value)).
Variable of_list : list value -> value.
Variable of_dict : list (value * value) -> value.
Variable isinst : value -> list string -> bool.
Variable margs : list string -> option (list string).
Variable getattr : value -> string -> option value.

Local Notation matcher := (matcher value).
Local Notation seq_sem := (seq_sem value as_seq of_list).
Local Notation map_sem := (map_sem value veq as_map of_dict).
Local Notation class_sem := (class_sem value isinst margs getattr).
Local Notation lit_sem := (lit_sem value veq).

Fixpoint hmatch (h : hpat) : matcher :=
  match h with
  | HAs p n => as_sem value (hmatch p) (mangle n)
  | HLit l => lit_sem (veval (VEConst l))
  | HSym s =>
      if String.eqb s "None" then sing_sem value is_sing SNone
      else if String.eqb s "True" then sing_sem value is_sing STrue
      else if String.eqb s "False" then sing_sem value is_sing SFalse
      else if String.eqb s "_" then wild_sem value
      else capture_sem value (mangle s)
  | HOr ps => or_sem value (map hmatch ps)
  | HValue path => lit_sem (veval (VEDotted (map mangle path)))
  | HSeq ps =>
      seq_sem (map (fun q => match q with
                             | HStar n => SStar value (if String.eqb n "_" then None else Some (mangle n))
                             | _ => SItem value (hmatch q)
                             end) ps)
  | HStar _ => no_sem value
  | HMap keys ps rest => map_sem (combine (map (fun k => veval (VEConst k)) keys) (map hmatch ps)) (option_map mangle rest)
  | HClass cls ps kws kps => class_sem (map mangle cls) (map hmatch ps) (combine (map mangle kws) (map hmatch kps))
  | HKeyword n => class_sem ["hy"; "models"; "Keyword"] [lit_sem (veval (VEConst (LStr n)))] []
  end.

(* ---- the match expression ---- *)
Record guard := { g_id : nat; g_stmts : bool }.     (* g_stmts: the guard form compiles to statements *)
Record hcase := { hc_pat : hpat; hc_guard : option guard; hc_body : nat }.

Variable geval : nat -> bindings value -> bool.      (* truthiness of guard g under the case's bindings *)
Variable beval : nat -> bindings value -> value.     (* value of result form under the case's bindings *)

Inductive mout := ONone | OVal (v : value) | OErr.   (* the match form's value: None when nothing matched *)

Fixpoint hy_match (cases : list hcase) (v : value) : mout :=
  match cases with
  | [] => ONone
  | c :: r =>
      match hmatch (hc_pat c) v with
      | MYes b =>
          if match hc_guard c with Some g => geval (g_id g) b | None => true end
          then OVal (beval (hc_body c) b) else hy_match r v
      | MNo => hy_match r v
      | MErr => OErr
      end
  end.

(* what compile_match_expression emits: result := None; def <anon>(): <guard statements> ...; match subject: cases *)
Inductive pguard := PGNone | PGExpr (g : nat) | PGCall (fname : nat).
Record pcase := { pc_pat : ppat; pc_guard : pguard; pc_body : nat }.
Record compiled_match := { cm_result_var : nat; cm_defs : list (nat * nat); cm_cases : list pcase }.

(* get_anon_var: the counter is incremented, then used *)
Fixpoint compile_cases (cs : list hcase) (ctr : nat) : list (nat * nat) * list pcase * nat :=
  match cs with
  | [] => ([], [], ctr)
  | c :: r =>
      let '(d, g', ctr') :=
        match hc_guard c with
        | None => ([], PGNone, ctr)
        | Some g => if g_stmts g then ([(S ctr, g_id g)], PGCall (S ctr), S ctr) else ([], PGExpr (g_id g), ctr)
        end in
      let '(ds, pcs, ctr'') := compile_cases r ctr' in
      ((d ++ ds)%list, {| pc_pat := compile (hc_pat c); pc_guard := g'; pc_body := hc_body c |} :: pcs, ctr'')
  end.

Definition compile_match (cs : list hcase) (ctr : nat) : compiled_match :=
  let '(ds, pcs, _) := compile_cases cs (S ctr) in
  {| cm_result_var := S ctr; cm_defs := ds; cm_cases := pcs |}.

(* Python: the defs are executed first (a later def of the same name would rebind it), then the match statement;
   a call of a lifted guard runs its body in the scope of the match, so it sees the case's bindings *)
Definition lookup_def (f : nat) (defs : list (nat * nat)) : option nat :=
  option_map snd (find (fun d => Nat.eqb (fst d) f) (rev defs)).

Local Notation pmatch := (pmatch value veval veq is_sing as_seq as_map of_list of_dict isinst margs getattr).

Fixpoint exec_cases (defs : list (nat * nat)) (pcs : list pcase) (v : value) : mout :=
  match pcs with
  | [] => ONone
  | c :: r =>
      match pmatch (pc_pat c) v with
      | MYes b =>
          match (match pc_guard c with
                 | PGNone => Some true
                 | PGExpr g => Some (geval g b)
                 | PGCall f => option_map (fun g => geval g b) (lookup_def f defs)
                 end) with
          | Some true => OVal (beval (pc_body c) b)
          | Some false => exec_cases defs r v
          | None => OErr            (* NameError: the lifted function is not defined *)
          end
      | MNo => exec_cases defs r v
      | MErr => OErr
      end
  end.

Definition exec_match (m : compiled_match) (v : value) : mout := exec_cases (cm_defs m) (cm_cases m) v.

End Ref.
End Compile.

Arguments ONone {value}.
Arguments OVal {value} _.
Arguments OErr {value}.
