(* Shared syntax for the operator family (C03): Python AST operator classes, the
   expression/statement fragment that the operator macros emit, the shapes of
   pattern_macro decorators and of the pyops.hy defop definitions.
   Everything that depends on /repo is in Gen/OpTables.v, written over these types. *)
From Coq Require Export List String ZArith Bool Arith Lia.
Export ListNotations.
Open Scope string_scope.

(* ast.operator / ast.unaryop / ast.cmpop classes *)
Inductive mop := Add | Sub | Mult | Div | FloorDiv | Mod | Pow | LShift | RShift
               | BitOr | BitXor | BitAnd | MatMult.
Inductive uop := UAdd | USub | Invert | Not.
Inductive cop := CEq | CNotEq | CLt | CLtE | CGt | CGtE | CIs | CIsNot | CIn | CNotIn.

Definition mop_eqb (a b : mop) : bool :=
  match a, b with
  | Add, Add | Sub, Sub | Mult, Mult | Div, Div | FloorDiv, FloorDiv | Mod, Mod | Pow, Pow
  | LShift, LShift | RShift, RShift | BitOr, BitOr | BitXor, BitXor | BitAnd, BitAnd
  | MatMult, MatMult => true
  | _, _ => false
  end.
Definition uop_eqb (a b : uop) : bool :=
  match a, b with UAdd, UAdd | USub, USub | Invert, Invert | Not, Not => true | _, _ => false end.
Definition cop_eqb (a b : cop) : bool :=
  match a, b with
  | CEq, CEq | CNotEq, CNotEq | CLt, CLt | CLtE, CLtE | CGt, CGt | CGtE, CGtE | CIs, CIs
  | CIsNot, CIsNot | CIn, CIn | CNotIn, CNotIn => true
  | _, _ => false
  end.

Lemma mop_eqb_eq a b : mop_eqb a b = true <-> a = b.
Proof. destruct a, b; simpl; split; intro H; try reflexivity; try discriminate. Qed.
Lemma uop_eqb_eq a b : uop_eqb a b = true <-> a = b.
Proof. destruct a, b; simpl; split; intro H; try reflexivity; try discriminate. Qed.
Lemma cop_eqb_eq a b : cop_eqb a b = true <-> a = b.
Proof. destruct a, b; simpl; split; intro H; try reflexivity; try discriminate. Qed.

(* constants the operator macros and the documentation rows mention *)
Inductive pconst := KInt (z : Z) | KTrue | KFalse | KNone.
Definition pconst_eqb (a b : pconst) : bool :=
  match a, b with
  | KInt x, KInt y => Z.eqb x y
  | KTrue, KTrue | KFalse, KFalse | KNone, KNone => true
  | _, _ => false
  end.
Lemma pconst_eqb_eq a b : pconst_eqb a b = true <-> a = b.
Proof.
  destruct a, b; simpl; split; intro H; try reflexivity; try discriminate.
  - apply Z.eqb_eq in H. congruence.
  - inversion H. apply Z.eqb_refl.
Qed.

(* Python expressions built by the operator macros, over a type L of leaves:
   a leaf is a compiled operand of the macro call (L = nat: the i-th operand,
   an arbitrary expression with an outcome, whose evaluation is observable in
   the trace; L = a value domain: an operand that is already a value). *)
Inductive pexpr (L : Type) :=
| PLeaf (l : L)
| PConst (k : pconst)
| PUn (u : uop) (e : pexpr L)
| PBin (l : pexpr L) (m : mop) (r : pexpr L)
| PCmp (l : pexpr L) (rest : list (cop * pexpr L)).
Arguments PLeaf {L} _.
Arguments PConst {L} _.
Arguments PUn {L} _ _.
Arguments PBin {L} _ _ _.
Arguments PCmp {L} _ _.

(* AugAssign(target, op, value) *)
Inductive pstmt (L : Type) := PAug (target : L) (m : mop) (value : pexpr L).
Arguments PAug {L} _ _ _.

(* a documentation row of pyops.hy ("0", "+x", "1 / x", "True"): an expression in the one variable x *)
Inductive dexpr := DX | DConst (k : pconst) | DUn (u : uop) (e : dexpr) | DBin (l : dexpr) (m : mop) (r : dexpr).
Fixpoint dinst {L} (x : pexpr L) (d : dexpr) : pexpr L :=
  match d with
  | DX => x
  | DConst k => PConst k
  | DUn u e => PUn u (dinst x e)
  | DBin l m r => PBin (dinst x l) m (dinst x r)
  end.

(* one @pattern_macro decorator of an operator handler *)
Inductive handler := HUnary | HCompare | HMaths | HAug.
Record decorator := { d_handler : handler; d_names : list string;
                      d_lead : nat;           (* leading FORM parsers (the augmented-assignment target) *)
                      d_lo : nat; d_hi : option nat;   (* repetition of the last FORM parser; None = Inf *)
                      d_shadow : bool }.

(* a function of operator.* or the (fn [x y] (OP x y)) literal handed to reduce/_foldr/comp-op *)
Inductive opfn := FBin (m : mop) | FCmp (c : cop).

(* the body language of the defop definitions of pyops.hy *)
Inductive hx :=
| XInt (z : Z) | XTrue | XNone
| XVar (x : string)
| XIf (c t e : hx)
| XLenEq (x : string) (n : nat)            (* (= (len x) n) *)
| XGet0 (x : string)                       (* (get x 0) *)
| XMacro1 (name : string) (a : hx)         (* a core operator macro applied to one / two forms *)
| XMacro2 (name : string) (a b : hx)
| XReduce (f : opfn) (xs : hx)               (* (reduce f xs) *)
| XReduce3 (f : opfn) (xs init : hx)         (* (reduce f xs init) *)
| XFoldr (f : opfn) (xs : hx)
| XTupCat1 (a rest : hx)                   (* (+ #(a) rest) *)
| XTupCat2 (a b rest : hx)                 (* (+ #(a b) rest) *)
| XCompOp (f : opfn) (a1 rest : hx).

(* (defop name [p1 .. pk #* rest] [doc rows] body) *)
Record docrow := { doc_pyop : option opfn;          (* operator of "x {pyop} y" when a binary or n-ary row is printed *)
                   doc_nullary : option dexpr; doc_unary : option dexpr;
                   doc_binary : bool; doc_nary : bool; doc_agg : option string }.
Record defop := { f_name : string; f_params : list string; f_rest : option string;
                  f_doc : docrow; f_body : hx }.

Definition opfn_eqb (a b : opfn) : bool :=
  match a, b with
  | FBin x, FBin y => mop_eqb x y
  | FCmp x, FCmp y => cop_eqb x y
  | _, _ => false
  end.
Lemma opfn_eqb_eq a b : opfn_eqb a b = true <-> a = b.
Proof.
  destruct a, b; simpl; split; intro H; try discriminate.
  - apply mop_eqb_eq in H. congruence.
  - inversion H. apply mop_eqb_eq. reflexivity.
  - apply cop_eqb_eq in H. congruence.
  - inversion H. apply cop_eqb_eq. reflexivity.
Qed.

Fixpoint lookup {A} (k : string) (l : list (string * A)) : option A :=
  match l with
  | [] => None
  | (k', v) :: r => if String.eqb k k' then Some v else lookup k r
  end.
