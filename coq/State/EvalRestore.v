(* C39 -- the model: hy_eval_user as generated from hy/compiler.py
   (Gen/StateEvalTerm.v), run by the fragment semantics with hy_eval and every
   other callee opaque. *)
From HyV Require Export State.EvalRestoreSymex Gen.StateEvalTerm.

(* hy_eval stays opaque: what evaluation does is the oracle's business *)
Definition user_prog : prog :=
  {| pfuns := [("hy_eval_user", hy_eval_user_def)]; pmro := []; pvars := []; pmatch := table_match [] |}.

Definition hy : val := VStr "hy".

(* a call hy.eval(model, globals, locals, module, macros); every argument explicit
   ([VNone] = not given: the defaults are checked to be None in EvalRestoreProofs.defaults_are_none) *)
Definition user_kw (m vg vl vm vmac : val) : list (string * val) :=
  [("model", m); ("globals", vg); ("locals", vl); ("module", vm); ("macros", vmac)].

(* enough for any single call of the generated body (no loops, calls only to opaque callees) *)
Definition user_fuel : nat := 60.

(* the call as a computation with a result (used for the correspondence with the real function) *)
Definition call_user (Orc : oracle) (fuel : nat) (m vg vl vm vmac : val) (s : st) : eres :=
  run_fun user_prog Orc fuel None "hy_eval_user" hy_eval_user_def [] (user_kw m vg vl vm vmac) s.

(* the same call with a postcondition as the final continuation: "the call ends -- neither fuel
   exhaustion nor anything outside the fragment -- and its result satisfies Q" *)
Definition wp_user (O : pure_oracle) (fuel : nat) (m vg vl vm vmac : val) (s : st) (Q : eres -> Prop) : Prop :=
  call_fun user_prog (nr O) Prop False (fun _ => False)
    (exec_block user_prog (nr O) Prop False (fun _ => False) fuel) fuel
    None "hy_eval_user" hy_eval_user_def [] (user_kw m vg vl vm vmac) s
    (fun v s' => Q (EOk v s')) (fun x s' => Q (EExc x s')).

(* the hy entry of dictionary d: None = d is not a dictionary; Some None = no entry *)
Definition hy_entry (h : heap) (d : N) : option (option val) :=
  match hget h d with
  | Some (ODict kvs) => Some (dget hy kvs)
  | _ => None
  end.

(* every dictionary of h is still a dictionary in h' and has the same hy entry (same object or none) *)
Definition hy_preserved (h h' : heap) : Prop :=
  forall d kvs, hget h d = Some (ODict kvs) -> hy_entry h' d = Some (dget hy kvs).

(* What is assumed of the opaque callees: they return or raise without calling
   hy_eval_user again (they are given as functions returning the callee's heap and
   outcome); dictionaries stay dictionaries; and the only hy entry they may touch is
   the one of the dictionary handed to hy_eval as `locals` (that is where the
   implicit `import hy` and the evaluated code's own bindings go; a program that
   deliberately rebinds hy in some other dictionary is outside the property).
   Nothing else: they may rebind, delete or create that entry, change any other key
   of any dictionary, allocate, return or raise anything. *)
Definition frame_ok (O : pure_oracle) : Prop :=
  forall n g args kw h d kvs, hget h d = Some (ODict kvs) ->
    exists kvs', hget (fst (O n g args kw h)) d = Some (ODict kvs') /\
      ((g = "hy_eval" /\ aget "locals" kw = Some (VRef d)) \/ dget hy kvs' = dget hy kvs).

(* a namespace argument: absent, or a dictionary of the heap *)
Definition ns_arg (h : heap) (v : val) : Prop :=
  v = VNone \/ exists d kvs, v = VRef d /\ hget h d = Some (ODict kvs).
