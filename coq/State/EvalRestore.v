(* C39 -- the model: hy_eval_user as generated from hy/compiler.py
   (Gen/StateEvalTerm.v), run by the fragment semantics with hy_eval and every
   other callee opaque. *)
From HyV Require Export State.EvalRestoreSem Gen.StateEvalTerm.

(* hy_eval stays opaque: what evaluation does is the oracle's business *)
Definition user_prog : prog :=
  {| pfuns := [("hy_eval_user", hy_eval_user_def)]; pmro := []; pvars := [] |}.

Definition hy : val := VStr "hy".

(* a call hy.eval(model, globals, locals, module, macros) in state s; every argument explicit
   ([VNone] = not given: the defaults are checked to be None in EvalRestoreProofs.defaults_are_none) *)
Definition user_kw (m vg vl vm vmac : val) : list (string * val) :=
  [("model", m); ("globals", vg); ("locals", vl); ("module", vm); ("macros", vmac)].
Definition call_user (Orc : oracle) (fuel : nat) (m vg vl vm vmac : val) (s : st) : eres :=
  call_fun user_prog Orc fuel None "hy_eval_user" hy_eval_user_def [] (user_kw m vg vl vm vmac) s.

(* enough for any single call of the generated body (no loops, calls only to opaque callees) *)
Definition user_fuel : nat := 60.

(* the hy entry of dictionary d: None = d is not a dictionary; Some None = no entry *)
Definition hy_entry (h : heap) (d : N) : option (option val) :=
  match hget h d with
  | Some (ODict kvs) => Some (dget hy kvs)
  | _ => None
  end.

(* every dictionary of h is still a dictionary in h' and has the same hy entry (same object or none) *)
Definition hy_preserved (h h' : heap) : Prop :=
  forall d kvs, hget h d = Some (ODict kvs) -> hy_entry h' d = Some (dget hy kvs).

(* What is assumed of the opaque callees: they return or raise without calling
   hy_eval_user again; dictionaries stay dictionaries; and the only hy entry
   they may touch is the one of the dictionary handed to hy_eval as `locals`
   (that is where the implicit `import hy` and the evaluated code's own
   bindings go; a program that deliberately rebinds hy in some other dictionary
   is outside the property).  Nothing else: they may rebind, delete or create that
   entry, change any other key of any dictionary, allocate, return or raise anything. *)
Definition frame_ok (Orc : oracle) : Prop :=
  forall n g args kw h, exists h' r, Orc n g args kw h = BDone h' r /\
    forall d kvs, hget h d = Some (ODict kvs) ->
      exists kvs', hget h' d = Some (ODict kvs') /\
        ((g = "hy_eval" /\ aget "locals" kw = Some (VRef d)) \/ dget hy kvs' = dget hy kvs).

(* a namespace argument: absent, or a dictionary of the heap *)
Definition ns_arg (h : heap) (v : val) : Prop :=
  v = VNone \/ exists d kvs, v = VRef d /\ hget h d = Some (ODict kvs).

(* sequences of calls, each with its own arguments *)
Record ucall := { u_model : val; u_globals : val; u_locals : val; u_module : val; u_macros : val }.
Fixpoint run_calls (Orc : oracle) (cs : list ucall) (s : st) : option st :=
  match cs with
  | [] => Some s
  | c :: r =>
      match call_user Orc user_fuel (u_model c) (u_globals c) (u_locals c) (u_module c) (u_macros c) s with
      | EOk _ s1 | EExc _ s1 => run_calls Orc r s1
      | _ => None
      end
  end.
