(* Fuelled semantics of the Python fragment of EvalRestoreSyntax.v, in continuation-passing style.

   Hand-written from the Python language reference (assignment, try/finally,
   except matching by class, short-circuit and/or, dict/set methods); it is
   *modelled, not verified*: the harness validates it by running the real
   functions under CPython with scripted callees and comparing with [call_fun]
   of the generated terms on the same configurations.

   Everything the fragment cannot see into is an *opaque call*, answered by an
   oracle; the theorems quantify over all oracles (subject to stated frame
   conditions), so nothing is assumed about what the callee computes.
   Fuel decreases on every recursive call; exhaustion is the distinguished
   answer [timeout]; a dynamic situation outside the fragment is the distinguished
   answer [stuck m] (never a normal-looking value) -- both abort the whole run.

   Why continuation-passing: the final answer type is a parameter, so a
   postcondition can be the final continuation, and weak-head reduction ([hnf])
   of a run with symbolic inputs stops exactly where evaluation needs a fact
   about them (a heap lookup, a callee's answer), with the rest of the run as
   unevaluated branches.  Proofs about generated terms are then short walks
   down that tree, and runs on concrete inputs are ordinary computation. *)
From HyV Require Export State.EvalRestoreSyntax.

Inductive val :=
| VNone | VBool (b : bool) | VStr (s : string) | VInt (z : Z)
| VTup (vs : list val)
| VRef (id : N)                        (* a mutable heap object *)
| VExc (cls : string) (id : N)         (* an exception instance *)
| VGlobal (name : string)              (* a module-level function / class / module, known by name only *)
| VSuper (self : val) (cls : string).  (* super() of a method of class cls *)

Inductive obj :=
| ODict (kvs : list (val * val))
| OSet (vs : list val)
| OList (vs : list val)
| OInst (cls : string) (attrs : list (string * val))
| OOpaque.

Fixpoint val_eqb (a b : val) {struct a} : bool :=
  match a, b with
  | VNone, VNone => true
  | VBool x, VBool y => Bool.eqb x y
  | VStr x, VStr y => String.eqb x y
  | VInt x, VInt y => Z.eqb x y
  | VTup xs, VTup ys =>
      (fix go (xs ys : list val) {struct xs} : bool :=
         match xs, ys with
         | [], [] => true
         | x :: xs', y :: ys' => val_eqb x y && go xs' ys'
         | _, _ => false
         end) xs ys
  | VRef i, VRef j => N.eqb i j
  | VExc c i, VExc d j => String.eqb c d && N.eqb i j
  | VGlobal x, VGlobal y => String.eqb x y
  | VSuper x c, VSuper y d => val_eqb x y && String.eqb c d
  | _, _ => false
  end.

(* ---- heap: association list, newest binding first *)
Definition heap := list (N * obj).
Fixpoint hget (h : heap) (i : N) : option obj :=
  match h with
  | [] => None
  | (j, o) :: h' => if N.eqb i j then Some o else hget h' i
  end.
(* update in place (the first binding of i), else add a binding at the end *)
Fixpoint hset (h : heap) (i : N) (o : obj) : heap :=
  match h with
  | [] => [(i, o)]
  | (j, o') :: h' => if N.eqb i j then (j, o) :: h' else (j, o') :: hset h' i o
  end.
Lemma hget_hset h i o j : hget (hset h i o) j = if N.eqb j i then Some o else hget h j.
Proof.
  induction h as [|[k o'] h IH]; cbn [hset hget].
  - destruct (N.eqb j i); reflexivity.
  - destruct (N.eqb_spec i k) as [->|Hik]; cbn [hget].
    + destruct (N.eqb j k); reflexivity.
    + destruct (N.eqb_spec j k) as [->|Hjk].
      * destruct (N.eqb_spec k i) as [E|_]; [exfalso; apply Hik; symmetry; exact E | reflexivity].
      * exact IH.
Qed.

(* ---- dictionaries: insertion-ordered association lists *)
Fixpoint dget (k : val) (kvs : list (val * val)) : option val :=
  match kvs with
  | [] => None
  | (k', v) :: r => if val_eqb k k' then Some v else dget k r
  end.
Fixpoint dset (k v : val) (kvs : list (val * val)) : list (val * val) :=
  match kvs with
  | [] => [(k, v)]
  | (k', v') :: r => if val_eqb k k' then (k', v) :: r else (k', v') :: dset k v r
  end.
Fixpoint ddel (k : val) (kvs : list (val * val)) : list (val * val) :=
  match kvs with
  | [] => []
  | (k', v') :: r => if val_eqb k k' then ddel k r else (k', v') :: ddel k r
  end.

Fixpoint aget {A} (x : string) (l : list (string * A)) : option A :=
  match l with
  | [] => None
  | (y, v) :: r => if String.eqb x y then Some v else aget x r
  end.
Fixpoint aset {A} (x : string) (v : A) (l : list (string * A)) : list (string * A) :=
  match l with
  | [] => [(x, v)]
  | (y, w) :: r => if String.eqb x y then (y, v) :: r else (y, w) :: aset x v r
  end.

Definition vmem (x : val) (l : list val) : bool := existsb (val_eqb x) l.
Fixpoint vremove (x : val) (l : list val) : list val :=
  match l with
  | [] => []
  | y :: r => if val_eqb x y then r else y :: vremove x r
  end.

(* ---- programs and opaque callees *)
Record prog := {
  pfuns : list (string * fundef);        (* "hy_eval_user", "REPL.runsource", ... *)
  pmro : list (string * list string);    (* class -> its linearisation, itself first *)
  pvars : list string;                   (* module-level variables (live in the module dict, heap id 0) *)
  pmatch : val -> list string -> bool    (* does an exception match an except clause naming these classes;
                                            [table_match pmro] for a concrete program, a variable when a theorem
                                            is to hold for every class hierarchy *)
}.

Inductive ores := ORet (v : val) | ORaise (e : val).
(* What an opaque callee does: it may change the heap, call back into the
   program any number of times, and finally return or raise. *)
Inductive beh :=
| BDone (h : heap) (r : ores)
| BCall (h : heap) (f : string) (args : list val) (kw : list (string * val)) (k : heap -> ores -> beh).
(* arguments: number of opaque calls made so far, callee name, positional and keyword arguments, heap *)
Definition oracle := nat -> string -> list val -> list (string * val) -> heap -> beh.

(* the oracle's index: number of opaque calls logged so far *)
Definition log_len (l : list (string * list val * list (string * val))) : nat := List.length l.
(* an opaque call as logged: callee name, positional and keyword arguments *)
Definition event := (string * list val * list (string * val))%type.
(* heap and the log of opaque calls made so far, newest first *)
Definition st := (heap * list event)%type.
Definition env := list (string * val).

Inductive eres := EOk (v : val) (s : st) | EExc (e : val) (s : st) | ETimeout | EStuck (m : string).
Inductive elres := LOk (vs : list val) (s : st) | LExc (e : val) (s : st) | LTimeout | LStuck (m : string).
Inductive kres := KOk (kw : list (string * val)) (s : st) | KExc (e : val) (s : st) | KTimeout | KStuck (m : string).
Inductive ctl := CNorm | CRet (v : val) | CExc (e : val).
Inductive sres := SR (c : ctl) (en : env) (s : st) | STimeout | SStuck (m : string).

Definition exn (cls : string) : val := VExc cls 0.
Definition module_dict : N := 0%N.

Definition const_val (c : const) : val :=
  match c with
  | CNone => VNone | CTrue => VBool true | CFalse => VBool false
  | CStr s => VStr s | CInt z => VInt z
  end.

(* bool(v); None = outside the fragment *)
Definition truthy (h : heap) (v : val) : option bool :=
  match v with
  | VNone => Some false
  | VBool b => Some b
  | VStr s => Some (negb (String.eqb s ""))
  | VInt z => Some (negb (Z.eqb z 0))
  | VTup vs => Some (match vs with [] => false | _ => true end)
  | VRef i =>
      match hget h i with
      | Some (ODict kvs) => Some (match kvs with [] => false | _ => true end)
      | Some (OSet vs) => Some (match vs with [] => false | _ => true end)
      | Some (OList vs) => Some (match vs with [] => false | _ => true end)
      | Some (OInst _ _) => Some true
      | Some OOpaque => Some true
      | None => None
      end
  | VExc _ _ => Some true
  | VGlobal _ => Some true
  | VSuper _ _ => Some true
  end.

(* a is b; None = identity of such values is not defined by the language *)
Definition val_is (a b : val) : option bool :=
  match a, b with
  | VNone, _ | _, VNone
  | VBool _, _ | _, VBool _
  | VRef _, _ | _, VRef _
  | VExc _ _, _ | _, VExc _ _
  | VGlobal _, _ | _, VGlobal _ => Some (val_eqb a b)
  | _, _ => None
  end.

Definition is_none (v : val) : bool := match v with VNone => true | _ => false end.
Lemma val_is_none_r v : val_is v VNone = Some (is_none v).
Proof. destruct v; reflexivity. Qed.

Definition mro_of (P : prog) (cls : string) : list string :=
  match aget cls (pmro P) with
  | Some l => l
  | None => [cls; "Exception"; "BaseException"]
  end.
Definition strmem (x : string) (l : list string) : bool := existsb (String.eqb x) l.
(* matching by the class table *)
Definition table_match (mro : list (string * list string)) (e : val) (classes : list string) : bool :=
  match e with
  | VExc c _ =>
      let l := match aget c mro with Some l => l | None => [c; "Exception"; "BaseException"] end in
      existsb (fun k => strmem k l) classes
  | _ => false
  end.
(* does exception e match an except clause naming these classes ([] = bare except) *)
Definition exc_matches (P : prog) (e : val) (classes : list string) : bool :=
  match classes with
  | [] => true
  | _ => pmatch P e classes
  end.

Definition lookup_fun (P : prog) (g : string) : option fundef := aget g (pfuns P).

Fixpoint drop_until (c : string) (l : list string) : list string :=
  match l with
  | [] => []
  | x :: r => if String.eqb x c then r else drop_until c r
  end.
Fixpoint find_method (P : prog) (classes : list string) (m : string) : option (string * fundef) :=
  match classes with
  | [] => None
  | c :: r => match aget (c ++ "." ++ m) (pfuns P) with
              | Some fd => Some (c, fd)
              | None => find_method P r m
              end
  end.

(* "REPL.runsource" -> Some "REPL"; "hy_eval_user" -> None *)
Fixpoint before_dot (s : string) : option string :=
  match s with
  | EmptyString => None
  | String c r => if Ascii.eqb c (Ascii.Ascii false true true true false true false false) then Some EmptyString else option_map (String c) (before_dot r)
  end.

(* bind parameters: positionals, then keywords, then defaults; surplus positionals and
   unknown keywords are a TypeError (None) unless the function has unused *args/**kwargs *)
Fixpoint bind_params_aux (extra : bool) (ps : list (string * option const)) (args : list val) (kw : list (string * val))
  : option (list (string * val)) :=
  match ps with
  | [] => match args with [] => Some [] | _ => if extra then Some [] else None end
  | (x, d) :: r =>
      match args with
      | a :: args' => option_map (fun e => (x, a) :: e) (bind_params_aux extra r args' kw)
      | [] =>
          match aget x kw with
          | Some v => option_map (fun e => (x, v) :: e) (bind_params_aux extra r [] kw)
          | None => match d with
                    | Some c => option_map (fun e => (x, const_val c) :: e) (bind_params_aux extra r [] kw)
                    | None => None
                    end
          end
      end
  end.
Definition bind_params (fd : fundef) (args : list val) (kw : list (string * val)) : option (list (string * val)) :=
  if fextra fd || forallb (fun p => existsb (fun q => String.eqb (fst p) (fst q)) (fparams fd)) kw
  then bind_params_aux (fextra fd) (fparams fd) args kw
  else None.


Section Sem.
Variable P : prog.
Variable Orc : oracle.
Variable A : Type.            (* the type of final answers *)
Variable timeout : A.
Variable stuck : string -> A.

Definition glob_get (h : heap) (x : string) : val :=
  if strmem x (pvars P) then
    match hget h module_dict with
    | Some (ODict kvs) => match dget (VStr x) kvs with Some v => v | None => VGlobal x end
    | _ => VGlobal x
    end
  else VGlobal x.

(* ---- primitives; k = normal continuation, kx = exception continuation *)
Definition truthy_k (h : heap) (v : val) (k : bool -> A) : A :=
  match truthy h v with
  | Some b => k b
  | None => stuck "truth value of a dangling reference"
  end.

Definition nth_k (vs : list val) (z : Z) (k : val -> A) (kx : val -> A) : A :=
  if (z <? 0)%Z then stuck "negative index"
  else match nth_error vs (Z.to_nat z) with Some x => k x | None => kx (exn "IndexError") end.

Definition subscript_k (h : heap) (v key : val) (k : val -> A) (kx : val -> A) : A :=
  match v with
  | VRef i =>
      match hget h i with
      | Some (ODict kvs) => match dget key kvs with Some x => k x | None => kx (exn "KeyError") end
      | Some (OList vs) => match key with VInt z => nth_k vs z k kx | _ => kx (exn "TypeError") end
      | Some _ => kx (exn "TypeError")
      | None => stuck "dangling reference"
      end
  | VTup vs => match key with VInt z => nth_k vs z k kx | _ => kx (exn "TypeError") end
  | VNone | VBool _ | VInt _ => kx (exn "TypeError")
  | _ => stuck "subscript of an opaque value"
  end.

Definition contains_k (h : heap) (key c : val) (k : bool -> A) (kx : val -> A) : A :=
  match c with
  | VRef i =>
      match hget h i with
      | Some (ODict kvs) => k (match dget key kvs with Some _ => true | None => false end)
      | Some (OSet vs) => k (vmem key vs)
      | Some (OList vs) => k (vmem key vs)
      | Some _ => stuck "membership in an opaque object"
      | None => stuck "dangling reference"
      end
  | VTup vs => k (vmem key vs)
  | VNone | VBool _ | VInt _ => kx (exn "TypeError")
  | _ => stuck "membership in an opaque value"
  end.

(* methods of the built-in containers *)
Definition builtin_method_k (h : heap) (i : N) (o : obj) (m : string) (args : list val)
  (k : val -> heap -> A) (kx : val -> A) : A :=
  match o, m, args with
  | ODict kvs, "pop", [key; d] =>
      match dget key kvs with
      | Some x => k x (hset h i (ODict (ddel key kvs)))
      | None => k d h
      end
  | ODict kvs, "pop", [key] =>
      match dget key kvs with
      | Some x => k x (hset h i (ODict (ddel key kvs)))
      | None => kx (exn "KeyError")
      end
  | ODict kvs, "get", [key; d] => k (match dget key kvs with Some x => x | None => d end) h
  | ODict kvs, "get", [key] => k (match dget key kvs with Some x => x | None => VNone end) h
  | OSet vs, "add", [x] => k VNone (hset h i (OSet (if vmem x vs then vs else vs ++ [x])))
  | OSet vs, "discard", [x] => k VNone (hset h i (OSet (vremove x vs)))
  | OSet vs, "remove", [x] =>
      if vmem x vs then k VNone (hset h i (OSet (vremove x vs))) else kx (exn "KeyError")
  | OList vs, "append", [x] => k VNone (hset h i (OList (vs ++ [x])))
  | _, _, _ => stuck ("unsupported built-in method " ++ m)
  end.

Definition iter_items (h : heap) (v : val) : option (list val) :=
  match v with
  | VTup vs => Some vs
  | VRef i => match hget h i with
              | Some (OList vs) => Some vs
              | Some (OSet vs) => Some vs
              | Some (ODict kvs) => Some (map fst kvs)
              | _ => None
              end
  | _ => None
  end.

Definition dispatch (c : ctl) (en : env) (s : st)
  (kn : env -> st -> A) (kr : val -> env -> st -> A) (kx : val -> env -> st -> A) : A :=
  match c with
  | CNorm => kn en s
  | CRet v => kr v en s
  | CExc x => kx x en s
  end.

Definition strip_exc (en : env) : env :=
  match en with ("__exc__", _) :: en' => en' | _ => en end.

(* ---- expressions, calls, assignments.  [blk] runs the body of a called program function: it is
   the statement level at the fuel of the enclosing statement (see [exec] below).  Keeping the two
   levels in separate fixpoints lets proofs evaluate everything below a statement by computation
   without running into the next statement. *)
Section Expr.
Variable blk : env -> list stmt -> st -> (env -> st -> A) -> (val -> env -> st -> A) -> (val -> env -> st -> A) -> A.

Fixpoint eval (fuel : nat) (en : env) (e : expr) (s : st) (k : val -> st -> A) (kx : val -> st -> A) {struct fuel} : A :=
  match fuel with
  | O => timeout
  | S f =>
    match e with
    | EName x => match aget x en with
                 | Some v => k v s
                 | None => kx (exn "UnboundLocalError") s
                 end
    | EGlob x => k (glob_get (fst s) x) s
    | EConst c => k (const_val c) s
    | ETuple es => evals f en es s (fun vs s1 => k (VTup vs) s1) kx
    | EAttr e1 a =>
        eval f en e1 s (fun v s1 =>
          match v with
          | VRef i =>
              match hget (fst s1) i with
              | Some (OInst _ attrs) => match aget a attrs with Some x => k x s1 | None => kx (exn "AttributeError") s1 end
              | Some OOpaque => ocall f "getattr" [v; VStr a] [] s1 k kx
              | Some _ => stuck "attribute of a non-instance"
              | None => stuck "dangling reference"
              end
          | VGlobal g => k (VGlobal (g ++ "." ++ a)) s1
          | VNone => kx (exn "AttributeError") s1
          | _ => stuck "attribute of an opaque value"
          end) kx
    | ESub e1 e2 =>
        eval f en e1 s (fun v s1 =>
          eval f en e2 s1 (fun vk s2 =>
            subscript_k (fst s2) v vk (fun x => k x s2) (fun x => kx x s2)) kx) kx
    | ECmp op a b =>
        eval f en a s (fun va s1 =>
          eval f en b s1 (fun vb s2 =>
            match op with
            | OpIs => match val_is va vb with Some r => k (VBool r) s2 | None => stuck "is on values without identity" end
            | OpIsNot => match val_is va vb with Some r => k (VBool (negb r)) s2 | None => stuck "is on values without identity" end
            | OpIn => contains_k (fst s2) va vb (fun r => k (VBool r) s2) (fun x => kx x s2)
            | OpNotIn => contains_k (fst s2) va vb (fun r => k (VBool (negb r)) s2) (fun x => kx x s2)
            | OpEq => match va, vb with
                      | VRef _, _ | _, VRef _ => stuck "== on heap objects"
                      | _, _ => k (VBool (val_eqb va vb)) s2
                      end
            | OpNotEq => match va, vb with
                         | VRef _, _ | _, VRef _ => stuck "!= on heap objects"
                         | _, _ => k (VBool (negb (val_eqb va vb))) s2
                         end
            end) kx) kx
    | EAnd a b =>
        eval f en a s (fun va s1 =>
          truthy_k (fst s1) va (fun t => if t then eval f en b s1 k kx else k va s1)) kx
    | EOr a b =>
        eval f en a s (fun va s1 =>
          truthy_k (fst s1) va (fun t => if t then k va s1 else eval f en b s1 k kx)) kx
    | ENot a =>
        eval f en a s (fun va s1 => truthy_k (fst s1) va (fun t => k (VBool (negb t)) s1)) kx
    | EIf c a b =>
        eval f en c s (fun vc s1 =>
          truthy_k (fst s1) vc (fun t => if t then eval f en a s1 k kx else eval f en b s1 k kx)) kx
    | EAdd a b =>
        eval f en a s (fun va s1 =>
          eval f en b s1 (fun vb s2 =>
            match va, vb with
            | VStr x, VStr y => k (VStr (x ++ y)) s2
            | VStr _, (VNone | VBool _ | VInt _ | VTup _) => kx (exn "TypeError") s2
            | _, _ => stuck "+ on non-strings"
            end) kx) kx
    | ECall fn args kw =>
        match fn with
        | EAttr recv m =>
            eval f en recv s (fun vr s1 =>
              evals f en args s1 (fun vargs s2 =>
                evalkw f en kw s2 (fun vkw s3 =>
                  call_method f (aget "__exc__" en) vr m vargs vkw s3 k kx) kx) kx) kx
        | _ =>
            eval f en fn s (fun vf s1 =>
              evals f en args s1 (fun vargs s2 =>
                evalkw f en kw s2 (fun vkw s3 =>
                  call_value f (aget "__exc__" en) vf vargs vkw s3 k kx) kx) kx) kx
        end
    | ESuper =>
        match aget "self" en, aget "__class__" en with
        | Some vself, Some (VStr c) => k (VSuper vself c) s
        | _, _ => stuck "super() outside a method"
        end
    | EOpaque src =>
        if String.eqb src "sys.exc_info()" then
          k (match aget "__exc__" en with
             | Some x => VTup [VGlobal "type(exc)"; x; VGlobal "exc.__traceback__"]
             | None => VTup [VNone; VNone; VNone]
             end) s
        else ocall f src [] [] s k kx
    end
  end

with evals (fuel : nat) (en : env) (es : list expr) (s : st) (k : list val -> st -> A) (kx : val -> st -> A) {struct fuel} : A :=
  match fuel with
  | O => timeout
  | S f =>
    match es with
    | [] => k [] s
    | e :: r => eval f en e s (fun v s1 => evals f en r s1 (fun vs s2 => k (v :: vs) s2) kx) kx
    end
  end

with evalkw (fuel : nat) (en : env) (kw : list (string * expr)) (s : st)
  (k : list (string * val) -> st -> A) (kx : val -> st -> A) {struct fuel} : A :=
  match fuel with
  | O => timeout
  | S f =>
    match kw with
    | [] => k [] s
    | (x, e) :: r => eval f en e s (fun v s1 => evalkw f en r s1 (fun vs s2 => k ((x, v) :: vs) s2) kx) kx
    end
  end

(* an opaque call: ask the oracle (indexed by the number of opaque calls made so far), log the call *)
with ocall (fuel : nat) (g : string) (args : list val) (kw : list (string * val)) (s : st)
  (k : val -> st -> A) (kx : val -> st -> A) {struct fuel} : A :=
  match fuel with
  | O => timeout
  | S f => run_beh f (Orc (log_len (snd s)) g args kw (fst s)) ((g, args, kw) :: snd s) k kx
  end

(* run what an opaque callee does; n = the call log including this call *)
with run_beh (fuel : nat) (b : beh) (n : list event) (k : val -> st -> A) (kx : val -> st -> A) {struct fuel} : A :=
  match fuel with
  | O => timeout
  | S f =>
    match b with
    | BDone h (ORet v) => k v (h, n)
    | BDone h (ORaise x) => kx x (h, n)
    | BCall h g args kw kb =>
        match lookup_fun P g with
        | Some fd =>
            call_fun f None g fd args kw (h, n)
              (fun v s1 => run_beh f (kb (fst s1) (ORet v)) (snd s1) k kx)
              (fun x s1 => run_beh f (kb (fst s1) (ORaise x)) (snd s1) k kx)
        | None => stuck "callback into an unknown function"
        end
    end
  end

with call_value (fuel : nat) (cur : option val) (vf : val) (args : list val) (kw : list (string * val)) (s : st)
  (k : val -> st -> A) (kx : val -> st -> A) {struct fuel} : A :=
  match fuel with
  | O => timeout
  | S f =>
    match vf with
    | VGlobal g =>
        match lookup_fun P g with
        | Some fd => call_fun f cur g fd args kw s k kx
        | None => ocall f g args kw s k kx
        end
    | VRef i =>
        match hget (fst s) i with
        | Some (OInst c _) =>
            match find_method P (mro_of P c) "__call__" with
            | Some (c', fd) => call_fun f cur (c' ++ ".__call__") fd (vf :: args) kw s k kx
            | None => ocall f (c ++ ".__call__") (vf :: args) kw s k kx
            end
        | Some OOpaque => ocall f "<object>.__call__" (vf :: args) kw s k kx
        | Some _ => kx (exn "TypeError") s
        | None => stuck "dangling reference"
        end
    | VNone | VBool _ | VStr _ | VInt _ | VTup _ => kx (exn "TypeError") s
    | _ => stuck "call of an unsupported value"
    end
  end

with call_method (fuel : nat) (cur : option val) (vr : val) (m : string) (args : list val) (kw : list (string * val)) (s : st)
  (k : val -> st -> A) (kx : val -> st -> A) {struct fuel} : A :=
  match fuel with
  | O => timeout
  | S f =>
    match vr with
    | VRef i =>
        match hget (fst s) i with
        | Some (OInst c attrs) =>
            match aget m attrs with
            | Some vf => call_value f cur vf args kw s k kx
            | None =>
                match find_method P (mro_of P c) m with
                | Some (c', fd) => call_fun f cur (c' ++ "." ++ m) fd (vr :: args) kw s k kx
                | None => ocall f (c ++ "." ++ m) (vr :: args) kw s k kx
                end
            end
        | Some OOpaque => ocall f ("<object>." ++ m) (vr :: args) kw s k kx
        | Some o => match kw with
                    | [] => builtin_method_k (fst s) i o m args (fun v h' => k v (h', snd s)) (fun x => kx x s)
                    | _ => stuck "keyword arguments to a built-in method"
                    end
        | None => stuck "dangling reference"
        end
    | VSuper vself c =>
        match vself with
        | VRef i =>
            match hget (fst s) i with
            | Some (OInst c0 _) =>
                match find_method P (drop_until c (mro_of P c0)) m with
                | Some (c', fd) => call_fun f cur (c' ++ "." ++ m) fd (vself :: args) kw s k kx
                | None => ocall f ("super." ++ m) (vself :: args) kw s k kx
                end
            | _ => stuck "super() of a non-instance"
            end
        | _ => stuck "super() of a non-instance"
        end
    | VGlobal g => call_value f cur (VGlobal (g ++ "." ++ m)) args kw s k kx
    | VNone => kx (exn "AttributeError") s
    | _ => stuck "method call on an unsupported value"
    end
  end

with call_fun (fuel : nat) (cur : option val) (name : string) (fd : fundef) (args : list val) (kw : list (string * val)) (s : st)
  (k : val -> st -> A) (kx : val -> st -> A) {struct fuel} : A :=
  match fuel with
  | O => timeout
  | S f =>
    match bind_params fd args kw with
    | None => kx (exn "TypeError") s
    | Some en0 =>
        let en1 := match before_dot name with
                   | Some c => ("__class__", VStr c) :: en0
                   | None => en0
                   end in
        (* the exception being handled is dynamic: a callee sees its caller's *)
        let en2 := match cur with
                   | Some x => ("__exc__", x) :: en1
                   | None => en1
                   end in
        blk en2 (fbody fd) s
          (fun _ s1 => k VNone s1) (fun v _ s1 => k v s1) (fun x _ s1 => kx x s1)
    end
  end

with assign (fuel : nat) (en : env) (t : target) (v : val) (s : st)
  (kn : env -> st -> A) (kx : val -> env -> st -> A) {struct fuel} : A :=
  match fuel with
  | O => timeout
  | S f =>
    match t with
    | TName x => kn (aset x v en) s
    | TGlob x =>
        match hget (fst s) module_dict with
        | Some (ODict kvs) => kn en (hset (fst s) module_dict (ODict (dset (VStr x) v kvs)), snd s)
        | _ => stuck "no module dictionary"
        end
    | TSub e e2 =>
        eval f en e s (fun vo s1 =>
          eval f en e2 s1 (fun vk s2 =>
            match vo with
            | VRef i =>
                match hget (fst s2) i with
                | Some (ODict kvs) => kn en (hset (fst s2) i (ODict (dset vk v kvs)), snd s2)
                | Some _ => stuck "item assignment to a non-dict"
                | None => stuck "dangling reference"
                end
            | VNone | VBool _ | VInt _ | VStr _ | VTup _ => kx (exn "TypeError") en s2
            | _ => stuck "item assignment to an opaque value"
            end) (fun x s2 => kx x en s2)) (fun x s1 => kx x en s1)
    | TAttr e a =>
        eval f en e s (fun vo s1 =>
          match vo with
          | VRef i =>
              match hget (fst s1) i with
              | Some (OInst c attrs) => kn en (hset (fst s1) i (OInst c (aset a v attrs)), snd s1)
              | Some _ => stuck "attribute assignment to a non-instance"
              | None => stuck "dangling reference"
              end
          | VGlobal _ => ocall f "setattr" [vo; VStr a; v] [] s1 (fun _ s2 => kn en s2) (fun x s2 => kx x en s2)
          | _ => stuck "attribute assignment to a non-reference"
          end) (fun x s1 => kx x en s1)
    | TTuple ts =>
        match iter_items (fst s) v with
        | Some vs =>
            if Nat.eqb (List.length vs) (List.length ts) then assigns f en ts vs s kn kx
            else kx (exn "ValueError") en s
        | None => match v with
                  | VNone | VBool _ | VInt _ => kx (exn "TypeError") en s
                  | _ => stuck "unpacking an opaque value"
                  end
        end
    end
  end

with assigns (fuel : nat) (en : env) (ts : list target) (vs : list val) (s : st)
  (kn : env -> st -> A) (kx : val -> env -> st -> A) {struct fuel} : A :=
  match fuel with
  | O => timeout
  | S f =>
    match ts, vs with
    | t :: ts', v :: vs' => assign f en t v s (fun en1 s1 => assigns f en1 ts' vs' s1 kn kx) kx
    | _, _ => kn en s
    end
  end.

End Expr.

(* ---- statements *)
Fixpoint exec (fuel : nat) (en : env) (c : stmt) (s : st)
  (kn : env -> st -> A) (kr : val -> env -> st -> A) (kx : val -> env -> st -> A) {struct fuel} : A :=
  match fuel with
  | O => timeout
  | S f =>
    match c with
    | SAssign t e => eval (exec_block f) f en e s (fun v s1 => assign (exec_block f) f en t v s1 kn kx) (fun x s1 => kx x en s1)
    | SExpr e => eval (exec_block f) f en e s (fun _ s1 => kn en s1) (fun x s1 => kx x en s1)
    | SIf c a b =>
        eval (exec_block f) f en c s (fun vc s1 =>
          truthy_k (fst s1) vc (fun t => if t then exec_block f en a s1 kn kr kx else exec_block f en b s1 kn kr kx))
          (fun x s1 => kx x en s1)
    | STry body handlers fin =>
        (* whatever way control leaves the body or a handler, the finally block runs first;
           if it completes normally the original way out is resumed, otherwise its own way out wins *)
        let after (c2 : ctl) (en2 : env) (s2 : st) : A :=
          match fin with
          | [] => dispatch c2 en2 s2 kn kr kx
          | _ => exec_block f en2 fin s2 (fun en3 s3 => dispatch c2 en3 s3 kn kr kx) kr kx
          end in
        exec_block f en body s
          (fun en1 s1 => after CNorm en1 s1)
          (fun v en1 s1 => after (CRet v) en1 s1)
          (fun x en1 s1 =>
             handle f en1 x handlers s1
               (fun en2 s2 => after CNorm en2 s2)
               (fun v en2 s2 => after (CRet v) en2 s2)
               (fun x2 en2 s2 => after (CExc x2) en2 s2))
    | SFor t e body =>
        eval (exec_block f) f en e s (fun v s1 =>
          match iter_items (fst s1) v with
          | Some vs => exec_for f en t vs body s1 kn kr kx
          | None => stuck "iteration over an opaque value"
          end) (fun x s1 => kx x en s1)
    | SReturn None => kr VNone en s
    | SReturn (Some e) => eval (exec_block f) f en e s (fun v s1 => kr v en s1) (fun x s1 => kx x en s1)
    | SRaise None =>
        match aget "__exc__" en with
        | Some x => kx x en s
        | None => kx (exn "RuntimeError") en s
        end
    | SRaise (Some e) =>
        eval (exec_block f) f en e s (fun v s1 =>
          match v with
          | VExc c i => kx (VExc c i) en s1
          | _ => stuck "raise of a non-exception value"
          end) (fun x s1 => kx x en s1)
    | SGlobal _ => kn en s
    | SPass => kn en s
    end
  end

with handle (fuel : nat) (en : env) (x : val) (hs : list (list string * option string * list stmt)) (s : st)
  (kn : env -> st -> A) (kr : val -> env -> st -> A) (kx : val -> env -> st -> A) {struct fuel} : A :=
  match fuel with
  | O => timeout
  | S f =>
    match hs with
    | [] => kx x en s
    | (classes, nm, body) :: r =>
        if exc_matches P x classes then
          let en1 := ("__exc__", x) :: match nm with Some n => aset n x en | None => en end in
          exec_block f en1 body s
            (fun en2 s2 => kn (strip_exc en2) s2)
            (fun v en2 s2 => kr v (strip_exc en2) s2)
            (fun x2 en2 s2 => kx x2 (strip_exc en2) s2)
        else handle f en x r s kn kr kx
    end
  end

with exec_for (fuel : nat) (en : env) (t : target) (vs : list val) (body : list stmt) (s : st)
  (kn : env -> st -> A) (kr : val -> env -> st -> A) (kx : val -> env -> st -> A) {struct fuel} : A :=
  match fuel with
  | O => timeout
  | S f =>
    match vs with
    | [] => kn en s
    | v :: r =>
        assign (exec_block f) f en t v s
          (fun en1 s1 => exec_block f en1 body s1 (fun en2 s2 => exec_for f en2 t r body s2 kn kr kx) kr kx)
          kx
    end
  end

with exec_block (fuel : nat) (en : env) (cs : list stmt) (s : st)
  (kn : env -> st -> A) (kr : val -> env -> st -> A) (kx : val -> env -> st -> A) {struct fuel} : A :=
  match fuel with
  | O => timeout
  | S f =>
    match cs with
    | [] => kn en s
    | c :: r => exec f en c s (fun en1 s1 => exec_block f en1 r s1 kn kr kx) kr kx
    end
  end.

End Sem.

(* ---- running with a result value as the answer *)
Definition run_fun (P : prog) (Orc : oracle) (fuel : nat) (cur : option val) (name : string) (fd : fundef)
  (args : list val) (kw : list (string * val)) (s : st) : eres :=
  call_fun P Orc eres ETimeout EStuck (exec_block P Orc eres ETimeout EStuck fuel) fuel cur name fd args kw s EOk EExc.
Definition run_method (P : prog) (Orc : oracle) (fuel : nat) (vr : val) (m : string)
  (args : list val) (kw : list (string * val)) (s : st) : eres :=
  call_method P Orc eres ETimeout EStuck (exec_block P Orc eres ETimeout EStuck fuel) fuel None vr m args kw s EOk EExc.
