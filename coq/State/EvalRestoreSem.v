(* Fuelled big-step semantics of the Python fragment of EvalRestoreSyntax.v.

   Hand-written from the Python language reference (assignment, try/finally,
   except matching by class, short-circuit and/or, dict/set methods); it is
   *modelled, not verified*: the harness validates it by running the real
   functions under CPython with scripted callees and comparing with [call_fun]
   of the generated terms on the same configurations.

   Everything the fragment cannot see into is an *opaque call*, answered by an
   oracle; the theorems quantify over all oracles (subject to stated frame
   conditions), so nothing is assumed about what the callee computes.
   Fuel decreases on every recursive call; exhaustion is the distinguished
   [ETimeout]/[STimeout]; a dynamic situation outside the fragment is the
   distinguished [EStuck]/[SStuck] (never a normal-looking value). *)
From HyV Require Export State.EvalRestoreSyntax.

Inductive val :=
| VNone | VBool (b : bool) | VStr (s : string) | VInt (z : Z)
| VTup (vs : list val)
| VRef (id : N)                        (* a mutable heap object *)
| VExc (cls : string) (id : N)         (* an exception instance *)
| VGlobal (name : string)              (* a module-level function / class / module, known by name only *)
| VSuper (self : val) (cls : string).  (* super() of a method of class cls *)

Inductive obj :=
| ODict (kvs : list (val * val))
| OSet (vs : list val)
| OList (vs : list val)
| OInst (cls : string) (attrs : list (string * val))
| OOpaque.

Fixpoint val_eqb (a b : val) {struct a} : bool :=
  match a, b with
  | VNone, VNone => true
  | VBool x, VBool y => Bool.eqb x y
  | VStr x, VStr y => String.eqb x y
  | VInt x, VInt y => Z.eqb x y
  | VTup xs, VTup ys =>
      (fix go (xs ys : list val) {struct xs} : bool :=
         match xs, ys with
         | [], [] => true
         | x :: xs', y :: ys' => val_eqb x y && go xs' ys'
         | _, _ => false
         end) xs ys
  | VRef i, VRef j => N.eqb i j
  | VExc c i, VExc d j => String.eqb c d && N.eqb i j
  | VGlobal x, VGlobal y => String.eqb x y
  | VSuper x c, VSuper y d => val_eqb x y && String.eqb c d
  | _, _ => false
  end.

(* ---- heap: association list, newest binding first *)
Definition heap := list (N * obj).
Fixpoint hget (h : heap) (i : N) : option obj :=
  match h with
  | [] => None
  | (j, o) :: h' => if N.eqb i j then Some o else hget h' i
  end.
Definition hset (h : heap) (i : N) (o : obj) : heap := (i, o) :: h.

(* ---- dictionaries: insertion-ordered association lists *)
Fixpoint dget (k : val) (kvs : list (val * val)) : option val :=
  match kvs with
  | [] => None
  | (k', v) :: r => if val_eqb k k' then Some v else dget k r
  end.
Fixpoint dset (k v : val) (kvs : list (val * val)) : list (val * val) :=
  match kvs with
  | [] => [(k, v)]
  | (k', v') :: r => if val_eqb k k' then (k', v) :: r else (k', v') :: dset k v r
  end.
Fixpoint ddel (k : val) (kvs : list (val * val)) : list (val * val) :=
  match kvs with
  | [] => []
  | (k', v') :: r => if val_eqb k k' then ddel k r else (k', v') :: ddel k r
  end.

Fixpoint aget {A} (x : string) (l : list (string * A)) : option A :=
  match l with
  | [] => None
  | (y, v) :: r => if String.eqb x y then Some v else aget x r
  end.
Fixpoint aset {A} (x : string) (v : A) (l : list (string * A)) : list (string * A) :=
  match l with
  | [] => [(x, v)]
  | (y, w) :: r => if String.eqb x y then (y, v) :: r else (y, w) :: aset x v r
  end.

Definition vmem (x : val) (l : list val) : bool := existsb (val_eqb x) l.
Fixpoint vremove (x : val) (l : list val) : list val :=
  match l with
  | [] => []
  | y :: r => if val_eqb x y then r else y :: vremove x r
  end.

(* ---- programs and opaque callees *)
Record prog := {
  pfuns : list (string * fundef);        (* "hy_eval_user", "REPL.runsource", ... *)
  pmro : list (string * list string);    (* class -> its linearisation, itself first *)
  pvars : list string                    (* module-level variables (live in the module dict, heap id 0) *)
}.

Inductive ores := ORet (v : val) | ORaise (e : val).
(* What an opaque callee does: it may change the heap, call back into the
   program any number of times, and finally return or raise. *)
Inductive beh :=
| BDone (h : heap) (r : ores)
| BCall (h : heap) (f : string) (args : list val) (kw : list (string * val)) (k : heap -> ores -> beh).
(* arguments: number of opaque calls made so far, callee name, positional and keyword arguments, heap *)
Definition oracle := nat -> string -> list val -> list (string * val) -> heap -> beh.

(* the oracle's index: number of opaque calls logged so far *)
Definition log_len (l : list (string * list val * list (string * val))) : nat := List.length l.
(* an opaque call as logged: callee name, positional and keyword arguments *)
Definition event := (string * list val * list (string * val))%type.
(* heap and the log of opaque calls made so far, newest first *)
Definition st := (heap * list event)%type.
Definition env := list (string * val).

Inductive eres := EOk (v : val) (s : st) | EExc (e : val) (s : st) | ETimeout | EStuck (m : string).
Inductive elres := LOk (vs : list val) (s : st) | LExc (e : val) (s : st) | LTimeout | LStuck (m : string).
Inductive kres := KOk (kw : list (string * val)) (s : st) | KExc (e : val) (s : st) | KTimeout | KStuck (m : string).
Inductive ctl := CNorm | CRet (v : val) | CExc (e : val).
Inductive sres := SR (c : ctl) (en : env) (s : st) | STimeout | SStuck (m : string).

Definition exn (cls : string) : val := VExc cls 0.
Definition module_dict : N := 0%N.

Definition const_val (c : const) : val :=
  match c with
  | CNone => VNone | CTrue => VBool true | CFalse => VBool false
  | CStr s => VStr s | CInt z => VInt z
  end.

(* bool(v); None = outside the fragment *)
Definition truthy (h : heap) (v : val) : option bool :=
  match v with
  | VNone => Some false
  | VBool b => Some b
  | VStr s => Some (negb (String.eqb s ""))
  | VInt z => Some (negb (Z.eqb z 0))
  | VTup vs => Some (match vs with [] => false | _ => true end)
  | VRef i =>
      match hget h i with
      | Some (ODict kvs) => Some (match kvs with [] => false | _ => true end)
      | Some (OSet vs) => Some (match vs with [] => false | _ => true end)
      | Some (OList vs) => Some (match vs with [] => false | _ => true end)
      | Some (OInst _ _) => Some true
      | Some OOpaque => Some true
      | None => None
      end
  | VExc _ _ => Some true
  | VGlobal _ => Some true
  | VSuper _ _ => Some true
  end.

(* a is b; None = identity of such values is not defined by the language *)
Definition val_is (a b : val) : option bool :=
  match a, b with
  | VNone, _ | _, VNone
  | VBool _, _ | _, VBool _
  | VRef _, _ | _, VRef _
  | VExc _ _, _ | _, VExc _ _
  | VGlobal _, _ | _, VGlobal _ => Some (val_eqb a b)
  | _, _ => None
  end.

Definition mro_of (P : prog) (cls : string) : list string :=
  match aget cls (pmro P) with
  | Some l => l
  | None => [cls; "Exception"; "BaseException"]
  end.
Definition strmem (x : string) (l : list string) : bool := existsb (String.eqb x) l.
(* does exception e match an except clause naming these classes ([] = bare except) *)
Definition exc_matches (P : prog) (e : val) (classes : list string) : bool :=
  match classes with
  | [] => true
  | _ => match e with
         | VExc c _ => existsb (fun k => strmem k (mro_of P c)) classes
         | _ => false
         end
  end.

Definition lookup_fun (P : prog) (g : string) : option fundef := aget g (pfuns P).

Fixpoint drop_until (c : string) (l : list string) : list string :=
  match l with
  | [] => []
  | x :: r => if String.eqb x c then r else drop_until c r
  end.
Fixpoint find_method (P : prog) (classes : list string) (m : string) : option (string * fundef) :=
  match classes with
  | [] => None
  | c :: r => match aget (c ++ "." ++ m) (pfuns P) with
              | Some fd => Some (c, fd)
              | None => find_method P r m
              end
  end.

(* "REPL.runsource" -> Some "REPL"; "hy_eval_user" -> None *)
Fixpoint before_dot (s : string) : option string :=
  match s with
  | EmptyString => None
  | String c r => if Ascii.eqb c (Ascii.Ascii false true true true false true false false) then Some EmptyString else option_map (String c) (before_dot r)
  end.

(* bind parameters: positionals, then keywords, then defaults; surplus positionals and
   unknown keywords are a TypeError (None) unless the function has unused *args/**kwargs *)
Fixpoint bind_params_aux (extra : bool) (ps : list (string * option const)) (args : list val) (kw : list (string * val))
  : option (list (string * val)) :=
  match ps with
  | [] => match args with [] => Some [] | _ => if extra then Some [] else None end
  | (x, d) :: r =>
      match args with
      | a :: args' => option_map (fun e => (x, a) :: e) (bind_params_aux extra r args' kw)
      | [] =>
          match aget x kw with
          | Some v => option_map (fun e => (x, v) :: e) (bind_params_aux extra r [] kw)
          | None => match d with
                    | Some c => option_map (fun e => (x, const_val c) :: e) (bind_params_aux extra r [] kw)
                    | None => None
                    end
          end
      end
  end.
Definition bind_params (fd : fundef) (args : list val) (kw : list (string * val)) : option (list (string * val)) :=
  if fextra fd || forallb (fun p => existsb (fun q => String.eqb (fst p) (fst q)) (fparams fd)) kw
  then bind_params_aux (fextra fd) (fparams fd) args kw
  else None.

(* The interpreter is written with open recursion: every [*_step] function takes the
   record of interpreters of the next-smaller fuel.  [interp] ties the knot.  (This
   keeps each step a non-recursive definition, which is what makes controlled
   symbolic execution of generated terms possible in proofs.) *)
Record recs := {
  r_eval : env -> expr -> st -> eres;
  r_evals : env -> list expr -> st -> elres;
  r_evalkw : env -> (list (string * expr)) -> st -> kres;
  r_ocall : string -> list val -> (list (string * val)) -> st -> eres;
  r_run_beh : beh -> list event -> eres;
  r_call_value : option val -> val -> list val -> (list (string * val)) -> st -> eres;
  r_call_method : option val -> val -> string -> list val -> (list (string * val)) -> st -> eres;
  r_call_fun : option val -> string -> fundef -> list val -> (list (string * val)) -> st -> eres;
  r_assign : env -> target -> val -> st -> sres;
  r_assigns : env -> list target -> list val -> st -> sres;
  r_exec : env -> stmt -> st -> sres;
  r_handle : env -> val -> (list (list string * option string * list stmt)) -> st -> sres;
  r_exec_for : env -> target -> list val -> list stmt -> st -> sres;
  r_exec_block : env -> list stmt -> st -> sres
}.

Section Sem.
Variable P : prog.
Variable Orc : oracle.

Definition glob_get (h : heap) (x : string) : val :=
  if strmem x (pvars P) then
    match hget h module_dict with
    | Some (ODict kvs) => match dget (VStr x) kvs with Some v => v | None => VGlobal x end
    | _ => VGlobal x
    end
  else VGlobal x.

Definition subscript (h : heap) (v k : val) (s : st) : eres :=
  match v with
  | VRef i =>
      match hget h i with
      | Some (ODict kvs) => match dget k kvs with Some x => EOk x s | None => EExc (exn "KeyError") s end
      | Some (OList vs) =>
          match k with
          | VInt z => if (z <? 0)%Z then EStuck "negative index"
                      else match nth_error vs (Z.to_nat z) with Some x => EOk x s | None => EExc (exn "IndexError") s end
          | _ => EExc (exn "TypeError") s
          end
      | Some _ => EExc (exn "TypeError") s
      | None => EStuck "dangling reference"
      end
  | VTup vs =>
      match k with
      | VInt z => if (z <? 0)%Z then EStuck "negative index"
                  else match nth_error vs (Z.to_nat z) with Some x => EOk x s | None => EExc (exn "IndexError") s end
      | _ => EExc (exn "TypeError") s
      end
  | VNone | VBool _ | VInt _ => EExc (exn "TypeError") s
  | _ => EStuck "subscript of an opaque value"
  end.

Definition contains (h : heap) (k c : val) (s : st) : eres :=
  match c with
  | VRef i =>
      match hget h i with
      | Some (ODict kvs) => EOk (VBool (match dget k kvs with Some _ => true | None => false end)) s
      | Some (OSet vs) => EOk (VBool (vmem k vs)) s
      | Some (OList vs) => EOk (VBool (vmem k vs)) s
      | Some _ => EStuck "membership in an opaque object"
      | None => EStuck "dangling reference"
      end
  | VTup vs => EOk (VBool (vmem k vs)) s
  | VNone | VBool _ | VInt _ => EExc (exn "TypeError") s
  | _ => EStuck "membership in an opaque value"
  end.

Definition get_attr (h : heap) (v : val) (a : string) (s : st) : eres :=
  match v with
  | VRef i =>
      match hget h i with
      | Some (OInst _ attrs) => match aget a attrs with Some x => EOk x s | None => EExc (exn "AttributeError") s end
      | Some _ => EStuck "attribute of a non-instance"
      | None => EStuck "dangling reference"
      end
  | VGlobal g => EOk (VGlobal (g ++ "." ++ a)) s
  | VNone => EExc (exn "AttributeError") s
  | _ => EStuck "attribute of an opaque value"
  end.

(* methods of the built-in containers *)
Definition builtin_method (h : heap) (i : N) (o : obj) (m : string) (args : list val) (s : st) : eres :=
  let n := snd s in
  match o, m, args with
  | ODict kvs, "pop", [k; d] =>
      match dget k kvs with
      | Some x => EOk x (hset h i (ODict (ddel k kvs)), n)
      | None => EOk d s
      end
  | ODict kvs, "pop", [k] =>
      match dget k kvs with
      | Some x => EOk x (hset h i (ODict (ddel k kvs)), n)
      | None => EExc (exn "KeyError") s
      end
  | ODict kvs, "get", [k; d] => EOk (match dget k kvs with Some x => x | None => d end) s
  | ODict kvs, "get", [k] => EOk (match dget k kvs with Some x => x | None => VNone end) s
  | OSet vs, "add", [x] => EOk VNone (hset h i (OSet (if vmem x vs then vs else vs ++ [x])), n)
  | OSet vs, "discard", [x] => EOk VNone (hset h i (OSet (vremove x vs)), n)
  | OSet vs, "remove", [x] =>
      if vmem x vs then EOk VNone (hset h i (OSet (vremove x vs)), n) else EExc (exn "KeyError") s
  | OList vs, "append", [x] => EOk VNone (hset h i (OList (vs ++ [x])), n)
  | _, _, _ => EStuck ("unsupported built-in method " ++ m)
  end.

Definition iter_items (h : heap) (v : val) : option (list val) :=
  match v with
  | VTup vs => Some vs
  | VRef i => match hget h i with
              | Some (OList vs) => Some vs
              | Some (OSet vs) => Some vs
              | Some (ODict kvs) => Some (map fst kvs)
              | _ => None
              end
  | _ => None
  end.

Definition eval_step (R : recs) (en : env) (e : expr) (s : st) : eres :=
    match e with
    | EName x => match aget x en with
                 | Some v => EOk v s
                 | None => EExc (exn "UnboundLocalError") s
                 end
    | EGlob x => EOk (glob_get (fst s) x) s
    | EConst c => EOk (const_val c) s
    | ETuple es =>
        match r_evals R en es s with
        | LOk vs s1 => EOk (VTup vs) s1
        | LExc x s1 => EExc x s1 | LTimeout => ETimeout | LStuck m => EStuck m
        end
    | EAttr e1 a =>
        match r_eval R en e1 s with
        | EOk v s1 =>
            match v with
            | VRef i => match hget (fst s1) i with
                        | Some OOpaque => r_ocall R "getattr" [v; VStr a] [] s1
                        | _ => get_attr (fst s1) v a s1
                        end
            | _ => get_attr (fst s1) v a s1
            end
        | r => r
        end
    | ESub e1 k =>
        match r_eval R en e1 s with
        | EOk v s1 =>
            match r_eval R en k s1 with
            | EOk vk s2 => subscript (fst s2) v vk s2
            | r => r
            end
        | r => r
        end
    | ECmp op a b =>
        match r_eval R en a s with
        | EOk va s1 =>
            match r_eval R en b s1 with
            | EOk vb s2 =>
                match op with
                | OpIs => match val_is va vb with Some r => EOk (VBool r) s2 | None => EStuck "is on values without identity" end
                | OpIsNot => match val_is va vb with Some r => EOk (VBool (negb r)) s2 | None => EStuck "is on values without identity" end
                | OpIn => contains (fst s2) va vb s2
                | OpNotIn => match contains (fst s2) va vb s2 with
                             | EOk (VBool r) s3 => EOk (VBool (negb r)) s3
                             | r => r
                             end
                | OpEq => match va, vb with
                          | VRef _, _ | _, VRef _ => EStuck "== on heap objects"
                          | _, _ => EOk (VBool (val_eqb va vb)) s2
                          end
                | OpNotEq => match va, vb with
                             | VRef _, _ | _, VRef _ => EStuck "!= on heap objects"
                             | _, _ => EOk (VBool (negb (val_eqb va vb))) s2
                             end
                end
            | r => r
            end
        | r => r
        end
    | EAnd a b =>
        match r_eval R en a s with
        | EOk va s1 => match truthy (fst s1) va with
                       | Some true => r_eval R en b s1
                       | Some false => EOk va s1
                       | None => EStuck "truth value of a dangling reference"
                       end
        | r => r
        end
    | EOr a b =>
        match r_eval R en a s with
        | EOk va s1 => match truthy (fst s1) va with
                       | Some true => EOk va s1
                       | Some false => r_eval R en b s1
                       | None => EStuck "truth value of a dangling reference"
                       end
        | r => r
        end
    | ENot a =>
        match r_eval R en a s with
        | EOk va s1 => match truthy (fst s1) va with
                       | Some b => EOk (VBool (negb b)) s1
                       | None => EStuck "truth value of a dangling reference"
                       end
        | r => r
        end
    | EIf c a b =>
        match r_eval R en c s with
        | EOk vc s1 => match truthy (fst s1) vc with
                       | Some true => r_eval R en a s1
                       | Some false => r_eval R en b s1
                       | None => EStuck "truth value of a dangling reference"
                       end
        | r => r
        end
    | EAdd a b =>
        match r_eval R en a s with
        | EOk va s1 =>
            match r_eval R en b s1 with
            | EOk vb s2 => match va, vb with
                           | VStr x, VStr y => EOk (VStr (x ++ y)) s2
                           | VStr _, (VNone | VBool _ | VInt _ | VTup _) => EExc (exn "TypeError") s2
                           | _, _ => EStuck "+ on non-strings"
                           end
            | r => r
            end
        | r => r
        end
    | ECall fn args kw =>
        match fn with
        | EAttr recv m =>
            match r_eval R en recv s with
            | EOk vr s1 =>
                match r_evals R en args s1 with
                | LOk vargs s2 =>
                    match r_evalkw R en kw s2 with
                    | KOk vkw s3 => r_call_method R (aget "__exc__" en) vr m vargs vkw s3
                    | KExc x s3 => EExc x s3
                    | KTimeout => ETimeout
                    | KStuck m' => EStuck m'
                    end
                | LExc x s2 => EExc x s2 | LTimeout => ETimeout | LStuck m' => EStuck m'
                end
            | r => r
            end
        | _ =>
            match r_eval R en fn s with
            | EOk vf s1 =>
                match r_evals R en args s1 with
                | LOk vargs s2 =>
                    match r_evalkw R en kw s2 with
                    | KOk vkw s3 => r_call_value R (aget "__exc__" en) vf vargs vkw s3
                    | KExc x s3 => EExc x s3
                    | KTimeout => ETimeout
                    | KStuck m' => EStuck m'
                    end
                | LExc x s2 => EExc x s2 | LTimeout => ETimeout | LStuck m' => EStuck m'
                end
            | r => r
            end
        end
    | ESuper =>
        match aget "self" en, aget "__class__" en with
        | Some vself, Some (VStr c) => EOk (VSuper vself c) s
        | _, _ => EStuck "super() outside a method"
        end
    | EOpaque src =>
        if String.eqb src "sys.exc_info()" then
          EOk (match aget "__exc__" en with
               | Some x => VTup [VGlobal "type(exc)"; x; VGlobal "exc.__traceback__"]
               | None => VTup [VNone; VNone; VNone]
               end) s
        else r_ocall R src [] [] s
    end.

Definition evals_step (R : recs) (en : env) (es : list expr) (s : st) : elres :=
    match es with
    | [] => LOk [] s
    | e :: r =>
        match r_eval R en e s with
        | EOk v s1 =>
            match r_evals R en r s1 with
            | LOk vs s2 => LOk (v :: vs) s2
            | x => x
            end
        | EExc x s1 => LExc x s1 | ETimeout => LTimeout | EStuck m => LStuck m
        end
    end.

Definition evalkw_step (R : recs) (en : env) (kw : list (string * expr)) (s : st) : kres :=
    match kw with
    | [] => KOk [] s
    | (k, e) :: r =>
        match r_eval R en e s with
        | EOk v s1 =>
            match r_evalkw R en r s1 with
            | KOk vs s2 => KOk ((k, v) :: vs) s2
            | KExc x s2 => KExc x s2
            | KTimeout => KTimeout
            | KStuck m => KStuck m
            end
        | EExc x s1 => KExc x s1
        | ETimeout => KTimeout
        | EStuck m => KStuck m
        end
    end.

(* an opaque call: ask the oracle (indexed by the number of opaque calls made so far), log the call *)
Definition ocall_step (R : recs) (g : string) (args : list val) (kw : list (string * val)) (s : st) : eres := r_run_beh R (Orc (log_len (snd s)) g args kw (fst s)) ((g, args, kw) :: snd s).

(* run what an opaque callee does; n = the call log including this call *)
Definition run_beh_step (R : recs) (b : beh) (n : list event) : eres :=
    match b with
    | BDone h (ORet v) => EOk v (h, n)
    | BDone h (ORaise x) => EExc x (h, n)
    | BCall h g args kw k =>
        match lookup_fun P g with
        | Some fd =>
            match r_call_fun R None g fd args kw (h, n) with
            | EOk v (h1, n1) => r_run_beh R (k h1 (ORet v)) n1
            | EExc x (h1, n1) => r_run_beh R (k h1 (ORaise x)) n1
            | r => r
            end
        | None => EStuck "callback into an unknown function"
        end
    end.

Definition call_value_step (R : recs) (cur : option val) (vf : val) (args : list val) (kw : list (string * val)) (s : st) : eres :=
    match vf with
    | VGlobal g =>
        match lookup_fun P g with
        | Some fd => r_call_fun R cur g fd args kw s
        | None => r_ocall R g args kw s
        end
    | VRef i =>
        match hget (fst s) i with
        | Some (OInst c _) =>
            match find_method P (mro_of P c) "__call__" with
            | Some (c', fd) => r_call_fun R cur (c' ++ ".__call__") fd (vf :: args) kw s
            | None => r_ocall R (c ++ ".__call__") (vf :: args) kw s
            end
        | Some OOpaque => r_ocall R "<object>.__call__" (vf :: args) kw s
        | Some _ => EExc (exn "TypeError") s
        | None => EStuck "dangling reference"
        end
    | VNone | VBool _ | VStr _ | VInt _ | VTup _ => EExc (exn "TypeError") s
    | _ => EStuck "call of an unsupported value"
    end.

Definition call_method_step (R : recs) (cur : option val) (vr : val) (m : string) (args : list val) (kw : list (string * val)) (s : st) : eres :=
    match vr with
    | VRef i =>
        match hget (fst s) i with
        | Some (OInst c attrs) =>
            match aget m attrs with
            | Some vf => r_call_value R cur vf args kw s
            | None =>
                match find_method P (mro_of P c) m with
                | Some (c', fd) => r_call_fun R cur (c' ++ "." ++ m) fd (vr :: args) kw s
                | None => r_ocall R (c ++ "." ++ m) (vr :: args) kw s
                end
            end
        | Some OOpaque => r_ocall R ("<object>." ++ m) (vr :: args) kw s
        | Some o => match kw with
                    | [] => builtin_method (fst s) i o m args s
                    | _ => EStuck "keyword arguments to a built-in method"
                    end
        | None => EStuck "dangling reference"
        end
    | VSuper vself c =>
        match vself with
        | VRef i =>
            match hget (fst s) i with
            | Some (OInst c0 _) =>
                match find_method P (drop_until c (mro_of P c0)) m with
                | Some (c', fd) => r_call_fun R cur (c' ++ "." ++ m) fd (vself :: args) kw s
                | None => r_ocall R ("super." ++ m) (vself :: args) kw s
                end
            | _ => EStuck "super() of a non-instance"
            end
        | _ => EStuck "super() of a non-instance"
        end
    | VGlobal g => r_call_value R cur (VGlobal (g ++ "." ++ m)) args kw s
    | VNone => EExc (exn "AttributeError") s
    | _ => EStuck "method call on an unsupported value"
    end.

Definition call_fun_step (R : recs) (cur : option val) (name : string) (fd : fundef) (args : list val) (kw : list (string * val)) (s : st) : eres :=
    match bind_params fd args kw with
    | None => EExc (exn "TypeError") s
    | Some en0 =>
        let en1 := match before_dot name with
                   | Some c => ("__class__", VStr c) :: en0
                   | None => en0
                   end in
        (* the exception being handled is dynamic: a callee sees its caller's *)
        let en1 := match cur with
                   | Some x => ("__exc__", x) :: en1
                   | None => en1
                   end in
        match r_exec_block R en1 (fbody fd) s with
        | SR CNorm _ s1 => EOk VNone s1
        | SR (CRet v) _ s1 => EOk v s1
        | SR (CExc x) _ s1 => EExc x s1
        | STimeout => ETimeout
        | SStuck m => EStuck m
        end
    end.

Definition assign_step (R : recs) (en : env) (t : target) (v : val) (s : st) : sres :=
    match t with
    | TName x => SR CNorm (aset x v en) s
    | TGlob x =>
        match hget (fst s) module_dict with
        | Some (ODict kvs) => SR CNorm en (hset (fst s) module_dict (ODict (dset (VStr x) v kvs)), snd s)
        | _ => SStuck "no module dictionary"
        end
    | TSub e k =>
        match r_eval R en e s with
        | EOk vo s1 =>
            match r_eval R en k s1 with
            | EOk vk s2 =>
                match vo with
                | VRef i =>
                    match hget (fst s2) i with
                    | Some (ODict kvs) => SR CNorm en (hset (fst s2) i (ODict (dset vk v kvs)), snd s2)
                    | Some _ => SStuck "item assignment to a non-dict"
                    | None => SStuck "dangling reference"
                    end
                | VNone | VBool _ | VInt _ | VStr _ | VTup _ => SR (CExc (exn "TypeError")) en s2
                | _ => SStuck "item assignment to an opaque value"
                end
            | EExc x s2 => SR (CExc x) en s2 | ETimeout => STimeout | EStuck m => SStuck m
            end
        | EExc x s1 => SR (CExc x) en s1 | ETimeout => STimeout | EStuck m => SStuck m
        end
    | TAttr e a =>
        match r_eval R en e s with
        | EOk vo s1 =>
            match vo with
            | VRef i =>
                match hget (fst s1) i with
                | Some (OInst c attrs) => SR CNorm en (hset (fst s1) i (OInst c (aset a v attrs)), snd s1)
                | Some _ => SStuck "attribute assignment to a non-instance"
                | None => SStuck "dangling reference"
                end
            | VGlobal _ =>
                match r_ocall R "setattr" [vo; VStr a; v] [] s1 with
                | EOk _ s2 => SR CNorm en s2
                | EExc x s2 => SR (CExc x) en s2
                | ETimeout => STimeout
                | EStuck m => SStuck m
                end
            | _ => SStuck "attribute assignment to a non-reference"
            end
        | EExc x s1 => SR (CExc x) en s1 | ETimeout => STimeout | EStuck m => SStuck m
        end
    | TTuple ts =>
        match iter_items (fst s) v with
        | Some vs =>
            if Nat.eqb (List.length vs) (List.length ts) then r_assigns R en ts vs s
            else SR (CExc (exn "ValueError")) en s
        | None => match v with
                  | VNone | VBool _ | VInt _ => SR (CExc (exn "TypeError")) en s
                  | _ => SStuck "unpacking an opaque value"
                  end
        end
    end.

Definition assigns_step (R : recs) (en : env) (ts : list target) (vs : list val) (s : st) : sres :=
    match ts, vs with
    | t :: ts', v :: vs' =>
        match r_assign R en t v s with
        | SR CNorm en1 s1 => r_assigns R en1 ts' vs' s1
        | r => r
        end
    | _, _ => SR CNorm en s
    end.

Definition exec_step (R : recs) (en : env) (c : stmt) (s : st) : sres :=
    match c with
    | SAssign t e =>
        match r_eval R en e s with
        | EOk v s1 => r_assign R en t v s1
        | EExc x s1 => SR (CExc x) en s1 | ETimeout => STimeout | EStuck m => SStuck m
        end
    | SExpr e =>
        match r_eval R en e s with
        | EOk _ s1 => SR CNorm en s1
        | EExc x s1 => SR (CExc x) en s1 | ETimeout => STimeout | EStuck m => SStuck m
        end
    | SIf c a b =>
        match r_eval R en c s with
        | EOk vc s1 => match truthy (fst s1) vc with
                       | Some true => r_exec_block R en a s1
                       | Some false => r_exec_block R en b s1
                       | None => SStuck "truth value of a dangling reference"
                       end
        | EExc x s1 => SR (CExc x) en s1 | ETimeout => STimeout | EStuck m => SStuck m
        end
    | STry body handlers fin =>
        match r_exec_block R en body s with
        | SR c1 en1 s1 =>
            match (match c1 with
                   | CExc x => r_handle R en1 x handlers s1
                   | _ => SR c1 en1 s1
                   end) with
            | SR c2 en2 s2 =>
                match fin with
                | [] => SR c2 en2 s2
                | _ =>
                    match r_exec_block R en2 fin s2 with
                    | SR CNorm en3 s3 => SR c2 en3 s3
                    | SR c3 en3 s3 => SR c3 en3 s3
                    | STimeout => STimeout
                    | SStuck m => SStuck m
                    end
                end
            | STimeout => STimeout
            | SStuck m => SStuck m
            end
        | STimeout => STimeout
        | SStuck m => SStuck m
        end
    | SFor t e body =>
        match r_eval R en e s with
        | EOk v s1 => match iter_items (fst s1) v with
                      | Some vs => r_exec_for R en t vs body s1
                      | None => SStuck "iteration over an opaque value"
                      end
        | EExc x s1 => SR (CExc x) en s1 | ETimeout => STimeout | EStuck m => SStuck m
        end
    | SReturn None => SR (CRet VNone) en s
    | SReturn (Some e) =>
        match r_eval R en e s with
        | EOk v s1 => SR (CRet v) en s1
        | EExc x s1 => SR (CExc x) en s1 | ETimeout => STimeout | EStuck m => SStuck m
        end
    | SRaise None =>
        match aget "__exc__" en with
        | Some x => SR (CExc x) en s
        | None => SR (CExc (exn "RuntimeError")) en s
        end
    | SRaise (Some e) =>
        match r_eval R en e s with
        | EOk (VExc c i) s1 => SR (CExc (VExc c i)) en s1
        | EOk _ s1 => SStuck "raise of a non-exception value"
        | EExc x s1 => SR (CExc x) en s1 | ETimeout => STimeout | EStuck m => SStuck m
        end
    | SGlobal _ => SR CNorm en s
    | SPass => SR CNorm en s
    end.

Definition handle_step (R : recs) (en : env) (x : val) (hs : list (list string * option string * list stmt)) (s : st) : sres :=
    match hs with
    | [] => SR (CExc x) en s
    | (classes, nm, body) :: r =>
        if exc_matches P x classes then
          let en1 := ("__exc__", x) :: match nm with Some n => aset n x en | None => en end in
          match r_exec_block R en1 body s with
          | SR c en2 s2 => SR c (match en2 with ("__exc__", _) :: en3 => en3 | _ => en2 end) s2
          | r => r
          end
        else r_handle R en x r s
    end.

Definition exec_for_step (R : recs) (en : env) (t : target) (vs : list val) (body : list stmt) (s : st) : sres :=
    match vs with
    | [] => SR CNorm en s
    | v :: r =>
        match r_assign R en t v s with
        | SR CNorm en1 s1 =>
            match r_exec_block R en1 body s1 with
            | SR CNorm en2 s2 => r_exec_for R en2 t r body s2
            | x => x
            end
        | x => x
        end
    end.

Definition exec_block_step (R : recs) (en : env) (cs : list stmt) (s : st) : sres :=
    match cs with
    | [] => SR CNorm en s
    | c :: r =>
        match r_exec R en c s with
        | SR CNorm en1 s1 => r_exec_block R en1 r s1
        | x => x
        end
    end.

Definition bottom : recs := {|
  r_eval := fun en e s => ETimeout;
  r_evals := fun en es s => LTimeout;
  r_evalkw := fun en kw s => KTimeout;
  r_ocall := fun g args kw s => ETimeout;
  r_run_beh := fun b n => ETimeout;
  r_call_value := fun cur vf args kw s => ETimeout;
  r_call_method := fun cur vr m args kw s => ETimeout;
  r_call_fun := fun cur name fd args kw s => ETimeout;
  r_assign := fun en t v s => STimeout;
  r_assigns := fun en ts vs s => STimeout;
  r_exec := fun en c s => STimeout;
  r_handle := fun en x hs s => STimeout;
  r_exec_for := fun en t vs body s => STimeout;
  r_exec_block := fun en cs s => STimeout
|}.

Fixpoint interp (fuel : nat) : recs :=
  match fuel with
  | O => bottom
  | S f => let R := interp f in {|
      r_eval := eval_step R;
      r_evals := evals_step R;
      r_evalkw := evalkw_step R;
      r_ocall := ocall_step R;
      r_run_beh := run_beh_step R;
      r_call_value := call_value_step R;
      r_call_method := call_method_step R;
      r_call_fun := call_fun_step R;
      r_assign := assign_step R;
      r_assigns := assigns_step R;
      r_exec := exec_step R;
      r_handle := handle_step R;
      r_exec_for := exec_for_step R;
      r_exec_block := exec_block_step R
    |}
  end.

Definition eval (fuel : nat) := r_eval (interp fuel).
Definition evals (fuel : nat) := r_evals (interp fuel).
Definition evalkw (fuel : nat) := r_evalkw (interp fuel).
Definition ocall (fuel : nat) := r_ocall (interp fuel).
Definition run_beh (fuel : nat) := r_run_beh (interp fuel).
Definition call_value (fuel : nat) := r_call_value (interp fuel).
Definition call_method (fuel : nat) := r_call_method (interp fuel).
Definition call_fun (fuel : nat) := r_call_fun (interp fuel).
Definition assign (fuel : nat) := r_assign (interp fuel).
Definition assigns (fuel : nat) := r_assigns (interp fuel).
Definition exec (fuel : nat) := r_exec (interp fuel).
Definition handle (fuel : nat) := r_handle (interp fuel).
Definition exec_for (fuel : nat) := r_exec_for (interp fuel).
Definition exec_block (fuel : nat) := r_exec_block (interp fuel).

End Sem.
