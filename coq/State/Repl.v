(* C40 -- the model: REPL.runsource / runcode / showsyntaxerror / showtraceback /
   _error_wrap / set_last_exc of hy/repl.py and code.InteractiveInterpreter.runsource of
   the running interpreter, as generated into Gen/StateReplTerm.v, run by the
   fragment semantics with compile, eval, output_fn, print, sys.excepthook, mangle opaque
   and scripted by the *inputs* of a session. *)
From HyV Require Export State.EvalRestoreSymex Gen.StateReplTerm.

(* the program, with except clauses decided by matcher m; [repl_prog] uses the generated class table *)
Definition repl_prog_m (m : val -> list string -> bool) : prog :=
  {| pfuns := repl_funs; pmro := repl_mro; pvars := []; pmatch := m |}.
Definition table : val -> list string -> bool := table_match repl_mro.
Definition repl_prog : prog := repl_prog_m table.

(* ---- the REPL object and its namespace in the heap *)
Definition self_id : N := 1.
Definition loc_id : N := 2.
(* the keys stand for mangle("*1"), mangle("*2"), mangle("*3"), mangle("*e") *)
Definition k1 : val := VStr "*1".
Definition k2 : val := VStr "*2".
Definition k3 : val := VStr "*3".
Definition ke : val := VStr "*e".
Definition kinfo : val := VStr "_hy_exc_info".

(* got_value is assigned at the start of every runsource; a new REPL object does not have the
   attribute yet, which no code can observe, so the model carries it from the start *)
Definition repl_obj (lv : val) (pf gv : bool) : obj :=
  OInst "REPL" [("locals", VRef loc_id); ("last_value", lv); ("print_last_value", VBool pf);
                ("_repl_results_symbols", VTup [k1; k2; k3]);
                ("compile", VGlobal "HyCommandCompiler()"); ("output_fn", VGlobal "output_fn");
                ("filename", VStr "<stdin>"); ("got_value", VBool gv)].
(* *e and _hy_exc_info are only ever written, or read with .get (absent reads as None): the model
   keeps both keys from the start, with value None standing for "not there yet" *)
Definition repl_locals (a b c e info : val) (rest : list (val * val)) : obj :=
  ODict ((k1, a) :: (k2, b) :: (k3, c) :: (ke, e) :: (kinfo, info) :: rest).

(* the heap holds a REPL whose last_value is lv, print flag pf, *1 *2 *3 = a b c, *e = e, and whose
   other variables are rest; h0 is everything else *)
Definition mkheap (lv : val) (pf gv : bool) (a b c e info : val) (rest : list (val * val)) (h0 : heap) : heap :=
  (self_id, repl_obj lv pf gv) :: (loc_id, repl_locals a b c e info rest) :: h0.

(* ---- inputs of a session: what the opaque parts do with one complete or incomplete input *)
Inductive input :=
| IIncomplete                                  (* the compiler asks for more: returns None *)
| IValue (v : val)                             (* compiles; evaluates to v (None included) *)
| ICompileError (x : val)                      (* the compiler raises x, having left (type, x, tb) in _hy_exc_info as HyCompile does *)
| IRunError (x : val) (first : bool).          (* the exec part (first) or the eval part raises x *)

(* output_fn raises on the values this function maps to an exception *)
Definition out_script := val -> option val.

Definition code_of : val := VTup [VTup [VInt 0; VInt 0]; VTup [VInt 0; VInt 1]].

(* The opaque callees while ONE input is processed (none calls back): heap and outcome of each
   call.  The heap is never made to depend on an undetermined test. *)
Definition one_pure (inp : input) (out : out_script) : pure_oracle := fun n g args kw h =>
  if String.eqb g "HyCommandCompiler()" then
    match inp with
    | IIncomplete => (h, ORet VNone)
    | IValue _ | IRunError _ _ => (h, ORet code_of)
    | ICompileError x =>
        (match hget h loc_id with
         | Some (ODict kvs) =>
             hset h loc_id (ODict (dset kinfo (VTup [VGlobal "type(exc)"; x; VGlobal "exc.__traceback__"]) kvs))
         | _ => h
         end, ORaise x)
    end
  else if String.eqb g "eval" then
    match args with
    | VTup [VInt _; VInt p] :: _ =>
        match inp with
        | IValue v => (h, ORet (if (p =? 0)%Z then VNone else v))
        | IRunError x first =>
            (h, if (p =? 0)%Z then (if first then ORaise x else ORet VNone) else ORaise x)
        | _ => (h, ORaise (VExc "RuntimeError" 97))
        end
    | _ => (h, ORaise (VExc "TypeError" 96))
    end
  else if String.eqb g "output_fn" then
    match args with
    | [v] => (h, match out v with Some x => ORaise x | None => ORet (VStr "<text>") end)
    | _ => (h, ORaise (VExc "TypeError" 95))
    end
  else if String.eqb g "mangle" then
    match args with
    | [VStr "*e"] => (h, ORet ke)
    | _ => (h, ORet (VStr "<mangled>"))
    end
  else (h, ORet VNone).   (* print, sys.excepthook, setattr on sys *)

Definition repl_fuel : nat := 80.

(* push one input: runsource(...) on the REPL object, except clauses decided by m *)
Definition run1 (m : val -> list string -> bool) (inp : input) (out : out_script) (s : st) : eres :=
  run_method (repl_prog_m m) (nr (one_pure inp out)) repl_fuel (VRef self_id) "runsource" [VInt 0] [] s.

(* a session: input after input on the heap the previous one left; None = the model left the fragment *)
Fixpoint run_inputs (m : val -> list string -> bool) (out : out_script) (inputs : list input) (s : st) : option st :=
  match inputs with
  | [] => Some s
  | inp :: r =>
      match run1 m inp out s with
      | EOk _ s1 | EExc _ s1 => run_inputs m out r s1
      | _ => None
      end
  end.

(* ---- the abstract machine the generated code is shown to implement *)
Record rstate := { r_last : val; r_print : bool; r_1 : val; r_2 : val; r_3 : val; r_e : val (* VNone: none yet *) }.

Section Machine.
Variable m : val -> list string -> bool.
Definition is_syntax_family (x : val) := m x ["OverflowError"; "SyntaxError"; "ValueError"].
Definition is_macro_or_require (x : val) := m x ["HyMacroExpansionError"; "HyRequireError"].
Definition is_language_error (x : val) := m x ["HyLanguageError"].
Definition is_system_exit (x : val) := m x ["SystemExit"].
Definition is_exception (x : val) := m x ["Exception"].

Definition shift (r : rstate) : rstate :=
  {| r_last := r_last r; r_print := r_print r; r_1 := r_last r; r_2 := r_1 r; r_3 := r_2 r; r_e := r_e r |}.
Definition set_e (r : rstate) (x : val) : rstate :=
  {| r_last := r_last r; r_print := r_print r; r_1 := r_1 r; r_2 := r_2 r; r_3 := r_3 r; r_e := x |}.
Definition set_print (r : rstate) (b : bool) : rstate :=
  {| r_last := r_last r; r_print := b; r_1 := r_1 r; r_2 := r_2 r; r_3 := r_3 r; r_e := r_e r |}.

(* result of one input: inl b = runsource returned b; inr x = exception x left runsource.
   Only an input that was evaluated to a value shifts *1 *2 *3 (and may print). *)
Definition step (out : out_script) (inp : input) (r : rstate) : rstate * (bool + val) :=
  match inp with
  | IIncomplete => (r, inl true)
  | IValue v =>
      let r1 := shift {| r_last := v; r_print := negb (is_none v); r_1 := r_1 r; r_2 := r_2 r; r_3 := r_3 r; r_e := r_e r |} in
      if is_none v then (r1, inl false)
      else match out v with
           | None => (r1, inl false)
           | Some y => if is_exception y then (set_e r1 y, inl false) else (r1, inr y)
           end
  | ICompileError x =>
      if is_syntax_family x then (set_e (set_print r false) x, inl false)
      else if is_macro_or_require x then (set_e (set_print r false) x, inl false)
      else if is_language_error x then (set_e r x, inl false)
      else (r, inr x)
  | IRunError x _ =>
      if is_system_exit x then (r, inr x)
      else if is_exception x then (set_e (set_print r false) x, inl false)
      else (r, inr x)
  end.

Fixpoint run_abstract (out : out_script) (inputs : list input) (r : rstate) : rstate :=
  match inputs with
  | [] => r
  | i :: rest => run_abstract out rest (fst (step out i r))
  end.
End Machine.

Definition initial : rstate := {| r_last := VNone; r_print := true; r_1 := VNone; r_2 := VNone; r_3 := VNone; r_e := VNone |}.

(* ---- observing the concrete heap *)
Definition observe (h : heap) : option rstate :=
  match hget h self_id, hget h loc_id with
  | Some (OInst _ attrs), Some (ODict kvs) =>
      match aget "last_value" attrs, aget "print_last_value" attrs, dget k1 kvs, dget k2 kvs, dget k3 kvs, dget ke kvs with
      | Some lv, Some (VBool pf), Some a, Some b, Some c, Some e =>
          Some {| r_last := lv; r_print := pf; r_1 := a; r_2 := b; r_3 := c; r_e := e |}
      | _, _, _, _, _, _ => None
      end
  | _, _ => None
  end.

(* a new REPL: everything None, the print flag set *)
Definition initial_heap : heap := mkheap VNone true false VNone VNone VNone VNone VNone [] [].

Definition run_session (inputs : list input) (out : out_script) : option st :=
  run_inputs table out inputs (initial_heap, []).
