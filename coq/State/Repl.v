(* C40 -- the model: REPL.runsource / runcode / showsyntaxerror / showtraceback /
   _error_wrap / set_last_exc of hy/repl.py and code.InteractiveInterpreter.runsource of
   the running interpreter, as generated into Gen/StateReplTerm.v, run by the
   fragment semantics with compile, eval, output_fn, print, sys.excepthook, mangle opaque
   and scripted by the *inputs* of a session. *)
From HyV Require Export State.EvalRestoreSymex Gen.StateReplTerm.

Definition repl_prog : prog := {| pfuns := repl_funs; pmro := repl_mro; pvars := [] |}.

(* ---- the REPL object and its namespace in the heap *)
Definition self_id : N := 1.
Definition loc_id : N := 2.
(* the keys stand for mangle("*1"), mangle("*2"), mangle("*3"), mangle("*e") *)
Definition k1 : val := VStr "*1".
Definition k2 : val := VStr "*2".
Definition k3 : val := VStr "*3".
Definition ke : val := VStr "*e".
Definition kinfo : val := VStr "_hy_exc_info".

Definition repl_obj (lv : val) (pf : bool) : obj :=
  OInst "REPL" [("locals", VRef loc_id); ("last_value", lv); ("print_last_value", VBool pf);
                ("_repl_results_symbols", VTup [k1; k2; k3]);
                ("compile", VGlobal "HyCommandCompiler()"); ("output_fn", VGlobal "output_fn");
                ("filename", VStr "<stdin>")].
Definition repl_locals (a b c : val) (rest : list (val * val)) : obj :=
  ODict ((k1, a) :: (k2, b) :: (k3, c) :: rest).

(* the heap holds a REPL whose last_value is lv, print flag pf, *1 *2 *3 = a b c,
   and whose other variables (the star-e variable, _hy_exc_info, the user's own) are rest *)
Definition repl_heap (h : heap) (lv : val) (pf : bool) (a b c : val) (rest : list (val * val)) : Prop :=
  hget h self_id = Some (repl_obj lv pf) /\ hget h loc_id = Some (repl_locals a b c rest).

(* ---- inputs of a session: what the opaque parts do with one complete or incomplete input *)
Inductive input :=
| IIncomplete                                  (* the compiler asks for more: returns None *)
| IValue (v : val)                             (* compiles; evaluates to v (None included) *)
| ICompileError (x : val)                      (* the compiler raises x, having left (type, x, tb) in _hy_exc_info as HyCompile does *)
| IRunError (x : val) (first : bool).          (* the exec part (first) or the eval part raises x *)

(* output_fn raises on the values this function maps to an exception *)
Definition out_script := val -> option val.

Definition code_of (i : Z) : val := VTup [VTup [VInt i; VInt 0]; VTup [VInt i; VInt 1]].

Definition nth_input (inputs : list input) (i : Z) : option input :=
  if (i <? 0)%Z then None else nth_error inputs (Z.to_nat i).

(* The session's opaque callees (none calls back): heap and outcome of each call.
   The i-th input is pushed as runsource(VInt i, ...). *)
Definition session_pure (inputs : list input) (out : out_script) : pure_oracle := fun n g args kw h =>
  if String.eqb g "HyCommandCompiler()" then
    match args with
    | VInt i :: _ =>
        match nth_input inputs i with
        | Some IIncomplete => (h, ORet VNone)
        | Some (IValue _) | Some (IRunError _ _) => (h, ORet (code_of i))
        | Some (ICompileError x) =>
            match hget h loc_id with
            | Some (ODict kvs) =>
                (hset h loc_id (ODict (dset kinfo (VTup [VGlobal "type(exc)"; x; VGlobal "exc.__traceback__"]) kvs)),
                 ORaise x)
            | _ => (h, ORaise x)
            end
        | None => (h, ORaise (VExc "ValueError" 99))
        end
    | _ => (h, ORaise (VExc "TypeError" 98))
    end
  else if String.eqb g "eval" then
    match args with
    | VTup [VInt i; VInt p] :: _ =>
        match nth_input inputs i with
        | Some (IValue v) => (h, ORet (if (p =? 0)%Z then VNone else v))
        | Some (IRunError x first) =>
            if (p =? 0)%Z then (if first then (h, ORaise x) else (h, ORet VNone))
            else (h, ORaise x)
        | _ => (h, ORaise (VExc "RuntimeError" 97))
        end
    | _ => (h, ORaise (VExc "TypeError" 96))
    end
  else if String.eqb g "output_fn" then
    match args with
    | [v] => match out v with Some x => (h, ORaise x) | None => (h, ORet (VStr "<text>")) end
    | _ => (h, ORaise (VExc "TypeError" 95))
    end
  else if String.eqb g "mangle" then
    match args with
    | [VStr "*e"] => (h, ORet ke)
    | _ => (h, ORet (VStr "<mangled>"))
    end
  else (h, ORet VNone).   (* print, sys.excepthook, setattr on sys *)
Definition session_oracle (inputs : list input) (out : out_script) : oracle := nr (session_pure inputs out).

Definition repl_fuel : nat := 80.

(* push input number i *)
Definition run_input (inputs : list input) (out : out_script) (i : Z) (s : st) : eres :=
  run_method repl_prog (session_oracle inputs out) repl_fuel (VRef self_id) "runsource" [VInt i] [] s.

(* the same with a postcondition as the final continuation *)
Definition wp_input (inputs : list input) (out : out_script) (i : Z) (s : st) (Q : eres -> Prop) : Prop :=
  call_method repl_prog (session_oracle inputs out) Prop False (fun _ => False)
    (exec_block repl_prog (session_oracle inputs out) Prop False (fun _ => False) repl_fuel) repl_fuel
    None (VRef self_id) "runsource" [VInt i] [] s
    (fun v s' => Q (EOk v s')) (fun x s' => Q (EExc x s')).

(* ---- the abstract machine the generated code is shown to implement *)
Record rstate := { r_last : val; r_print : bool; r_1 : val; r_2 : val; r_3 : val; r_e : option val }.

Definition exc_class (P : prog) (x : val) (classes : list string) : bool := exc_matches P x classes.
Definition is_syntax_family (x : val) := exc_class repl_prog x ["OverflowError"; "SyntaxError"; "ValueError"].
Definition is_macro_or_require (x : val) := exc_class repl_prog x ["HyMacroExpansionError"; "HyRequireError"].
Definition is_language_error (x : val) := exc_class repl_prog x ["HyLanguageError"].
Definition is_system_exit (x : val) := exc_class repl_prog x ["SystemExit"].
Definition is_exception (x : val) := exc_class repl_prog x ["Exception"].

Definition shift (r : rstate) : rstate :=
  {| r_last := r_last r; r_print := r_print r; r_1 := r_last r; r_2 := r_1 r; r_3 := r_2 r; r_e := r_e r |}.

Definition set_e (r : rstate) (x : val) : rstate :=
  {| r_last := r_last r; r_print := r_print r; r_1 := r_1 r; r_2 := r_2 r; r_3 := r_3 r; r_e := Some x |}.
Definition set_print (r : rstate) (b : bool) : rstate :=
  {| r_last := r_last r; r_print := b; r_1 := r_1 r; r_2 := r_2 r; r_3 := r_3 r; r_e := r_e r |}.

(* result of one input: Some b = runsource returned b; None = an exception left runsource.
   Only an input that was evaluated to a value shifts *1 *2 *3 (and may print). *)
Definition step (out : out_script) (inp : input) (r : rstate) : rstate * option bool :=
  match inp with
  | IIncomplete => (r, Some true)
  | IValue v =>
      let r1 := shift {| r_last := v; r_print := negb (is_none v); r_1 := r_1 r; r_2 := r_2 r; r_3 := r_3 r; r_e := r_e r |} in
      if is_none v then (r1, Some false)
      else match out v with
           | None => (r1, Some false)
           | Some y => if is_exception y then (set_e r1 y, Some false) else (r1, None)
           end
  | ICompileError x =>
      if is_syntax_family x then (set_e (set_print r false) x, Some false)
      else if is_macro_or_require x then (set_e (set_print r false) x, Some false)
      else if is_language_error x then (set_e r x, Some false)
      else (r, None)
  | IRunError x _ =>
      if is_system_exit x then (r, None)
      else if is_exception x then (set_e (set_print r false) x, Some false)
      else (r, None)
  end.

Fixpoint run_abstract (out : out_script) (inputs : list input) (r : rstate) : rstate :=
  match inputs with
  | [] => r
  | i :: rest => run_abstract out rest (fst (step out i r))
  end.

Definition initial : rstate := {| r_last := VNone; r_print := true; r_1 := VNone; r_2 := VNone; r_3 := VNone; r_e := None |}.

(* ---- observing the concrete heap *)
Definition observe (h : heap) : option rstate :=
  match hget h self_id, hget h loc_id with
  | Some (OInst _ attrs), Some (ODict kvs) =>
      match aget "last_value" attrs, aget "print_last_value" attrs, dget k1 kvs, dget k2 kvs, dget k3 kvs with
      | Some lv, Some (VBool pf), Some a, Some b, Some c =>
          Some {| r_last := lv; r_print := pf; r_1 := a; r_2 := b; r_3 := c; r_e := dget ke kvs |}
      | _, _, _, _, _ => None
      end
  | _, _ => None
  end.

Definition initial_heap : heap :=
  [(self_id, repl_obj VNone true); (loc_id, repl_locals VNone VNone VNone [])].

(* run a whole session on the generated code: inputs j, j+1, ... (k of them) in order *)
Fixpoint run_session_from (inputs : list input) (out : out_script) (j : nat) (k : nat) (s : st) : option st :=
  match k with
  | O => Some s
  | S k' =>
      match run_input inputs out (Z.of_nat j) s with
      | EOk _ s1 | EExc _ s1 => run_session_from inputs out (S j) k' s1
      | _ => None
      end
  end.
Definition run_session (inputs : list input) (out : out_script) : option st :=
  run_session_from inputs out 0 (List.length inputs) (initial_heap, []).
