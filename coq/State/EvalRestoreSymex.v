(* Controlled symbolic execution of generated terms.

   [interp (S f)] unfolds one level by the equations below (all by computation);
   the [*_step] functions are not recursive, so [cbv] with a delta whitelist
   evaluates exactly one layer and never runs ahead under a binder.  The
   tactics never look at which function is being executed. *)
From HyV Require Import State.EvalRestoreSem.

Section Eqs.
Variable P : prog.
Variable Orc : oracle.
Notation I := (interp P Orc).
Lemma eq_eval f en e s : r_eval (I (S f)) en e s = eval_step P (I f) en e s. Proof. reflexivity. Qed.
Lemma eq_evals f en es s : r_evals (I (S f)) en es s = evals_step (I f) en es s. Proof. reflexivity. Qed.
Lemma eq_evalkw f en kw s : r_evalkw (I (S f)) en kw s = evalkw_step (I f) en kw s. Proof. reflexivity. Qed.
Lemma eq_ocall f g a kw s : r_ocall (I (S f)) g a kw s = ocall_step Orc (I f) g a kw s. Proof. reflexivity. Qed.
Lemma eq_run_beh f b n : r_run_beh (I (S f)) b n = run_beh_step P (I f) b n. Proof. reflexivity. Qed.
Lemma eq_call_value f v a kw s : r_call_value (I (S f)) v a kw s = call_value_step P (I f) v a kw s. Proof. reflexivity. Qed.
Lemma eq_call_method f v m a kw s : r_call_method (I (S f)) v m a kw s = call_method_step P (I f) v m a kw s. Proof. reflexivity. Qed.
Lemma eq_call_fun f n fd a kw s : r_call_fun (I (S f)) n fd a kw s = call_fun_step (I f) n fd a kw s. Proof. reflexivity. Qed.
Lemma eq_assign f en t v s : r_assign (I (S f)) en t v s = assign_step (I f) en t v s. Proof. reflexivity. Qed.
Lemma eq_assigns f en ts vs s : r_assigns (I (S f)) en ts vs s = assigns_step (I f) en ts vs s. Proof. reflexivity. Qed.
Lemma eq_exec f en c s : r_exec (I (S f)) en c s = exec_step (I f) en c s. Proof. reflexivity. Qed.
Lemma eq_handle f en x hs s : r_handle (I (S f)) en x hs s = handle_step P (I f) en x hs s. Proof. reflexivity. Qed.
Lemma eq_exec_for f en t vs b s : r_exec_for (I (S f)) en t vs b s = exec_for_step (I f) en t vs b s. Proof. reflexivity. Qed.
Lemma eq_exec_block f en cs s : r_exec_block (I (S f)) en cs s = exec_block_step (I f) en cs s. Proof. reflexivity. Qed.
End Eqs.

(* NB: proof files must say [Local Opaque interp.] -- otherwise conversion may try to
   compare two [interp n] by unfolding, which is exponential in n. *)
Ltac sx_unfold :=
  first [ rewrite eq_exec_block | rewrite eq_exec | rewrite eq_eval | rewrite eq_evals | rewrite eq_evalkw
        | rewrite eq_assign | rewrite eq_assigns | rewrite eq_call_value | rewrite eq_call_method
        | rewrite eq_call_fun | rewrite eq_ocall | rewrite eq_run_beh | rewrite eq_handle | rewrite eq_exec_for ].

Ltac sx_red :=
  cbv beta iota zeta delta
    [eval_step evals_step evalkw_step ocall_step run_beh_step call_value_step call_method_step call_fun_step
     assign_step assigns_step exec_step handle_step exec_for_step exec_block_step
     aget aset const_val bind_params option_map String.eqb Ascii.eqb Bool.eqb strmem existsb
     mro_of exc_matches find_method drop_until before_dot append
     fst snd List.length Nat.eqb glob_get pvars pfuns pmro fparams fbody
     truthy val_is val_eqb get_attr subscript contains builtin_method iter_items exn module_dict
     negb andb orb hset].

Ltac sx := repeat (sx_unfold; sx_red).
