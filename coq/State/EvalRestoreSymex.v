(* Symbolic execution of generated terms under the CPS semantics.

   Statement-level functions (exec_block, exec, handle, exec_for) are stepped with their unfolding
   equations; everything below a statement (expressions, calls into opaque callees, assignments) is
   run by one [cbv] with the rest of the run abstracted as continuation variables.  The result of
   such a run is a small decision tree over the facts evaluation needs (a heap lookup, a callee's
   answer, a dictionary entry); it is walked with the hypotheses, dead alternatives disappear by
   iota.  Calls of program functions surface as [exec_block] leaves and are stepped in turn. *)
From HyV Require Export State.EvalRestoreEqs.

Definition pure_oracle := nat -> string -> list val -> list (string * val) -> heap -> heap * ores.
(* a callee that does not call back, given by the function returning its heap and outcome *)
Definition nr (O : pure_oracle) : oracle :=
  fun n g a kw h => BDone (fst (O n g a kw h)) (snd (O n g a kw h)).

Lemma nr_eq O n g a kw h : nr O n g a kw h = BDone (fst (O n g a kw h)) (snd (O n g a kw h)).
Proof. reflexivity. Qed.
Lemma dget_nil k : dget k [] = None. Proof. reflexivity. Qed.

Ltac is_eta_var x :=
  lazymatch x with
  | (fun a b => ?k a b) => is_var k
  | (fun a b c => ?k a b c) => is_var k
  end.
Ltac abs_if x :=
  tryif first [ is_var x | is_eta_var x ] then fail else
    (let n := fresh "k" in let E := fresh "Ek" in remember x as n eqn:E).

Ltac px_abs :=
  repeat lazymatch goal with
  | |- call_method _ _ _ _ _ _ _ _ _ _ _ _ _ ?k ?kx => first [abs_if k | abs_if kx]
  | |- call_fun _ _ _ _ _ _ _ _ _ _ _ _ _ ?k ?kx => first [abs_if k | abs_if kx]
  | |- exec _ _ _ _ _ _ _ _ _ ?kn ?kr ?kx => first [abs_if kn | abs_if kr | abs_if kx]
  | |- handle _ _ _ _ _ _ _ _ _ _ ?kn ?kr ?kx => first [abs_if kn | abs_if kr | abs_if kx]
  | |- exec_for _ _ _ _ _ _ _ _ _ _ _ ?kn ?kr ?kx => first [abs_if kn | abs_if kr | abs_if kx]
  | |- exec_block _ _ _ _ _ _ _ _ _ ?kn ?kr ?kx => first [abs_if kn | abs_if kr | abs_if kx]
  end.

Ltac px_head t :=
  lazymatch t with
  | match ?x with _ => _ end => px_head x
  | _ => t
  end.

Ltac px_resume :=
  match goal with
  | |- ?k _ _ _ => is_var k; subst k; cbv beta
  | |- ?k _ _ => is_var k; subst k; cbv beta
  end.

(* One step.  [rtac]: the family's evaluation tactic (cbv with the expression-level interpreter
   functions, the helpers and the family's program constants);
   [on_oracle O n g a kw h]: evaluation waits for a callee's answer; [on_other hd]: for something else. *)
Ltac px_step rtac on_oracle on_other :=
  lazymatch goal with
  | |- exec_block ?P ?O ?A ?t ?u (S ?f) ?en ?cs ?s ?kn ?kr ?kx =>
      rewrite (exec_block_eq P O A t u f en cs s kn kr kx); cbv beta iota
  | |- exec ?P ?O ?A ?t ?u (S ?f) ?en ?c ?s _ _ _ =>
      px_abs;
      lazymatch goal with |- exec _ _ _ _ _ _ _ _ _ ?kn ?kr ?kx => rewrite (exec_eq P O A t u f en c s kn kr kx) end;
      rtac
  | |- handle ?P ?O ?A ?t ?u (S ?f) ?en ?x ?hs ?s _ _ _ =>
      px_abs;
      lazymatch goal with |- handle _ _ _ _ _ _ _ _ _ _ ?kn ?kr ?kx => rewrite (handle_eq P O A t u f en x hs s kn kr kx) end;
      rtac
  | |- exec_for ?P ?O ?A ?t ?u (S ?f) ?en ?tg ?vs ?b ?s _ _ _ =>
      px_abs;
      lazymatch goal with |- exec_for _ _ _ _ _ _ _ _ _ _ _ ?kn ?kr ?kx => rewrite (exec_for_eq P O A t u f en tg vs b s kn kr kx) end;
      rtac
  | |- call_fun _ _ _ _ _ _ _ _ _ _ _ _ _ _ _ => px_abs; rtac
  | |- call_method _ _ _ _ _ _ _ _ _ _ _ _ _ _ _ => px_abs; rtac
  | |- match _ with _ => _ end =>
      lazymatch goal with
      | |- ?T =>
        let hd := px_head T in
        lazymatch hd with
        | hget ?h ?d =>
            lazymatch goal with
            | H : hget h d = _ |- _ => rewrite H
            | _ => on_other hd
            end
        | dget ?k [] => rewrite (dget_nil k)
        | dget ?k ?kvs =>
            lazymatch goal with
            | H : dget k kvs = _ |- _ => rewrite H
            | _ => first [ on_other hd | destruct (dget k kvs) eqn:? ]
            end
        | lookup_fun ?P ?g => let v := eval vm_compute in (lookup_fun P g) in change (lookup_fun P g) with v
        | find_method ?P ?l ?m => let v := eval vm_compute in (find_method P l m) in change (find_method P l m) with v
        | glob_get ?P ?h ?x =>
            let b := eval vm_compute in (strmem x (pvars P)) in
            lazymatch b with
            | false => change (glob_get P h x) with (VGlobal x)
            | true => on_other hd
            end
        | nr ?O ?n ?g ?a ?kw ?h => rewrite (nr_eq O n g a kw h)
        | snd (?O ?n ?g ?a ?kw ?h) => on_oracle O n g a kw h
        | fst (?O ?n ?g ?a ?kw ?h) => on_oracle O n g a kw h
        | ?O ?n ?g ?a ?kw ?h =>
            lazymatch type of O with
            | pure_oracle => on_oracle O n g a kw h
            | _ => on_other hd
            end
        | _ => first [ is_var hd; destruct hd | on_other hd ]
        end
      end;
      rtac
  | |- _ => px_resume; rtac
  end.

(* [is] tests: a folded test on concrete values is computed, one on a symbolic value is rewritten
   with a hypothesis (used with px_cbv_nois) *)
Ltac px_is hd :=
  lazymatch hd with
  | val_is ?a ?b =>
      lazymatch goal with
      | H : val_is a b = _ |- _ => rewrite H
      | _ => let r := eval vm_compute in (val_is a b) in rewrite (eq_refl r : val_is a b = r)
      end
  end.

(* the part of the whitelist every family shares *)
Ltac px_cbv extra :=
  cbv beta iota zeta delta
    [eval evals evalkw ocall run_beh call_value call_method call_fun assign assigns
     truthy_k nth_k subscript_k contains_k builtin_method_k iter_items dispatch strip_exc
     truthy val_is val_eqb aget aset const_val bind_params bind_params_aux fextra fparams fbody
     forallb existsb option_map String.eqb Ascii.eqb Bool.eqb strmem
     before_dot append
     fst snd List.length Nat.eqb exn module_dict negb andb orb nr
     nth_error Z.to_nat Z.ltb Z.eqb Z.compare Pos.compare Pos.compare_cont Pos.to_nat Pos.iter_op Nat.add].

Ltac px_cbv_nois extra :=
  cbv beta iota zeta delta
    [eval evals evalkw ocall run_beh call_value call_method call_fun assign assigns
     truthy_k nth_k subscript_k contains_k builtin_method_k iter_items dispatch strip_exc
     truthy val_eqb aget aset const_val bind_params bind_params_aux fextra fparams fbody
     forallb existsb option_map String.eqb Ascii.eqb Bool.eqb strmem
     before_dot append
     fst snd List.length Nat.eqb exn module_dict negb andb orb nr
     nth_error Z.to_nat Z.ltb Z.eqb Z.compare Pos.compare Pos.compare_cont Pos.to_nat Pos.iter_op Nat.add].
