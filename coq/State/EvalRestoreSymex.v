(* Controlled symbolic execution of generated terms.

   [interp (S f)] unfolds one level by the equations below (all by computation);
   the [*_step] functions are not recursive, so [cbv] with a delta whitelist
   evaluates exactly one layer and never runs ahead under a binder.  [sx_step]
   always works on the innermost scrutinee of the goal's last argument (the
   point where evaluation is stuck), so only live paths are explored.  The
   tactics never look at which function is being executed.

   NB: proof files must say [Local Opaque interp.] -- otherwise conversion may
   compare two [interp n] by unfolding, which is exponential in n. *)
From HyV Require Import State.EvalRestoreSem.

Section Eqs.
Variable P : prog.
Variable Orc : oracle.
Notation I := (interp P Orc).
Lemma eq_eval f en e s : r_eval (I (S f)) en e s = eval_step P (I f) en e s. Proof. reflexivity. Qed.
Lemma eq_evals f en es s : r_evals (I (S f)) en es s = evals_step (I f) en es s. Proof. reflexivity. Qed.
Lemma eq_evalkw f en kw s : r_evalkw (I (S f)) en kw s = evalkw_step (I f) en kw s. Proof. reflexivity. Qed.
Lemma eq_ocall f g a kw s : r_ocall (I (S f)) g a kw s = ocall_step Orc (I f) g a kw s. Proof. reflexivity. Qed.
Lemma eq_run_beh f b n : r_run_beh (I (S f)) b n = run_beh_step P (I f) b n. Proof. reflexivity. Qed.
Lemma eq_call_value f c v a kw s : r_call_value (I (S f)) c v a kw s = call_value_step P (I f) c v a kw s. Proof. reflexivity. Qed.
Lemma eq_call_method f c v m a kw s : r_call_method (I (S f)) c v m a kw s = call_method_step P (I f) c v m a kw s. Proof. reflexivity. Qed.
Lemma eq_call_fun f c n fd a kw s : r_call_fun (I (S f)) c n fd a kw s = call_fun_step (I f) c n fd a kw s. Proof. reflexivity. Qed.
Lemma eq_assign f en t v s : r_assign (I (S f)) en t v s = assign_step (I f) en t v s. Proof. reflexivity. Qed.
Lemma eq_assigns f en ts vs s : r_assigns (I (S f)) en ts vs s = assigns_step (I f) en ts vs s. Proof. reflexivity. Qed.
Lemma eq_exec f en c s : r_exec (I (S f)) en c s = exec_step (I f) en c s. Proof. reflexivity. Qed.
Lemma eq_handle f en x hs s : r_handle (I (S f)) en x hs s = handle_step P (I f) en x hs s. Proof. reflexivity. Qed.
Lemma eq_exec_for f en t vs b s : r_exec_for (I (S f)) en t vs b s = exec_for_step (I f) en t vs b s. Proof. reflexivity. Qed.
Lemma eq_exec_block f en cs s : r_exec_block (I (S f)) en cs s = exec_block_step (I f) en cs s. Proof. reflexivity. Qed.
End Eqs.

Ltac sx_red :=
  cbv beta iota zeta delta
    [eval_step evals_step evalkw_step ocall_step run_beh_step call_value_step call_method_step call_fun_step
     assign_step assigns_step exec_step handle_step exec_for_step exec_block_step
     aget aset const_val bind_params bind_params_aux fextra forallb option_map String.eqb Ascii.eqb Bool.eqb strmem existsb
     mro_of exc_matches find_method lookup_fun drop_until before_dot append
     fst snd List.length Nat.eqb glob_get pvars pfuns pmro fparams fbody
     truthy val_is val_eqb get_attr subscript contains builtin_method iter_items exn module_dict
     negb andb orb hset].


Lemma dget_nil k : dget k [] = None. Proof. reflexivity. Qed.

Ltac sx_head t :=
  lazymatch t with
  | match ?x with _ => _ end => sx_head x
  | _ => t
  end.

(* One step at the stuck point of a goal of the form [Q t].
   [on_oracle O n g a kw h] is called when evaluation waits for the answer of an opaque callee;
   [on_other hd] when it waits for anything else (it must make progress or fail). *)
Ltac sx_step on_oracle on_other :=
  lazymatch goal with
  | |- _ ?T =>
    let hd := sx_head T in
    lazymatch hd with
    | r_eval (interp ?P ?O (S ?f)) ?en ?e ?s => rewrite (eq_eval P O f en e s)
    | r_evals (interp ?P ?O (S ?f)) ?en ?e ?s => rewrite (eq_evals P O f en e s)
    | r_evalkw (interp ?P ?O (S ?f)) ?en ?e ?s => rewrite (eq_evalkw P O f en e s)
    | r_ocall (interp ?P ?O (S ?f)) ?g ?a ?kw ?s => rewrite (eq_ocall P O f g a kw s)
    | r_run_beh (interp ?P ?O (S ?f)) ?b ?n => rewrite (eq_run_beh P O f b n)
    | r_call_value (interp ?P ?O (S ?f)) ?c ?v ?a ?kw ?s => rewrite (eq_call_value P O f c v a kw s)
    | r_call_method (interp ?P ?O (S ?f)) ?c ?v ?m ?a ?kw ?s => rewrite (eq_call_method P O f c v m a kw s)
    | r_call_fun (interp ?P ?O (S ?f)) ?c ?n ?fd ?a ?kw ?s => rewrite (eq_call_fun P O f c n fd a kw s)
    | r_assign (interp ?P ?O (S ?f)) ?en ?t ?v ?s => rewrite (eq_assign P O f en t v s)
    | r_assigns (interp ?P ?O (S ?f)) ?en ?t ?v ?s => rewrite (eq_assigns P O f en t v s)
    | r_exec (interp ?P ?O (S ?f)) ?en ?c ?s => rewrite (eq_exec P O f en c s)
    | r_handle (interp ?P ?O (S ?f)) ?en ?x ?hs ?s => rewrite (eq_handle P O f en x hs s)
    | r_exec_for (interp ?P ?O (S ?f)) ?en ?t ?vs ?b ?s => rewrite (eq_exec_for P O f en t vs b s)
    | r_exec_block (interp ?P ?O (S ?f)) ?en ?cs ?s => rewrite (eq_exec_block P O f en cs s)
    | hget ?h ?d =>
        lazymatch goal with
        | H : hget h d = _ |- _ => rewrite H
        | _ => on_other hd
        end
    | dget ?k [] => rewrite (dget_nil k)
    | dget ?k ?kvs => destruct (dget k kvs) eqn:?
    | ?O ?n ?g ?a ?kw ?h =>
        lazymatch type of O with
        | oracle => on_oracle O n g a kw h
        | _ => on_other hd
        end
    | _ => first [ is_var hd; destruct hd | on_other hd ]
    end
  end.
